package license

import (
	"time"

	"github.com/rs/zerolog"
)

// VerifClient returns a Client whose (private) licence is active and carries the given features.
// Licences are RSA-signed, so no test can obtain one through the public constructors; this
// constructor only sets the private field that Client.GetLicense returns. Added by overlay for the
// model checker only (never compiled into the repository build).
func VerifClient(features ...string) *Client {
	return &Client{
		offline: true,
		license: &License{
			LicenseKey: "verif", CustomerID: "verif", CustomerName: "verif", Tier: TierEnterprise,
			MaxCores: 1 << 20, MaxMachines: 1 << 20, Features: append([]string{}, features...),
			ExpiresAt: time.Now().Add(10 * 365 * 24 * time.Hour), Status: "active", DaysRemaining: 3650,
		},
		stopCh: make(chan struct{}),
		logger: zerolog.Nop(),
	}
}
