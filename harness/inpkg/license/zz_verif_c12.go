package license

import (
	"time"

	"github.com/rs/zerolog"
)

// VerifTieringClient is added by overlay for check C12 only (never compiled into the repository build).
// Licences are RSA-signed, so a harness cannot obtain one through Activate/Verify/NewOfflineClient and
// tiering.NewManager refuses to construct without CanUseTieredStorage(). This constructor sets the private
// licence field to an active enterprise licence carrying the tiering feature, so that the real Manager
// (scan -> migrate -> reconcile) runs.
func VerifTieringClient() *Client {
	return &Client{
		offline: true,
		source:  "file",
		stopCh:  make(chan struct{}),
		logger:  zerolog.Nop(),
		license: &License{
			LicenseKey: "verif-c12", CustomerID: "verif", CustomerName: "verif", Tier: TierEnterprise,
			Features: []string{FeatureTieredStorage}, ExpiresAt: time.Now().Add(24 * time.Hour),
			Status: "active", DaysRemaining: 1,
		},
	}
}
