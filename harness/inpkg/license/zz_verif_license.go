package license

import (
	"time"

	"github.com/rs/zerolog"
)

// VerifClient is added by overlay for verification harnesses only (never compiled into the repository
// build). Licences are RSA-signed, so no harness can obtain one through Activate/Verify/NewOfflineClient;
// this constructor sets the private licence field directly to an active enterprise licence carrying the
// given features, so that licence-gated code paths (query governance, ...) run for real.
func VerifClient(features ...string) *Client {
	return &Client{
		offline: true,
		source:  "file",
		stopCh:  make(chan struct{}),
		logger:  zerolog.Nop(),
		license: &License{
			LicenseKey: "verif", CustomerID: "verif", CustomerName: "verif", Tier: TierEnterprise,
			Features: append([]string{}, features...), ExpiresAt: time.Now().Add(24 * time.Hour),
			Status: "active", DaysRemaining: 1,
		},
	}
}
