package tiering

// Accessor added by overlay for check C12 only (never compiled into the repository build).
// Manager keeps its Migrator in an unexported field; the check drives the Migrator's exported methods
// (FindCandidates, MigrateFile, ReconcileOrphanedFiles) as separate operations of a multi-operation history.
// Pure exposure, no logic of its own.

// VerifC12Migrator returns the Manager's own Migrator.
func (m *Manager) VerifC12Migrator() *Migrator { return m.migrator }
