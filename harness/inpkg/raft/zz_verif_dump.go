package raft

import (
	"encoding/json"
	"sort"
)

// VerifDump returns a canonical JSON dump of every primary map and every secondary index of the FSM.
// Added by overlay for the model checker only (never compiled into the repository build).
func (f *ClusterFSM) VerifDump() []byte {
	f.mu.RLock()
	defer f.mu.RUnlock()
	byPrefix := map[string][]int64{}
	for k, v := range f.tokensByPrefix {
		c := append([]int64{}, v...)
		sort.Slice(c, func(i, j int) bool { return c[i] < c[j] })
		byPrefix[k] = c
	}
	set := func(m map[int64]map[int64]struct{}) map[int64][]int64 {
		out := map[int64][]int64{}
		for k, s := range m {
			var l []int64
			for id := range s {
				l = append(l, id)
			}
			sort.Slice(l, func(i, j int) bool { return l[i] < l[j] })
			out[k] = l
		}
		return out
	}
	filesByDB := map[string][]string{}
	for db, s := range f.filesByDB {
		var l []string
		for p := range s {
			l = append(l, p)
		}
		sort.Strings(l)
		filesByDB[db] = l
	}
	d := map[string]any{
		"nodes": f.nodes, "primaryWriterID": f.primaryWriterID, "activeCompactorID": f.activeCompactorID,
		"files": f.files, "filesByDB": filesByDB,
		"tokens": f.tokens, "tokensByPrefix": byPrefix, "tokensByName": f.tokensByName,
		"organizations": f.organizations, "organizationsByName": f.organizationsByName,
		"teams": f.teams, "teamsByOrg": f.teamsByOrg,
		"roles": f.roles, "rolesByTeam": set(f.rolesByTeam),
		"measurementPermissions": f.measurementPermissions, "measurementPermsByRole": set(f.measurementPermsByRole),
		"tokenMemberships": f.tokenMemberships, "tokenMembershipsByPair": f.tokenMembershipsByPair,
		"tokenMembershipsByToken": set(f.tokenMembershipsByToken), "tokenMembershipsByTeam": set(f.tokenMembershipsByTeam),
	}
	b, err := json.Marshal(d)
	if err != nil {
		panic(err)
	}
	return b
}
