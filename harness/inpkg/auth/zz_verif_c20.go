package auth

// In-package accessors for the C20 model checker: they only expose the private cache contents
// (no timestamps), nothing is computed here. Added by overlay, never part of the repository build.

// VerifPermEntry is one entry of RBACManager.permCache.
type VerifPermEntry struct {
	TokenID     int64
	Database    string
	Measurement string
	Permission  string
	Allowed     bool
	Source      string
}

// VerifPermCache returns the permission-result cache (unordered).
func (rm *RBACManager) VerifPermCache() []VerifPermEntry {
	rm.permCacheMu.RLock()
	defer rm.permCacheMu.RUnlock()
	out := make([]VerifPermEntry, 0, len(rm.permCache))
	for k, e := range rm.permCache {
		v := VerifPermEntry{TokenID: k.tokenID, Database: k.database, Measurement: k.measurement, Permission: k.permission}
		if e != nil && e.result != nil {
			v.Allowed, v.Source = e.result.Allowed, e.result.Source
		}
		out = append(out, v)
	}
	return out
}

// VerifTokenData is one entry of RBACManager.tokenCache.
type VerifTokenData struct {
	TokenID   int64
	Teams     []Team
	Roles     map[int64][]Role
	MeasPerms map[int64][]MeasurementPermission
}

// VerifTokenCache returns the per-token RBAC data cache (unordered).
func (rm *RBACManager) VerifTokenCache() []VerifTokenData {
	rm.tokenCacheMu.RLock()
	defer rm.tokenCacheMu.RUnlock()
	out := make([]VerifTokenData, 0, len(rm.tokenCache))
	for id, d := range rm.tokenCache {
		if d == nil {
			out = append(out, VerifTokenData{TokenID: id})
			continue
		}
		out = append(out, VerifTokenData{TokenID: id, Teams: d.teams, Roles: d.roles, MeasPerms: d.measPerms})
	}
	return out
}

// VerifAuthEntry is one entry of AuthManager.cache (the verified-token cache).
type VerifAuthEntry struct {
	Key         string
	TokenID     int64
	Permissions []string
	Enabled     bool
}

// VerifTokenCache returns the verified-token cache (unordered).
func (am *AuthManager) VerifTokenCache() []VerifAuthEntry {
	am.cacheMu.RLock()
	defer am.cacheMu.RUnlock()
	out := make([]VerifAuthEntry, 0, len(am.cache))
	for k, e := range am.cache {
		v := VerifAuthEntry{Key: k}
		if e.info != nil {
			v.TokenID, v.Permissions, v.Enabled = e.info.ID, e.info.Permissions, e.info.Enabled
		}
		out = append(out, v)
	}
	return out
}
