package main

// C05 — WAL crash recovery restores exactly the acknowledged rows.
// Hosted in cmd/arc so that the REAL createWALRecoveryCallback / createColumnarRecoveryCallback are
// used. For every request of a small grammar (and pairs of them) the live write path (real HTTP
// handlers -> decoders -> ArrowBuffer -> wal.Writer) produces WAL files without any flush ("crash
// after the WAL entry reached the file, before the flush"); every entry-boundary prefix of the WAL
// is then recovered on fresh objects with a crash injected at every step of recovery (every mutating
// file-system call of package wal, and "just after recovery returned, before the re-buffered rows
// were flushed"), followed by a second restart; the rows finally stored are compared with what a
// crash-free run of the same requests stores.

import (
	"context"
	"encoding/binary"
	"fmt"
	"os"
	"path/filepath"
	"sort"
	"strings"
	"sync"
	"time"

	"github.com/Basekick-Labs/msgpack/v6"
	"github.com/basekick-labs/arc/internal/wal"
	"github.com/basekick-labs/arc/zzverif/engine/ev"
	"github.com/basekick-labs/arc/zzverif/shim/vos"
	"github.com/rs/zerolog"
)

func init() {
	if os.Getenv("VERIF_HARNESS") == "C05" {
		verifC05()
	}
}

var c05Scratch = fmt.Sprintf("/dev/shm/verif.c05.%d", os.Getpid())

type timeCase struct {
	name string
	us   int64 // intended time in microseconds
}

var c05Times = []timeCase{
	{"now", 1_700_000_000_000_000 + 123},
	{"lt1e13us(1970-02-27)", 5_000_000_000_000 + 7},
	{"lt1e10us(1970-01-01T01:23)", 5_000_000_000 + 3},
	{"negative(-1us)", -1},
}

// c05Requests builds the single-request alphabet. Every request writes ONE uniquely named measurement.
func c05Requests() []vReq {
	var out []vReq
	n := 0
	meas := func() string { n++; return fmt.Sprintf("m%d", n) }
	special := []string{"", "database", "measurement", "m", "_database", "_measurement"}
	for _, tc := range c05Times {
		for _, db := range []string{"", "db2"} {
			// msgpack columnar, times in microseconds (unit chosen so that the live decoder keeps them: us needs >=1e13;
			// for smaller instants the client sends the unit the decoder will detect: ms or s)
			for _, sp := range special {
				m := meas()
				tval, _ := unitFor(tc.us)
				cols := map[string]interface{}{"time": []interface{}{tval, tval}, "v": []interface{}{1.5, nil}}
				if sp != "" {
					cols[sp] = []interface{}{"x", "y"}
				}
				body, _ := msgpack.Marshal(map[string]interface{}{"m": m, "columns": cols})
				out = append(out, vReq{Name: fmt.Sprintf("msgpack-columnar/time=%s/db=%s/col=%s", tc.name, dbn(db), sp), Path: "/api/v1/write/msgpack", DB: db, CT: "application/msgpack", Body: body, Meas: m})
			}
			// msgpack row format
			for _, sp := range special {
				m := meas()
				tval, _ := unitFor(tc.us)
				fields := map[string]interface{}{"v": 2.5}
				tags := map[string]interface{}{"host": "h1"}
				if sp != "" {
					tags[sp] = "x"
				}
				body, _ := msgpack.Marshal(map[string]interface{}{"m": m, "t": tval, "fields": fields, "tags": tags})
				out = append(out, vReq{Name: fmt.Sprintf("msgpack-row/time=%s/db=%s/tag=%s", tc.name, dbn(db), sp), Path: "/api/v1/write/msgpack", DB: db, CT: "application/msgpack", Body: body, Meas: m})
			}
			// line protocol, nanosecond timestamps
			for _, sp := range special {
				for _, asField := range []bool{false, true} {
					if sp == "" && asField {
						continue
					}
					m := meas()
					line := m + ",host=h1"
					if sp != "" && !asField {
						line += "," + sp + "=x"
					}
					line += " v=3.5"
					if sp != "" && asField {
						line += "," + sp + "=\"x\""
					}
					line += fmt.Sprintf(" %d", tc.us*1000)
					kind := "tag"
					if asField {
						kind = "field"
					}
					out = append(out, vReq{Name: fmt.Sprintf("line-protocol/time=%s/db=%s/%s=%s", tc.name, dbn(db), kind, sp), Path: "/api/v1/write/line-protocol", DB: db, CT: "text/plain", Body: []byte(line), Meas: m})
				}
			}
		}
	}
	// request SIZE: one request whose rows form ONE row-format WAL entry, at the msgpack array-header
	// boundaries (fixarray <=15 | array16 <=65535 | array32): the WAL entry of a large request must be
	// recovered like that of a small one
	for _, rows := range []int{15, 16, 65535, 65536} {
		m := meas()
		var sb strings.Builder
		items := make([]interface{}, 0, rows)
		for i := 0; i < rows; i++ {
			us := c05Times[0].us + int64(i)
			fmt.Fprintf(&sb, "%s v=%d.5 %d\n", m, i, us*1000)
		}
		out = append(out, vReq{Name: fmt.Sprintf("line-protocol-bulk/rows=%d", rows), Path: "/api/v1/write/line-protocol", CT: "text/plain", Body: []byte(sb.String()), Meas: m})
		m2 := meas()
		for i := 0; i < rows; i++ {
			items = append(items, map[string]interface{}{"m": m2, "t": c05Times[0].us + int64(i), "fields": map[string]interface{}{"v": float64(i) + 0.5}})
		}
		body, _ := msgpack.Marshal(items)
		out = append(out, vReq{Name: fmt.Sprintf("msgpack-row-bulk/rows=%d", rows), Path: "/api/v1/write/msgpack", CT: "application/msgpack", Body: body, Meas: m2})
	}
	// integer measurement id (accepted by the live decoder as measurement_<n>)
	{
		tval, _ := unitFor(c05Times[0].us)
		body, _ := msgpack.Marshal(map[string]interface{}{"m": 7, "columns": map[string]interface{}{"time": []interface{}{tval}, "v": []interface{}{1.0}}})
		out = append(out, vReq{Name: "msgpack-columnar/integer-measurement", Path: "/api/v1/write/msgpack", CT: "application/msgpack", Body: body, Meas: "measurement_7"})
	}
	return out
}

func dbn(s string) string {
	if s == "" {
		return "default"
	}
	return s
}

// unitFor returns the integer a client sends so that Arc's unit detection (s <1e10, ms <1e13, us <1e16)
// yields exactly `us` microseconds where possible.
func unitFor(us int64) (int64, string) {
	switch {
	case us >= 1e13:
		return us, "us"
	default:
		return us, "as-is" // small / negative instants cannot be expressed in us on this API; whatever the live path stores is the reference
	}
}

// c05Expected runs a request alone, crash-free and without WAL, and returns what it stores.
var c05ExpCache sync.Map

func c05Expected(r vReq, dir string) (map[string][]string, int) {
	if v, ok := c05ExpCache.Load(r.Name); ok {
		e := v.([2]any)
		return e[0].(map[string][]string), e[1].(int)
	}
	os.RemoveAll(dir)
	s := vNewSys(filepath.Join(dir, "store"), "")
	st := s.send(r)
	s.buf.FlushAll(context.Background())
	s.buf.Close()
	rows, err := vReadStore(filepath.Join(dir, "store"))
	if err != nil {
		ev.Unbound("C05 reading reference store: " + err.Error())
	}
	os.RemoveAll(dir)
	c05ExpCache.Store(r.Name, [2]any{rows, st})
	return rows, st
}

type walFileImg struct {
	name string
	data []byte
	ends []int // end offset of each entry
}

func c05ReadWAL(dir string) []walFileImg {
	names, _ := filepath.Glob(filepath.Join(dir, "*.wal"))
	sort.Strings(names)
	var out []walFileImg
	for _, n := range names {
		b, _ := os.ReadFile(n)
		f := walFileImg{name: filepath.Base(n), data: b}
		off := wal.WALFileHeaderSize
		for off+16 <= len(b) {
			l := int(binary.BigEndian.Uint32(b[off : off+4]))
			off += 16 + l
			f.ends = append(f.ends, off)
		}
		out = append(out, f)
	}
	return out
}

// c05Recover performs one "startup": fresh buffer + fresh WAL writer + real recovery with the real
// callbacks. crashAt>=0 kills the process at that mutating file-system call of package wal during
// recovery; flush=false models a crash right after recovery returned.
func c05Recover(storeDir, walDir string, crashAt int, flush bool) (ops []vos.Op, died bool) {
	s := vNewSys(storeDir, walDir)
	rec := wal.NewRecovery(walDir, zerolog.Nop())
	vos.Start(crashAt, -1)
	rec.RecoverWithOptions(context.Background(), createWALRecoveryCallback(s.buf, zerolog.Nop()), &wal.RecoveryOptions{
		SkipActiveFile:   s.walW.CurrentFile(),
		ColumnarCallback: createColumnarRecoveryCallback(s.buf, zerolog.Nop()),
	})
	ops, died = vos.Stop()
	if flush && !died {
		s.buf.FlushAll(context.Background())
		s.buf.Close()
	}
	s.walW.Close()
	// the fresh writer's own (header-only) file is not part of the crashed process' state
	os.Remove(s.walW.CurrentFile())
	return
}

func verifC05() {
	run := ev.Start("C05", "fault_enumeration")
	defer os.RemoveAll(c05Scratch)
	reqs := c05Requests()
	simple := reqs[0]
	// histories: every single request; every request followed by / preceded by a fixed simple one in the other database
	type hist []vReq
	var hs []hist
	for _, r := range reqs {
		hs = append(hs, hist{r})
	}
	if !run.Quick() {
		other := reqs[len(c05Requests())/2]
		for _, r := range reqs[1:] {
			hs = append(hs, hist{r, other}, hist{other, r})
		}
	} else {
		other := reqs[7]
		for i, r := range reqs[1:] {
			if i%4 == 0 {
				hs = append(hs, hist{simple, r}, hist{r, other})
			}
		}
	}
	shard, shards, isWorker := ev.Shard()
	if !isWorker {
		// the os-level fault shim is process-global: one worker process per shard, each single-threaded
		counters, samples, complete := run.SpawnShards(16)
		c05Regroup(run)
		c05Report(run, counters["evals"], counters["nontrivial"], samples, len(reqs), len(hs), complete)
		return
	}
	var evals, nontrivial int64
	samples := ev.NewSamples(2)
	complete := true
	base := filepath.Join(c05Scratch, "w")
	for hi := range hs {
		if hi%shards != shard {
			continue
		}
		if run.TimeUp() {
			complete = false
			break
		}
		c05History(run, hs[hi], base, &evals, &nontrivial, samples)
	}
	os.RemoveAll(c05Scratch)
	run.FinishShard(map[string]int64{"evals": evals, "nontrivial": nontrivial}, samples.List(), complete)
}

func c05Report(run *ev.Run, evals, nontrivial int64, samples []any, nreqs, nhist int, complete bool) {
	run.Coverage["evaluations"] = evals
	run.Coverage["distinct_nontrivial"] = nontrivial
	run.Coverage["rule"] = fmt.Sprintf("histories = each of %d single requests (msgpack columnar / msgpack row / line protocol x 4 instants incl. pre-1970 and <1970-04-27 x 2 databases x routing-like column/tag/field names + integer measurement id) and request pairs across databases; for each, every entry-boundary prefix of the WAL x {recover+flush, crash just after recovery then restart, crash before every mutating file-system call of recovery then restart}; non-trivial = at least one acknowledged entry is in the WAL prefix (each (history, prefix, crash mode) is a distinct case)", nreqs)
	run.Coverage["samples"] = samples
	run.Coverage["histories"] = nhist
	run.Coverage["exhaustive"] = complete
	run.Assume("'reached the file' is modelled by closing the WAL writer (drains its queue) without flushing the ArrowBuffer; torn tails are C06's subject")
	run.Assume("rows are compared as sets per database/measurement (a row stored twice after a crash is C07's subject, not C05's)")
	run.Assume("reference = what the same request stores in a crash-free run without WAL")
	os.RemoveAll(c05Scratch)
	run.Finish()
}

func names(h []vReq) []string {
	var o []string
	for _, r := range h {
		o = append(o, r.Name)
	}
	return o
}

// c05Compare classifies the difference between expected and visible rows.
func c05Compare(run *ev.Run, h []vReq, acked []bool, j int, mode string, want map[string]map[string]bool, got map[string][]string) {
	gotSet := map[string]map[string]bool{}
	for g, rows := range got {
		gotSet[g] = vSet(rows)
	}
	// attribute problems to the request that owns the measurement
	owner := func(group string) string {
		m := group[strings.Index(group, "/")+1:]
		for _, r := range h {
			if r.Meas == m {
				return r.Name
			}
		}
		return "?"
	}
	for g, ws := range want {
		gs := gotSet[g]
		for r := range ws {
			if gs[r] {
				continue
			}
			kind := "row-missing"
			detail := map[string]any{"group": g, "expected_row": r, "history": names(h), "wal_prefix_entries": j, "mode": mode, "visible": got}
			m := g[strings.Index(g, "/")+1:]
			// same measurement under another database?
			for og, ors := range got {
				if og != g && strings.HasSuffix(og, "/"+m) && len(ors) > 0 {
					kind = "row-routed-to-another-database"
				}
			}
			if kind == "row-missing" && len(gs) > 0 {
				// some row is there but not this one: which columns differ?
				for o := range gs {
					kind = "row-altered(" + diffCols(r, o) + ")"
					break
				}
			}
			run.Violate(kind+"|"+owner(g)+"|"+mode, "after the crash and recovery the acknowledged row is not visible as written", detail)
		}
	}
	for g, gs := range gotSet {
		for r := range gs {
			if want[g] != nil && want[g][r] {
				continue
			}
			// reported above as altered/rerouted when it corresponds to an expected row; report pure extras only
			if len(want[g]) == 0 {
				found := false
				m := g[strings.Index(g, "/")+1:]
				for wg := range want {
					if strings.HasSuffix(wg, "/"+m) {
						found = true
					}
				}
				if !found {
					run.Violate("unexpected-row|"+owner(g)+"|"+mode, "a row is visible that the acknowledged WAL prefix does not contain", map[string]any{"group": g, "row": r, "history": names(h), "wal_prefix_entries": j})
				}
			}
		}
	}
}

// diffCols names the columns whose presence or value differs between two canonical rows.
func diffCols(a, b string) string {
	pa, pb := parseRow(a), parseRow(b)
	var d []string
	for k, v := range pa {
		if w, ok := pb[k]; !ok {
			d = append(d, "-"+k)
		} else if w != v {
			d = append(d, "~"+k)
		}
	}
	for k := range pb {
		if _, ok := pa[k]; !ok {
			d = append(d, "+"+k)
		}
	}
	sort.Strings(d)
	return strings.Join(d, ",")
}

func parseRow(s string) map[string]string {
	m := map[string]string{}
	for _, kv := range strings.Split(strings.TrimSuffix(s, ";"), ";") {
		if i := strings.Index(kv, "="); i > 0 {
			m[kv[:i]] = kv[i+1:]
		}
	}
	return m
}

var _ = time.Now

// c05History explores every WAL prefix x crash mode of one history (single-threaded: the os fault
// shim is process-global).
func c05History(run *ev.Run, h []vReq, base string, evals, nontrivial *int64, samples *ev.Samples) {
	exp := make([]map[string][]string, len(h))
	acked := make([]bool, len(h))
	for i, r := range h {
		e, st := c05Expected(r, filepath.Join(base, "ref"))
		exp[i], acked[i] = e, st >= 200 && st < 300
	}
	os.RemoveAll(base)
	live := vNewSys(filepath.Join(base, "store"), filepath.Join(base, "wal"))
	for i, r := range h {
		st := live.send(r)
		if (st >= 200 && st < 300) != acked[i] {
			ev.Unbound(fmt.Sprintf("C05: request %s answered %d with WAL and differently without", r.Name, st))
		}
	}
	live.walW.Close()
	imgs := c05ReadWAL(filepath.Join(base, "wal"))
	if len(imgs) != 1 {
		ev.Unbound(fmt.Sprintf("C05: expected one WAL file, got %d", len(imgs)))
	}
	img := imgs[0]
	nAck := 0
	for _, a := range acked {
		if a {
			nAck++
		}
	}
	if len(img.ends) != nAck {
		ev.Unbound(fmt.Sprintf("C05: %d acknowledged requests but %d WAL entries (%v)", nAck, len(img.ends), names(h)))
	}
	samples.Add(map[string]any{"history": names(h), "wal_bytes": len(img.data), "wal_entries": len(img.ends)})
	for j := 0; j <= len(img.ends); j++ {
		cut := wal.WALFileHeaderSize
		if j > 0 {
			cut = img.ends[j-1]
		}
		want := map[string]map[string]bool{}
		k := 0
		for i := range h {
			if !acked[i] {
				continue
			}
			if k < j {
				for g, rows := range exp[i] {
					if want[g] == nil {
						want[g] = map[string]bool{}
					}
					for _, r := range rows {
						want[g][r] = true
					}
				}
			}
			k++
		}
		materialise := func() (string, string) {
			os.RemoveAll(filepath.Join(base, "r"))
			wd, sd := filepath.Join(base, "r", "wal"), filepath.Join(base, "r", "store")
			os.MkdirAll(wd, 0o700)
			os.WriteFile(filepath.Join(wd, img.name), img.data[:cut], 0o600)
			return sd, wd
		}
		judge := func(mode string, sd string) {
			*evals++
			if j > 0 {
				*nontrivial++
			}
			got, err := vReadStore(sd)
			if err != nil {
				run.Violate("unreadable-store|"+mode, err.Error(), names(h))
				return
			}
			c05Compare(run, h, acked, j, mode, want, got)
		}
		sd, wd := materialise()
		ops, _ := c05Recover(sd, wd, -1, true)
		judge("recover+flush", sd)
		if j == 0 {
			continue
		}
		sd, wd = materialise()
		c05Recover(sd, wd, -1, false)
		c05Recover(sd, wd, -1, true)
		judge("crash-after-recovery-before-flush", sd)
		for k := range ops {
			sd, wd = materialise()
			_, died := c05Recover(sd, wd, k, false)
			if !died {
				continue
			}
			c05Recover(sd, wd, -1, true)
			judge(fmt.Sprintf("crash-during-recovery-before-%s", ops[k].Kind), sd)
		}
	}
	os.RemoveAll(base)
}


// c05Regroup turns the raw per-case violations (kind|request name|crash mode) into root-cause
// classes: for every (kind, request format) it states which values of each request dimension
// (instant, database, routing-like name) and which crash modes the failure needs; a dimension on
// which the failure does not depend (it fails for every value) is omitted.
func c05Regroup(run *ev.Run) {
	raw, counts := run.TakeViolations()
	type inst struct {
		dims   map[string]string
		replay any
		n      int
	}
	groups := map[string][]inst{}
	domain := map[string]map[string]bool{}
	for _, r := range c05Requests() {
		for k, v := range c05Dims(r.Name) {
			if domain[k] == nil {
				domain[k] = map[string]bool{}
			}
			domain[k][v] = true
		}
	}
	domain["mode"] = map[string]bool{"recover+flush": true, "crash-after-recovery-before-flush": true, "crash-during-recovery": true}
	for _, v := range raw {
		f := strings.Split(v.Signature, "|")
		if len(f) < 3 {
			run.Violate(v.Signature, v.Desc, v.Replay)
			continue
		}
		d := c05Dims(f[1])
		mode := f[2]
		if strings.HasPrefix(mode, "crash-during-recovery") {
			mode = "crash-during-recovery"
		}
		d["mode"] = mode
		key := f[0] + "|" + d["format"]
		groups[key] = append(groups[key], inst{d, v.Replay, counts[v.Signature]})
	}
	for key, is := range groups {
		var parts []string
		for _, dim := range []string{"time", "db", "name", "mode"} {
			seen := map[string]bool{}
			for _, i := range is {
				if v, ok := i.dims[dim]; ok {
					seen[v] = true
				}
			}
			// domain of this dimension restricted to this format
			full := true
			for v := range domain[dim] {
				if !seen[v] && c05Applicable(strings.SplitN(key, "|", 2)[1], dim, v) {
					full = false
				}
			}
			if !full && len(seen) > 0 {
				var vs []string
				for v := range seen {
					vs = append(vs, v)
				}
				sort.Strings(vs)
				parts = append(parts, dim+"={"+strings.Join(vs, ",")+"}")
			}
		}
		n := 0
		for _, i := range is {
			n += i.n
		}
		sig := key
		if len(parts) > 0 {
			sig += "|" + strings.Join(parts, "|")
		}
		run.Violate(sig, fmt.Sprintf("after crash + recovery an acknowledged row is not visible as written (%d cases in this class)", n), map[string]any{"example": is[0].replay, "cases": n})
	}
}

// c05Dims parses a request name into its dimensions.
func c05Dims(name string) map[string]string {
	d := map[string]string{}
	f := strings.Split(name, "/")
	d["format"] = f[0]
	for _, p := range f[1:] {
		kv := strings.SplitN(p, "=", 2)
		if len(kv) != 2 {
			d["name"] = p
			continue
		}
		switch kv[0] {
		case "time":
			d["time"] = kv[1]
		case "db":
			d["db"] = kv[1]
		default:
			if kv[1] == "" {
				d["name"] = "none"
			} else {
				d["name"] = kv[0] + ":" + kv[1]
			}
		}
	}
	return d
}

// c05Applicable: does value v of dimension dim occur for this request format?
func c05Applicable(format, dim, v string) bool {
	for _, r := range c05Requests() {
		d := c05Dims(r.Name)
		if d["format"] == format && (dim == "mode" || d[dim] == v) {
			return true
		}
	}
	return false
}
