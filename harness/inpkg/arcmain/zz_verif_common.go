package main

// Harness helpers shared by the checks that are hosted inside cmd/arc (package main) by overlay.

import (
	"bytes"
	"context"
	"fmt"
	"io"
	"io/fs"
	"net/http/httptest"
	"os"
	"path/filepath"
	"sort"
	"strings"
	"time"

	"github.com/basekick-labs/arc/internal/api"
	"github.com/basekick-labs/arc/internal/config"
	"github.com/basekick-labs/arc/internal/ingest"
	"github.com/basekick-labs/arc/internal/storage"
	"github.com/basekick-labs/arc/internal/wal"
	"github.com/basekick-labs/arc/zzverif/hx"
	"github.com/gofiber/fiber/v2"
	"github.com/rs/zerolog"
)

type vReq struct {
	Name  string
	Path  string // e.g. /api/v1/write/msgpack
	DB    string // x-arc-database header ("" = absent)
	CT    string
	Body  []byte
	Meas  string // the (unique) measurement this request writes
}

type vSys struct {
	buf   *ingest.ArrowBuffer
	walW  *wal.Writer
	app   *fiber.App
	store *storage.LocalBackend
}

func vIngestCfg() *config.IngestConfig {
	return &config.IngestConfig{MaxBufferSize: 1_000_000, MaxBufferAgeMS: 3_600_000, Compression: "snappy", FlushWorkers: 1,
		FlushQueueSize: 16, ShardCount: 1, FlushTimeoutSeconds: 60, WriteStatistics: true}
}

func vNewSys(storeDir, walDir string) *vSys {
	lb, err := storage.NewLocalBackend(storeDir, zerolog.Nop())
	if err != nil {
		panic(err)
	}
	s := &vSys{store: lb}
	s.buf = ingest.NewArrowBuffer(vIngestCfg(), lb, zerolog.Nop())
	if walDir != "" {
		w, err := wal.NewWriter(&wal.WriterConfig{WALDir: walDir, SyncMode: wal.SyncModeAsync, MaxSizeBytes: 1 << 30, MaxAge: 24 * time.Hour, SyncInterval: time.Hour, BufferSize: 1000, Logger: zerolog.Nop()})
		if err != nil {
			panic(err)
		}
		s.walW = w
		s.buf.SetWAL(w)
	}
	s.app = fiber.New(fiber.Config{DisableStartupMessage: true})
	api.NewMsgPackHandler(zerolog.Nop(), s.buf, 64<<20).RegisterRoutes(s.app)
	api.NewLineProtocolHandler(s.buf, zerolog.Nop()).RegisterRoutes(s.app)
	return s
}

func (s *vSys) send(r vReq) int {
	hr := httptest.NewRequest("POST", r.Path, bytes.NewReader(r.Body))
	if r.CT != "" {
		hr.Header.Set("Content-Type", r.CT)
	}
	if r.DB != "" {
		hr.Header.Set("x-arc-database", r.DB)
	}
	resp, err := s.app.Test(hr, -1) // no wall-clock deadline: a 65536-row request on a loaded box takes what it takes
	if err != nil {
		return -1
	}
	io.Copy(io.Discard, resp.Body)
	resp.Body.Close()
	return resp.StatusCode
}

// vReadStore returns, per "db/measurement", the canonical rows of every Parquet file under root.
func vReadStore(root string) (map[string][]string, error) {
	out := map[string][]string{}
	err := filepath.WalkDir(root, func(p string, d fs.DirEntry, err error) error {
		if err != nil || d.IsDir() || !strings.HasSuffix(p, ".parquet") {
			return nil
		}
		rel, _ := filepath.Rel(root, p)
		parts := strings.Split(rel, string(filepath.Separator))
		if len(parts) < 3 {
			return nil
		}
		b, err := os.ReadFile(p)
		if err != nil {
			return err
		}
		rows, _, _, err := hx.ReadParquet(b)
		if err != nil {
			return fmt.Errorf("%s: %w", rel, err)
		}
		key := parts[0] + "/" + parts[1]
		for _, r := range rows {
			for k, v := range r {
				if v == nil {
					delete(r, k)
				}
			}
			out[key] = append(out[key], r.Key())
		}
		return nil
	})
	for k := range out {
		sort.Strings(out[k])
	}
	return out, err
}

func vSet(rows []string) map[string]bool {
	m := map[string]bool{}
	for _, r := range rows {
		m[r] = true
	}
	return m
}

var _ = context.Background
