package main

// C07 — Backpressure and storage outages never lose or duplicate acknowledged writes.
// Hosted in cmd/arc: the periodic WAL-maintenance tick and the wal-purge shutdown hook are lifted
// mechanically out of main() by the overlay generator and executed for real, together with the real
// ArrowBuffer, wal.Writer/Recovery, replay callbacks and shutdown.Coordinator. Every script of bounded
// length over {write, multi-hour write, write whose client disconnects (request context cancelled at any point), storage fails / works again, maintenance tick, clock advance
// past the WAL safe age, WAL rotation, graceful shutdown + restart} is executed under EVERY schedule
// of main / flush worker / periodic flush / WAL writer threads within a deviation bound, with the WAL
// enabled and disabled.

import (
	"context"
	"fmt"
	"os"
	"path/filepath"
	"sort"
	"strings"
	"sync"
	"sync/atomic"
	"time"

	"github.com/basekick-labs/arc/internal/config"
	"github.com/basekick-labs/arc/internal/ingest"
	"github.com/basekick-labs/arc/internal/shutdown"
	"github.com/basekick-labs/arc/internal/wal"
	"github.com/basekick-labs/arc/zzverif/engine/ev"
	"github.com/basekick-labs/arc/zzverif/engine/sched"
	"github.com/basekick-labs/arc/zzverif/hx"
	"github.com/basekick-labs/arc/zzverif/shim/vclock"
	"github.com/basekick-labs/arc/zzverif/shim/vsched"
	"github.com/rs/zerolog"
	zlog "github.com/rs/zerolog/log"
)

func init() {
	if os.Getenv("VERIF_HARNESS") == "C07" {
		zlog.Logger = zerolog.Nop() // main.go logs through the global logger
		sched.Main(c07Scenarios)
		verifC07()
	}
}

var c07Root = fmt.Sprintf("/dev/shm/verif.c07.%d", os.Getpid())
var c07Seq atomic.Int64
var c07Replayed atomic.Int64 // WAL entries handed back to the buffer by recovery in the current execution

// faultStore: in-memory backend whose Write is a scheduling point (storage is slow: other threads may
// run while a flush is "in" storage) and can be switched to fail.
type faultStore struct {
	*hx.MemBackend
	mu               sync.Mutex
	fail             bool
	failed           int // storage writes that returned an error (injected outage or cancelled context)
	failedPostReplay int // ... of which after a recovery had handed WAL entries back to the buffer
}

func (f *faultStore) Write(ctx context.Context, path string, data []byte) error {
	vsched.Point("storage.Write")
	f.mu.Lock()
	bad := f.fail
	f.mu.Unlock()
	if bad {
		f.noteFailed()
		return hx.ErrInjected
	}
	// like the real backends (S3 SDK, Azure, os-level writes under a deadline) the store honours its
	// context: a write that is still in storage when the buffer is closed fails with ctx.Err()
	if err := ctx.Err(); err != nil {
		f.noteFailed()
		return err
	}
	return f.MemBackend.Write(ctx, path, data)
}
func (f *faultStore) noteFailed() {
	f.mu.Lock()
	f.failed++
	if c07Replayed.Load() > 0 {
		f.failedPostReplay++
	}
	f.mu.Unlock()
}
func (f *faultStore) failedAfterReplay() bool {
	f.mu.Lock()
	defer f.mu.Unlock()
	return f.failedPostReplay > 0
}
func (f *faultStore) failedCount() int {
	f.mu.Lock()
	defer f.mu.Unlock()
	return f.failed
}
func (f *faultStore) set(b bool) { f.mu.Lock(); f.fail = b; f.mu.Unlock() }

const c07Hour = int64(3600) * 1_000_000

var c07Base = int64(1_700_000_000) * 1_000_000

type c07Event struct {
	name string
	kind string // W | W2 | F+ | F- | T | A | R | S
}

var c07Alphabet = []c07Event{{"write", "W"}, {"write-2-hours", "W2"}, {"write-client-gone", "WC"}, {"storage-fails", "F+"}, {"storage-works", "F-"},
	{"maintenance-tick", "T"}, {"advance-past-safe-age", "A"}, {"rotate-wal", "R"}, {"shutdown+restart", "S"}}

type c07Spec struct {
	script []int
	wal    bool
}

func (s c07Spec) name() string {
	var n []string
	for _, e := range s.script {
		n = append(n, c07Alphabet[e].name)
	}
	w := "wal=off"
	if s.wal {
		w = "wal=on"
	}
	return w + "|" + strings.Join(n, ",")
}

func c07Depth() int {
	if os.Getenv("VERIF_TIER") == "thorough" {
		return 3
	}
	return 2
}

// c07Specs: every script of length 1..depth that contains at least one write; scripts are well-formed
// by construction (the harness appends the drain suffix: storage works, two ticks, shutdown, restart).
func c07Specs() []c07Spec {
	var out []c07Spec
	depth := c07Depth()
	var rec func(cur []int)
	rec = func(cur []int) {
		if len(cur) > 0 {
			hasW := false
			for _, e := range cur {
				if k := c07Alphabet[e].kind; k == "W" || k == "W2" || k == "WC" {
					hasW = true
				}
			}
			if hasW {
				for _, w := range []bool{true, false} {
					ok := true
					if !w {
						for _, e := range cur {
							if k := c07Alphabet[e].kind; k == "R" || k == "A" || k == "T" {
								ok = false // WAL-only events
							}
						}
					}
					if ok {
						out = append(out, c07Spec{append([]int{}, cur...), w})
					}
				}
			}
		}
		if len(cur) == depth {
			return
		}
		for e := range c07Alphabet {
			rec(append(cur, e))
		}
	}
	rec(nil)
	return out
}

type c07Sys struct {
	buf   *ingest.ArrowBuffer
	walW  *wal.Writer
	coord *shutdown.Coordinator
	rcb   wal.RecoveryCallback
	ccb   wal.ColumnarRecoveryCallback
}

const c07RecoveryInterval = 10 * time.Second

func c07IngestCfg() *config.IngestConfig {
	return &config.IngestConfig{MaxBufferSize: 1, MaxBufferAgeMS: 10_000, Compression: "snappy", FlushWorkers: 1,
		FlushQueueSize: 1, ShardCount: 1, FlushTimeoutSeconds: 3600, WriteStatistics: true}
}

// c07Start wires the components exactly as main() does (same registration names and priorities; the
// wal-purge hook body and its priority come from main.go itself).
func c07Start(store *faultStore, walDir string, startup bool) *c07Sys {
	s := &c07Sys{}
	s.coord = shutdown.New(time.Hour, zerolog.Nop())
	if walDir != "" {
		w, err := wal.NewWriter(&wal.WriterConfig{WALDir: walDir, SyncMode: wal.SyncModeAsync, MaxSizeBytes: 1 << 30, MaxAge: 24 * time.Hour,
			SyncInterval: time.Hour, BufferSize: 100, Logger: zerolog.Nop()})
		if err != nil {
			panic(err)
		}
		s.walW = w
		s.coord.Register("wal", w, shutdown.PriorityWAL)
	}
	s.buf = ingest.NewArrowBuffer(c07IngestCfg(), store, zerolog.Nop())
	if s.walW != nil {
		s.buf.SetWAL(s.walW)
	}
	s.coord.Register("arrow-buffer", s.buf, shutdown.PriorityBuffer)
	if s.walW != nil {
		s.coord.Register("wal-purge", walPurgeOnShutdown{walWriter: s.walW, arrowBuffer: s.buf}, 35) // as in main.go
		rcb0 := createWALRecoveryCallback(s.buf, zerolog.Nop())
		ccb0 := createColumnarRecoveryCallback(s.buf, zerolog.Nop())
		// count what recovery hands back to the buffer (harness bookkeeping for the violation class only)
		s.rcb = func(ctx context.Context, records []map[string]interface{}) error {
			c07Replayed.Add(1)
			return rcb0(ctx, records)
		}
		s.ccb = func(ctx context.Context, database, measurement string, columns map[string][]interface{}) error {
			c07Replayed.Add(1)
			return ccb0(ctx, database, measurement, columns)
		}
		if startup {
			rec := wal.NewRecovery(walDir, zerolog.Nop())
			rec.RecoverWithOptions(context.Background(), s.rcb, &wal.RecoveryOptions{SkipActiveFile: s.walW.CurrentFile(), ColumnarCallback: s.ccb})
		}
	}
	return s
}

func c07Scenarios() []sched.Scenario {
	var out []sched.Scenario
	for _, sp := range c07Specs() {
		sp := sp
		out = append(out, sched.Scenario{Name: sp.name(), Setup: func() (func(), func() sched.Outcome, func()) {
			dir := filepath.Join(c07Root, fmt.Sprint(c07Seq.Add(1)))
			walDir := ""
			if sp.wal {
				walDir = filepath.Join(dir, "wal")
				os.MkdirAll(walDir, 0o700)
			}
			vclock.Install(time.Now())
			c07Replayed.Store(0)
			store := &faultStore{MemBackend: hx.NewMemBackend()}
			var acked []hx.Row
			var trace []string
			body := func() {
				sys := c07Start(store, walDir, false)
				safeAge := 3 * time.Duration(c07IngestCfg().MaxBufferAgeMS) * time.Millisecond
				if safeAge < 30*time.Second {
					safeAge = 30 * time.Second
				}
				cfg := &config.Config{}
				cfg.WAL.Directory = walDir
				k := int64(0)
				var wctx context.Context = context.Background()
				write := func(times ...int64) {
					cols := map[string][]interface{}{"time": {}, "v": {}}
					var rows []hx.Row
					for _, t := range times {
						k++
						cols["time"] = append(cols["time"], t)
						cols["v"] = append(cols["v"], float64(k))
						rows = append(rows, hx.Row{"time": t, "v": float64(k)})
					}
					if err := sys.buf.WriteColumnarDirect(wctx, "db", "m", cols); err == nil {
						acked = append(acked, rows...)
						trace = append(trace, "ack")
					} else {
						trace = append(trace, "nack")
					}
				}
				// WAL file modification times come from the file system (real time) while the code compares them with
				// the virtual clock (MinFileAge, safe age): every new or modified WAL file gets the current VIRTUAL
				// time as its mtime, so no comparison depends on how long an execution takes on a loaded machine
				assigned := map[string]time.Time{}
				fixMtimes := func() {
					if walDir == "" {
						return
					}
					names, _ := filepath.Glob(filepath.Join(walDir, "*.wal"))
					sort.Strings(names)
					for _, n := range names {
						st, err := os.Stat(n)
						if err != nil {
							continue
						}
						if a, ok := assigned[n]; ok && st.ModTime().Equal(a) {
							continue
						}
						vt := vclock.Now().Truncate(time.Microsecond)
						os.Chtimes(n, vt, vt)
						assigned[n] = vt
					}
				}
				tick := func() {
					fixMtimes()
					vclock.Advance(c07RecoveryInterval)
					if sys.walW != nil {
						verifWALMaintenanceTick(sys.buf, sys.walW, safeAge, cfg, sys.rcb, sys.ccb, zerolog.Nop())
					}
				}
				restart := func() {
					sys.coord.Shutdown()
					sys = c07Start(store, walDir, true)
				}
				for _, e := range sp.script {
					// the events of a script are not atomic with respect to the background threads: a worker may
					// run between two events (e.g. flush between "storage fails" and the next write)
					vsched.Point("script-event")
					fixMtimes()
					switch c07Alphabet[e].kind {
					case "W":
						write(c07Base + k + 1)
					case "W2":
						write(c07Base+k+1, c07Base+c07Hour+k+2)
					case "WC":
						// the client of this request goes away at some point (its request context is cancelled by
						// another thread, whenever the scheduler lets it): whatever the write answers, rows that
						// were acknowledged - by this or an earlier request - must not be lost
						ctx, cancel := context.WithCancel(context.Background())
						vsched.Go("client-disconnect", func() { vsched.Point("client-disconnect"); cancel() })
						wctx = ctx
						write(c07Base + k + 1)
						wctx = context.Background()
					case "F+":
						store.set(true)
					case "F-":
						store.set(false)
					case "T":
						tick()
					case "A":
						// WAL file modification times are REAL (file system) while the purge compares them with the
						// virtual clock: stay an hour away from the safe-age boundary so that the real time an
						// execution takes on a loaded machine can never decide the comparison
						vclock.Advance(safeAge + time.Hour)
					case "R":
						if sys.walW != nil {
							sys.walW.VerifRotate()
						}
					case "S":
						restart()
					}
				}
				// drain: storage works again; maintenance runs twice; graceful shutdown; restart with recovery; final flush
				vsched.Point("script-end")
				fixMtimes()
				store.set(false)
				tick()
				tick()
				sys.coord.Shutdown()
				// restart cycles until one completes without a failed storage write: an adversarial schedule can
				// make a graceful shutdown cancel the very flush that replays the WAL (the rows then stay in the
				// retained WAL, which is not a loss); "eventually stored" is judged after a clean cycle. The
				// deviation budget is finite, so a clean cycle is reached (6 is never hit within bound 2).
				for i := 0; ; i++ {
					n0 := store.failedCount()
					sys = c07Start(store, walDir, true)
					sys.buf.FlushAll(context.Background())
					sys.coord.Shutdown()
					if store.failedCount() == n0 || i == 6 {
						break
					}
				}
			}
			check := func() sched.Outcome {
				vclock.Uninstall()
				paths, files := store.Snapshot()
				var stored []hx.Row
				for _, p := range paths {
					rows, _, _, err := hx.ReadParquet(files[p])
					if err != nil {
						return sched.Outcome{Key: "unreadable", Violation: "unreadable-parquet-file", Detail: err.Error()}
					}
					for _, r := range rows {
						for c, v := range r {
							if v == nil {
								delete(r, c)
							}
						}
						stored = append(stored, r)
					}
				}
				d := hx.DiffMultiset(hx.Multiset(acked), hx.Multiset(stored))
				key := fmt.Sprintf("acked=%d stored=%d files=%d %v", len(acked), len(stored), len(paths), trace)
				if d == "" {
					return sched.Outcome{Key: key}
				}
				cls := "acknowledged-rows-lost-and-duplicated"
				switch {
				case strings.Contains(d, "missing=[]"):
					cls = "acknowledged-rows-stored-twice"
				case strings.Contains(d, "extra=[]"):
					cls = "acknowledged-rows-lost"
				}
				// the class names whether any storage write failed in this run (ground truth from the store):
				// loss/duplication WITHOUT a failed write is a different defect from one in the failure-recovery path
				store.mu.Lock()
				nf := store.failed
				store.mu.Unlock()
				if nf > 0 && strings.Contains(cls, "lost") && store.failedAfterReplay() {
					// rows were replayed from the WAL by a recovery and a storage write failed AFTER that replay:
					// the replayed rows are in no WAL file any more (a different mechanism from a purge of the WAL)
					cls += "(after-failed-storage-write-of-replayed-rows)"
				} else if nf > 0 {
					cls += "(after-failed-storage-write)"
				} else {
					cls += "(no-storage-write-failed)"
				}
				return sched.Outcome{Key: key, Violation: cls, Detail: map[string]any{"diff": d, "files": paths, "failed_storage_writes": nf}}
			}
			return body, check, func() { os.RemoveAll(dir) }
		}})
	}
	return out
}

func verifC07() {
	run := ev.Start("C07", "model_checking")
	defer os.RemoveAll(c07Root)
	scs := c07Scenarios()
	names := make([]string, len(scs))
	var jobs []sched.Job
	bound := 1
	if !run.Quick() {
		bound = 2
	}
	specs := c07Specs()
	for i, s := range scs {
		names[i] = s.Name
		b := bound
		if len(specs[i].script) >= 3 {
			b = 1 // thorough: scripts of 3 events are explored to 1 deviation, shorter ones to 2 (the full product does not fit the budget)
		}
		jobs = append(jobs, sched.Job{Scenario: i, Bound: b, FreeCost: 1})
	}
	res, err := sched.RunSharded(names, jobs, 1, 16, run.Deadline, 10*time.Second)
	if err != nil {
		fmt.Println("HARNESS-UNBOUND:", err)
		os.RemoveAll(c07Root)
		os.Exit(2)
	}
	var execs, stuck, diverged int
	var points int64
	outcomes := map[string]bool{}
	complete := true
	var samples []any
	type hit struct {
		class, script string
		v             *sched.Viol
	}
	var hits []hit
	for _, r := range res {
		execs += r.Execs
		points += r.Points
		stuck += r.Stuck
		diverged += r.Diverged
		complete = complete && r.Complete
		for k := range r.Outcomes {
			outcomes[r.Scenario+"|"+k] = true
		}
		if len(r.Nondet) > 0 {
			ev.Nondeterminism(strings.Join(r.Nondet, "; "))
		}
		for _, cl := range sched.SortedKeys(r.Violations) {
			hits = append(hits, hit{cl, r.Scenario, r.Violations[cl]})
		}
		if len(r.Sample) > 0 && len(samples) < 2 {
			samples = append(samples, map[string]any{"script": r.Scenario, "longest_schedule": r.Sample})
		}
	}
	// a script is reported only if no violating script of the same class and WAL mode is a subsequence of it
	isSub := func(a, b string) bool { // a subsequence of b (event lists)
		as, bs := strings.Split(a, ","), strings.Split(b, ",")
		i := 0
		for _, x := range bs {
			if i < len(as) && as[i] == x {
				i++
			}
		}
		return i == len(as) && len(as) < len(bs)
	}
	for _, h := range hits {
		hp := strings.SplitN(h.script, "|", 2)
		minimal := true
		for _, o := range hits {
			op := strings.SplitN(o.script, "|", 2)
			if o.class == h.class && op[0] == hp[0] && isSub(op[1], hp[1]) {
				minimal = false
				break
			}
		}
		if minimal {
			run.Violate(h.class+"|"+h.script, fmt.Sprintf("after storage recovered and maintenance, shutdown and restart completed, stored rows differ from acknowledged rows (schedule with %d preemption(s); %d schedules)", h.v.Preemptions, h.v.Count),
				map[string]any{"script": h.script, "choices": h.v.Choices, "trace": h.v.Trace, "detail": h.v.Detail})
		}
	}
	fmt.Printf("scripts=%d schedules=%d points=%d outcomes=%d stuck=%d diverged=%d violating-scripts=%d complete=%v\n", len(scs), execs, points, len(outcomes), stuck, diverged, len(hits), complete)
	run.Coverage["states"] = len(outcomes)
	run.Coverage["transitions"] = points
	run.Coverage["traces_validated_against_impl"] = execs
	run.Coverage["scripts"] = len(scs)
	run.Coverage["schedules"] = execs
	run.Coverage["script_depth"] = c07Depth()
	run.Coverage["deviation_bound_completed"] = bound
	run.Coverage["deviation_bound_for_scripts_of_3_events"] = 1
	run.Coverage["blocked_infeasible"] = stuck
	run.Coverage["diverged_replays"] = diverged
	run.Coverage["samples"] = samples
	run.Coverage["exhaustive"] = complete
	run.Coverage["explanation"] = "states = distinct (script, observable outcome) pairs; every schedule is a run of the real components; the maintenance tick body and the wal-purge hook are lifted out of cmd/arc/main.go by the overlay generator at build time"
	run.Assume("buffer size 1, flush queue 1, one flush worker (saturation reachable with two writes); storage = in-memory backend whose Write is a scheduling point and can be switched to fail; WAL files on tmpfs")
	run.Assume("component registration (names, priorities) replicates main.go; hook body, hook priority and tick body are taken from main.go itself")
	run.Assume("every script ends with: storage works, two maintenance ticks, graceful shutdown, then {restart with startup recovery, explicit flush, graceful shutdown} repeated until a cycle has no failed storage write (a shutdown may itself cancel an in-flight flush; the WAL is then retained and replayed by the next cycle)")
	os.RemoveAll(c07Root)
	run.Finish()
}
