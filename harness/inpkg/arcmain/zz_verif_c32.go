package main

// C32 — Writes land only where the caller is allowed to write.
//
// Hosted in cmd/arc (package main) so that the WAL-replay leg uses the REAL createWALRecoveryCallback /
// createColumnarRecoveryCallback. Every case is ONE HTTP write/import request sent through the real
// fiber handlers (api.MsgPackHandler, LineProtocolHandler, ImportHandler, TLEHandler) of a "writer"
// system whose RBAC checker is a recorder that grants write on db1.m1 ONLY and whose ArrowBuffer
// sits on an in-memory storage backend (every stored path is visible). The same request is then
// followed along the two other ways its rows get stored:
//   - replicated: every entry the writer's WAL replication hook emitted is applied, unchanged, by the
//     real replication.Receiver.applyEntry with the real Coordinator.buildReplicationIngestHandler
//     into a second ("reader") ArrowBuffer;
//   - wal-replay: the writer's WAL directory is recovered by wal.Recovery with the real callbacks of
//     cmd/arc into a third ArrowBuffer.
// Oracle, on each of the three stores: every stored Parquet file is under the database the REQUEST
// named (x-arc-database, else db/bucket query parameter, else "default" where the endpoint has a
// default) and under a measurement for which the recorder saw a write check on that database that
// was GRANTED; differential: a place never holds more rows than it holds for the same request
// without the routing-like name.

import (
	"bytes"
	"context"
	"fmt"
	"io"
	"math"
	"mime/multipart"
	"net/http/httptest"
	"net/url"
	"os"
	"path"
	"path/filepath"
	"runtime"
	"runtime/pprof"
	"sort"
	"strings"
	"sync"
	"sync/atomic"
	"time"

	"github.com/apache/arrow-go/v18/arrow"
	"github.com/apache/arrow-go/v18/arrow/array"
	"github.com/apache/arrow-go/v18/arrow/memory"
	"github.com/apache/arrow-go/v18/parquet"
	pqfile "github.com/apache/arrow-go/v18/parquet/file"
	"github.com/apache/arrow-go/v18/parquet/pqarrow"
	"github.com/basekick-labs/arc/internal/api"
	"github.com/basekick-labs/arc/internal/auth"
	"github.com/basekick-labs/arc/internal/cluster"
	"github.com/basekick-labs/arc/internal/cluster/replication"
	"github.com/basekick-labs/arc/internal/config"
	"github.com/basekick-labs/arc/internal/ingest"
	"github.com/basekick-labs/arc/internal/wal"
	"github.com/basekick-labs/arc/zzverif/engine/ev"
	"github.com/basekick-labs/arc/zzverif/hx"
	"github.com/gofiber/fiber/v2"
	"github.com/rs/zerolog"
)

func init() {
	if os.Getenv("VERIF_HARNESS") == "C32" {
		verifC32()
	}
}

var c32T0 = time.Now()

var c32Scratch = fmt.Sprintf("/dev/shm/verif.c32.%d", os.Getpid())

const (
	c32DB      = "db1" // the only database the caller may write
	c32Meas    = "m1"  // the only measurement the caller may write
	c32TokenID = int64(32)
)

// ---- recording RBAC checker ---------------------------------------------------------------------

type c32Ask struct {
	DB, Meas, Perm string
	Allowed        bool
}

type c32Recorder struct {
	mu    sync.Mutex
	asks  []c32Ask
	grant func(db, meas string) bool // nil: db1.m1 only (phase 1); phase 2 grants a small set
}

func (r *c32Recorder) IsRBACEnabled() bool { return true }

func (r *c32Recorder) CheckPermission(req *auth.PermissionCheckRequest) *auth.PermissionCheckResult {
	ok := req.Permission == "write" && req.TokenInfo != nil && req.TokenInfo.ID == c32TokenID
	if r.grant != nil {
		ok = ok && r.grant(req.Database, req.Measurement)
	} else {
		ok = ok && req.Database == c32DB && req.Measurement == c32Meas
	}
	r.mu.Lock()
	r.asks = append(r.asks, c32Ask{req.Database, req.Measurement, req.Permission, ok})
	r.mu.Unlock()
	if ok {
		return &auth.PermissionCheckResult{Allowed: true, Source: "rbac"}
	}
	return &auth.PermissionCheckResult{Allowed: false, Source: "denied", Reason: "C32 recorder: not in the granted set"}
}

func (r *c32Recorder) CheckPermissionsBatch(reqs []*auth.PermissionCheckRequest) []*auth.PermissionCheckResult {
	out := make([]*auth.PermissionCheckResult, len(reqs))
	for i, q := range reqs {
		out[i] = r.CheckPermission(q)
	}
	return out
}

// ---- systems -----------------------------------------------------------------------------------

func c32IngestCfg() *config.IngestConfig {
	return &config.IngestConfig{MaxBufferSize: 1_000_000, MaxBufferAgeMS: 3_600_000, Compression: "snappy", FlushWorkers: 1,
		FlushQueueSize: 16, ShardCount: 1, FlushTimeoutSeconds: 60, WriteStatistics: true}
}

type c32Sys struct {
	mem     *hx.MemBackend
	buf     *ingest.ArrowBuffer
	walW    *c32LazyWAL
	app     *fiber.App
	rec     *c32Recorder
	mu      sync.Mutex
	entries []*wal.ReplicationEntry
}

// c32NewSink is a storage + ArrowBuffer pair without WAL (reader node / recovering node).
func c32NewSink() *c32Sys {
	s := &c32Sys{mem: hx.NewMemBackend()}
	s.buf = ingest.NewArrowBuffer(c32IngestCfg(), s.mem, zerolog.Nop())
	return s
}

// c32LazyWAL is the ArrowBuffer's WAL: the REAL wal.Writer (with the replication hook the coordinator
// installs on a writer node), created on the first append so that the thousands of rejected requests
// do not each cost a WAL directory. It only delegates.
type c32LazyWAL struct {
	dir string
	sys *c32Sys
	mu  sync.Mutex
	w   *wal.Writer
}

func (l *c32LazyWAL) real() *wal.Writer {
	l.mu.Lock()
	defer l.mu.Unlock()
	if l.w == nil {
		w, err := wal.NewWriter(&wal.WriterConfig{WALDir: l.dir, SyncMode: wal.SyncModeAsync, MaxSizeBytes: 1 << 30, MaxAge: 24 * time.Hour,
			SyncInterval: time.Hour, BufferSize: 1000, Logger: zerolog.Nop()})
		if err != nil {
			ev.Unbound("C32: wal.NewWriter: " + err.Error())
		}
		s := l.sys
		w.SetReplicationHook(func(e *wal.ReplicationEntry) {
			s.mu.Lock()
			s.entries = append(s.entries, &wal.ReplicationEntry{Sequence: e.Sequence, TimestampUS: e.TimestampUS, Payload: bytes.Clone(e.Payload)})
			s.mu.Unlock()
		})
		l.w = w
	}
	return l.w
}
func (l *c32LazyWAL) Append(r []map[string]interface{}) error { return l.real().Append(r) }
func (l *c32LazyWAL) AppendRaw(p []byte) error                { return l.real().AppendRaw(p) }
func (l *c32LazyWAL) AppendRawWithMeta(db string, p []byte) error {
	return l.real().AppendRawWithMeta(db, p)
}
func (l *c32LazyWAL) Stats() map[string]interface{} { return map[string]interface{}{} }
func (l *c32LazyWAL) untouched() bool {
	l.mu.Lock()
	defer l.mu.Unlock()
	return l.w == nil
}
func (l *c32LazyWAL) Close() error {
	l.mu.Lock()
	defer l.mu.Unlock()
	if l.w != nil {
		return l.w.Close() // drains the asynchronous queue into the file
	}
	return nil
}

// c32NewWriter is the node that serves the request: real handlers, recorder, WAL with replication hook.
func c32NewWriter(walDir string) *c32Sys {
	s := c32NewSink()
	s.walW = &c32LazyWAL{dir: walDir, sys: s}
	s.buf.SetWAL(s.walW)
	s.rec = &c32Recorder{}
	s.app = fiber.New(fiber.Config{DisableStartupMessage: true})
	// what the global auth middleware of cmd/arc leaves behind for an authenticated caller
	tok := &auth.TokenInfo{ID: c32TokenID, Name: "c32-writer", Permissions: []string{"read", "write", "admin"}, Enabled: true}
	s.app.Use(func(c *fiber.Ctx) error {
		c.Locals("token_info", tok)
		return c.Next()
	})
	lg := zerolog.Nop()
	mh := api.NewMsgPackHandler(lg, s.buf, 64<<20)
	mh.SetAuthAndRBAC(nil, s.rec)
	mh.RegisterRoutes(s.app)
	lh := api.NewLineProtocolHandler(s.buf, lg)
	lh.SetAuthAndRBAC(nil, s.rec)
	lh.RegisterRoutes(s.app)
	ih := api.NewImportHandler(lg)
	ih.SetArrowBuffer(s.buf)
	ih.SetAuthAndRBAC(nil, s.rec)
	ih.RegisterRoutes(s.app)
	th := api.NewTLEHandler(s.buf, lg)
	th.SetAuthAndRBAC(nil, s.rec)
	th.RegisterRoutes(s.app)
	return s
}

// c32Places reads every stored object: "db/measurement" (first two segments of the key AS STORED) ->
// rows, and one key directory per place (the key minus its time-stamped file name).
func c32Places(mem *hx.MemBackend) (map[string]int, map[string]string, error) {
	out, dirs := map[string]int{}, map[string]string{}
	paths, files := mem.Snapshot()
	for _, p := range paths {
		// a key that is absolute, has an empty segment or contains a traversal is marked so that it can
		// never equal a granted "db/measurement"
		seg := strings.SplitN(p, "/", 3)
		place := p
		if len(seg) >= 2 {
			place = seg[0] + "/" + seg[1]
		}
		if path.Clean("/" + p)[1:] != p {
			place += " [non-canonical key]"
		}
		if _, ok := dirs[place]; !ok {
			dirs[place] = path.Dir(p)
			if i := strings.LastIndex(p, "/"); i >= 0 {
				dirs[place] = p[:i]
			}
		}
		if !strings.HasSuffix(p, ".parquet") {
			out[place] += 0
			continue
		}
		// row count from the file's own footer, read with arrow-go's low-level reader (not Arc's code)
		pf, err := pqfile.NewParquetReader(bytes.NewReader(files[p]))
		if err != nil {
			return nil, nil, fmt.Errorf("%s: %w", p, err)
		}
		out[place] += int(pf.NumRows())
		pf.Close()
	}
	return out, dirs, nil
}

// ---- minimal msgpack encoder with ORDERED maps (deterministic bytes, duplicate keys possible) ----

type c32KV struct {
	K string
	V any
}
type c32Map []c32KV

func c32Enc(b *bytes.Buffer, v any) {
	switch x := v.(type) {
	case nil:
		b.WriteByte(0xc0)
	case bool:
		if x {
			b.WriteByte(0xc3)
		} else {
			b.WriteByte(0xc2)
		}
	case int:
		c32Enc(b, int64(x))
	case int64:
		if x >= 0 && x < 128 {
			b.WriteByte(byte(x))
		} else {
			b.WriteByte(0xd3)
			for i := 7; i >= 0; i-- {
				b.WriteByte(byte(uint64(x) >> (8 * i)))
			}
		}
	case float64:
		b.WriteByte(0xcb)
		u := math.Float64bits(x)
		for i := 7; i >= 0; i-- {
			b.WriteByte(byte(u >> (8 * i)))
		}
	case string:
		n := len(x)
		switch {
		case n < 32:
			b.WriteByte(0xa0 | byte(n))
		case n < 256:
			b.WriteByte(0xd9)
			b.WriteByte(byte(n))
		default:
			b.WriteByte(0xda)
			b.WriteByte(byte(n >> 8))
			b.WriteByte(byte(n))
		}
		b.WriteString(x)
	case []any:
		n := len(x)
		if n < 16 {
			b.WriteByte(0x90 | byte(n))
		} else {
			b.WriteByte(0xdc)
			b.WriteByte(byte(n >> 8))
			b.WriteByte(byte(n))
		}
		for _, e := range x {
			c32Enc(b, e)
		}
	case c32Map:
		n := len(x)
		if n < 16 {
			b.WriteByte(0x80 | byte(n))
		} else {
			b.WriteByte(0xde)
			b.WriteByte(byte(n >> 8))
			b.WriteByte(byte(n))
		}
		for _, kv := range x {
			c32Enc(b, kv.K)
			c32Enc(b, kv.V)
		}
	default:
		panic(fmt.Sprintf("c32Enc: %T", v))
	}
}

// ---- the space ----------------------------------------------------------------------------------

type c32Inj struct {
	Name, Pos, Val string
}

func (i c32Inj) String() string { return i.Name + "@" + i.Pos + "=" + i.Val }

const (
	kMsgpack = iota
	kLP
	kLPImport
	kCSV
	kParquet
	kTLEWrite
	kTLEImport
)

type c32EP struct {
	Name     string
	Path     string
	Kind     int
	QDB      string // name of the query parameter the endpoint reads the database from ("" = none)
	Org      bool   // reads (and documents) org
	Prec     bool   // reads precision
	MeasSel  int    // 0 none, 1 query parameter "measurement", 2 header x-arc-measurement
	DefMeas  int    // default index in c32MeasSel for minimisation
	DefaultD bool   // the endpoint falls back to database "default"
}

var c32EPs = []c32EP{
	{Name: "msgpack", Path: "/api/v1/write/msgpack", Kind: kMsgpack, DefaultD: true},
	{Name: "lp-arc", Path: "/api/v1/write/line-protocol", Kind: kLP, Prec: true, DefaultD: true},
	{Name: "lp-influx1", Path: "/write", Kind: kLP, QDB: "db", Prec: true, DefaultD: true},
	{Name: "lp-influx2", Path: "/api/v2/write", Kind: kLP, QDB: "bucket", Org: true, Prec: true, DefaultD: true},
	{Name: "import-lp", Path: "/api/v1/import/lp", Kind: kLPImport, QDB: "db", Prec: true, MeasSel: 1, DefMeas: 0},
	{Name: "import-csv", Path: "/api/v1/import/csv", Kind: kCSV, QDB: "db", MeasSel: 1, DefMeas: 1},
	{Name: "import-parquet", Path: "/api/v1/import/parquet", Kind: kParquet, QDB: "db", MeasSel: 1, DefMeas: 1},
	{Name: "write-tle", Path: "/api/v1/write/tle", Kind: kTLEWrite, MeasSel: 2, DefMeas: 1, DefaultD: true},
	{Name: "import-tle", Path: "/api/v1/import/tle", Kind: kTLEImport, QDB: "db", MeasSel: 2, DefMeas: 1},
}

// dimension domains (index 0.. ; tier decides how long the prefix in use is)
var (
	c32Names   = []string{"database", "_database", "measurement", "_measurement", "m"}
	c32Vals    = []string{"db2", "m2", "../db2", "m1", "db1", "/db2/m2", "db2/m2", "../../db2/m2", "default"}
	c32Hdr     = []string{"", "db1", "db2", "default", "db1/../db2"} // x-arc-database ("" = absent)
	c32QDB     = []string{"", "db1", "db2"}
	c32OrgV    = []string{"", "db2"}
	c32PrecV   = []string{"", "s", "ns", "us", "ms"}
	c32MeasSel = []string{"", "m1", "m2"}
)

type c32Tier struct {
	nVals, nHdr, nPrec int
}

// msgpack templates
type c32Item struct {
	Kind string // col (typed fast path), colg (generic decoder), row
	Meas string
}
type c32MPT struct {
	Wrap  string // single | batch | array
	Items []c32Item
}

func (t c32MPT) String() string {
	var s []string
	for _, i := range t.Items {
		s = append(s, i.Kind+":"+c32Q(i.Meas))
	}
	if t.Wrap == "single" {
		return s[0]
	}
	return t.Wrap + "[" + strings.Join(s, ",") + "]"
}

var c32MPTs = func() []c32MPT {
	out := []c32MPT{
		{"single", []c32Item{{"col", "m1"}}},
		{"single", []c32Item{{"colg", "m1"}}},
		{"single", []c32Item{{"row", "m1"}}},
		{"single", []c32Item{{"col", "m2"}}},
		{"single", []c32Item{{"row", "m2"}}},
		{"single", []c32Item{{"col", ""}}},
		{"single", []c32Item{{"colg", ""}}},
		{"single", []c32Item{{"row", ""}}},
	}
	lists := [][]c32Item{
		{{"col", "m1"}},
		{{"row", "m1"}},
		{{"col", "m1"}, {"row", "m1"}},
		{{"col", "m1"}, {"col", "m2"}},
		{{"col", "m2"}, {"col", "m1"}},
		{{"row", "m1"}, {"row", "m2"}},
		{{"row", "m2"}, {"row", "m1"}},
		{{"col", "m1"}, {"row", "m2"}},
		{{"row", "m2"}, {"col", "m1"}},
		{{"col", "m1"}, {"col", ""}},
		{{"row", ""}, {"row", "m1"}},
	}
	for _, w := range []string{"batch", "array"} {
		for _, l := range lists {
			out = append(out, c32MPT{w, l})
		}
	}
	return out
}()

// line-protocol templates: measurement of each line
var c32LPTs = [][]string{{"m1"}, {"m1", "m1"}, {"m1", "m2"}, {"m2", "m1"}, {"m2"}, {""}, {"m1", ""}}

func c32NTmpl(ep c32EP) int {
	switch ep.Kind {
	case kMsgpack:
		return len(c32MPTs)
	case kLP, kLPImport:
		return len(c32LPTs)
	}
	return 1
}

func c32TmplName(ep c32EP, t int) string {
	switch ep.Kind {
	case kMsgpack:
		return c32MPTs[t].String()
	case kLP, kLPImport:
		q := []string{}
		for _, m := range c32LPTs[t] {
			q = append(q, c32Q(m))
		}
		return "lines[" + strings.Join(q, ",") + "]"
	case kCSV:
		return "csv(time,v,host x 2 rows)"
	case kParquet:
		return "parquet(time,v,host x 2 rows)"
	}
	return "tle(ISS)"
}

func c32Q(m string) string {
	if m == "" {
		return `""`
	}
	return m
}

// target item of an item-level injection: the first allowed item, else item 0
func c32Target(meas []string) int {
	for i, m := range meas {
		if m == c32Meas {
			return i
		}
	}
	return 0
}

// c32Positions lists the positions a routing-like name can take in template t of endpoint ep.
func c32Positions(ep c32EP, t int) []string {
	switch ep.Kind {
	case kMsgpack:
		tp := c32MPTs[t]
		var ms []string
		for _, i := range tp.Items {
			ms = append(ms, i.Meas)
		}
		it := tp.Items[c32Target(ms)]
		var p []string
		if it.Kind == "row" {
			p = []string{"tag", "field", "itemkey", "itemkey0"}
		} else {
			p = []string{"col", "itemkey", "itemkey0"}
		}
		if tp.Wrap == "batch" {
			p = append(p, "wrapkey")
		}
		return p
	case kLP:
		return []string{"tag", "field"}
	case kLPImport:
		return []string{"tag", "field", "form"}
	case kCSV, kParquet:
		return []string{"col", "form"}
	case kTLEImport:
		return []string{"form"}
	}
	return nil
}

// c32InjList: index 0 = no injection; then position-major, name, value (tier prefix of values).
func c32InjList(ep c32EP, t int, tier c32Tier) []c32Inj {
	out := []c32Inj{{}}
	for _, pos := range c32Positions(ep, t) {
		for _, n := range c32Names {
			if pos == "itemkey0" && n != "m" {
				continue // key order only matters for a duplicate of the genuine key
			}
			for _, v := range c32Vals[:tier.nVals] {
				out = append(out, c32Inj{n, pos, v})
			}
		}
	}
	return out
}

// A routing-like name that IS the protocol's routing field (a second "m" key inside the item) changes
// what the payload asks for; the differential does not apply to it.
func (i c32Inj) isGenuineKey() bool {
	return i.Name == "m" && (i.Pos == "itemkey" || i.Pos == "itemkey0")
}

type c32Vec struct {
	EP, Tmpl      int
	Inj           c32Inj
	Hdr, QDB, Org int
	Prec, MeasSel int
}

func (v c32Vec) ep() c32EP { return c32EPs[v.EP] }

func (v c32Vec) def() c32Vec {
	return c32Vec{EP: v.EP, Hdr: 1, MeasSel: v.ep().DefMeas}
}

// c32NamedDB: the database the request names, by the documented precedence.
func (v c32Vec) namedDB() string {
	ep := v.ep()
	if h := c32Hdr[v.Hdr]; h != "" {
		return h
	}
	if ep.QDB != "" && c32QDB[v.QDB] != "" {
		return c32QDB[v.QDB]
	}
	if ep.DefaultD {
		return "default"
	}
	return ""
}

func (v c32Vec) String() string {
	ep := v.ep()
	p := []string{"payload=" + c32TmplName(ep, v.Tmpl)}
	if v.Inj.Name != "" {
		p = append(p, "name="+v.Inj.String())
	}
	h := c32Hdr[v.Hdr]
	if h == "" {
		h = "<absent>"
	}
	p = append(p, "x-arc-database="+h)
	if ep.QDB != "" && v.QDB != 0 {
		p = append(p, ep.QDB+"="+c32QDB[v.QDB])
	}
	if ep.Org && v.Org != 0 {
		p = append(p, "org="+c32OrgV[v.Org])
	}
	if ep.Prec && v.Prec != 0 {
		p = append(p, "precision="+c32PrecV[v.Prec])
	}
	if ep.MeasSel == 1 {
		p = append(p, "measurement="+c32MeasSel[v.MeasSel])
	}
	if ep.MeasSel == 2 {
		p = append(p, "x-arc-measurement="+c32MeasSel[v.MeasSel])
	}
	return strings.Join(p, " ")
}

// ---- request construction -----------------------------------------------------------------------

type c32Req struct {
	URL  string
	Hdr  [][2]string
	CT   string
	Body []byte
}

const c32TimeUS = int64(1_700_000_000_000_000) // 2023-11-14T22:13:20Z

func c32MPItem(it c32Item, inj *c32Inj) c32Map {
	var m c32Map
	if inj != nil && inj.Pos == "itemkey0" {
		m = append(m, c32KV{inj.Name, inj.Val})
	}
	m = append(m, c32KV{"m", it.Meas})
	if it.Kind == "row" {
		tags := c32Map{{"host", "a"}}
		fields := c32Map{{"v", 1.5}}
		if inj != nil && inj.Pos == "tag" {
			tags = append(tags, c32KV{inj.Name, inj.Val})
		}
		if inj != nil && inj.Pos == "field" {
			fields = append(fields, c32KV{inj.Name, inj.Val})
		}
		m = append(m, c32KV{"t", c32TimeUS}, c32KV{"fields", fields}, c32KV{"tags", tags})
	} else {
		cols := c32Map{{"time", []any{c32TimeUS, c32TimeUS + 1}}}
		if it.Kind == "colg" {
			cols = append(cols, c32KV{"v", []any{int64(1), 2.5}}) // mixed int/float: the typed fast path declines
		} else {
			cols = append(cols, c32KV{"v", []any{1.5, 2.5}})
		}
		cols = append(cols, c32KV{"host", []any{"a", "b"}})
		if inj != nil && inj.Pos == "col" {
			cols = append(cols, c32KV{inj.Name, []any{inj.Val, inj.Val}})
		}
		m = append(m, c32KV{"columns", cols})
	}
	if inj != nil && inj.Pos == "itemkey" {
		m = append(m, c32KV{inj.Name, inj.Val})
	}
	return m
}

func c32MPBody(t c32MPT, inj c32Inj) []byte {
	var ms []string
	for _, i := range t.Items {
		ms = append(ms, i.Meas)
	}
	tgt := c32Target(ms)
	var items []any
	for i, it := range t.Items {
		var ip *c32Inj
		if i == tgt && inj.Name != "" && inj.Pos != "wrapkey" {
			ip = &inj
		}
		items = append(items, c32MPItem(it, ip))
	}
	var top any
	switch t.Wrap {
	case "single":
		top = items[0]
	case "array":
		top = items
	case "batch":
		w := c32Map{{"batch", items}}
		if inj.Pos == "wrapkey" {
			w = append(w, c32KV{inj.Name, inj.Val})
		}
		top = w
	}
	var b bytes.Buffer
	c32Enc(&b, top)
	return b.Bytes()
}

func c32LPBody(meas []string, inj c32Inj, prec string) []byte {
	var unit int64
	switch prec {
	case "s":
		unit = 1_000_000
	case "ms":
		unit = 1000
	case "us":
		unit = 1
	}
	tgt := c32Target(meas)
	var b strings.Builder
	for i, m := range meas {
		b.WriteString(m + ",host=a")
		if i == tgt && inj.Pos == "tag" {
			b.WriteString("," + inj.Name + "=" + inj.Val)
		}
		b.WriteString(" v=1.5")
		if i == tgt && inj.Pos == "field" {
			b.WriteString("," + inj.Name + "=\"" + inj.Val + "\"")
		}
		us := c32TimeUS + int64(i)*1_000_000
		if unit == 0 {
			fmt.Fprintf(&b, " %d000\n", us) // nanoseconds
		} else {
			fmt.Fprintf(&b, " %d\n", us/unit)
		}
	}
	return []byte(b.String())
}

func c32CSVBody(inj c32Inj) []byte {
	h, r1, r2 := "time,v,host", fmt.Sprintf("%d,1.5,a", c32TimeUS), fmt.Sprintf("%d,2.5,b", c32TimeUS+1)
	if inj.Pos == "col" {
		h += "," + inj.Name
		r1 += "," + inj.Val
		r2 += "," + inj.Val
	}
	return []byte(h + "\n" + r1 + "\n" + r2 + "\n")
}

var c32PqCache sync.Map

func c32ParquetBody(inj c32Inj) []byte {
	key := ""
	if inj.Pos == "col" {
		key = inj.Name + "=" + inj.Val
	}
	if b, ok := c32PqCache.Load(key); ok {
		return b.([]byte)
	}
	fields := []arrow.Field{{Name: "time", Type: arrow.PrimitiveTypes.Int64}, {Name: "v", Type: arrow.PrimitiveTypes.Float64}, {Name: "host", Type: arrow.BinaryTypes.String}}
	if key != "" {
		fields = append(fields, arrow.Field{Name: inj.Name, Type: arrow.BinaryTypes.String})
	}
	sc := arrow.NewSchema(fields, nil)
	rb := array.NewRecordBuilder(memory.DefaultAllocator, sc)
	defer rb.Release()
	rb.Field(0).(*array.Int64Builder).AppendValues([]int64{c32TimeUS, c32TimeUS + 1}, nil)
	rb.Field(1).(*array.Float64Builder).AppendValues([]float64{1.5, 2.5}, nil)
	rb.Field(2).(*array.StringBuilder).AppendValues([]string{"a", "b"}, nil)
	if key != "" {
		rb.Field(3).(*array.StringBuilder).AppendValues([]string{inj.Val, inj.Val}, nil)
	}
	rec := rb.NewRecord()
	defer rec.Release()
	tbl := array.NewTableFromRecords(sc, []arrow.Record{rec})
	defer tbl.Release()
	var out bytes.Buffer
	if err := pqarrow.WriteTable(tbl, &out, 1024, parquet.NewWriterProperties(), pqarrow.DefaultWriterProps()); err != nil {
		ev.Unbound("C32: building the parquet upload: " + err.Error())
	}
	c32PqCache.Store(key, out.Bytes())
	return out.Bytes()
}

const c32TLE = "ISS (ZARYA)\n1 25544U 98067A   24051.34722222  .00016717  00000-0  10270-3 0  9014\n2 25544  51.6400 208.9163 0006703 319.1918  40.8793 15.49560830442108\n"

func c32Multipart(file []byte, fname string, inj c32Inj) ([]byte, string) {
	var b bytes.Buffer
	w := multipart.NewWriter(&b)
	w.SetBoundary("c32verifboundary")
	if inj.Pos == "form" {
		w.WriteField(inj.Name, inj.Val)
	}
	fw, _ := w.CreateFormFile("file", fname)
	fw.Write(file)
	w.Close()
	return b.Bytes(), w.FormDataContentType()
}

func c32Build(v c32Vec) c32Req {
	ep := v.ep()
	var r c32Req
	var qs []string
	add := func(k, val string) { qs = append(qs, url.QueryEscape(k)+"="+url.QueryEscape(val)) }
	if ep.QDB != "" && v.QDB != 0 {
		add(ep.QDB, c32QDB[v.QDB])
	}
	if ep.Org && v.Org != 0 {
		add("org", c32OrgV[v.Org])
	}
	if ep.Prec && v.Prec != 0 {
		add("precision", c32PrecV[v.Prec])
	}
	if ep.MeasSel == 1 && v.MeasSel != 0 {
		add("measurement", c32MeasSel[v.MeasSel])
	}
	r.URL = ep.Path
	if len(qs) > 0 {
		r.URL += "?" + strings.Join(qs, "&")
	}
	if h := c32Hdr[v.Hdr]; h != "" {
		r.Hdr = append(r.Hdr, [2]string{"x-arc-database", h})
	}
	if ep.MeasSel == 2 && v.MeasSel != 0 {
		r.Hdr = append(r.Hdr, [2]string{"x-arc-measurement", c32MeasSel[v.MeasSel]})
	}
	prec := ""
	if ep.Prec {
		prec = c32PrecV[v.Prec]
	}
	switch ep.Kind {
	case kMsgpack:
		r.CT, r.Body = "application/msgpack", c32MPBody(c32MPTs[v.Tmpl], v.Inj)
	case kLP:
		r.CT, r.Body = "text/plain", c32LPBody(c32LPTs[v.Tmpl], v.Inj, prec)
	case kLPImport:
		r.Body, r.CT = c32Multipart(c32LPBody(c32LPTs[v.Tmpl], v.Inj, prec), "data.lp", v.Inj)
	case kCSV:
		r.Body, r.CT = c32Multipart(c32CSVBody(v.Inj), "data.csv", v.Inj)
	case kParquet:
		r.Body, r.CT = c32Multipart(c32ParquetBody(v.Inj), "data.parquet", v.Inj)
	case kTLEWrite:
		r.CT, r.Body = "text/plain", []byte(c32TLE)
	case kTLEImport:
		r.Body, r.CT = c32Multipart([]byte(c32TLE), "data.tle", v.Inj)
	}
	return r
}

// ---- execution ----------------------------------------------------------------------------------

type c32Res struct {
	Status   int
	Body     string
	Asks     []c32Ask
	Granted  map[string]bool // "db/measurement" for which a write check was asked AND granted
	Legs     [3]map[string]int
	Dirs     [3]map[string]string
	NEntries int
}

var c32LegName = [3]string{"live", "replicated", "wal-replay"}

var (
	c32Cache   sync.Map // c32Vec -> *c32Res
	c32Dirs    atomic.Int64
	c32Sysruns atomic.Int64
)

func c32Run(v c32Vec) *c32Res {
	if r, ok := c32Cache.Load(v); ok {
		return r.(*c32Res)
	}
	res := c32Exec(v)
	c32Cache.Store(v, res)
	return res
}

// c32Free holds writer systems that have neither buffered, logged nor stored anything yet (a request
// that was rejected without side effects leaves its system in that state); everything else is built fresh.
var c32Free = make(chan *c32Sys, 256)

func c32Exec(v c32Vec) *c32Res {
	var w *c32Sys
	select {
	case w = <-c32Free:
	default:
		c32Sysruns.Add(1)
		w = c32NewWriter(filepath.Join(c32Scratch, fmt.Sprintf("w%d", c32Dirs.Add(1))))
	}
	dir := w.walW.dir
	rq := c32Build(v)
	hr := httptest.NewRequest("POST", rq.URL, bytes.NewReader(rq.Body))
	hr.Header.Set("Content-Type", rq.CT)
	for _, h := range rq.Hdr {
		hr.Header.Set(h[0], h[1])
	}
	res := &c32Res{Granted: map[string]bool{}}
	resp, err := w.app.Test(hr, -1)
	if err != nil {
		ev.Unbound(fmt.Sprintf("C32: request %s: %v", v, err))
	}
	rb, _ := io.ReadAll(io.LimitReader(resp.Body, 300))
	io.Copy(io.Discard, resp.Body)
	resp.Body.Close()
	res.Status, res.Body = resp.StatusCode, string(rb)
	if err := w.buf.FlushAll(context.Background()); err != nil {
		ev.Unbound("C32: FlushAll(writer): " + err.Error())
	}
	w.rec.mu.Lock()
	res.Asks = append(res.Asks, w.rec.asks...)
	w.rec.asks = nil
	w.rec.mu.Unlock()
	sort.Slice(res.Asks, func(i, j int) bool {
		a, b := res.Asks[i], res.Asks[j]
		return a.DB+"\x00"+a.Meas+"\x00"+a.Perm < b.DB+"\x00"+b.Meas+"\x00"+b.Perm
	})
	for _, a := range res.Asks {
		if a.Allowed && a.Perm == "write" {
			res.Granted[a.DB+"/"+a.Meas] = true
		}
	}
	if res.Legs[0], res.Dirs[0], err = c32Places(w.mem); err != nil {
		ev.Unbound("C32: reading the writer's store: " + err.Error())
	}
	res.Legs[1], res.Legs[2] = map[string]int{}, map[string]int{}
	if stored, _ := w.mem.Snapshot(); w.walW.untouched() && len(stored) == 0 {
		// nothing buffered, logged or stored: the system is as new
		res.Body, res.Legs[0], res.Legs[1], res.Legs[2] = "", nil, nil, nil
		res.Dirs[0] = nil
		select {
		case c32Free <- w:
		default:
			w.buf.Close()
		}
		return res
	}
	w.buf.Close()
	w.walW.Close()
	defer os.RemoveAll(dir)
	w.mu.Lock()
	entries := w.entries
	w.mu.Unlock()
	res.NEntries = len(entries)
	if len(entries) == 0 {
		return res
	}
	// replicated leg: the entries exactly as the writer's hook hands them to the sender
	rd := c32NewSink()
	ap := replication.VerifC32NewApplier(&replication.ReceiverConfig{ReaderID: "reader-1", IngestHandler: cluster.VerifC32ReplicationIngestHandler(rd.buf), Logger: zerolog.Nop()})
	for _, e := range entries {
		// an error is the receiver's business (it drops the connection); what was stored is judged either way
		_ = ap.ApplyEntry(&replication.ReplicateEntry{Sequence: e.Sequence, TimestampUS: e.TimestampUS, Payload: e.Payload})
	}
	ap.Close()
	rd.buf.FlushAll(context.Background())
	rd.buf.Close()
	if res.Legs[1], res.Dirs[1], err = c32Places(rd.mem); err != nil {
		ev.Unbound("C32: reading the reader's store: " + err.Error())
	}
	// wal-replay leg: a restarted node recovers the WAL directory with the real callbacks
	rp := c32NewSink()
	lg := zerolog.Nop()
	wal.NewRecovery(dir, lg).RecoverWithOptions(context.Background(), createWALRecoveryCallback(rp.buf, lg),
		&wal.RecoveryOptions{ColumnarCallback: createColumnarRecoveryCallback(rp.buf, lg)})
	rp.buf.FlushAll(context.Background())
	rp.buf.Close()
	if res.Legs[2], res.Dirs[2], err = c32Places(rp.mem); err != nil {
		ev.Unbound("C32: reading the recovered store: " + err.Error())
	}
	return res
}

// ---- oracle --------------------------------------------------------------------------------------

type c32Fail struct {
	Kind  string
	Leg   int
	Place string
	Cat   string // where the rows went relative to the request: part of the failure's identity
}

// c32Cat classifies a stored place relative to the request (database: named / default / empty / other;
// measurement: the granted m1 / empty / other), so that minimisation cannot slide from one way of
// landing in the wrong place to another.
func c32Cat(named, place, dir string, inj c32Inj) string {
	place = strings.TrimSuffix(place, " [non-canonical key]")
	db, meas := place, ""
	if i := strings.Index(place, "/"); i >= 0 {
		db, meas = place[:i], place[i+1:]
	}
	var d, m string
	switch {
	case db == "":
		d = "empty"
	case db == named:
		d = "named"
	case db == "default":
		d = "default"
	default:
		d = "other"
	}
	if d != "named" {
		return "db:" + d // wrong database: where the measurement came from is secondary
	}
	switch {
	case inj.Name != "" && strings.HasPrefix(dir+"/", db+"/"+inj.Val+"/"):
		m = "value-of-the-routing-like-name"
	case meas == "":
		m = "empty"
	case meas == c32Meas:
		m = c32Meas
	default:
		m = "other"
	}
	return "db:named,measurement:" + m
}

func c32Judge(v c32Vec, res *c32Res) []c32Fail {
	var out []c32Fail
	named := v.namedDB()
	var base *c32Res
	if v.Inj.Name != "" && !v.Inj.isGenuineKey() {
		b := v
		b.Inj = c32Inj{}
		base = c32Run(b)
	}
	for leg := 0; leg < 3; leg++ {
		places := make([]string, 0, len(res.Legs[leg]))
		for p := range res.Legs[leg] {
			places = append(places, p)
		}
		sort.Strings(places)
		for _, p := range places {
			db := p
			if i := strings.Index(p, "/"); i >= 0 {
				db = p[:i]
			}
			inj := v.Inj
			if base != nil && base.Legs[leg][p] > 0 {
				inj = c32Inj{} // the request stores rows there without the name too: the name did not choose the place
			}
			cat := c32Cat(named, p, res.Dirs[leg][p], inj)
			switch {
			case named == "" || db != named:
				out = append(out, c32Fail{"stored-under-database-the-request-did-not-name", leg, p, cat})
			case !res.Granted[p]:
				out = append(out, c32Fail{"stored-under-measurement-without-granted-write-check", leg, p, cat})
			case base != nil && res.Legs[leg][p] > base.Legs[leg][p]:
				out = append(out, c32Fail{"differential-rows-appear-with-routing-like-name", leg, p, cat})
			}
		}
	}
	return out
}

func c32Has(fs []c32Fail, kind string, leg int, cat string) (c32Fail, bool) {
	for _, f := range fs {
		if f.Kind == kind && f.Leg == leg && f.Cat == cat {
			return f, true
		}
	}
	return c32Fail{}, false
}

// c32Valid: is the vector a member of the enumerated space (for this tier)?
func c32Valid(v c32Vec, tier c32Tier) bool {
	ep := v.ep()
	if v.Tmpl < 0 || v.Tmpl >= c32NTmpl(ep) {
		return false
	}
	if v.Inj.Name == "" {
		return true
	}
	for _, i := range c32InjList(ep, v.Tmpl, tier) {
		if i == v.Inj {
			return true
		}
	}
	return false
}

// c32Minimise: coordinate descent to the least (simplest-first order) member of the space that still
// shows the same oracle failure (kind, leg, category of the place the rows went to).
func c32Minimise(v c32Vec, kind string, leg int, cat string, tier c32Tier) c32Vec {
	fails := func(c c32Vec) bool {
		if !c32Valid(c, tier) {
			return false
		}
		_, ok := c32Has(c32Judge(c, c32Run(c)), kind, leg, cat)
		return ok
	}
	cur := v
	d := v.def()
	for changed := true; changed; {
		changed = false
		try := func(c c32Vec) bool {
			if c != cur && fails(c) {
				cur, changed = c, true
				return true
			}
			return false
		}
		// 1. drop the routing-like name, else the least (position, name, value) of the template's list
		if cur.Inj.Name != "" {
			for _, inj := range c32InjList(cur.ep(), cur.Tmpl, tier) {
				if inj == cur.Inj {
					break
				}
				c := cur
				c.Inj = inj
				if try(c) {
					break
				}
			}
		}
		// 2. least template (the name's position must exist there: c32Valid)
		for t := 0; t < cur.Tmpl; t++ {
			c := cur
			c.Tmpl = t
			if try(c) {
				break
			}
		}
		// 3. header / query dimensions: default first, then domain order
		dim := func(get func(*c32Vec) *int, def, n int) {
			order := []int{def}
			for i := 0; i < n; i++ {
				if i != def {
					order = append(order, i)
				}
			}
			for _, x := range order {
				if x == *get(&cur) {
					return
				}
				c := cur
				*get(&c) = x
				if try(c) {
					return
				}
			}
		}
		dim(func(c *c32Vec) *int { return &c.Hdr }, d.Hdr, tier.nHdr)
		dim(func(c *c32Vec) *int { return &c.QDB }, 0, len(c32QDB))
		dim(func(c *c32Vec) *int { return &c.Org }, 0, len(c32OrgV))
		dim(func(c *c32Vec) *int { return &c.Prec }, 0, tier.nPrec)
		dim(func(c *c32Vec) *int { return &c.MeasSel }, d.MeasSel, len(c32MeasSel))
	}
	return cur
}

// ---- enumeration ---------------------------------------------------------------------------------

func c32Enumerate(tier c32Tier) []c32Vec {
	var out []c32Vec
	for e, ep := range c32EPs {
		nq, no, np, nm := 1, 1, 1, 1
		if ep.QDB != "" {
			nq = len(c32QDB)
		}
		if ep.Org {
			no = len(c32OrgV)
		}
		if ep.Prec {
			np = tier.nPrec
		}
		if ep.MeasSel != 0 {
			nm = len(c32MeasSel)
		}
		for t := 0; t < c32NTmpl(ep); t++ {
			for _, inj := range c32InjList(ep, t, tier) {
				for h := 0; h < tier.nHdr; h++ {
					for q := 0; q < nq; q++ {
						for o := 0; o < no; o++ {
							for p := 0; p < np; p++ {
								for m := 0; m < nm; m++ {
									out = append(out, c32Vec{EP: e, Tmpl: t, Inj: inj, Hdr: h, QDB: q, Org: o, Prec: p, MeasSel: m})
								}
							}
						}
					}
				}
			}
		}
	}
	return out
}

func verifC32() {
	run := ev.Start("C32", "exploration")
	defer os.RemoveAll(c32Scratch)
	os.MkdirAll(c32Scratch, 0o700)
	tier := c32Tier{nVals: 4, nHdr: 3, nPrec: 2}
	if !run.Quick() {
		tier = c32Tier{nVals: len(c32Vals), nHdr: len(c32Hdr), nPrec: len(c32PrecV)}
	}
	if pr := os.Getenv("C32_PROBE"); pr != "" {
		c32Probe(pr)
		os.RemoveAll(c32Scratch)
		os.Exit(0)
	}
	if pr := os.Getenv("C32_SEQ_PROBE"); pr != "" {
		c32SeqProbe(pr)
		os.RemoveAll(c32Scratch)
		os.Exit(0)
	}
	if pf := os.Getenv("C32_PROF"); pf != "" {
		f, _ := os.Create(pf)
		pprof.StartCPUProfile(f)
		defer pprof.StopCPUProfile()
	}
	cases := c32Enumerate(tier)
	devOnlySeq := os.Getenv("C32_ONLY") == "seq" // development aid: skip phase 1 (the run is then reported as not exhaustive)
	if devOnlySeq {
		cases = nil
	}
	if run.Seed != 0 { // the seed only permutes the order in which the (whole) space is visited
		s := uint64(run.Seed)*2654435761 + 1
		for i := len(cases) - 1; i > 0; i-- {
			s = s*6364136223846793005 + 1442695040888963407
			j := int((s >> 33) % uint64(i+1))
			cases[i], cases[j] = cases[j], cases[i]
		}
	}
	var (
		next, evals, nontrivial, stored, dropped atomic.Int64
		complete                                 atomic.Bool
		mu                                       sync.Mutex
		outcomes                                 = map[string]int{}
		statusByEP                               = map[string]int{}
		minDone                                  = map[string]bool{}
		samples                                  = ev.NewSamples(4)
	)
	complete.Store(true)
	workers := runtime.GOMAXPROCS(0)
	if workers > 16 {
		workers = 16
	}
	var wg sync.WaitGroup
	for w := 0; w < workers; w++ {
		wg.Add(1)
		go func() {
			defer wg.Done()
			for {
				i := int(next.Add(1)) - 1
				if i >= len(cases) {
					return
				}
				if run.TimeUp() {
					complete.Store(false)
					return
				}
				v := cases[i]
				res := c32Run(v)
				fails := c32Judge(v, res)
				evals.Add(1)
				// non-trivial: the request carries a routing-like name, or names a database / measurement
				// other than the granted db1.m1 somewhere (payload, header, query parameter)
				if v.Inj.Name != "" || v != v.def() {
					nontrivial.Add(1)
				}
				nrows := 0
				for _, n := range res.Legs[0] {
					nrows += n
				}
				if nrows > 0 {
					stored.Add(1)
				}
				// informational: rows the same request stores without the name but not with it (not a C32 matter)
				if v.Inj.Name != "" && !v.Inj.isGenuineKey() {
					b := v
					b.Inj = c32Inj{}
					base := c32Run(b)
					for leg := 0; leg < 3; leg++ {
						for p, n := range base.Legs[leg] {
							if res.Legs[leg][p] < n {
								dropped.Add(1)
								break
							}
						}
					}
				}
				oc := fmt.Sprintf("status=%d live=%v replicated=%v wal-replay=%v", res.Status, c32Fmt(res.Legs[0]), c32Fmt(res.Legs[1]), c32Fmt(res.Legs[2]))
				mu.Lock()
				outcomes[oc]++
				statusByEP[fmt.Sprintf("%s:%d", v.ep().Name, res.Status)]++
				mu.Unlock()
				if nrows > 0 && v.Inj.Name != "" {
					samples.Add(map[string]any{"endpoint": v.ep().Name, "request": v.String(), "status": res.Status, "permission_checks": c32Asks(res.Asks),
						"stored_live": res.Legs[0], "stored_replicated": res.Legs[1], "stored_wal_replay": res.Legs[2]})
				}
				for _, f := range fails {
					mv := c32Minimise(v, f.Kind, f.Leg, f.Cat, tier)
					mres := c32Run(mv)
					mf, _ := c32Has(c32Judge(mv, mres), f.Kind, f.Leg, f.Cat)
					sig := fmt.Sprintf("%s|%s|%s|%s|stored=%s", f.Kind, c32LegName[f.Leg], mv.ep().Name, c32Sig(mv), mf.Place)
					// the first worker to reach a signature builds its replay artefact while holding the lock, so
					// that the violation is never registered without one
					mu.Lock()
					first := !minDone[sig]
					minDone[sig] = true
					var replay any
					if first {
						// replay twice on fresh systems: identical observations or it is the harness
						a, b := c32Exec(mv), c32Exec(mv)
						if c32Obs(a) != c32Obs(b) || c32Obs(a) != c32Obs(mres) {
							os.RemoveAll(c32Scratch)
							ev.Nondeterminism(fmt.Sprintf("C32: %s gave different observations on replay: %s / %s / %s", mv, c32Obs(mres), c32Obs(a), c32Obs(b)))
						}
						rq := c32Build(mv)
						replay = map[string]any{"endpoint": mv.ep().Name, "request": mv.String(), "url": rq.URL, "headers": rq.Hdr, "content_type": rq.CT,
							"body_hex": fmt.Sprintf("%x", rq.Body), "body_text": c32Printable(rq.Body), "request_named_database": mv.namedDB(),
							"status": mres.Status, "response_body": mres.Body, "permission_checks": c32Asks(mres.Asks), "stored_live": mres.Legs[0], "stored_replicated": mres.Legs[1],
							"stored_wal_replay": mres.Legs[2], "wal_entries": mres.NEntries, "first_raw_case": v.String(),
							"how_to_replay": "cd /verif && ./check C32 thorough (the case is a member of the enumerated space); caller: token granted write on db1.m1 only"}
					}
					run.Violate(sig, c32Describe(f.Kind, f.Leg), replay)
					mu.Unlock()
				}
			}
		}()
	}
	wg.Wait()
	ph1 := time.Since(c32T0)
	// phase 2: request sequences on one reused connection, flush after the later requests (zz_verif_c32_seq.go)
	sq := c32SeqPhase(run)
	ph2 := time.Since(c32T0) - ph1
	run.Coverage["phase_wall_seconds"] = fmt.Sprintf("phase1=%.1f phase2=%.1f", ph1.Seconds(), ph2.Seconds())
	fmt.Printf("C32 wall: phase1=%.1fs phase2=%.1fs\n", ph1.Seconds(), ph2.Seconds())

	run.Coverage["evaluations"] = evals.Load() + sq.evals
	run.Coverage["distinct_nontrivial"] = nontrivial.Load() + sq.nontrivial
	ab := func(l []string) string { // "" is "absent" in the header / query domains
		o := make([]string, len(l))
		for i, x := range l {
			o[i] = x
			if x == "" {
				o[i] = "<absent>"
			}
		}
		return strings.Join(o, ",")
	}
	run.Coverage["rule"] = fmt.Sprintf("PHASE 1 (single requests): full product, per endpoint (%d endpoints: msgpack, 3 line-protocol, import lp/csv/parquet, tle write/import), of payload template "+
		"(msgpack, %d templates: single typed-columnar / generic-columnar / row item for measurement m1, m2 and the empty string, batch[...] and top-level array[...] of 11 item lists mixing "+
		"columnar/row items and allowed m1 / forbidden m2 / empty measurement; line protocol, %d templates: lines for [m1] [m1,m1] [m1,m2] [m2,m1] [m2] [\"\"] [m1,\"\"]; csv, parquet, tle: one file) "+
		"x routing-like name {none} + {%s} x every position the template offers (column / tag / field / extra key inside the item (for m: a duplicate key, before and after the genuine one) / "+
		"extra key on the batch wrapper / extra multipart form field) x value {%s} x x-arc-database {%s} x db|bucket {<absent>,db1,db2} x org {<absent>,db2} x precision {%s} x "+
		"measurement selector (query measurement / x-arc-measurement) {<absent>,m1,m2}, each dimension only where the endpoint reads it; every case = 1 request on a writer node that has "+
		"buffered/logged/stored nothing yet + its replication entries applied on a fresh reader + its WAL recovered on a fresh node; non-trivial = carries a routing-like name or differs "+
		"from the plain 'x-arc-database: db1, measurement m1' request of its endpoint (every vector is distinct by construction). "+sq.rule(),
		len(c32EPs), len(c32MPTs), len(c32LPTs), strings.Join(c32Names, ","), strings.Join(c32Vals[:tier.nVals], ","), ab(c32Hdr[:tier.nHdr]), ab(c32PrecV[:tier.nPrec]))
	run.Coverage["samples"] = append(samples.List(), sq.samples...)
	run.Coverage["exhaustive"] = complete.Load() && sq.complete && !devOnlySeq
	run.Coverage["space_size"] = len(cases) + sq.space
	run.Coverage["phase1_single_request_cases"] = evals.Load()
	run.Coverage["phase2_sequences"] = sq.evals
	run.Coverage["phase2_space_by_shape"] = sq.byKind
	run.Coverage["phase2_max_buffer_sizes"] = sq.tier.bufs
	run.Coverage["phase2_sequences_that_stored_rows"] = sq.stored
	run.Coverage["phase2_sequences_with_rows_of_2+_requests"] = sq.multi
	run.Coverage["phase2_sequences_with_rows_of_2+_requests_in_2+_databases"] = sq.crossDB
	run.Coverage["phase2_sequences_with_flush_tasks_run_after_the_last_response"] = sq.pendingSeqs
	run.Coverage["phase2_flush_tasks_run_after_the_last_response"] = sq.pendingTasks
	run.Coverage["phase2_sequences_served_by_one_RequestCtx"] = sq.sameCtx
	run.Coverage["phase2_consecutive_header_values_at_same_address"] = fmt.Sprintf("%d of %d", sq.sameHdr, sq.hdrPairs)
	run.Coverage["phase2_distinct_outcomes"] = sq.outcomes
	run.Coverage["phase2_status_by_endpoint"] = sq.status
	run.Coverage["phase2_systems_built"] = c32SSysruns.Load()
	run.Coverage["cases_that_stored_rows"] = stored.Load()
	run.Coverage["distinct_outcomes"] = len(outcomes)
	run.Coverage["status_by_endpoint"] = statusByEP
	run.Coverage["systems_built"] = c32Sysruns.Load()
	run.Coverage["info_cases_where_a_routing_like_name_made_rows_disappear"] = dropped.Load()
	if len(outcomes) < 4 {
		fmt.Printf("C32 vacuity warning: only %d distinct outcomes\n", len(outcomes))
	}
	fmt.Printf("C32 cases=%d evaluated=%d nontrivial=%d stored-rows=%d distinct-outcomes=%d rows-disappear(info)=%d systems=%d exhaustive=%v\n",
		len(cases), evals.Load(), nontrivial.Load(), stored.Load(), len(outcomes), dropped.Load(), c32Sysruns.Load(), complete.Load())
	fmt.Printf("C32 sequences=%d %v evaluated=%d stored-rows=%d rows-of-2+-requests=%d (in 2+ databases=%d) with-flush-after-last-response=%d (tasks=%d) one-RequestCtx=%d header-at-same-address=%d/%d distinct-outcomes=%d systems=%d exhaustive=%v\n",
		sq.space, sq.byKind, sq.evals, sq.stored, sq.multi, sq.crossDB, sq.pendingSeqs, sq.pendingTasks, sq.sameCtx, sq.sameHdr, sq.hdrPairs, sq.outcomes, c32SSysruns.Load(), sq.complete)
	if sq.outcomes < 4 {
		fmt.Printf("C32 vacuity warning: only %d distinct sequence outcomes\n", sq.outcomes)
	}
	run.Assume("the caller is an authenticated token (token_info in the fiber context, as the global auth middleware leaves it) and RBAC is the recording checker: write on db1.m1 granted, everything else denied (phase 2: {db1,db2,default}.{m1,m2} granted)")
	run.Assume("phase 2 judges the store of the serving node only (no WAL attached: the WAL copies database and payload synchronously inside the handler, which phase 1 follows per request); the flush worker is held in the storage backend for the whole sequence - the worst admissible schedule of a slow object store - instead of racing with the requests")
	run.Assume("phase 2 attributes a stored row to its request by its numeric time value; string values of a row are not compared (row contents are C01/C02's subject)")
	run.Assume("'the database the request named' = x-arc-database if present, else the db/bucket query parameter the endpoint reads, else 'default' where the endpoint has that fallback (imports have none)")
	run.Assume("replicated leg: the entries of the writer's WAL replication hook are handed unchanged to Receiver.applyEntry (transport, HMAC and ordering are C24's subject); the reader has no local WAL")
	run.Assume("rows that a routing-like name makes DISAPPEAR (dropped column or row) are not a redirection; they are counted (info_...) and left to C05/C02")
	run.Assume("storage backend is the in-memory hx.MemBackend; key containment on real backends is C08's subject")
	os.RemoveAll(c32Scratch)
	pprof.StopCPUProfile()
	run.Finish()
}

func c32Describe(kind string, leg int) string {
	how := map[int]string{0: "on the node that served the request", 1: "on a reader node that applied the request's replicated WAL entries", 2: "on a node that recovered the request's WAL after a restart"}[leg]
	switch kind {
	case "stored-under-database-the-request-did-not-name":
		return "rows were stored " + how + " under a database other than the one the request named"
	case "stored-under-measurement-without-granted-write-check":
		return "rows were stored " + how + " under a measurement for which no write-permission check was granted"
	}
	return "a place holds more rows " + how + " than for the same request without the routing-like name"
}

// c32Sig: the non-default dimensions of a (minimal) vector.
func c32Sig(v c32Vec) string {
	ep, d := v.ep(), v.def()
	p := []string{c32TmplName(ep, v.Tmpl)}
	if v.Inj.Name != "" {
		p = append(p, v.Inj.String())
	}
	if v.Hdr != d.Hdr {
		h := c32Hdr[v.Hdr]
		if h == "" {
			h = "<absent>"
		}
		p = append(p, "x-arc-database="+h)
	}
	if v.QDB != 0 {
		p = append(p, ep.QDB+"="+c32QDB[v.QDB])
	}
	if v.Org != 0 {
		p = append(p, "org="+c32OrgV[v.Org])
	}
	if v.Prec != 0 {
		p = append(p, "precision="+c32PrecV[v.Prec])
	}
	if v.MeasSel != d.MeasSel {
		m := c32MeasSel[v.MeasSel]
		if m == "" {
			m = "<absent>"
		}
		p = append(p, "measurement-selector="+m)
	}
	return strings.Join(p, ";")
}

func c32Fmt(m map[string]int) string {
	k := make([]string, 0, len(m))
	for p, n := range m {
		k = append(k, fmt.Sprintf("%s:%d", p, n))
	}
	sort.Strings(k)
	return "{" + strings.Join(k, ",") + "}"
}

func c32Obs(r *c32Res) string {
	return fmt.Sprintf("%d %s %s %s %d %v", r.Status, c32Fmt(r.Legs[0]), c32Fmt(r.Legs[1]), c32Fmt(r.Legs[2]), r.NEntries, len(r.Granted))
}

func c32Asks(a []c32Ask) []string {
	var o []string
	seen := map[string]bool{}
	for _, x := range a {
		s := fmt.Sprintf("%s %s.%s -> %v", x.Perm, x.DB, x.Meas, x.Allowed)
		if !seen[s] {
			seen[s] = true
			o = append(o, s)
		}
	}
	return o
}

func c32Printable(b []byte) string {
	var s strings.Builder
	for _, c := range b {
		if c >= 0x20 && c < 0x7f || c == '\n' {
			s.WriteByte(c)
		} else {
			fmt.Fprintf(&s, "\\x%02x", c)
		}
	}
	return s.String()
}

// c32Probe (debugging aid, env C32_PROBE="endpoint:tmpl:hdr:qdb:org:prec:meassel[:name:pos:val];..."):
// runs single vectors and prints what was observed.
func c32Probe(spec string) {
	for _, one := range strings.Split(spec, ";") {
		f := strings.Split(one, ":")
		if len(f) < 7 {
			fmt.Println("bad probe", one)
			continue
		}
		var v c32Vec
		v.EP = -1
		for i, e := range c32EPs {
			if e.Name == f[0] {
				v.EP = i
			}
		}
		if v.EP < 0 {
			fmt.Println("unknown endpoint", f[0])
			continue
		}
		fmt.Sscan(f[1], &v.Tmpl)
		fmt.Sscan(f[2], &v.Hdr)
		fmt.Sscan(f[3], &v.QDB)
		fmt.Sscan(f[4], &v.Org)
		fmt.Sscan(f[5], &v.Prec)
		fmt.Sscan(f[6], &v.MeasSel)
		if len(f) >= 10 {
			v.Inj = c32Inj{f[7], f[8], f[9]}
		}
		r := c32Run(v)
		rq := c32Build(v)
		fmt.Printf("PROBE %s | %s\n  url=%s hdr=%v\n  body=%s\n  status=%d response=%s\n  checks=%v\n  live=%s replicated=%s wal-replay=%s entries=%d\n  fails=%+v\n",
			v.ep().Name, v, rq.URL, rq.Hdr, c32Printable(rq.Body), r.Status, strings.TrimSpace(r.Body), c32Asks(r.Asks), c32Fmt(r.Legs[0]), c32Fmt(r.Legs[1]), c32Fmt(r.Legs[2]), r.NEntries, c32Judge(v, r))
	}
}
