package main

// C32, phase 2 — request SEQUENCES through ONE long-lived server on ONE reused connection.
//
// Phase 1 (zz_verif_c32.go) sends every request to a system of its own and flushes right after it,
// so nothing the handler hands to the Arrow buffer outlives the request object it was read from.
// Here a sequence of 1..3 write/import requests is sent over ONE in-memory keep-alive connection to
// the real fasthttp server of the real fiber app (fasthttp serves a connection with ONE RequestCtx:
// header, URI and body buffers of a request are overwritten in place by the next one; the harness
// measures that the RequestCtx - and the header value's memory - really are the same), while the
// single flush worker of the ArrowBuffer is PARKED inside the storage backend: every size-triggered
// flush task waits in the queue and is executed only after the whole sequence has been answered
// (then the worker is released and the buffer closed, which also flushes what never reached
// MaxBufferSize by buffer key). Everything a handler retained without copying it has been
// overwritten by then.
// Oracle = the property, per ROW: every stored row is attributed to the request that sent it (its
// numeric time value carries the request's position) and must lie under the database THAT request
// named and under a measurement for which a write check on that database was asked and granted
// WHILE THAT request was served.

import (
	"bufio"
	"bytes"
	"context"
	"fmt"
	"io"
	"math"
	"net"
	"os"
	"path"
	"runtime"
	"sort"
	"strings"
	"sync"
	"sync/atomic"
	"time"
	"unsafe"

	"github.com/apache/arrow-go/v18/arrow"
	"github.com/apache/arrow-go/v18/arrow/array"
	"github.com/apache/arrow-go/v18/arrow/memory"
	"github.com/apache/arrow-go/v18/parquet"
	"github.com/apache/arrow-go/v18/parquet/pqarrow"
	"github.com/basekick-labs/arc/internal/api"
	"github.com/basekick-labs/arc/internal/auth"
	"github.com/basekick-labs/arc/internal/ingest"
	"github.com/basekick-labs/arc/zzverif/engine/ev"
	"github.com/basekick-labs/arc/zzverif/hx"
	"github.com/gofiber/fiber/v2"
	"github.com/rs/zerolog"
	"github.com/valyala/fasthttp"
	"github.com/valyala/fasthttp/fasthttputil"
)

// ---- domains --------------------------------------------------------------------------------------

var (
	c32SDB   = []string{"", "db1", "db2", "db9"} // x-arc-database: absent, granted, granted, denied (all of one length: an overwrite in place)
	c32SQ    = []string{"", "db1", "db2"}        // db / bucket query parameter
	c32SMeas = []string{"m1", "m2", "m9"}        // measurement (body, query selector or x-arc-measurement): granted, granted, denied
)

const (
	c32Poison  = "zz9" // database-like value of the non-write request that only overwrites the request object
	c32PoisonM = "zz"
	c32WarmUS  = c32TimeUS - 60_000_000 // time of the rows that keep the flush worker parked
	c32TLEBase = int64(1_708_417_200_000_000)
)

// the caller of phase 2 may write m1 and m2 of db1, db2 and default; nothing else
func c32SeqGrant(db, meas string) bool {
	return (db == "db1" || db == "db2" || db == "default") && (meas == "m1" || meas == "m2")
}

// c32SReq is one symbol of the sequence alphabet.
type c32SReq struct {
	Scrub                    bool // the non-write request (POST to an unrouted path carrying poison values everywhere)
	EP, Form, Hdr, QDB, Meas int
}

func (r c32SReq) ep() c32EP { return c32EPs[r.EP] }

func (r c32SReq) namedDB() string {
	if r.Scrub {
		return ""
	}
	ep := r.ep()
	if h := c32SDB[r.Hdr]; h != "" {
		return h
	}
	if ep.QDB != "" && c32SQ[r.QDB] != "" {
		return c32SQ[r.QDB]
	}
	if ep.DefaultD {
		return "default"
	}
	return ""
}

func (r c32SReq) String() string {
	if r.Scrub {
		return "non-write-request(" + c32Poison + ")"
	}
	ep := r.ep()
	var p []string
	if ep.Kind == kMsgpack {
		p = append(p, []string{"columnar", "row"}[r.Form])
	}
	h := c32SDB[r.Hdr]
	if h == "" {
		h = "<absent>"
	}
	p = append(p, "x-arc-database="+h)
	if ep.QDB != "" && r.QDB != 0 {
		p = append(p, ep.QDB+"="+c32SQ[r.QDB])
	}
	switch ep.MeasSel {
	case 1:
		if ep.Kind == kLPImport {
			p = append(p, "lines["+c32SMeas[r.Meas]+"]")
		} else {
			p = append(p, "measurement="+c32SMeas[r.Meas])
		}
	case 2:
		p = append(p, "x-arc-measurement="+c32SMeas[r.Meas])
	default:
		p = append(p, "m="+c32SMeas[r.Meas])
	}
	return ep.Name + "(" + strings.Join(p, ",") + ")"
}

// default (simplest) symbol of an endpoint: database db1 in the header, measurement m1
func c32SDef(ep int) c32SReq { return c32SReq{EP: ep, Hdr: 1} }

// full alphabet of one endpoint: form x header x query database x measurement, each where the endpoint reads it
func c32SAlpha(ep, nMeas int) []c32SReq {
	e := c32EPs[ep]
	nf, nq := 1, 1
	if e.Kind == kMsgpack {
		nf = 2
	}
	if e.QDB != "" {
		nq = len(c32SQ)
	}
	var out []c32SReq
	for f := 0; f < nf; f++ {
		for h := range c32SDB {
			for q := 0; q < nq; q++ {
				for m := 0; m < nMeas; m++ {
					out = append(out, c32SReq{EP: ep, Form: f, Hdr: h, QDB: q, Meas: m})
				}
			}
		}
	}
	return out
}

// reduced alphabet of one endpoint (cross-endpoint pairs, triples): the two granted databases by header
// with different measurements, and the second database by query parameter where the endpoint has one
func c32SReduced(ep int) []c32SReq {
	out := []c32SReq{{EP: ep, Hdr: 1, Meas: 0}, {EP: ep, Hdr: 2, Meas: 1}}
	if c32EPs[ep].QDB != "" {
		out = append(out, c32SReq{EP: ep, Hdr: 0, QDB: 2, Meas: 0})
	}
	return out
}

type c32Seq struct {
	Buf int // MaxBufferSize of the ArrowBuffer (every request carries ONE row)
	N   int
	R   [3]c32SReq
}

func (s c32Seq) reqs() []c32SReq { return s.R[:s.N] }

func (s c32Seq) String() string {
	var p []string
	for _, r := range s.reqs() {
		p = append(p, r.String())
	}
	return fmt.Sprintf("buf=%d|%s", s.Buf, strings.Join(p, " ; "))
}

func c32MkSeq(buf int, rs ...c32SReq) c32Seq {
	s := c32Seq{Buf: buf, N: len(rs)}
	copy(s.R[:], rs)
	return s
}

// ---- request construction --------------------------------------------------------------------------

func c32SeqTime(i int) int64 { return c32TimeUS + int64(i)*1_000_000 }

var c32SPqCache sync.Map

func c32SParquet(t int64) []byte {
	if b, ok := c32SPqCache.Load(t); ok {
		return b.([]byte)
	}
	sc := arrow.NewSchema([]arrow.Field{{Name: "time", Type: arrow.PrimitiveTypes.Int64}, {Name: "v", Type: arrow.PrimitiveTypes.Float64}, {Name: "host", Type: arrow.BinaryTypes.String}}, nil)
	rb := array.NewRecordBuilder(memory.DefaultAllocator, sc)
	defer rb.Release()
	rb.Field(0).(*array.Int64Builder).Append(t)
	rb.Field(1).(*array.Float64Builder).Append(1.5)
	rb.Field(2).(*array.StringBuilder).Append("a")
	rec := rb.NewRecord()
	defer rec.Release()
	tbl := array.NewTableFromRecords(sc, []arrow.Record{rec})
	defer tbl.Release()
	var out bytes.Buffer
	if err := pqarrow.WriteTable(tbl, &out, 1024, parquet.NewWriterProperties(), pqarrow.DefaultWriterProps()); err != nil {
		ev.Unbound("C32: building the parquet upload: " + err.Error())
	}
	c32SPqCache.Store(t, out.Bytes())
	return out.Bytes()
}

// c32STLE: the ISS element set with epoch day 051+i (the row's time carries the position) and a valid checksum
func c32STLE(i int) []byte {
	l := strings.Split(strings.TrimSuffix(c32TLE, "\n"), "\n")
	b := []byte(l[1])
	copy(b[20:23], fmt.Sprintf("%03d", 51+i))
	sum := 0
	for _, ch := range b[:68] {
		if ch >= '0' && ch <= '9' {
			sum += int(ch - '0')
		} else if ch == '-' {
			sum++
		}
	}
	b[68] = byte('0' + sum%10)
	return []byte(l[0] + "\n" + string(b) + "\n" + l[2] + "\n")
}

func c32SBuild(r c32SReq, i int) c32Req {
	if r.Scrub {
		return c32Req{URL: "/c32/other?db=" + c32Poison + "&bucket=" + c32Poison + "&measurement=" + c32PoisonM + "&precision=" + c32PoisonM + "&org=" + c32Poison,
			Hdr: [][2]string{{"x-arc-database", c32Poison}, {"x-arc-measurement", c32PoisonM}}, CT: "text/plain", Body: bytes.Repeat([]byte("z"), 4096)}
	}
	ep := r.ep()
	meas := c32SMeas[r.Meas]
	t := c32SeqTime(i)
	var rq c32Req
	var qs []string
	if ep.QDB != "" && r.QDB != 0 {
		qs = append(qs, ep.QDB+"="+c32SQ[r.QDB])
	}
	if ep.MeasSel == 1 && ep.Kind != kLPImport {
		qs = append(qs, "measurement="+meas)
	}
	rq.URL = ep.Path
	if len(qs) > 0 {
		rq.URL += "?" + strings.Join(qs, "&")
	}
	if h := c32SDB[r.Hdr]; h != "" {
		rq.Hdr = append(rq.Hdr, [2]string{"x-arc-database", h})
	}
	if ep.MeasSel == 2 {
		rq.Hdr = append(rq.Hdr, [2]string{"x-arc-measurement", meas})
	}
	lp := []byte(fmt.Sprintf("%s,host=a v=1.5 %d000\n", meas, t))
	switch ep.Kind {
	case kMsgpack:
		var m c32Map
		if r.Form == 1 {
			m = c32Map{{"m", meas}, {"t", t}, {"fields", c32Map{{"v", 1.5}}}, {"tags", c32Map{{"host", "a"}}}}
		} else {
			m = c32Map{{"m", meas}, {"columns", c32Map{{"time", []any{t}}, {"v", []any{1.5}}, {"host", []any{"a"}}}}}
		}
		var b bytes.Buffer
		c32Enc(&b, m)
		rq.CT, rq.Body = "application/msgpack", b.Bytes()
	case kLP:
		rq.CT, rq.Body = "text/plain", lp
	case kLPImport:
		rq.Body, rq.CT = c32Multipart(lp, "data.lp", c32Inj{})
	case kCSV:
		rq.Body, rq.CT = c32Multipart([]byte(fmt.Sprintf("time,v,host\n%d,1.5,a\n", t)), "data.csv", c32Inj{})
	case kParquet:
		rq.Body, rq.CT = c32Multipart(c32SParquet(t), "data.parquet", c32Inj{})
	case kTLEWrite:
		rq.CT, rq.Body = "text/plain", c32STLE(i)
	case kTLEImport:
		rq.Body, rq.CT = c32Multipart(c32STLE(i), "data.tle", c32Inj{})
	}
	return rq
}

// ---- the system -------------------------------------------------------------------------------------

// c32Park is the storage double: the in-memory backend, except that the first Write after arm() blocks
// until release() - that is the flush worker, which therefore executes nothing else meanwhile.
type c32Park struct {
	*hx.MemBackend
	armed   atomic.Bool
	started chan struct{}
	gate    chan struct{}
}

func (p *c32Park) Write(ctx context.Context, pth string, data []byte) error {
	if p.armed.CompareAndSwap(true, false) {
		close(p.started)
		<-p.gate
	}
	return p.MemBackend.Write(ctx, pth, data)
}

func (p *c32Park) WriteReader(ctx context.Context, pth string, r io.Reader, size int64) error {
	b, err := io.ReadAll(r)
	if err != nil {
		return err
	}
	return p.Write(ctx, pth, b)
}

type c32SeqSys struct {
	park *c32Park
	buf  *ingest.ArrowBuffer
	app  *fiber.App
	rec  *c32Recorder
	// what the first middleware saw: the RequestCtx serving each request and where the x-arc-database value lives
	ctxs []uintptr
	hdrs []uintptr
}

func c32NewSeqSys(bufsize int) *c32SeqSys {
	s := &c32SeqSys{park: &c32Park{MemBackend: hx.NewMemBackend(), started: make(chan struct{}), gate: make(chan struct{})}}
	cfg := c32IngestCfg()
	cfg.MaxBufferSize, cfg.FlushQueueSize = bufsize, 64
	s.buf = ingest.NewArrowBuffer(cfg, s.park, zerolog.Nop())
	s.rec = &c32Recorder{grant: c32SeqGrant}
	s.app = fiber.New(fiber.Config{DisableStartupMessage: true})
	tok := &auth.TokenInfo{ID: c32TokenID, Name: "c32-writer", Permissions: []string{"read", "write", "admin"}, Enabled: true}
	s.app.Use(func(c *fiber.Ctx) error {
		s.ctxs = append(s.ctxs, uintptr(unsafe.Pointer(c.Context())))
		var hp uintptr
		if v := c.Get("x-arc-database"); v != "" {
			hp = uintptr(unsafe.Pointer(unsafe.StringData(v)))
		}
		s.hdrs = append(s.hdrs, hp)
		c.Locals("token_info", tok)
		return c.Next()
	})
	lg := zerolog.Nop()
	mh := api.NewMsgPackHandler(lg, s.buf, 64<<20)
	mh.SetAuthAndRBAC(nil, s.rec)
	mh.RegisterRoutes(s.app)
	lh := api.NewLineProtocolHandler(s.buf, lg)
	lh.SetAuthAndRBAC(nil, s.rec)
	lh.RegisterRoutes(s.app)
	ih := api.NewImportHandler(lg)
	ih.SetArrowBuffer(s.buf)
	ih.SetAuthAndRBAC(nil, s.rec)
	ih.RegisterRoutes(s.app)
	th := api.NewTLEHandler(s.buf, lg)
	th.SetAuthAndRBAC(nil, s.rec)
	th.RegisterRoutes(s.app)
	s.app.Handler() // builds the route tree, as Listen does
	return s
}

// ---- execution --------------------------------------------------------------------------------------

type c32SRow struct {
	Place string
	Dir   string
	Owner int // position of the request whose row this is; -2 = no request of the sequence
	N     int
}

type c32SRes struct {
	Status    []int
	Bodies    []string
	Asks      [][]c32Ask
	Granted   []map[string]bool
	Rows      []c32SRow
	Pending   int64 // flush tasks queued (not executed) when the last request had been answered
	SameCtx   bool  // all requests of the sequence were served with the same RequestCtx
	SameHdr   int   // consecutive requests whose x-arc-database value lay at the same address
	HdrPairs  int   // consecutive requests that both carried the header
	Unreadble string
}

var (
	c32SCache   sync.Map // c32Seq -> *c32SRes
	c32SSysruns atomic.Int64
)

func c32SRun(s c32Seq) *c32SRes {
	if r, ok := c32SCache.Load(s); ok {
		return r.(*c32SRes)
	}
	r := c32SExec(s)
	c32SCache.Store(s, r)
	return r
}

func c32SExec(seq c32Seq) *c32SRes {
	c32SSysruns.Add(1)
	sys := c32NewSeqSys(seq.Buf)
	res := &c32SRes{}
	// 1. park the only flush worker: rows that reach MaxBufferSize at once are queued, the worker takes the task
	//    and blocks in the storage backend
	sys.park.armed.Store(true)
	tm, vv := make([]interface{}, seq.Buf), make([]interface{}, seq.Buf)
	for i := range tm {
		tm[i], vv[i] = c32WarmUS+int64(i), 0.5
	}
	if err := sys.buf.WriteColumnarDirect(context.Background(), "warm", "warm", map[string][]interface{}{"time": tm, "v": vv}); err != nil {
		ev.Unbound("C32: warm-up write: " + err.Error())
	}
	select {
	case <-sys.park.started:
	case <-time.After(60 * time.Second):
		ev.Unbound("C32: the flush worker never reached the storage backend (MaxBufferSize no longer queues a flush task?)")
	}
	// 2. the sequence, over one keep-alive connection to the real fasthttp server of the app
	pc := fasthttputil.NewPipeConns()
	srvDone := make(chan error, 1)
	go func() { srvDone <- sys.app.Server().ServeConn(pc.Conn1()) }()
	cli := pc.Conn2()
	br := bufio.NewReader(cli)
	for i, r := range seq.reqs() {
		st, body := c32SDo(cli, br, c32SBuild(r, i), seq, i)
		res.Status = append(res.Status, st)
		res.Bodies = append(res.Bodies, body)
		sys.rec.mu.Lock()
		asks := append([]c32Ask(nil), sys.rec.asks...)
		sys.rec.asks = nil
		sys.rec.mu.Unlock()
		sort.Slice(asks, func(a, b int) bool {
			x, y := asks[a], asks[b]
			return x.DB+"\x00"+x.Meas+"\x00"+x.Perm < y.DB+"\x00"+y.Meas+"\x00"+y.Perm
		})
		g := map[string]bool{}
		for _, a := range asks {
			if a.Allowed && a.Perm == "write" {
				g[a.DB+"/"+a.Meas] = true
			}
		}
		res.Asks = append(res.Asks, asks)
		res.Granted = append(res.Granted, g)
	}
	if d, ok := sys.buf.GetStats()["flush_queue_depth"].(int64); ok {
		res.Pending = d
	}
	// 3. only now the storage recovers: the worker and Close() execute every queued task and flush the rest by key;
	//    the connection is still open, its RequestCtx holds the LAST request
	close(sys.park.gate)
	sys.buf.Close()
	cli.Close()
	select {
	case <-srvDone:
	case <-time.After(60 * time.Second):
		ev.Unbound("C32: the server did not finish the closed connection")
	}
	res.SameCtx = len(sys.ctxs) == seq.N
	for i := 1; i < len(sys.ctxs); i++ {
		if sys.ctxs[i] != sys.ctxs[0] {
			res.SameCtx = false
		}
		if sys.hdrs[i] != 0 && sys.hdrs[i-1] != 0 {
			res.HdrPairs++
			if sys.hdrs[i] == sys.hdrs[i-1] {
				res.SameHdr++
			}
		}
	}
	// 4. every stored row, attributed to its request
	paths, files := sys.park.Snapshot()
	agg := map[[2]string]map[int]int{}
	dirs := map[string]string{}
	for _, p := range paths {
		seg := strings.SplitN(p, "/", 3)
		place := p
		if len(seg) >= 2 {
			place = seg[0] + "/" + seg[1]
		}
		if path.Clean("/" + p)[1:] != p {
			place += " [non-canonical key]"
		}
		d := p
		if i := strings.LastIndex(p, "/"); i >= 0 {
			d = p[:i]
		}
		if _, ok := dirs[place]; !ok {
			dirs[place] = d
		}
		rows, _, _, err := hx.ReadParquet(files[p])
		if err != nil {
			res.Unreadble = p + ": " + err.Error()
			continue
		}
		for _, row := range rows {
			o := c32SOwner(row, seq.N)
			if o == -1 {
				continue // a warm-up row
			}
			k := [2]string{place, ""}
			if agg[k] == nil {
				agg[k] = map[int]int{}
			}
			agg[k][o]++
		}
	}
	for k, m := range agg {
		for o, n := range m {
			res.Rows = append(res.Rows, c32SRow{Place: k[0], Dir: dirs[k[0]], Owner: o, N: n})
		}
	}
	sort.Slice(res.Rows, func(a, b int) bool {
		x, y := res.Rows[a], res.Rows[b]
		if x.Place != y.Place {
			return x.Place < y.Place
		}
		return x.Owner < y.Owner
	})
	return res
}

// c32SOwner: which request of the sequence sent this row. Time is numeric in every payload format (parsed, never a
// view of the request), so it cannot itself be changed by a later request: position i <-> c32TimeUS + i s
// (TLE rows: epoch day 051+i).
func c32SOwner(row hx.Row, n int) int {
	t, ok := row["time"].(int64)
	if !ok {
		return -2
	}
	if _, tle := row["norad_id"]; tle {
		d := float64(t-c32TLEBase) / 86_400_000_000
		i := int(math.Round(d))
		if i >= 0 && i < n && math.Abs(d-float64(i)) < 1e-4 {
			return i
		}
		return -2
	}
	if t >= c32WarmUS && t < c32WarmUS+1000 {
		return -1
	}
	if d := t - c32TimeUS; d >= 0 && d%1_000_000 == 0 && int(d/1_000_000) < n {
		return int(d / 1_000_000)
	}
	return -2
}

func c32SDo(cli net.Conn, br *bufio.Reader, rq c32Req, seq c32Seq, i int) (int, string) {
	var b bytes.Buffer
	fmt.Fprintf(&b, "POST %s HTTP/1.1\r\nHost: c32\r\nContent-Type: %s\r\n", rq.URL, rq.CT)
	for _, h := range rq.Hdr {
		fmt.Fprintf(&b, "%s: %s\r\n", h[0], h[1])
	}
	fmt.Fprintf(&b, "Content-Length: %d\r\n\r\n", len(rq.Body))
	b.Write(rq.Body)
	if _, err := cli.Write(b.Bytes()); err != nil {
		ev.Unbound(fmt.Sprintf("C32: %s: request %d: the server closed the keep-alive connection: %v", seq, i+1, err))
	}
	var resp fasthttp.Response
	if err := resp.Read(br); err != nil {
		ev.Unbound(fmt.Sprintf("C32: %s: request %d: reading the response on the keep-alive connection: %v", seq, i+1, err))
	}
	body := resp.Body()
	if len(body) > 300 {
		body = body[:300]
	}
	return resp.StatusCode(), string(body)
}

// ---- oracle ------------------------------------------------------------------------------------------

type c32SFail struct {
	Kind  string
	Owner int
	Cat   string
	Place string
}

func c32SJudge(seq c32Seq, res *c32SRes) []c32SFail {
	var out []c32SFail
	rs := seq.reqs()
	for _, row := range res.Rows {
		place := strings.TrimSuffix(row.Place, " [non-canonical key]")
		db, meas := place, ""
		if i := strings.Index(place, "/"); i >= 0 {
			db, meas = place[:i], place[i+1:]
		}
		if row.Owner < 0 {
			out = append(out, c32SFail{"stored-row-sent-by-no-request", -2, "-", row.Place})
			continue
		}
		named := rs[row.Owner].namedDB()
		// where the rows went relative to the OTHER requests served by the same connection
		rel := func(val string, of func(c32SReq) string) string {
			if strings.HasPrefix(val, c32PoisonM) {
				return "value-of-the-non-write-request"
			}
			for j, o := range rs {
				if j != row.Owner && !o.Scrub && of(o) == val {
					if j > row.Owner {
						return "value-of-a-later-request"
					}
					return "value-of-an-earlier-request"
				}
			}
			return "other"
		}
		switch {
		case named == "" || db != named || row.Place != place:
			out = append(out, c32SFail{"stored-under-database-the-request-did-not-name", row.Owner, "database:" + rel(db, c32SReq.namedDB), row.Place})
		case !res.Granted[row.Owner][place]:
			out = append(out, c32SFail{"stored-under-measurement-without-granted-write-check", row.Owner, "measurement:" + rel(meas, func(o c32SReq) string { return c32SMeas[o.Meas] }), row.Place})
		}
	}
	return out
}

func c32SHas(fs []c32SFail, kind string, owner int, cat string) (c32SFail, bool) {
	for _, f := range fs {
		if f.Kind == kind && f.Owner == owner && f.Cat == cat {
			return f, true
		}
	}
	return c32SFail{}, false
}

// c32SMinimise: drop requests, then make every remaining one as simple as possible (the non-write request is the
// simplest neighbour; then default form / header db1 / no query database / m1), then the least buffer size - as
// long as the same failure (kind, whose rows, where they went relative to the other requests) is still observed.
func c32SMinimise(seq c32Seq, f c32SFail, bufs []int) (c32Seq, int) {
	owner := f.Owner
	fails := func(c c32Seq, o int) bool {
		_, ok := c32SHas(c32SJudge(c, c32SRun(c)), f.Kind, o, f.Cat)
		return ok
	}
	cur := seq
	for changed := true; changed; {
		changed = false
		// drop one request that is not the owner
		for j := cur.N - 1; j >= 0 && owner >= 0; j-- {
			if j == owner {
				continue
			}
			var rs []c32SReq
			for k, r := range cur.reqs() {
				if k != j {
					rs = append(rs, r)
				}
			}
			o := owner
			if j < owner {
				o--
			}
			// the row's time encodes the position: re-running the shorter sequence re-numbers it consistently
			if c := c32MkSeq(cur.Buf, rs...); fails(c, o) {
				cur, owner, changed = c, o, true
				break
			}
		}
		for j := 0; j < cur.N; j++ {
			try := func(r c32SReq) bool {
				c := cur
				c.R[j] = r
				if c != cur && fails(c, owner) {
					cur, changed = c, true
					return true
				}
				return false
			}
			r := cur.R[j]
			if r.Scrub {
				continue
			}
			if j != owner && try(c32SReq{Scrub: true}) {
				continue
			}
			if j != owner {
				// the neighbour's endpoint: the first endpoint (in c32EPs order) that still does it with the same values
				for e := 0; e < r.EP; e++ {
					c := c32SReq{EP: e, Hdr: r.Hdr, Meas: r.Meas}
					if c32EPs[e].QDB != "" {
						c.QDB = r.QDB
					}
					if try(c) {
						break
					}
				}
			}
			dim := func(get func(*c32SReq) *int, order []int) {
				for _, x := range order {
					r := cur.R[j]
					if x == *get(&r) {
						return
					}
					*get(&r) = x
					if (c32EPs[r.EP].QDB != "" || r.QDB == 0) && try(r) {
						return
					}
				}
			}
			dim(func(r *c32SReq) *int { return &r.Form }, []int{0, 1})
			dim(func(r *c32SReq) *int { return &r.Hdr }, []int{1, 0, 2, 3})
			dim(func(r *c32SReq) *int { return &r.QDB }, []int{0, 1, 2})
			dim(func(r *c32SReq) *int { return &r.Meas }, []int{0, 1, 2})
		}
		// db1 <-> db2 and m1 <-> m2 are symmetric for the caller: prefer the sequence whose owner (then the others) uses
		// the first of each
		for _, sw := range [][2]bool{{true, false}, {false, true}} {
			c := cur
			for j := 0; j < c.N; j++ {
				r := &c.R[j]
				if r.Scrub {
					continue
				}
				if sw[0] {
					r.Hdr = [4]int{0, 2, 1, 3}[r.Hdr]
					r.QDB = [3]int{0, 2, 1}[r.QDB]
				}
				if sw[1] {
					r.Meas = [3]int{1, 0, 2}[r.Meas]
				}
			}
			if c != cur && c32SWeight(c, owner) < c32SWeight(cur, owner) && fails(c, owner) {
				cur, changed = c, true
			}
		}
		for _, b := range bufs {
			if b >= cur.Buf {
				break
			}
			c := cur
			c.Buf = b
			if fails(c, owner) {
				cur, changed = c, true
				break
			}
		}
	}
	return cur, owner
}

// c32SWeight orders sequences of one shape for the symmetry step: owner first, then the others in order
func c32SWeight(s c32Seq, owner int) string {
	w := func(r c32SReq) string {
		return fmt.Sprintf("%d%d%d%d|", [4]int{1, 0, 2, 3}[r.Hdr], r.QDB, r.Meas, r.Form)
	}
	out := ""
	if owner >= 0 {
		out = w(s.R[owner])
	}
	for j := 0; j < s.N; j++ {
		if j != owner {
			out += w(s.R[j])
		}
	}
	return out
}

func c32SObs(r *c32SRes) string {
	var p []string
	for _, x := range r.Rows {
		p = append(p, fmt.Sprintf("%s#%d:%d", x.Place, x.Owner+1, x.N))
	}
	return fmt.Sprintf("%v %s pending=%d", r.Status, strings.Join(p, ","), r.Pending)
}

func c32SDescribe(kind string) string {
	how := " (requests sent one after the other over one keep-alive connection; the flush ran after the later requests had been served)"
	switch kind {
	case "stored-under-database-the-request-did-not-name":
		return "rows of an acknowledged request were stored under a database other than the one that request named" + how
	case "stored-under-measurement-without-granted-write-check":
		return "rows of a request were stored under a measurement for which no write-permission check was granted while that request was served" + how
	}
	return "a stored row carries no request's values" + how
}

// ---- enumeration --------------------------------------------------------------------------------------

type c32SeqTier struct {
	nMeas   int
	bufs    []int
	triples bool
}

func c32SeqEnumerate(t c32SeqTier) ([]c32Seq, map[string]int) {
	seen := map[c32Seq]bool{}
	var out []c32Seq
	count := map[string]int{}
	add := func(kind string, s c32Seq) {
		if !seen[s] {
			seen[s] = true
			out = append(out, s)
			count[kind]++
		}
	}
	scrub := c32SReq{Scrub: true}
	var full, red [][]c32SReq
	for e := range c32EPs {
		full = append(full, c32SAlpha(e, t.nMeas))
		red = append(red, c32SReduced(e))
	}
	for _, buf := range t.bufs {
		for e := range c32EPs {
			for _, x := range full[e] {
				add("single", c32MkSeq(buf, x))
				add("request+non-write-request", c32MkSeq(buf, x, scrub))
			}
		}
		for e := range c32EPs {
			for _, x := range full[e] {
				if t.triples && buf <= 2 {
					// thorough: all ordered pairs over the full alphabet of all endpoints (two one-row requests never reach a
					// MaxBufferSize above 2: there only the same-endpoint pairs below)
					for e2 := range c32EPs {
						for _, y := range full[e2] {
							add("pair", c32MkSeq(buf, x, y))
						}
					}
					continue
				}
				for _, y := range full[e] {
					add("pair-same-endpoint", c32MkSeq(buf, x, y))
				}
			}
		}
		if !t.triples {
			for e := range c32EPs {
				for _, x := range red[e] {
					for e2 := range c32EPs {
						for _, y := range red[e2] {
							add("pair-cross-endpoint(reduced)", c32MkSeq(buf, x, y))
							add("pair(reduced)+non-write-request", c32MkSeq(buf, x, y, scrub))
						}
					}
				}
			}
			continue
		}
		var ra []c32SReq
		for e := range c32EPs {
			ra = append(ra, red[e]...)
		}
		rs := append(append([]c32SReq{}, ra...), scrub)
		for _, x := range ra {
			for _, y := range rs {
				for _, z := range rs {
					add("triple(reduced)", c32MkSeq(buf, x, y, z))
				}
			}
		}
	}
	return out, count
}

type c32SeqCov struct {
	evals, nontrivial, stored, multi, crossDB, pendingSeqs, pendingTasks int64
	sameCtx, hdrPairs, sameHdr                                           int64
	space                                                                int
	byKind                                                               map[string]int
	outcomes                                                             int
	complete                                                             bool
	samples                                                              []any
	tier                                                                 c32SeqTier
	status                                                               map[string]int
}

func c32SeqPhase(run *ev.Run) *c32SeqCov {
	tier := c32SeqTier{nMeas: 2, bufs: []int{1, 2}}
	if !run.Quick() {
		tier = c32SeqTier{nMeas: 3, bufs: []int{1, 2, 3}, triples: true}
	}
	cases, byKind := c32SeqEnumerate(tier)
	if run.Seed != 0 {
		s := uint64(run.Seed)*2654435761 + 7
		for i := len(cases) - 1; i > 0; i-- {
			s = s*6364136223846793005 + 1442695040888963407
			j := int((s >> 33) % uint64(i+1))
			cases[i], cases[j] = cases[j], cases[i]
		}
	}
	cov := &c32SeqCov{space: len(cases), byKind: byKind, tier: tier, status: map[string]int{}}
	var (
		next                                                                          atomic.Int64
		evals, nontrivial, stored, multi, crossDB, pendS, pendT, sameCtx, hdrP, sameH atomic.Int64
		complete                                                                      atomic.Bool
		mu                                                                            sync.Mutex
		outcomes                                                                      = map[string]int{}
		minDone                                                                       = map[string]bool{}
		samples                                                                       = ev.NewSamples(4)
	)
	complete.Store(true)
	workers := runtime.GOMAXPROCS(0)
	if workers > 16 {
		workers = 16
	}
	var wg sync.WaitGroup
	for w := 0; w < workers; w++ {
		wg.Add(1)
		go func() {
			defer wg.Done()
			for {
				i := int(next.Add(1)) - 1
				if i >= len(cases) {
					return
				}
				if run.TimeUp() {
					complete.Store(false)
					return
				}
				seq := cases[i]
				res := c32SRun(seq)
				if res.Unreadble != "" {
					ev.Unbound("C32: stored object is not a readable Parquet file: " + res.Unreadble)
				}
				fails := c32SJudge(seq, res)
				evals.Add(1)
				if seq.N > 1 {
					nontrivial.Add(1) // non-trivial: at least one request is served after another one on the same connection
				}
				owners, dbs := map[int]bool{}, map[string]bool{}
				for _, r := range res.Rows {
					owners[r.Owner] = true
					dbs[strings.SplitN(r.Place, "/", 2)[0]] = true
				}
				if len(owners) > 0 {
					stored.Add(1)
				}
				if len(owners) > 1 {
					multi.Add(1)
				}
				if len(owners) > 1 && len(dbs) > 1 {
					crossDB.Add(1)
				}
				if res.Pending > 0 {
					pendS.Add(1)
					pendT.Add(res.Pending)
				}
				if res.SameCtx {
					sameCtx.Add(1)
				}
				hdrP.Add(int64(res.HdrPairs))
				sameH.Add(int64(res.SameHdr))
				var oc []string
				for k, r := range seq.reqs() {
					n := "other"
					if !r.Scrub {
						n = r.ep().Name
					}
					oc = append(oc, fmt.Sprintf("%s:%d", n, res.Status[k]))
				}
				var pl []string
				for _, r := range res.Rows {
					pl = append(pl, fmt.Sprintf("%s#%d", r.Place, r.Owner+1))
				}
				mu.Lock()
				outcomes[fmt.Sprintf("buf=%d pending=%d %v", seq.Buf, res.Pending, pl)]++
				for _, o := range oc {
					cov.status[o]++
				}
				mu.Unlock()
				if len(owners) > 1 && len(dbs) > 1 && res.Pending > 0 {
					samples.Add(map[string]any{"sequence": seq.String(), "status": res.Status, "stored_rows(place#request:rows)": c32SObs(res),
						"flush_tasks_executed_after_the_last_response": res.Pending})
				}
				for _, f := range fails {
					mseq, mo := c32SMinimise(seq, f, tier.bufs)
					mres := c32SRun(mseq)
					mf, _ := c32SHas(c32SJudge(mseq, mres), f.Kind, mo, f.Cat)
					who := "-"
					if mo >= 0 {
						who = fmt.Sprintf("#%d", mo+1)
					}
					sig := fmt.Sprintf("reused-connection|%s|%s|rows-of=%s|stored=%s", f.Kind, mseq, who, f.Cat)
					mu.Lock()
					first := !minDone[sig]
					minDone[sig] = true
					var replay any
					if first {
						// replay twice on fresh systems. The misplaced rows are an observed fact either way; where exactly retained
						// request memory points to may legitimately differ between runs (pooled body buffers), so only a replay
						// that does not show the failure class at all is treated as a harness problem
						a, b := c32SExec(mseq), c32SExec(mseq)
						_, okA := c32SHas(c32SJudge(mseq, a), f.Kind, mo, f.Cat)
						_, okB := c32SHas(c32SJudge(mseq, b), f.Kind, mo, f.Cat)
						if !okA && !okB {
							os.RemoveAll(c32Scratch)
							ev.Nondeterminism(fmt.Sprintf("C32: sequence %s gave different observations on replay: %s / %s / %s", mseq, c32SObs(mres), c32SObs(a), c32SObs(b)))
						}
						identical := c32SObs(a) == c32SObs(b) && c32SObs(a) == c32SObs(mres)
						var reqs []any
						for k, r := range mseq.reqs() {
							rq := c32SBuild(r, k)
							reqs = append(reqs, map[string]any{"n": k + 1, "request": r.String(), "url": rq.URL, "headers": rq.Hdr, "content_type": rq.CT, "body_text": c32Printable(rq.Body),
								"request_named_database": r.namedDB(), "status": mres.Status[k], "response_body": mres.Bodies[k], "permission_checks": c32Asks(mres.Asks[k])})
						}
						replay = map[string]any{"max_buffer_size": mseq.Buf, "requests_on_one_keepalive_connection": reqs, "stored_rows(place#request:rows)": c32SObs(mres),
							"offending_place": mf.Place, "replays_identical": identical, "flush_tasks_executed_after_the_last_response": mres.Pending, "first_raw_case": seq.String(),
							"how_to_replay": "cd /verif && C32_SEQ_PROBE='" + c32SeqSpec(mseq) + "' ./check C32 quick ; caller: token granted write on {db1,db2,default}.{m1,m2}; " +
								"one flush worker, parked in the storage backend until the last response was read"}
					}
					run.Violate(sig, c32SDescribe(f.Kind), replay)
					mu.Unlock()
				}
			}
		}()
	}
	wg.Wait()
	cov.evals, cov.nontrivial, cov.stored, cov.multi, cov.crossDB = evals.Load(), nontrivial.Load(), stored.Load(), multi.Load(), crossDB.Load()
	cov.pendingSeqs, cov.pendingTasks, cov.sameCtx, cov.hdrPairs, cov.sameHdr = pendS.Load(), pendT.Load(), sameCtx.Load(), hdrP.Load(), sameH.Load()
	cov.outcomes, cov.complete, cov.samples = len(outcomes), complete.Load(), samples.List()
	// vacuity guards of the mechanism itself (not of the property): without them the phase would explore nothing
	if cov.complete && (cov.sameCtx != cov.evals || cov.pendingSeqs == 0 || (cov.hdrPairs > 0 && cov.sameHdr == 0)) {
		ev.Unbound(fmt.Sprintf("C32: sequence phase no longer exercises request-object reuse: same RequestCtx in %d of %d sequences, %d sequences with queued flush tasks, header value at the same address in %d of %d consecutive pairs",
			cov.sameCtx, cov.evals, cov.pendingSeqs, cov.sameHdr, cov.hdrPairs))
	}
	return cov
}

func (c *c32SeqCov) rule() string {
	bs := fmt.Sprint(c.tier.bufs)
	pairs := "all ordered pairs of requests to the SAME endpoint over that alphabet + all ordered pairs over the reduced alphabet of ALL endpoints (per endpoint: header db1/m1, header db2/m2, and query-parameter db2/m1 where the endpoint reads one), each of the latter also followed by the non-write request"
	if c.tier.triples {
		pairs = "all ordered pairs over the full alphabet of all endpoints (MaxBufferSize 3: of requests to the same endpoint) + all triples x;y;z with x in the reduced alphabet of all endpoints (per endpoint: header db1/m1, header db2/m2, query-parameter db2/m1 where read) and y,z in it or the non-write request"
	}
	return fmt.Sprintf("PHASE 2 (request sequences, live store): per MaxBufferSize in %s (every request carries one row): every single request, every request followed by a non-write request that "+
		"overwrites header/query/body with the value %s, and %s; per-endpoint alphabet = [msgpack: columnar|row item] x x-arc-database {<absent>,db1,db2,db9} x db|bucket {<absent>,db1,db2} (where read) x "+
		"measurement {%s} (body m / line / query measurement / x-arc-measurement, as the endpoint takes it); caller granted {db1,db2,default}.{m1,m2}. Each sequence = one fresh real fiber app + handlers + "+
		"ArrowBuffer (1 shard, 1 flush worker, no WAL), the requests sent one by one over ONE in-memory keep-alive connection to the app's fasthttp server (one RequestCtx, measured), the flush worker parked in "+
		"the storage backend from before the first request until the last response was read, then released and the buffer closed; every stored ROW is attributed to its request by its time value and judged "+
		"against what that request named and was granted; non-trivial = a sequence in which at least one request is followed by another one", bs, c32Poison, pairs, strings.Join(c32SMeas[:c.tier.nMeas], ","))
}

// ---- probe ----------------------------------------------------------------------------------------------

// spec: "buf;ep:form:hdr:qdb:meas;...;S" (S = the non-write request)
func c32SeqSpec(s c32Seq) string {
	p := []string{fmt.Sprint(s.Buf)}
	for _, r := range s.reqs() {
		if r.Scrub {
			p = append(p, "S")
		} else {
			p = append(p, fmt.Sprintf("%s:%d:%d:%d:%d", r.ep().Name, r.Form, r.Hdr, r.QDB, r.Meas))
		}
	}
	return strings.Join(p, ";")
}

func c32SeqProbe(spec string) {
	for _, one := range strings.Split(spec, "|") {
		f := strings.Split(one, ";")
		var buf int
		fmt.Sscan(f[0], &buf)
		var rs []c32SReq
		for _, x := range f[1:] {
			if x == "S" {
				rs = append(rs, c32SReq{Scrub: true})
				continue
			}
			g := strings.Split(x, ":")
			if len(g) != 5 {
				fmt.Println("bad probe", x)
				return
			}
			r := c32SReq{EP: -1}
			for i, e := range c32EPs {
				if e.Name == g[0] {
					r.EP = i
				}
			}
			if r.EP < 0 {
				fmt.Println("unknown endpoint", g[0])
				return
			}
			fmt.Sscan(g[1], &r.Form)
			fmt.Sscan(g[2], &r.Hdr)
			fmt.Sscan(g[3], &r.QDB)
			fmt.Sscan(g[4], &r.Meas)
			rs = append(rs, r)
		}
		if buf < 1 || len(rs) < 1 || len(rs) > 3 {
			fmt.Println("bad probe", one)
			return
		}
		seq := c32MkSeq(buf, rs...)
		res := c32SExec(seq)
		fmt.Printf("SEQ-PROBE %s\n", seq)
		for k, r := range seq.reqs() {
			rq := c32SBuild(r, k)
			fmt.Printf("  #%d %s  url=%s hdr=%v named=%q\n     status=%d response=%s checks=%v\n", k+1, r, rq.URL, rq.Hdr, r.namedDB(), res.Status[k], strings.TrimSpace(res.Bodies[k]), c32Asks(res.Asks[k]))
		}
		fmt.Printf("  stored(place#request:rows)=%s same-ctx=%v header-at-same-address=%d/%d unreadable=%q\n  fails=%+v\n", c32SObs(res), res.SameCtx, res.SameHdr, res.HdrPairs, res.Unreadble, c32SJudge(seq, res))
	}
}
