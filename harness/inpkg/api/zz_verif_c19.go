package api

import "context"

// Accessor added by overlay for check C19 only (never compiled into the repository build).

// VerifC19Transformed returns the SQL text the real handlers hand to DuckDB for sql: the JSON/MessagePack
// path (getTransformedSQLForParallel) and the Arrow IPC path (getTransformedSQL). C19 evaluates its
// oracle on exactly this text, so that a rewrite (C15/C17's business) can never be blamed on an encoder.
func (h *QueryHandler) VerifC19Transformed(ctx context.Context, sql string) (jsonPath, arrowPath string) {
	j, _, _ := h.getTransformedSQLForParallel(ctx, sql, "")
	a, _ := h.getTransformedSQL(ctx, sql, "")
	return j, a
}
