package api

import "context"

// Accessor added by overlay for check C18 (remote-storage histories) only.

// VerifReadParquetExpr runs the handler's real table-reference rewrite step (buildReadParquetExpr: partition
// pruning of `path` for the statement `sql`, then the read_parquet(...) expression DuckDB would be given)
// for an explicit storage path. storage.GetStoragePath only yields s3:// / azure:// paths for the concrete
// SDK-backed backends, which cannot be built offline; everything after that point is the production code.
func (h *QueryHandler) VerifReadParquetExpr(ctx context.Context, path, sql string) string {
	return h.buildReadParquetExpr(ctx, path, sql, "FROM")
}
