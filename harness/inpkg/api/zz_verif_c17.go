package api

// Accessors added by overlay for check C17 only (never compiled into the repository build).
// They expose the unexported rewrite functions; no logic is copied.

// VerifRewriteTimeBucket calls the real rewriteTimeBucket.
func VerifRewriteTimeBucket(sql string) string { return rewriteTimeBucket(sql) }

// VerifRewriteDateTrunc calls the real rewriteDateTrunc.
func VerifRewriteDateTrunc(sql string) string { return rewriteDateTrunc(sql) }
