package api

import (
	"context"

	"github.com/basekick-labs/arc/internal/pruning"
)

// Accessors added by overlay for check C18 only (never compiled into the repository build).

// VerifPruner exposes the handler's real partition pruner (to switch it off for the reference run).
func (h *QueryHandler) VerifPruner() *pruning.PartitionPruner { return h.pruner }

// VerifTransformedSQL returns what the real transform produces for sql (diagnostics in replay files only).
func (h *QueryHandler) VerifTransformedSQL(ctx context.Context, sql, headerDB string) string {
	s, _, _ := h.getTransformedSQLForParallel(ctx, sql, headerDB)
	return s
}
