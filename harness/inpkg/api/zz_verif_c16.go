package api

// Accessor added by overlay for check C16 only (never compiled into the repository build).
// It exposes the hit/miss counters of the handler's SQL transform cache so the check can
// record, as measured evidence, that both cache states (cold = miss, warm = hit) were exercised.
// No logic is copied.

// VerifTransformCacheStats returns the real cache's Stats().
func (h *QueryHandler) VerifTransformCacheStats() map[string]interface{} {
	return h.queryCache.Stats()
}
