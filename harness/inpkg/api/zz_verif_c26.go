package api

// Added by overlay for check C26 only (never compiled into the repository build).

// VerifC26SyncHeaders exposes the edge-sync wire header names (unexported constants).
func VerifC26SyncHeaders() map[string]string {
	return map[string]string{
		"spoke": headerSpokeID, "hub": headerHubID, "path": headerPath, "sha256": headerSHA256,
		"size": headerSize, "nonce": headerNonce, "ts": headerTS, "mac": headerMAC,
	}
}
