package api

import (
	"context"

	"github.com/basekick-labs/arc/internal/tiering"
)

// Accessors added by overlay for check C12 only (never compiled into the repository build). Pure calls
// of the handler's unexported multi-tier path builders; no logic of their own.

// VerifC12MultiTierExpr calls the real buildMultiTierReadParquet.
func (h *QueryHandler) VerifC12MultiTierExpr(database, measurement string, tieredPaths map[tiering.Tier]string, keyword string) string {
	return h.buildMultiTierReadParquet(database, measurement, tieredPaths, keyword)
}

// VerifC12ExprForMeasurement calls the real tiering-aware expression builder of the single-table fast path.
func (h *QueryHandler) VerifC12ExprForMeasurement(ctx context.Context, database, measurement, originalSQL, keyword string) string {
	return h.buildReadParquetExprForMeasurement(ctx, database, measurement, originalSQL, keyword)
}

// VerifC12TransformSQL calls the real table-reference -> read_parquet conversion for a whole statement.
func (h *QueryHandler) VerifC12TransformSQL(ctx context.Context, sql, headerDB string) string {
	s, _ := h.getTransformedSQL(ctx, sql, headerDB)
	return s
}
