package api

// In-package accessors for check C11 (added to internal/api by `go build -overlay`; expose only, no logic).

import (
	"context"
	"time"
)

// VerifC11DeleteOldFiles calls the unexported per-measurement retention step with an exact cutoff.
func (h *RetentionHandler) VerifC11DeleteOldFiles(ctx context.Context, database, measurement string, cutoff time.Time, dryRun bool) (int64, int, error) {
	return h.deleteOldFiles(ctx, database, measurement, cutoff, dryRun, "verif:c11")
}

// VerifC11Measurements calls the unexported measurement discovery for a stored policy.
func (h *RetentionHandler) VerifC11Measurements(ctx context.Context, policyID int64) ([]string, error) {
	p, err := h.getPolicy(policyID)
	if err != nil {
		return nil, err
	}
	return h.getMeasurementsToProcess(ctx, p)
}
