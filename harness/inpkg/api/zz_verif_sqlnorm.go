package api

// Accessors added by overlay for the C15 model check only (never compiled into the repository build).
// They expose the unexported comment/feature scanners of query.go; no logic lives here.

// VerifSQLFeatures returns scanSQLFeatures(sql) as (hasQuotes, hasDashComment, hasBlockComment).
func VerifSQLFeatures(sql string) (bool, bool, bool) {
	f := scanSQLFeatures(sql)
	return f.hasQuotes, f.hasDashComment, f.hasBlockComment
}

// VerifStripSQLComments calls stripSQLComments.
func VerifStripSQLComments(sql string, hasComments bool) string {
	return stripSQLComments(sql, hasComments)
}

// VerifNormalizeSQLForShow calls normalizeSQLForShow (mask -> strip comments -> unmask -> TrimSpace).
func VerifNormalizeSQLForShow(sql string) string { return normalizeSQLForShow(sql) }
