package scheduler

// VerifFire runs, synchronously on the caller's goroutine, exactly what runJob does when the job's
// ticker fires with a valid licence and no cluster gate: s.executeJob(job) for the job currently
// registered for cqID. It returns false when no job is registered (scheduler stopped, CQ inactive).
// Added by overlay for the C29 harness only; exposes, copies no logic.
func (s *CQScheduler) VerifFire(cqID int64) bool {
	s.mu.RLock()
	job := s.jobs[cqID]
	s.mu.RUnlock()
	if job == nil {
		return false
	}
	s.executeJob(job)
	return true
}
