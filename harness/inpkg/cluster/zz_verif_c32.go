package cluster

import (
	"github.com/basekick-labs/arc/internal/cluster/replication"
	"github.com/basekick-labs/arc/internal/ingest"
	"github.com/rs/zerolog"
)

// Added by overlay for check C32 only (never compiled into the repository build).
//
// VerifC32ReplicationIngestHandler returns the REAL handler a reader node installs in its
// replication receiver (Coordinator.buildReplicationIngestHandler), bound to buf. The Coordinator
// carries nothing else: the handler only reads c.mu, c.ingestBuffer and c.logger.
func VerifC32ReplicationIngestHandler(buf *ingest.ArrowBuffer) replication.IngestHandler {
	c := &Coordinator{logger: zerolog.Nop(), ingestBuffer: buf}
	return c.buildReplicationIngestHandler()
}
