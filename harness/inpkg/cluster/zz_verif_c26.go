package cluster

import (
	"net"
	"time"

	"github.com/basekick-labs/arc/internal/cluster/security"
	"github.com/basekick-labs/arc/internal/config"
	"github.com/rs/zerolog"
)

// Added by overlay for check C26 only (never compiled into the repository build).
//
// VerifC26Coordinator returns a Coordinator carrying exactly what the peer-connection authentication
// path reads: cluster secret + name, a logger, and the nonce cache built by the SAME expression
// Coordinator.Start uses (verifC26StartNonceCache is generated from coordinator.go at check time).
// No Raft node, no replication sender: a request that passes validate-then-Track is answered with
// "raft not initialized" / "not configured as a writer", which is how the harness sees "accepted".
func VerifC26Coordinator(secret, clusterName string) *Coordinator {
	c := &Coordinator{
		cfg:    &config.ClusterConfig{SharedSecret: secret, ClusterName: clusterName},
		logger: zerolog.Nop(),
	}
	c.nonceCache = c.verifC26StartNonceCache()
	return c
}

// VerifC26HandlePeer runs the real dispatcher for one accepted peer connection.
func (c *Coordinator) VerifC26HandlePeer(conn net.Conn) { c.handlePeerConnection(conn) }

func (c *Coordinator) VerifC26NonceCache() *security.NonceCache { return c.nonceCache }

// Tolerances the two handlers pass to their validators (expressions generated from the call sites).
func (c *Coordinator) VerifC26ForwardTolerance() time.Duration { return c.verifC26ForwardTol() }
func (c *Coordinator) VerifC26ReplicateSyncTolerance() time.Duration {
	return c.verifC26ReplicateSyncTol()
}
