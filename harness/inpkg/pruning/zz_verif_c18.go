package pruning

// Accessors added by overlay for check C18 only (never compiled into the repository build).
// They flip / read the unexported `enabled` switch of the real pruner; no logic is copied.

// VerifSetEnabled turns partition pruning on or off (OptimizeTablePath returns the original path when off).
func (p *PartitionPruner) VerifSetEnabled(on bool) { p.enabled = on }

// VerifEnabled reports the current switch.
func (p *PartitionPruner) VerifEnabled() bool { return p.enabled }
