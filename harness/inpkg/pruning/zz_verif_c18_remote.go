package pruning

import "time"

// Accessors added by overlay for check C18 (remote-storage histories) only; never compiled into the
// repository build. They only move / read state of the real caches; no logic is copied.

// VerifAgeCaches makes every entry of the glob cache and of the partition cache d older (its expiry moves d
// closer), exactly what the passage of d of wall time does to them. The check uses it instead of sleeping
// through the 30 s / 60 s TTLs.
func (p *PartitionPruner) VerifAgeCaches(d time.Duration) {
	p.globCache.mu.Lock()
	for k, e := range p.globCache.entries {
		e.expiresAt = e.expiresAt.Add(-d)
		p.globCache.entries[k] = e
	}
	p.globCache.mu.Unlock()
	p.partitionCache.mu.Lock()
	for k, e := range p.partitionCache.entries {
		e.expiresAt = e.expiresAt.Add(-d)
		p.partitionCache.entries[k] = e
	}
	p.partitionCache.mu.Unlock()
}

// VerifCacheCounters reports hits / misses of both caches (vacuity evidence: the histories do reach the
// cache-hit paths).
func (p *PartitionPruner) VerifCacheCounters() (globHits, globMisses, partHits, partMisses int64) {
	gh, gm, _ := p.globCache.stats()
	ph, pm, _ := p.partitionCache.stats()
	return gh, gm, ph, pm
}

// VerifCacheTTLs exposes the production TTL constants the staleness allowance of the oracle is derived from.
func VerifCacheTTLs() (glob, partition time.Duration) { return GlobCacheTTL, PartitionCacheTTL }

// VerifCacheSnapshot is a verbatim copy of the entries of both caches (entries are immutable once stored:
// set() stores a private copy, get() hands out copies / the stored result is only read by callers).
type VerifCacheSnapshot struct {
	at   time.Time
	glob map[string]globCacheEntry
	part map[string]partitionCacheEntry
}

// VerifSnapshotCaches copies the current entries; VerifRestoreCaches puts such a copy back. The check uses the
// pair to branch many continuations off one executed history prefix instead of re-executing the prefix
// (sampled continuations are re-executed linearly on a fresh handler and compared). Expiry instants are
// absolute wall-clock times, so a restore moves them by the wall time that passed since the snapshot: the
// restored state is "the prefix has just finished", however long the sibling continuations took.
func (p *PartitionPruner) VerifSnapshotCaches() *VerifCacheSnapshot {
	s := &VerifCacheSnapshot{at: time.Now(), glob: map[string]globCacheEntry{}, part: map[string]partitionCacheEntry{}}
	p.globCache.mu.RLock()
	for k, e := range p.globCache.entries {
		s.glob[k] = e
	}
	p.globCache.mu.RUnlock()
	p.partitionCache.mu.RLock()
	for k, e := range p.partitionCache.entries {
		s.part[k] = e
	}
	p.partitionCache.mu.RUnlock()
	return s
}

func (p *PartitionPruner) VerifRestoreCaches(s *VerifCacheSnapshot) {
	shift := time.Since(s.at)
	g := make(map[string]globCacheEntry, len(s.glob))
	for k, e := range s.glob {
		e.expiresAt = e.expiresAt.Add(shift)
		g[k] = e
	}
	pc := make(map[string]partitionCacheEntry, len(s.part))
	for k, e := range s.part {
		e.expiresAt = e.expiresAt.Add(shift)
		pc[k] = e
	}
	p.globCache.mu.Lock()
	p.globCache.entries = g
	p.globCache.mu.Unlock()
	p.partitionCache.mu.Lock()
	p.partitionCache.entries = pc
	p.partitionCache.mu.Unlock()
}
