package security

import (
	"sync/atomic"
	"time"
)

// Added by overlay for check C26 only (never compiled into the repository build).
//
// verifNow is what the overlay-rewritten copies of nonce_cache.go / auth.go / edgesync_auth.go call
// instead of time.Now (the rewrite is generated from the current repository files on every run).
// With no virtual time set it is time.Now.

var (
	verifClockNs    atomic.Int64
	verifClockReads atomic.Int64
)

func verifNow() time.Time {
	verifClockReads.Add(1)
	if n := verifClockNs.Load(); n != 0 {
		return time.Unix(0, n)
	}
	return time.Now()
}

// VerifSetClock pins the package's time source to the given unix-nanosecond instant (0 = real time).
func VerifSetClock(unixNanos int64) { verifClockNs.Store(unixNanos) }

// VerifClockReads reports how often the rewritten code asked for the time (binding evidence).
func VerifClockReads() int64 { return verifClockReads.Load() }

// VerifTTL exposes the retention the cache was constructed with.
func (nc *NonceCache) VerifTTL() time.Duration { return nc.ttl }

func verifSince(t time.Time) time.Duration { return verifNow().Sub(t) }
func verifUntil(t time.Time) time.Duration { return t.Sub(verifNow()) }
