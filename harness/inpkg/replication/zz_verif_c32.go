package replication

import "context"

// Added by overlay for check C32 only (never compiled into the repository build).
//
// VerifC32Applier wraps a Receiver that was never connected: ApplyEntry runs the real applyEntry
// (local WAL append if configured, then the configured IngestHandler) for one received entry.
type VerifC32Applier struct{ r *Receiver }

func VerifC32NewApplier(cfg *ReceiverConfig) *VerifC32Applier {
	r := NewReceiver(cfg)
	r.ctx, r.cancelFunc = context.WithCancel(context.Background())
	return &VerifC32Applier{r: r}
}

func (a *VerifC32Applier) ApplyEntry(e *ReplicateEntry) error { return a.r.applyEntry(e) }
func (a *VerifC32Applier) Close()                             { a.r.cancelFunc() }
