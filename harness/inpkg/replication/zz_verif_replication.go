package replication

import (
	"context"
	"net"
	"unsafe"
)

// VerifSeqPtr is the address of the sender's sequence counter (registered as a watched atomic so
// that the assignment of a sequence number is a scheduling point).
func (s *Sender) VerifSeqPtr() unsafe.Pointer { return unsafe.Pointer(&s.sequence) }

// VerifDrained reports (without scheduling points) that every queued entry was sent or dropped.
func (s *Sender) VerifDrained() bool {
	return len(s.entryChan) == 0 && s.totalEntriesSent.Peek()+s.totalEntriesDropped.Peek() >= s.totalEntriesReceived.Peek()
}

func (s *Sender) VerifDropped() int64 { return s.totalEntriesDropped.Peek() }

// VerifReceive runs the real receiveLoop over conn with the given session key until the loop ends
// (end of stream or the receiver dropping the connection) and returns the last applied sequence.
func VerifReceive(cfg *ReceiverConfig, conn net.Conn, sessionKey []byte) uint64 {
	r := NewReceiver(cfg)
	r.ctx, r.cancelFunc = context.WithCancel(context.Background())
	r.running.Store(true)
	r.conn = conn
	r.sessionKey = sessionKey
	r.receiveLoop()
	r.cancelFunc()
	r.wg.Wait()
	return r.lastSeq.Load()
}

// VerifQueueLen is the number of entries queued and not yet taken by the distribution loop (pure read).
func (s *Sender) VerifQueueLen() int { return len(s.entryChan) }
