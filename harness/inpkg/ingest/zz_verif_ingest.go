package ingest

// VerifHourBucketID / sort helpers exposed for the sequential bounded-exhaustive pass.
func VerifPermuteByTime(times []int64) []int      { return permuteByTime(times) }
func VerifRadixPermuteByTime(times []int64) []int { return radixPermuteByTime(times) }
