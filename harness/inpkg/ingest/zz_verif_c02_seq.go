package ingest

import "time"

// Added by overlay for the C02 check only (never compiled into the repository build).
// Drivers for the flush triggers of an ArrowBuffer, so that a harness can run each trigger's real body
// synchronously on its own goroutine (where a panic is recoverable and completion is known) instead of
// waiting on the background goroutines. They call the repository's own functions; no logic is copied.

// VerifDisarmPeriodicTimer makes the background periodicFlush goroutine never re-arm its timer (its
// "is the new deadline earlier than the scheduled one" test compares against the zero time), so the
// aged-buffer sweep only runs when the harness calls VerifFlushAged. Must be called right after
// NewArrowBuffer and before the first Write (the goroutine reads flushDeadline only after receiving a
// new-buffer signal, which a later Write sends: the store is ordered before that read).
func VerifDisarmPeriodicTimer(b *ArrowBuffer) {
	b.flushDeadline = time.Time{}
}

// VerifMaxBufferAge returns the configured maximum buffer age.
func VerifMaxBufferAge(b *ArrowBuffer) time.Duration { return b.maxBufferAge }

// VerifAdvanceBufferAge makes every buffer that has a recorded start time d older (the equivalent, for
// the buffers, of the wall clock advancing by d). Returns the number of start-time entries aged.
func VerifAdvanceBufferAge(b *ArrowBuffer, d time.Duration) int {
	n := 0
	for _, shard := range b.shards {
		shard.mu.Lock()
		for key, t := range shard.bufferStartTimes {
			shard.bufferStartTimes[key] = t.Add(-d)
			n++
		}
		shard.mu.Unlock()
	}
	return n
}

// VerifFlushAged runs the body of the periodic flush (flushAgedBuffers) on the caller's goroutine.
func VerifFlushAged(b *ArrowBuffer) { b.flushAgedBuffers() }

// VerifRunQueuedFlushes takes every size-triggered flush task waiting in the flush queue and runs the
// flush worker's body (flushRecordsAsync) on it, on the caller's goroutine. Returns the number of tasks.
func VerifRunQueuedFlushes(b *ArrowBuffer) int {
	n := 0
	for {
		select {
		case task := <-b.flushQueue:
			b.queueDepth.Add(-1)
			n++
			b.flushRecordsAsync(task.ctx, task.bufferKey, task.database, task.measurement, task.records, task.recordCount)
			task.cancel()
		default:
			return n
		}
	}
}

// VerifBufferedRows returns the per-key record counts still buffered (rows not handed to any flush).
func VerifBufferedRows(b *ArrowBuffer) map[string]int {
	out := map[string]int{}
	for _, shard := range b.shards {
		shard.mu.RLock()
		for key, batches := range shard.buffers {
			if len(batches) > 0 {
				out[key] = shard.bufferRecordCounts[key]
			}
		}
		shard.mu.RUnlock()
	}
	return out
}
