package ingest

// Added by overlay for the C02 check only (never compiled into the repository build).
// Exposes private buffer state; contains no copy of any logic under test.

// VerifDrainBuffers removes and returns every batch currently buffered in the ArrowBuffer, keyed by
// buffer key ("database/measurement"), together with the per-key record counts the buffer tracked.
// It lets a harness observe exactly what ArrowBuffer.Write appended without going through Parquet.
func VerifDrainBuffers(b *ArrowBuffer) (map[string][]*TypedColumnBatch, map[string]int) {
	out := map[string][]*TypedColumnBatch{}
	counts := map[string]int{}
	for _, shard := range b.shards {
		shard.mu.Lock()
		for key, batches := range shard.buffers {
			for _, x := range batches {
				if tb, ok := x.(*TypedColumnBatch); ok {
					out[key] = append(out[key], tb)
				} else {
					out[key] = append(out[key], nil)
				}
			}
			counts[key] = shard.bufferRecordCounts[key]
		}
		for key := range shard.buffers {
			delete(shard.buffers, key)
		}
		for key := range shard.bufferStartTimes {
			delete(shard.bufferStartTimes, key)
		}
		for key := range shard.bufferRecordCounts {
			delete(shard.bufferRecordCounts, key)
		}
		for key := range shard.bufferSchemas {
			delete(shard.bufferSchemas, key)
		}
		shard.mu.Unlock()
	}
	return out, counts
}

// VerifTypedStats returns the typed fast-path hit/miss counters of a decoder.
func VerifTypedStats(d *MessagePackDecoder) (hits, misses uint64) {
	return d.typedHits.Load(), d.typedMisses.Load()
}
