package governance

import "time"

// Constructors of the unexported limiter types, for the sequential bounded-exhaustive pass.
type VerifLimiter interface {
	Allow() bool
	UpdateLimit(int)
}
type VerifQuota interface {
	AllowQuery() (bool, string)
	UpdateLimits(int, int)
}

func VerifNewSliding(window time.Duration, slots, limit int) VerifLimiter { return newSlidingWindowCounter(window, slots, limit) }
func VerifNewQuota(perHour, perDay int) VerifQuota                         { return newQuotaTracker(perHour, perDay) }
