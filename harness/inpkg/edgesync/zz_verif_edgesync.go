package edgesync

func VerifValidateSyncPath(p string) error  { return validateSyncPath(p) }
func VerifValidateSpokeID(s string) error   { return validateSpokeID(s) }
