package filereplication

// VerifInflight exposes the puller's in-flight counter (the value Stats()["inflight_count"] reports)
// without building the whole Stats map; the C25 harness polls it to detect that a delivered manifest
// entry has been fully processed. Expose only — no logic.
func (p *Puller) VerifInflight() int64 { return p.inflightCount.Load() }
