package wal

// VerifRotate forces a WAL rotation (what writeEntry does when the size/age threshold is reached).
func (w *Writer) VerifRotate() error {
	w.mu.Lock()
	defer w.mu.Unlock()
	return w.rotate()
}

// VerifQueued reports how many entries are still in the async queue (pure read, for harness predicates).
func (w *Writer) VerifQueued() int { return len(w.entryChan) }
