package backup

import "github.com/basekick-labs/arc/internal/storage"

// VerifWrapBackupStorage lets the C13 harness put its fault-injecting storage.Backend wrapper
// around the backup destination that NewManager creates privately (the data store is already
// injectable through ManagerConfig.DataStorage). No logic: it only swaps the field.
func (m *Manager) VerifWrapBackupStorage(wrap func(storage.Backend) storage.Backend) {
	m.backupStorage = wrap(m.backupStorage)
}
