// Package sched is the stateless model checker over the vsched runtime: depth-first enumeration of
// every schedule (and every select-case choice) of a scenario up to a preemption bound, each
// execution on fresh real objects, sharded over worker processes.
package sched

import (
	"encoding/json"
	"fmt"
	"os"
	"os/exec"
	"sort"
	"strconv"
	"strings"
	"sync"
	"time"

	"github.com/basekick-labs/arc/zzverif/shim/vsched"
)

type Outcome struct {
	Key       string `json:"key"`       // observable outcome (for distinct-outcome counting)
	Violation string `json:"violation"` // "" = property held in this execution; else class signature
	Detail    any    `json:"detail,omitempty"`
}

type Scenario struct {
	Name string
	// Setup builds fresh objects for ONE execution. body runs as thread 0 under the scheduler;
	// check runs after the execution ended (detached); teardown releases scratch resources.
	Setup func() (body func(), check func() Outcome, teardown func())
	// DeadlockIsViolation: a state with live threads, none enabled, and thread 0 not finished.
	DeadlockOK bool
}

type Options struct {
	// Bound is the budget; a preemption (switching away from a thread that could continue) always
	// costs 1. FreeCost is the price of every OTHER non-default decision (switching to a non-default
	// thread when the previous one blocked or exited, or taking a non-default ready select case):
	// 0 = classic preemption bounding (CHESS), 1 = deviation bounding (every departure from the
	// default schedule counts).
	FreeCost int
	Bound    int
	Watchdog time.Duration
	Deadline time.Time
	MaxExecs int
}

type Viol struct {
	Class       string   `json:"class"`
	Choices     []int    `json:"choices"`
	Preemptions int      `json:"preemptions"`
	Trace       []string `json:"trace"`
	Detail      any      `json:"detail,omitempty"`
	Count       int      `json:"count"`
}

type Result struct {
	Scenario   string           `json:"scenario"`
	Bound      int              `json:"bound"`
	Execs      int              `json:"execs"`
	Points     int64            `json:"points"`
	MaxPoints  int              `json:"max_points"`
	MaxThreads int              `json:"max_threads"`
	Outcomes   map[string]int   `json:"outcomes"`
	Violations map[string]*Viol `json:"violations"`
	Deadlocks  int              `json:"deadlocks"`
	Stuck      int              `json:"stuck"` // watchdog: blocked outside the model (execution abandoned, not judged)
	Diverged   int              `json:"diverged"`
	Foreign    int64            `json:"foreign_calls"`
	Complete   bool             `json:"complete"`
	Nondet     []string         `json:"nondeterminism,omitempty"`
	Sample     []string         `json:"sample_trace,omitempty"`
	Panics     int              `json:"panics"`
	DivSamples []string         `json:"diverged_samples,omitempty"`
}

type execRes struct {
	s   *vsched.Sched
	out Outcome
}

func runOne(sc Scenario, prefix []int, wd time.Duration) execRes {
	body, check, teardown := sc.Setup()
	s := vsched.Run(body, prefix, wd)
	var out Outcome
	switch {
	case s.Diverged != "":
	case s.Stuck:
	case s.Panic != nil:
		out = Outcome{Key: "panic", Violation: "panic|" + firstLine(fmt.Sprint(s.Panic)), Detail: fmt.Sprint(s.Panic)}
	case s.Deadlock && !sc.DeadlockOK:
		out = Outcome{Key: "deadlock", Violation: "deadlock|" + lastSites(s), Detail: lastSites(s)}
	default:
		out = check()
	}
	if teardown != nil {
		teardown()
	}
	return execRes{s, out}
}

func firstLine(s string) string {
	if i := strings.IndexByte(s, '\n'); i >= 0 {
		s = s[:i]
	}
	if len(s) > 160 {
		s = s[:160]
	}
	return s
}

func lastSites(s *vsched.Sched) string {
	var l []string
	n := len(s.Points)
	for i := max(0, n-4); i < n; i++ {
		l = append(l, fmt.Sprintf("t%d@%s", s.Points[i].Thread, s.Points[i].Site))
	}
	return strings.Join(l, " > ")
}

func trace(s *vsched.Sched) []string {
	var l []string
	for _, p := range s.Points {
		if p.Choice {
			l = append(l, fmt.Sprintf("t%d choose %d/%d %s", p.Thread, p.Chosen, p.N, p.Site))
		} else {
			pre := ""
			if p.Chosen != 0 && p.LastEn {
				pre = " PREEMPT"
			}
			l = append(l, fmt.Sprintf("t%d %s%s", p.Thread, p.Site, pre))
		}
	}
	return l
}

func preemptions(pts []vsched.PointRec) int {
	n := 0
	for _, p := range pts {
		if !p.Choice && p.LastEn && p.Chosen != 0 {
			n++
		}
	}
	return n
}

// Explore enumerates the shard (shard, shards) of the schedule tree.
func Explore(sc Scenario, opt Options, shard, shards int) Result {
	res := Result{Scenario: sc.Name, Bound: opt.Bound, Outcomes: map[string]int{}, Violations: map[string]*Viol{}, Complete: true}
	type item struct {
		prefix []int
	}
	stack := []item{{nil}}
	rootChild := 0
	for len(stack) > 0 {
		if (!opt.Deadline.IsZero() && time.Now().After(opt.Deadline)) || (opt.MaxExecs > 0 && res.Execs >= opt.MaxExecs) {
			res.Complete = false
			break
		}
		it := stack[len(stack)-1]
		stack = stack[:len(stack)-1]
		x := runOne(sc, it.prefix, opt.Watchdog)
		isRoot := len(it.prefix) == 0
		count := !isRoot || shard == 0
		res.Foreign += x.s.Foreign
		if x.s.Diverged != "" {
			res.Diverged++
			if len(res.DivSamples) < 3 {
				res.DivSamples = append(res.DivSamples, fmt.Sprintf("%s | prefix=%v | trace=%v", x.s.Diverged, it.prefix, trace(x.s)))
			}
			continue
		}
		if x.s.Stuck {
			res.Stuck++
			continue
		}
		if count {
			res.Execs++
			res.Points += int64(len(x.s.Points))
			if len(x.s.Points) > res.MaxPoints {
				res.MaxPoints = len(x.s.Points)
				res.Sample = trace(x.s)
			}
			if x.s.Deadlock {
				res.Deadlocks++
			}
			if x.s.Panic != nil {
				res.Panics++
			}
			res.Outcomes[x.out.Key]++
			if x.out.Violation != "" {
				pre := preemptions(x.s.Points)
				v, ok := res.Violations[x.out.Violation]
				if !ok || pre < v.Preemptions || (pre == v.Preemptions && len(x.s.Points) < len(v.Choices)) {
					ch := make([]int, len(x.s.Points))
					for i, p := range x.s.Points {
						ch[i] = p.Chosen
					}
					cnt := 0
					if ok {
						cnt = v.Count
					}
					v = &Viol{Class: x.out.Violation, Choices: ch, Preemptions: pre, Trace: trace(x.s), Detail: x.out.Detail, Count: cnt}
					res.Violations[x.out.Violation] = v
				}
				v.Count++
			}
		}
		// children
		cost := 0
		for i := 0; i < len(x.s.Points); i++ {
			p := x.s.Points[i]
			if i >= len(it.prefix) {
				for alt := 1; alt < p.N; alt++ {
					c := cost
					if !p.Choice && p.LastEn {
						c++
					} else {
						c += opt.FreeCost
					}
					if c > opt.Bound {
						continue
					}
					if isRoot {
						mine := rootChild%shards == shard
						rootChild++
						if !mine {
							continue
						}
					}
					np := make([]int, i+1)
					for j := 0; j < i; j++ {
						np[j] = x.s.Points[j].Chosen
					}
					np[i] = alt
					stack = append(stack, item{np})
				}
			}
			if p.Chosen != 0 {
				if !p.Choice && p.LastEn {
					cost++
				} else {
					cost += opt.FreeCost
				}
			}
		}
	}
	// every violation must replay identically twice
	for cl, v := range res.Violations {
		for k := 0; k < 2; k++ {
			x := runOne(sc, v.Choices, opt.Watchdog)
			if x.out.Violation != cl {
				res.Nondet = append(res.Nondet, fmt.Sprintf("%s: replay %d gave %q (diverged=%q stuck=%v)", cl, k, x.out.Violation, x.s.Diverged, x.s.Stuck))
			}
		}
	}
	return res
}

// ---- process sharding ----------------------------------------------------------------------

// Main must be called first in the check's main(): if this process is a worker it explores its
// shard, writes the JSON result and exits.
func Main(scenarios func() []Scenario) {
	if rp := os.Getenv("VERIF_SCHED_REPLAY"); rp != "" {
		// "<scenario index>|<json choices>|<times>": replay a schedule several times and print each trace
		f := strings.SplitN(rp, "|", 3)
		si, _ := strconv.Atoi(f[0])
		var ch []int
		json.Unmarshal([]byte(f[1]), &ch)
		n, _ := strconv.Atoi(f[2])
		sc := scenarios()[si]
		var first []string
		for i := 0; i < n; i++ {
			x := runOne(sc, ch, 5*time.Second)
			tr := trace(x.s)
			for j, p := range x.s.Points {
				tr[j] = fmt.Sprintf("%s{n=%d en=%v}", tr[j], p.N, p.Enabled)
			}
			if first == nil {
				first = tr
				fmt.Printf("run 0: diverged=%q outcome=%+v\n  %s\n", x.s.Diverged, x.out, strings.Join(tr, "\n  "))
				continue
			}
			for j := 0; j < len(tr) || j < len(first); j++ {
				a, b := "", ""
				if j < len(first) {
					a = first[j]
				}
				if j < len(tr) {
					b = tr[j]
				}
				if a != b {
					fmt.Printf("run %d differs at point %d: %q vs %q (diverged=%q)\n", i, j, a, b, x.s.Diverged)
					break
				}
			}
		}
		os.Exit(0)
	}
	if fr := os.Getenv("VERIF_SCHED_FREERUN"); fr != "" {
		// side-condition pass (not a deciding step): every scenario body runs N times FREE-RUNNING (no scheduler
		// attached: the shims fall through to the real primitives) in a binary built with -race. The cooperative
		// scheduler only interleaves at synchronisation operations, which is complete only for data-race-free
		// code; its hand-offs are happens-before edges that blind the detector, hence this separate pass.
		n, _ := strconv.Atoi(fr)
		scs := scenarios()
		runs, odd := 0, 0
		for _, sc := range scs {
			for i := 0; i < n; i++ {
				body, check, teardown := sc.Setup()
				done := make(chan any, 1)
				go func() {
					defer func() { done <- recover() }()
					body()
				}()
				select {
				case p := <-done:
					if p != nil {
						fmt.Printf("FREERUN-PANIC %s: %v\n", sc.Name, p)
						odd++
					}
				case <-time.After(60 * time.Second):
					fmt.Printf("FREERUN-TIMEOUT %s (free-running body did not finish in 60 s)\n", sc.Name)
					os.Exit(4)
				}
				// the scenario's oracle assumes quiescence (under the scheduler an execution ends when every thread has
				// finished or is parked); a free run has no such notion, so the oracle is NOT judged here - this pass
				// only looks for data races. Give background goroutines a moment, then run check() for its accesses.
				time.Sleep(100 * time.Millisecond)
				_ = check()
				if teardown != nil {
					teardown()
				}
				runs++
			}
		}
		fmt.Printf("FREERUN scenarios=%d runs=%d non-clean-outcomes=%d\n", len(scs), runs, odd)
		os.Exit(0)
	}
	w := os.Getenv("VERIF_SCHED_WORKER")
	if w == "" {
		return
	}
	// "<scenario index>/<shard>/<shards>/<bound>/<deadline unix>/<watchdog ms>/<free cost>"
	f := strings.Split(w, "/")
	iv := func(i int) int { n, _ := strconv.Atoi(f[i]); return n }
	scs := scenarios()
	sc := scs[iv(0)]
	opt := Options{Bound: iv(3), Deadline: time.Unix(int64(iv(4)), 0), Watchdog: time.Duration(iv(5)) * time.Millisecond, FreeCost: iv(6)}
	res := Explore(sc, opt, iv(1), iv(2))
	b, _ := json.Marshal(res)
	os.Stdout.Write(append(b, '\n'))
	os.Exit(0)
}

type Job struct {
	Scenario int
	Bound    int
	FreeCost int
}

// RunSharded runs every job split into `shards` worker processes, at most `par` at a time.
func RunSharded(names []string, jobs []Job, shards, par int, deadline time.Time, watchdog time.Duration) ([]Result, error) {
	exe, err := os.Executable()
	if err != nil {
		return nil, err
	}
	type unit struct{ job, shard int }
	var units []unit
	for j := range jobs {
		for s := 0; s < shards; s++ {
			units = append(units, unit{j, s})
		}
	}
	results := make([][]Result, len(jobs))
	var mu sync.Mutex
	var firstErr error
	sem := make(chan struct{}, par)
	var wg sync.WaitGroup
	for _, u := range units {
		u := u
		wg.Add(1)
		sem <- struct{}{}
		go func() {
			defer wg.Done()
			defer func() { <-sem }()
			cmd := exec.Command(exe)
			cmd.Env = append(os.Environ(), fmt.Sprintf("VERIF_SCHED_WORKER=%d/%d/%d/%d/%d/%d/%d", jobs[u.job].Scenario, u.shard, shards, jobs[u.job].Bound, deadline.Unix(), watchdog.Milliseconds(), jobs[u.job].FreeCost), "GOMAXPROCS=2")
			cmd.Stderr = os.Stderr
			out, err := cmd.Output()
			mu.Lock()
			defer mu.Unlock()
			if err != nil {
				if firstErr == nil {
					firstErr = fmt.Errorf("worker %s shard %d: %v: %s", names[jobs[u.job].Scenario], u.shard, err, tail(out))
				}
				return
			}
			var r Result
			lines := strings.Split(strings.TrimSpace(string(out)), "\n")
			if err := json.Unmarshal([]byte(lines[len(lines)-1]), &r); err != nil {
				if firstErr == nil {
					firstErr = fmt.Errorf("worker output: %v: %s", err, tail(out))
				}
				return
			}
			results[u.job] = append(results[u.job], r)
		}()
	}
	wg.Wait()
	if firstErr != nil {
		return nil, firstErr
	}
	var merged []Result
	for j := range jobs {
		m := Result{Scenario: names[jobs[j].Scenario], Bound: jobs[j].Bound, Outcomes: map[string]int{}, Violations: map[string]*Viol{}, Complete: true}
		for _, r := range results[j] {
			m.Execs += r.Execs
			m.Points += r.Points
			m.Deadlocks += r.Deadlocks
			m.Stuck += r.Stuck
			m.Diverged += r.Diverged
			m.Foreign += r.Foreign
			m.Panics += r.Panics
			m.Complete = m.Complete && r.Complete
			m.Nondet = append(m.Nondet, r.Nondet...)
			if len(m.DivSamples) < 3 {
				m.DivSamples = append(m.DivSamples, r.DivSamples...)
			}
			if r.MaxPoints > m.MaxPoints {
				m.MaxPoints = r.MaxPoints
				m.Sample = r.Sample
			}
			for k, n := range r.Outcomes {
				m.Outcomes[k] += n
			}
			for k, v := range r.Violations {
				if o, ok := m.Violations[k]; !ok || v.Preemptions < o.Preemptions {
					c := 0
					if ok {
						c = o.Count
					}
					vv := *v
					vv.Count += c
					m.Violations[k] = &vv
				} else {
					o.Count += v.Count
				}
			}
		}
		merged = append(merged, m)
	}
	return merged, nil
}

func tail(b []byte) string {
	s := string(b)
	if len(s) > 600 {
		s = s[len(s)-600:]
	}
	return s
}

func SortedKeys[V any](m map[string]V) []string {
	k := make([]string, 0, len(m))
	for x := range m {
		k = append(k, x)
	}
	sort.Strings(k)
	return k
}
