// Package xstate is the explicit-state search engine: level-synchronous BFS where a state is
// identified by the event history reaching it, a successor is built by replaying that history
// on a FRESH real object and applying one more operation, and states are de-duplicated by a
// canonical key computed from the real object's (private) state.
package xstate

import (
	"runtime"
	"sync"
	"sync/atomic"
)

type Config struct {
	NCmds    int
	MaxDepth int
	Workers  int
	// Expand is called once per (history); it must build the state for hist (fresh object + replay),
	// verify that its key equals wantKey ("" for the root), evaluate state invariants, and then for
	// every command c call visit(c, keyOfSuccessor). Building each successor is the callee's job
	// (fresh replay per successor) so the engine never needs to clone a live object.
	Expand func(hist []int, wantKey string, leaf bool, visit func(c int, succKey string))
	// leaf=true: the state is at the depth bound; evaluate its invariants only, do not visit successors.
	// Stop is polled between frontier items; when it returns true the search stops early.
	Stop func() bool
}

type Result struct {
	States      int
	Transitions int64
	MaxDepth    int
	Complete    bool // false if Stop() fired before the bound was exhausted
	PerDepth    []int
}

type item struct {
	hist []int
	key  string
}

func BFS(cfg Config) Result {
	if cfg.Workers <= 0 {
		cfg.Workers = runtime.NumCPU()
	}
	var mu sync.Mutex
	seen := map[string]struct{}{}
	frontier := []item{{hist: nil, key: ""}}
	res := Result{Complete: true}
	var transitions int64
	for depth := 0; depth <= cfg.MaxDepth && len(frontier) > 0; depth++ {
		res.MaxDepth = depth
		res.PerDepth = append(res.PerDepth, len(frontier))
		var next []item
		var idx int64 = -1
		var wg sync.WaitGroup
		stopped := int32(0)
		expandChildren := depth < cfg.MaxDepth
		for w := 0; w < cfg.Workers; w++ {
			wg.Add(1)
			go func() {
				defer wg.Done()
				for {
					i := int(atomic.AddInt64(&idx, 1))
					if i >= len(frontier) {
						return
					}
					if cfg.Stop != nil && cfg.Stop() {
						atomic.StoreInt32(&stopped, 1)
						return
					}
					it := frontier[i]
					cfg.Expand(it.hist, it.key, !expandChildren, func(c int, k string) {
						atomic.AddInt64(&transitions, 1)
						mu.Lock()
						if _, ok := seen[k]; !ok {
							seen[k] = struct{}{}
							h := make([]int, len(it.hist)+1)
							copy(h, it.hist)
							h[len(it.hist)] = c
							next = append(next, item{hist: h, key: k})
						}
						mu.Unlock()
					})
				}
			}()
		}
		wg.Wait()
		if stopped != 0 {
			res.Complete = false
			frontier = nil
			break
		}
		frontier = next
	}
	res.States = len(seen) + 1
	res.Transitions = transitions
	return res
}
