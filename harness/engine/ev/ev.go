// Package ev is the interface plumbing shared by every check: tier/seed parsing,
// violation collection, known-findings matching, replay artefacts and the
// schema-valid evidence file.
package ev

import (
	"crypto/sha256"
	"encoding/hex"
	"encoding/json"
	"fmt"
	"os"
	"os/exec"
	"path/filepath"
	"regexp"
	"sort"
	"strconv"
	"strings"
	"sync"
	"time"
)

const Root = "/verif"

type Violation struct {
	Signature string `json:"signature"` // canonical class signature (see DESIGN §7)
	Desc      string `json:"description"`
	Replay    any    `json:"replay"` // minimal input / schedule / op list
}

type finding struct {
	Property  string `json:"property"`
	Signature string `json:"signature,omitempty"`
	SigRegex  string `json:"sig_regex,omitempty"`
	What      string `json:"what"`
	re        *regexp.Regexp
}

type Run struct {
	ID          string
	Tier        string
	Seed        int
	Level       string
	Replay      string // --replay path, if any
	start       time.Time
	mu          sync.Mutex
	Coverage    map[string]any
	Assumptions []string
	viol        map[string]*Violation
	violCount   map[string]int
	Deadline    time.Time
}

// Start parses [--tier quick|thorough] [--replay file] and env VERIF_TIER / VERIF_SEED.
func Start(id, level string) *Run {
	r := &Run{ID: id, Level: level, Tier: "quick", start: time.Now(), Coverage: map[string]any{},
		viol: map[string]*Violation{}, violCount: map[string]int{}}
	if t := os.Getenv("VERIF_TIER"); t == "quick" || t == "thorough" {
		r.Tier = t
	}
	if s := os.Getenv("VERIF_SEED"); s != "" {
		if n, err := strconv.Atoi(s); err == nil {
			r.Seed = n
		}
	}
	args := os.Args[1:]
	for i := 0; i < len(args); i++ {
		switch args[i] {
		case "--tier":
			if i+1 < len(args) {
				r.Tier = args[i+1]
				i++
			}
		case "quick", "thorough":
			r.Tier = args[i]
		case "--replay":
			if i+1 < len(args) {
				r.Replay = args[i+1]
				i++
			}
		}
	}
	if r.Tier != "quick" && r.Tier != "thorough" {
		Unbound("bad tier " + r.Tier)
	}
	// internal deadline: a capped run exits 0 with exhaustive:false
	d := 4 * time.Minute
	if r.Tier == "thorough" {
		d = 40 * time.Minute
	}
	if s := os.Getenv("VERIF_DEADLINE_S"); s != "" {
		if n, err := strconv.Atoi(s); err == nil {
			d = time.Duration(n) * time.Second
		}
	}
	r.Deadline = r.start.Add(d)
	return r
}

func (r *Run) Quick() bool    { return r.Tier == "quick" }
func (r *Run) TimeUp() bool   { return time.Now().After(r.Deadline) }
func (r *Run) Assume(s string) { r.Assumptions = append(r.Assumptions, s) }

// Unbound reports that the harness could not bind to the code (exit 2, never a VIOLATION line).
func Unbound(what string) {
	fmt.Printf("HARNESS-UNBOUND: %s\n", what)
	os.Exit(2)
}

func Nondeterminism(what string) {
	fmt.Printf("HARNESS-NONDETERMINISM: %s\n", what)
	os.Exit(2)
}

// Violate records one violation class. The first replay per signature is kept.
func (r *Run) Violate(sig, desc string, replay any) {
	r.mu.Lock()
	defer r.mu.Unlock()
	r.violCount[sig]++
	if _, ok := r.viol[sig]; !ok {
		r.viol[sig] = &Violation{Signature: sig, Desc: desc, Replay: replay}
	}
}

func (r *Run) ViolationClasses() int { r.mu.Lock(); defer r.mu.Unlock(); return len(r.viol) }

func loadFindings(id string) []finding {
	b, err := os.ReadFile(filepath.Join(Root, "known_findings.json"))
	if err != nil {
		return nil
	}
	var f struct {
		Findings []finding `json:"findings"`
	}
	if err := json.Unmarshal(b, &f); err != nil {
		Unbound("known_findings.json: " + err.Error())
	}
	var out []finding
	for _, x := range f.Findings {
		if x.Property != id {
			continue
		}
		if x.SigRegex != "" {
			x.re = regexp.MustCompile("^(?:" + x.SigRegex + ")$")
		}
		out = append(out, x)
	}
	return out
}

// Finish writes evidence, prints KNOWN-FINDING / VIOLATION lines and exits.
func (r *Run) Finish() {
	known := loadFindings(r.ID)
	sigs := make([]string, 0, len(r.viol))
	for s := range r.viol {
		sigs = append(sigs, s)
	}
	sort.Strings(sigs)
	knownHit := map[int][]string{}
	var unlisted []string
	for _, s := range sigs {
		matched := -1
		for i, k := range known {
			if (k.Signature != "" && k.Signature == s) || (k.re != nil && k.re.MatchString(s)) {
				matched = i
				break
			}
		}
		if matched >= 0 {
			knownHit[matched] = append(knownHit[matched], s)
		} else {
			unlisted = append(unlisted, s)
		}
	}
	for i, k := range known {
		if hits, ok := knownHit[i]; ok {
			n := 0
			for _, h := range hits {
				n += r.violCount[h]
			}
			fmt.Printf("KNOWN-FINDING: property=%s %s (classes=%d instances=%d e.g. %s)\n", r.ID, k.What, len(hits), n, hits[0])
		}
	}
	r.Coverage["violation_classes"] = len(sigs)
	r.Coverage["known_finding_classes"] = len(sigs) - len(unlisted)
	evd := map[string]any{
		"property_id": r.ID, "tier": r.Tier, "seed": r.Seed, "level": r.Level,
		"coverage": r.Coverage, "assumptions": r.Assumptions,
		"wall_s": time.Since(r.start).Seconds(), "violations": len(unlisted),
	}
	if r.Assumptions == nil {
		evd["assumptions"] = []string{}
	}
	if r.Replay == "" {
		b, _ := json.MarshalIndent(evd, "", " ")
		os.MkdirAll(filepath.Join(Root, "evidence"), 0o755)
		if err := os.WriteFile(filepath.Join(Root, "evidence", r.ID+".json"), append(b, '\n'), 0o644); err != nil {
			Unbound("cannot write evidence: " + err.Error())
		}
	}
	for _, s := range unlisted {
		v := r.viol[s]
		h := sha256.Sum256([]byte(s))
		dir := filepath.Join(Root, "replays", r.ID)
		os.MkdirAll(dir, 0o755)
		p := filepath.Join(dir, hex.EncodeToString(h[:6])+".json")
		b, _ := json.MarshalIndent(map[string]any{"property": r.ID, "signature": v.Signature, "description": v.Desc,
			"instances": r.violCount[s], "replay": v.Replay}, "", " ")
		os.WriteFile(p, b, 0o644)
		fmt.Printf("VIOLATION property=%s replay=%s  # %s :: %s\n", r.ID, p, v.Signature, v.Desc)
	}
	fmt.Printf("%s tier=%s wall=%.1fs classes=%d unlisted=%d\n", r.ID, r.Tier, time.Since(r.start).Seconds(), len(sigs), len(unlisted))
	if len(unlisted) > 0 {
		os.Exit(1)
	}
	os.Exit(0)
}

// Samples keeps up to n representative cases.
type Samples struct {
	mu sync.Mutex
	n  int
	s  []any
}

func NewSamples(n int) *Samples { return &Samples{n: n} }
func (s *Samples) Add(x any) {
	s.mu.Lock()
	if len(s.s) < s.n {
		s.s = append(s.s, x)
	}
	s.mu.Unlock()
}
func (s *Samples) List() []any { s.mu.Lock(); defer s.mu.Unlock(); return append([]any{}, s.s...) }

// Minimize is 1-minimal delta debugging over an index list: it repeatedly drops single elements
// (and, first, halves) while fails() stays true.
func Minimize(hist []int, fails func([]int) bool) []int {
	cur := append([]int{}, hist...)
	for chunk := len(cur) / 2; chunk >= 1; {
		removed := false
		for i := 0; i+chunk <= len(cur); {
			cand := append(append([]int{}, cur[:i]...), cur[i+chunk:]...)
			if fails(cand) {
				cur = cand
				removed = true
			} else {
				i++
			}
		}
		if !removed || chunk > len(cur) {
			chunk /= 2
		}
		if chunk > len(cur) && len(cur) > 0 {
			chunk = len(cur)
		}
	}
	return cur
}

// ---- process sharding (for checks whose fault shims are process-global) ----------------------

type ShardResult struct {
	Counters   map[string]int64 `json:"counters"`
	Violations []Violation      `json:"violations"`
	Counts     map[string]int   `json:"counts"`
	Samples    []any            `json:"samples"`
	Complete   bool             `json:"complete"`
}

// Shard returns (index, total, true) when this process is a shard worker.
func Shard() (int, int, bool) {
	s := os.Getenv("VERIF_SHARD")
	if s == "" {
		return 0, 1, false
	}
	var i, n int
	fmt.Sscanf(s, "%d/%d", &i, &n)
	return i, n, true
}

// FinishShard writes this worker's partial result and exits 0.
func (r *Run) FinishShard(counters map[string]int64, samples []any, complete bool) {
	res := ShardResult{Counters: counters, Samples: samples, Complete: complete, Counts: r.violCount}
	for _, v := range r.viol {
		res.Violations = append(res.Violations, *v)
	}
	b, _ := json.Marshal(res)
	if err := os.WriteFile(os.Getenv("VERIF_SHARD_OUT"), b, 0o644); err != nil {
		Unbound("shard output: " + err.Error())
	}
	os.Exit(0)
}

// SpawnShards re-executes this binary n times (VERIF_SHARD=i/n) and merges the partial results
// into r (violations) and the returned counters/samples.
func (r *Run) SpawnShards(n int) (map[string]int64, []any, bool) {
	exe, err := os.Executable()
	if err != nil {
		Unbound(err.Error())
	}
	dir, _ := os.MkdirTemp("/dev/shm", "verif.shards.")
	defer os.RemoveAll(dir)
	type out struct {
		res ShardResult
		err error
		log string
	}
	outs := make([]out, n)
	var wg sync.WaitGroup
	for i := 0; i < n; i++ {
		wg.Add(1)
		go func(i int) {
			defer wg.Done()
			f := filepath.Join(dir, fmt.Sprintf("%d.json", i))
			cmd := exec.Command(exe, os.Args[1:]...)
			cmd.Env = append(os.Environ(), fmt.Sprintf("VERIF_SHARD=%d/%d", i, n), "VERIF_SHARD_OUT="+f,
				fmt.Sprintf("VERIF_DEADLINE_S=%d", int(time.Until(r.Deadline).Seconds())), "VERIF_TIER="+r.Tier)
			b, err := cmd.CombinedOutput()
			outs[i].log = string(b)
			if err != nil {
				outs[i].err = err
				return
			}
			jb, err := os.ReadFile(f)
			if err != nil {
				outs[i].err = err
				return
			}
			outs[i].err = json.Unmarshal(jb, &outs[i].res)
		}(i)
	}
	wg.Wait()
	counters := map[string]int64{}
	var samples []any
	complete := true
	for i, o := range outs {
		if o.err != nil {
			t := o.log
			if len(t) > 800 {
				t = t[len(t)-800:]
			}
			if strings.Contains(o.log, "HARNESS-") {
				fmt.Print(t)
				os.Exit(2)
			}
			Unbound(fmt.Sprintf("shard %d failed: %v: %s", i, o.err, t))
		}
		for k, v := range o.res.Counters {
			counters[k] += v
		}
		if len(samples) < 6 {
			samples = append(samples, o.res.Samples...)
		}
		complete = complete && o.res.Complete
		for _, v := range o.res.Violations {
			r.Violate(v.Signature, v.Desc, v.Replay)
			r.violCount[v.Signature] += o.res.Counts[v.Signature] - 1
		}
	}
	return counters, samples, complete
}

// TakeViolations removes and returns everything recorded so far (for checks that re-group raw
// per-case violations into root-cause classes before reporting).
func (r *Run) TakeViolations() ([]Violation, map[string]int) {
	r.mu.Lock()
	defer r.mu.Unlock()
	var out []Violation
	for _, v := range r.viol {
		out = append(out, *v)
	}
	c := r.violCount
	r.viol, r.violCount = map[string]*Violation{}, map[string]int{}
	sort.Slice(out, func(i, j int) bool { return out[i].Signature < out[j].Signature })
	return out, c
}
