// Package hx holds small harness helpers shared by several checks: an in-memory storage.Backend
// that records writes and can inject faults, and an independent Parquet reader (arrow-go pqarrow)
// that turns a file into canonical rows.
package hx

import (
	"bytes"
	"context"
	"errors"
	"fmt"
	"io"
	"sort"
	"strings"
	"sync"
)

// MemBackend implements storage.Backend in memory. It uses its own plain mutex (never instrumented),
// so it is invisible to the scheduler: a storage call is one atomic step of the calling thread.
type MemBackend struct {
	mu     sync.Mutex
	Files  map[string][]byte
	Writes []string // paths in write order
	// FailWrite, if set, is consulted on every Write/WriteReader; a non-nil error is returned
	// (and nothing is stored).
	FailWrite func(path string, n int) error
	nWrites   int
}

func NewMemBackend() *MemBackend { return &MemBackend{Files: map[string][]byte{}} }

var ErrInjected = errors.New("injected storage failure")

func (m *MemBackend) Write(ctx context.Context, path string, data []byte) error {
	m.mu.Lock()
	defer m.mu.Unlock()
	m.nWrites++
	if m.FailWrite != nil {
		if err := m.FailWrite(path, m.nWrites); err != nil {
			return err
		}
	}
	m.Files[path] = append([]byte{}, data...)
	m.Writes = append(m.Writes, path)
	return nil
}

func (m *MemBackend) WriteReader(ctx context.Context, path string, r io.Reader, size int64) error {
	b, err := io.ReadAll(r)
	if err != nil {
		return err
	}
	return m.Write(ctx, path, b)
}

func (m *MemBackend) Read(ctx context.Context, path string) ([]byte, error) {
	m.mu.Lock()
	defer m.mu.Unlock()
	b, ok := m.Files[path]
	if !ok {
		return nil, fmt.Errorf("not found: %s", path)
	}
	return append([]byte{}, b...), nil
}

func (m *MemBackend) ReadTo(ctx context.Context, path string, w io.Writer) error {
	b, err := m.Read(ctx, path)
	if err != nil {
		return err
	}
	_, err = w.Write(b)
	return err
}

func (m *MemBackend) ReadToAt(ctx context.Context, path string, w io.Writer, off int64) error {
	b, err := m.Read(ctx, path)
	if err != nil {
		return err
	}
	if off < 0 || off >= int64(len(b)) {
		return fmt.Errorf("offset out of range")
	}
	_, err = w.Write(b[off:])
	return err
}

func (m *MemBackend) StatFile(ctx context.Context, path string) (int64, error) {
	m.mu.Lock()
	defer m.mu.Unlock()
	b, ok := m.Files[path]
	if !ok {
		return -1, nil
	}
	return int64(len(b)), nil
}

func (m *MemBackend) List(ctx context.Context, prefix string) ([]string, error) {
	m.mu.Lock()
	defer m.mu.Unlock()
	var out []string
	for p := range m.Files {
		if strings.HasPrefix(p, prefix) {
			out = append(out, p)
		}
	}
	sort.Strings(out)
	return out, nil
}

func (m *MemBackend) Delete(ctx context.Context, path string) error {
	m.mu.Lock()
	defer m.mu.Unlock()
	delete(m.Files, path)
	return nil
}

func (m *MemBackend) Exists(ctx context.Context, path string) (bool, error) {
	m.mu.Lock()
	defer m.mu.Unlock()
	_, ok := m.Files[path]
	return ok, nil
}

func (m *MemBackend) Close() error       { return nil }
func (m *MemBackend) Type() string       { return "memory" }
func (m *MemBackend) ConfigJSON() string { return "{}" }

// Snapshot returns path->bytes copies, sorted by path.
func (m *MemBackend) Snapshot() (paths []string, files map[string][]byte) {
	m.mu.Lock()
	defer m.mu.Unlock()
	files = map[string][]byte{}
	for p, b := range m.Files {
		files[p] = bytes.Clone(b)
		paths = append(paths, p)
	}
	sort.Strings(paths)
	return
}
