package hx

import (
	"bytes"
	"context"
	"encoding/json"
	"fmt"
	"math"
	"sort"
	"strings"

	"github.com/apache/arrow-go/v18/arrow"
	"github.com/apache/arrow-go/v18/arrow/array"
	"github.com/apache/arrow-go/v18/arrow/memory"
	"github.com/apache/arrow-go/v18/parquet/file"
	"github.com/apache/arrow-go/v18/parquet/pqarrow"
)

// Row is one stored row: column name -> canonical value (nil for NULL).
type Row map[string]any

// ReadParquet decodes a Parquet file with arrow-go's reader (independent of Arc's writer path).
// Values are canonicalised: integers -> int64 (uint64 kept when > MaxInt64), floats -> float64,
// timestamps -> int64 microseconds, strings, bools; everything else -> its String() form.
func ReadParquet(data []byte) (rows []Row, schema []string, meta map[string]string, err error) {
	pf, err := file.NewParquetReader(bytes.NewReader(data))
	if err != nil {
		return nil, nil, nil, err
	}
	defer pf.Close()
	fr, err := pqarrow.NewFileReader(pf, pqarrow.ArrowReadProperties{}, memory.DefaultAllocator)
	if err != nil {
		return nil, nil, nil, err
	}
	tbl, err := fr.ReadTable(context.Background())
	if err != nil {
		return nil, nil, nil, err
	}
	defer tbl.Release()
	meta = map[string]string{}
	md := tbl.Schema().Metadata()
	for i, k := range md.Keys() {
		meta[k] = md.Values()[i]
	}
	n := int(tbl.NumRows())
	rows = make([]Row, n)
	for i := range rows {
		rows[i] = Row{}
	}
	for c := 0; c < int(tbl.NumCols()); c++ {
		f := tbl.Schema().Field(c)
		schema = append(schema, f.Name+":"+f.Type.String())
		col := tbl.Column(c)
		r := 0
		for _, chunk := range col.Data().Chunks() {
			for i := 0; i < chunk.Len(); i++ {
				rows[r][f.Name] = cell(chunk, i)
				r++
			}
		}
	}
	return rows, schema, meta, nil
}

func cell(a arrow.Array, i int) any {
	if a.IsNull(i) {
		return nil
	}
	switch x := a.(type) {
	case *array.Int64:
		return x.Value(i)
	case *array.Int32:
		return int64(x.Value(i))
	case *array.Int16:
		return int64(x.Value(i))
	case *array.Int8:
		return int64(x.Value(i))
	case *array.Uint64:
		v := x.Value(i)
		if v > math.MaxInt64 {
			return v
		}
		return int64(v)
	case *array.Uint32:
		return int64(x.Value(i))
	case *array.Uint16:
		return int64(x.Value(i))
	case *array.Uint8:
		return int64(x.Value(i))
	case *array.Float64:
		return x.Value(i)
	case *array.Float32:
		return float64(x.Value(i))
	case *array.String:
		return x.Value(i)
	case *array.LargeString:
		return x.Value(i)
	case *array.Binary:
		return string(x.Value(i))
	case *array.Boolean:
		return x.Value(i)
	case *array.Timestamp:
		t := int64(x.Value(i))
		switch x.DataType().(*arrow.TimestampType).Unit {
		case arrow.Second:
			return t * 1_000_000
		case arrow.Millisecond:
			return t * 1000
		case arrow.Nanosecond:
			return t / 1000
		}
		return t
	}
	return a.ValueStr(i)
}

// Key renders a row canonically (sorted columns; NULLs explicit; NaN stable).
func (r Row) Key() string {
	ks := make([]string, 0, len(r))
	for k := range r {
		ks = append(ks, k)
	}
	sort.Strings(ks)
	var b strings.Builder
	for _, k := range ks {
		b.WriteString(k)
		b.WriteByte('=')
		switch v := r[k].(type) {
		case nil:
			b.WriteString("NULL")
		case float64:
			if math.IsNaN(v) {
				b.WriteString("NaN")
			} else {
				fmt.Fprintf(&b, "f%v", v)
			}
		case int64:
			fmt.Fprintf(&b, "i%d", v)
		case uint64:
			fmt.Fprintf(&b, "u%d", v)
		case string:
			j, _ := json.Marshal(v)
			b.Write(j)
		case bool:
			fmt.Fprintf(&b, "b%v", v)
		default:
			fmt.Fprintf(&b, "?%v", v)
		}
		b.WriteByte(';')
	}
	return b.String()
}

// Multiset counts rows by canonical key.
func Multiset(rows []Row) map[string]int {
	m := map[string]int{}
	for _, r := range rows {
		m[r.Key()]++
	}
	return m
}

// DiffMultiset describes want vs got ("" if equal).
func DiffMultiset(want, got map[string]int) string {
	var missing, extra []string
	for k, n := range want {
		if got[k] < n {
			missing = append(missing, fmt.Sprintf("%dx %s", n-got[k], k))
		}
	}
	for k, n := range got {
		if want[k] < n {
			extra = append(extra, fmt.Sprintf("%dx %s", n-want[k], k))
		}
	}
	if len(missing) == 0 && len(extra) == 0 {
		return ""
	}
	sort.Strings(missing)
	sort.Strings(extra)
	return fmt.Sprintf("missing=%v extra=%v", missing, extra)
}
