// Package fsmx holds what the C22 and C23 explicit-state checks share: the command alphabet
// (built from the repository's own payload types, so a wire-format change is picked up at
// compile time), the replay driver, canonical-state normalisation and the reference
// "indexes recomputed from primaries" function.
package fsmx

import (
	"bytes"
	"encoding/json"
	"fmt"
	"hash/fnv"
	"io"
	"runtime"
	"sort"
	"sync"
	"sync/atomic"
	"time"

	araft "github.com/basekick-labs/arc/internal/cluster/raft"
	hraft "github.com/hashicorp/raft"
	"github.com/rs/zerolog"
)

type Cmd struct {
	Name  string
	Type  araft.CommandType
	P     any    // payload struct (marshalled at Log time)
	Raw   []byte // if non-nil: raw log data (malformed commands)
	Batch bool
	Sub   []Cmd // for batches: the member ops (used by the all-or-nothing reference)
	// Dyn, if set, builds the payload from the FSM's current state (a read-modify-write producer).
	Dyn func(f *araft.ClusterFSM) any
}

// Apply applies the command at log index idx (resolving a dynamic payload against f first).
func (c Cmd) Apply(f *araft.ClusterFSM, idx uint64) any {
	if c.Dyn != nil {
		c.P = c.Dyn(f)
	}
	return f.Apply(c.Log(idx))
}

var T0 = time.Unix(1700000000, 0).UTC()

func (c Cmd) Log(idx uint64) *hraft.Log {
	if c.Raw != nil {
		return &hraft.Log{Index: idx, Term: 1, Type: hraft.LogCommand, Data: c.Raw}
	}
	var pb []byte
	if rb, ok := c.P.([]byte); ok {
		pb = rb
	} else {
		var err error
		pb, err = json.Marshal(c.P)
		if err != nil {
			panic(err)
		}
	}
	data, err := json.Marshal(araft.Command{Type: c.Type, Payload: pb})
	if err != nil {
		panic(err)
	}
	return &hraft.Log{Index: idx, Term: 1, Type: hraft.LogCommand, Data: data}
}

// Prepare pre-encodes the log data of every command with a static payload (the encoded command does
// not depend on the log index), so replays do not re-marshal it. Returns cs for chaining.
func Prepare(cs []Cmd) []Cmd {
	for i := range cs {
		if cs[i].Dyn == nil && cs[i].Raw == nil {
			cs[i].Raw = cs[i].Log(0).Data
		}
		if len(cs[i].Sub) > 0 {
			Prepare(cs[i].Sub)
		}
	}
	return cs
}

func NewFSM() *araft.ClusterFSM { return araft.NewClusterFSM(zerolog.Nop()) }

// Replay builds a fresh FSM and applies seed then hist; log index starts at 1.
func Replay(alpha []Cmd, seed []Cmd, hist []int) *araft.ClusterFSM {
	f := NewFSM()
	idx := uint64(0)
	for _, c := range seed {
		idx++
		c.Apply(f, idx)
	}
	for _, h := range hist {
		idx++
		alpha[h].Apply(f, idx)
	}
	return f
}

type sink struct {
	bytes.Buffer
	cancelled bool
}

func (s *sink) ID() string    { return "verif" }
func (s *sink) Cancel() error { s.cancelled = true; return nil }
func (s *sink) Close() error  { return nil }

// SnapshotBytes runs the real Snapshot + Persist.
func SnapshotBytes(f *araft.ClusterFSM) ([]byte, error) {
	sn, err := f.Snapshot()
	if err != nil {
		return nil, err
	}
	s := &sink{}
	if err := sn.Persist(s); err != nil {
		return nil, err
	}
	sn.Release()
	if s.cancelled {
		return nil, fmt.Errorf("sink cancelled")
	}
	return s.Bytes(), nil
}

// Snapshot is the handle type returned by ClusterFSM.Snapshot().
type Snapshot = hraft.FSMSnapshot

// Handle takes the snapshot HANDLE only (what hashicorp/raft does under the FSM lock); Persist is
// called later by the snapshot goroutine while Apply keeps running.
func Handle(f *araft.ClusterFSM) (hraft.FSMSnapshot, error) { return f.Snapshot() }

// PersistHandle runs the real Persist of a previously taken handle into a buffer.
func PersistHandle(sn hraft.FSMSnapshot) ([]byte, error) {
	s := &sink{}
	if err := sn.Persist(s); err != nil {
		return nil, err
	}
	sn.Release()
	if s.cancelled {
		return nil, fmt.Errorf("sink cancelled")
	}
	return s.Bytes(), nil
}

// RestoreOnto runs the real Restore on an FSM that already holds state (InstallSnapshot on a follower).
func RestoreOnto(f *araft.ClusterFSM, b []byte) error {
	return f.Restore(io.NopCloser(bytes.NewReader(b)))
}

// Build applies cmds (log index = position, from 1) to a fresh FSM.
func Build(cmds []Cmd) *araft.ClusterFSM {
	f := NewFSM()
	for i, c := range cmds {
		c.Apply(f, uint64(i+1))
	}
	return f
}

// Raw is the un-normalised private-state dump (deterministic: sorted keys, sorted index slices).
// Raw equality implies Canon equality; the converse does not hold (empty index containers).
func Raw(f *araft.ClusterFSM) string { return string(f.VerifDump()) }

// Fingerprint is a 64-bit FNV-1a hash of Raw (only for vacuity counters: "did the state change",
// "did the target hold another state"; never for an oracle).
func Fingerprint(f *araft.ClusterFSM) uint64 {
	h := fnv.New64a()
	h.Write(f.VerifDump())
	return h.Sum64()
}

// Listing is the manifest as the paginated read API serves it (goes through the sorted-key cache,
// which is private state outside the dump); calling it also warms that cache.
func Listing(f *araft.ClusterFSM) []string {
	var out []string
	cursor := ""
	for i := 0; i < 1000; i++ {
		es, next, err := f.GetFilesPaginated(cursor, 1)
		if err != nil {
			return append(out, "error:"+err.Error())
		}
		for _, e := range es {
			out = append(out, e.Path)
		}
		if next == "" {
			break
		}
		cursor = next
	}
	return out
}

// ParallelFor runs fn(i) for i in [0,n) on all CPUs; returns false if stop() fired before the end.
func ParallelFor(n int, stop func() bool, fn func(i int)) bool {
	var idx int64 = -1
	var stopped int32
	var wg sync.WaitGroup
	for w := 0; w < runtime.NumCPU(); w++ {
		wg.Add(1)
		go func() {
			defer wg.Done()
			for {
				i := int(atomic.AddInt64(&idx, 1))
				if i >= n {
					return
				}
				if stop != nil && stop() {
					atomic.StoreInt32(&stopped, 1)
					return
				}
				fn(i)
			}
		}()
	}
	wg.Wait()
	return stopped == 0
}

// LessHist orders index lists by length, then lexicographically (deterministic representative choice).
func LessHist(a, b []int) bool {
	if len(a) != len(b) {
		return len(a) < len(b)
	}
	for i := range a {
		if a[i] != b[i] {
			return a[i] < b[i]
		}
	}
	return false
}

func RestoreFrom(b []byte) (*araft.ClusterFSM, error) {
	f := NewFSM()
	err := f.Restore(io.NopCloser(bytes.NewReader(b)))
	return f, err
}

// Dump is the decoded canonical state.
type Dump map[string]any

// Canon decodes VerifDump, drops empty containers from index maps (an absent key and an empty
// inner map answer every lookup identically) and re-encodes with sorted keys.
func Canon(f *araft.ClusterFSM) (Dump, string) {
	var d Dump
	dec := json.NewDecoder(bytes.NewReader(f.VerifDump()))
	dec.UseNumber()
	if err := dec.Decode(&d); err != nil {
		panic(err)
	}
	for k, v := range d {
		d[k] = prune(v)
		if d[k] == nil {
			d[k] = map[string]any{}
		}
	}
	b, _ := json.Marshal(d)
	return d, string(b)
}

func prune(v any) any {
	switch x := v.(type) {
	case map[string]any:
		for k, e := range x {
			p := prune(e)
			if isEmpty(p) {
				delete(x, k)
			} else {
				x[k] = p
			}
		}
		return x
	case []any:
		return x
	}
	return v
}

func isEmpty(v any) bool {
	switch x := v.(type) {
	case nil:
		return true
	case map[string]any:
		return len(x) == 0
	case []any:
		return len(x) == 0
	}
	return false
}

func m(d Dump, k string) map[string]any {
	if v, ok := d[k].(map[string]any); ok {
		return v
	}
	return map[string]any{}
}

func str(v any) string { return fmt.Sprint(v) }

// IndexMismatches recomputes every secondary index from the primary maps (the definition of
// the index) and returns a description of each disagreement with what the FSM actually holds.
func IndexMismatches(d Dump) []string {
	var out []string
	cmp := func(name string, want any) {
		w, _ := json.Marshal(prune(normalise(want)))
		g, _ := json.Marshal(m(d, name))
		if string(w) != string(g) {
			out = append(out, fmt.Sprintf("%s: fsm=%s recomputed=%s", name, g, w))
		}
	}
	// filesByDB: database -> sorted paths
	fb := map[string][]string{}
	for p, e := range m(d, "files") {
		db := str(e.(map[string]any)["database"])
		fb[db] = append(fb[db], p)
	}
	for _, l := range fb {
		sort.Strings(l)
	}
	cmp("filesByDB", fb)
	tp := map[string][]json.Number{}
	tn := map[string]json.Number{}
	for id, e := range m(d, "tokens") {
		em := e.(map[string]any)
		tp[str(em["token_prefix"])] = append(tp[str(em["token_prefix"])], json.Number(id))
		tn[str(em["name"])] = json.Number(id)
	}
	for _, l := range tp {
		sort.Slice(l, func(i, j int) bool { return num(l[i]) < num(l[j]) })
	}
	cmp("tokensByPrefix", tp)
	cmp("tokensByName", tn)
	on := map[string]json.Number{}
	for id, e := range m(d, "organizations") {
		on[str(e.(map[string]any)["name"])] = json.Number(id)
	}
	cmp("organizationsByName", on)
	to := map[string]map[string]json.Number{}
	for id, e := range m(d, "teams") {
		em := e.(map[string]any)
		o := str(em["organization_id"])
		if to[o] == nil {
			to[o] = map[string]json.Number{}
		}
		to[o][str(em["name"])] = json.Number(id)
	}
	cmp("teamsByOrg", to)
	setIdx := func(primary, field string) map[string][]json.Number {
		r := map[string][]json.Number{}
		for id, e := range m(d, primary) {
			k := str(e.(map[string]any)[field])
			r[k] = append(r[k], json.Number(id))
		}
		for _, l := range r {
			sort.Slice(l, func(i, j int) bool { return num(l[i]) < num(l[j]) })
		}
		return r
	}
	cmp("rolesByTeam", setIdx("roles", "team_id"))
	cmp("measurementPermsByRole", setIdx("measurementPermissions", "role_id"))
	cmp("tokenMembershipsByToken", setIdx("tokenMemberships", "token_id"))
	cmp("tokenMembershipsByTeam", setIdx("tokenMemberships", "team_id"))
	bp := map[string]map[string]json.Number{}
	for id, e := range m(d, "tokenMemberships") {
		em := e.(map[string]any)
		t := str(em["token_id"])
		if bp[t] == nil {
			bp[t] = map[string]json.Number{}
		}
		bp[t][str(em["team_id"])] = json.Number(id)
	}
	cmp("tokenMembershipsByPair", bp)
	return out
}

func num(n json.Number) int64 { v, _ := n.Int64(); return v }

// normalise round-trips through JSON so both sides have the same dynamic shape.
func normalise(v any) any {
	b, _ := json.Marshal(v)
	var o any
	dec := json.NewDecoder(bytes.NewReader(b))
	dec.UseNumber()
	dec.Decode(&o)
	return o
}

// RBACOrphans lists children whose parent is missing (C23, last sentence).
func RBACOrphans(d Dump) []string {
	var out []string
	has := func(mp, id string) bool { _, ok := m(d, mp)[id]; return ok }
	for id, e := range m(d, "teams") {
		if o := str(e.(map[string]any)["organization_id"]); !has("organizations", o) {
			out = append(out, fmt.Sprintf("team %s -> missing organization %s", id, o))
		}
	}
	for id, e := range m(d, "roles") {
		if o := str(e.(map[string]any)["team_id"]); !has("teams", o) {
			out = append(out, fmt.Sprintf("role %s -> missing team %s", id, o))
		}
	}
	for id, e := range m(d, "measurementPermissions") {
		if o := str(e.(map[string]any)["role_id"]); !has("roles", o) {
			out = append(out, fmt.Sprintf("measurement_permission %s -> missing role %s", id, o))
		}
	}
	for id, e := range m(d, "tokenMemberships") {
		em := e.(map[string]any)
		if o := str(em["team_id"]); !has("teams", o) {
			out = append(out, fmt.Sprintf("membership %s -> missing team %s", id, o))
		}
		if o := str(em["token_id"]); !has("tokens", o) {
			out = append(out, fmt.Sprintf("membership %s -> missing token %s", id, o))
		}
	}
	sort.Strings(out)
	return out
}

func Names(alpha []Cmd, hist []int) []string {
	out := make([]string, len(hist))
	for i, h := range hist {
		out[i] = alpha[h].Name
	}
	return out
}
