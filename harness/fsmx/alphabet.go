package fsmx

import (
	"encoding/json"
	"fmt"

	araft "github.com/basekick-labs/arc/internal/cluster/raft"
)

const (
	P1  = "db1/m/2026/01/01/00/a.parquet"
	P2  = "db2/m/2026/01/01/00/b.parquet"
	BAD = "db1/../../etc/passwd"
)

func file(path, db string, size int64, zeroCreated bool) araft.FileEntry {
	fe := araft.FileEntry{Path: path, SHA256: fmt.Sprintf("%064x", size), SizeBytes: size, Database: db, Measurement: "m",
		PartitionTime: T0, OriginNodeID: "n1", Tier: "hot", CreatedAt: T0}
	if zeroCreated {
		var z araft.FileEntry
		fe.CreatedAt = z.CreatedAt
	}
	return fe
}

func reg(name, path, db string, size int64, zc bool) Cmd {
	return Cmd{Name: name, Type: araft.CommandRegisterFile, P: araft.RegisterFilePayload{File: file(path, db, size, zc)}}
}
func upd(name, path, db string, size int64, zc bool) Cmd {
	return Cmd{Name: name, Type: araft.CommandUpdateFile, P: araft.UpdateFilePayload{File: file(path, db, size, zc)}}
}
func del(name, path string) Cmd {
	return Cmd{Name: name, Type: araft.CommandDeleteFile, P: araft.DeleteFilePayload{Path: path, Reason: "compaction"}}
}
func batch(name string, ops ...Cmd) Cmd {
	var bo []araft.BatchFileOp
	for _, o := range ops {
		var pb []byte
		if rb, ok := o.P.([]byte); ok {
			pb = rb
		} else {
			pb, _ = json.Marshal(o.P)
		}
		bo = append(bo, araft.BatchFileOp{Type: o.Type, Payload: pb})
	}
	return Cmd{Name: name, Type: araft.CommandBatchFileOps, P: araft.BatchFileOpsPayload{Ops: bo}, Batch: true, Sub: ops}
}

func node(id, role string) araft.NodeInfo {
	// exactly the fields the join paths set (coordinator.handleJoinRequest / registerSelfInFSMWhenLeader):
	// no WriterState.
	return araft.NodeInfo{ID: id, Name: id, Role: role, ClusterName: "c", Address: id + ":9100", APIAddress: id + ":8000", State: "healthy", Version: "v", CoreCount: 4}
}

func NodeCmds(ids []string, roles map[string]string) []Cmd {
	var out []Cmd
	for _, id := range ids {
		role := roles[id]
		if role != "" {
			out = append(out, Cmd{Name: "AddNode(" + id + "," + role + ")", Type: araft.CommandAddNode, P: araft.AddNodePayload{Node: node(id, role)}})
			id, role := id, role
			// UpdateNode as a read-modify-write producer would send it: the current record with one field changed.
			out = append(out, Cmd{Name: "UpdateNode(" + id + ",version)", Type: araft.CommandUpdateNode, Dyn: func(f *araft.ClusterFSM) any {
				n := node(id, role)
				if cur, ok := f.GetNode(id); ok {
					n = *cur
				}
				n.Version = "v2"
				return araft.UpdateNodePayload{Node: n}
			}})
		}
		out = append(out,
			Cmd{Name: "RemoveNode(" + id + ")", Type: araft.CommandRemoveNode, P: araft.RemoveNodePayload{NodeID: id}},
			Cmd{Name: "NodeState(" + id + ",failed)", Type: araft.CommandUpdateNodeState, P: araft.UpdateNodeStatePayload{NodeID: id, NewState: "failed"}},
			Cmd{Name: "Promote(" + id + ")", Type: araft.CommandPromoteWriter, P: araft.PromoteWriterPayload{NodeID: id}},
			Cmd{Name: "Demote(" + id + ")", Type: araft.CommandDemoteWriter, P: araft.DemoteWriterPayload{NodeID: id}},
			Cmd{Name: "AssignCompactor(" + id + ")", Type: araft.CommandAssignCompactor, P: araft.AssignCompactorPayload{NodeID: id}},
		)
		// promotions carrying an old-primary hint (what the failover manager sends; the hint may be stale)
		if roles[id] == "writer" {
			for _, o := range ids {
				out = append(out, Cmd{Name: "Promote(" + id + ",old=" + o + ")", Type: araft.CommandPromoteWriter, P: araft.PromoteWriterPayload{NodeID: id, OldPrimaryID: o}})
			}
		}
	}
	return out
}

func FileCmds() []Cmd {
	r1 := reg("Reg(P1,db1)", P1, "db1", 10, false)
	r1b := reg("Reg(P1,db2)", P1, "db2", 11, false)
	r2 := reg("Reg(P2,db2)", P2, "db2", 20, false)
	rbad := reg("Reg(BAD)", BAD, "db1", 1, false)
	rz := reg("Reg(P1,zeroCreatedAt)", P1, "db1", 12, true)
	d1 := del("Del(P1)", P1)
	d0 := del("Del(\"\")", "")
	u1 := upd("Upd(P1,db1,size2)", P1, "db1", 13, false)
	u1b := upd("Upd(P1,db2)", P1, "db2", 14, false)
	u2 := upd("Upd(P2,db=\"\")", P2, "", 21, false)
	ubad := upd("Upd(BAD)", BAD, "db1", 2, false)
	garbage := Cmd{Name: "RegGarbagePayload", Type: araft.CommandRegisterFile, P: []byte(`{"file":`)}
	wrongType := Cmd{Name: "AddNodeInBatch", Type: araft.CommandAddNode, P: araft.AddNodePayload{Node: node("n9", "writer")}}
	return []Cmd{r1, r1b, r2, rbad, rz, d1, d0, u1, u1b, u2, ubad,
		batch("Batch[Reg P1,Reg P2]", r1, r2),
		batch("Batch[Reg P1,Reg BAD]", r1, rbad),
		batch("Batch[Reg P2,Del P1]", r2, d1),
		batch("Batch[Reg P1,Del \"\"]", r1, d0),
		batch("Batch[Reg P1,AddNode]", r1, wrongType),
		batch("Batch[Upd P1 db2,Reg P1 zeroCreatedAt]", u1b, rz),
		batch("Batch[Del P1,Reg P1 db2]", d1, r1b),
		batch("Batch[Reg P2,garbage]", r2, garbage),
		batch("Batch[Upd P2 db\"\",Upd BAD]", u2, ubad),
		batch("Batch[]"),
	}
}

func tok(name, prefix, hash, perms string) araft.TokenEntry {
	return araft.TokenEntry{Name: name, Permissions: perms, TokenHash: hash, TokenPrefix: prefix, CreatedAtUnixNano: T0.UnixNano(), Enabled: true}
}

func TokenCmds(ids []int64) []Cmd {
	out := []Cmd{
		{Name: "CreateToken(a,p)", Type: araft.CommandCreateToken, P: araft.CreateTokenPayload{Token: tok("a", "p", "h1", "read,write")}},
		{Name: "CreateToken(b,p)", Type: araft.CommandCreateToken, P: araft.CreateTokenPayload{Token: tok("b", "p", "h2", "read")}},
		{Name: "CreateToken(a,q)", Type: araft.CommandCreateToken, P: araft.CreateTokenPayload{Token: tok("a", "q", "h3", "")}},
		{Name: "CreateToken(noHash)", Type: araft.CommandCreateToken, P: araft.CreateTokenPayload{Token: tok("c", "r", "", "read")}},
		{Name: "CreateToken(badPerms)", Type: araft.CommandCreateToken, P: araft.CreateTokenPayload{Token: tok("d", "r", "h4", "root")}},
	}
	for _, id := range ids {
		s := fmt.Sprint(id)
		out = append(out,
			Cmd{Name: "UpdateToken(" + s + ",name=b)", Type: araft.CommandUpdateToken, P: araft.UpdateTokenPayload{ID: id, Name: "b", ChangedFields: []string{"name"}}},
			Cmd{Name: "UpdateToken(" + s + ",name=\"\")", Type: araft.CommandUpdateToken, P: araft.UpdateTokenPayload{ID: id, Name: "", ChangedFields: []string{"name"}}},
			Cmd{Name: "UpdateToken(" + s + ",perms=read)", Type: araft.CommandUpdateToken, P: araft.UpdateTokenPayload{ID: id, Permissions: "read", ChangedFields: []string{"permissions"}}},
			Cmd{Name: "UpdateToken(" + s + ",perms=bogus)", Type: araft.CommandUpdateToken, P: araft.UpdateTokenPayload{ID: id, Permissions: "bogus", ChangedFields: []string{"permissions"}}},
			Cmd{Name: "UpdateToken(" + s + ",expires)", Type: araft.CommandUpdateToken, P: araft.UpdateTokenPayload{ID: id, ExpiresAtUnixNano: T0.UnixNano() + 1, ChangedFields: []string{"expires_at"}}},
			Cmd{Name: "RevokeToken(" + s + ")", Type: araft.CommandRevokeToken, P: araft.RevokeTokenPayload{ID: id}},
			Cmd{Name: "DeleteToken(" + s + ")", Type: araft.CommandDeleteToken, P: araft.DeleteTokenPayload{ID: id}},
			Cmd{Name: "RotateToken(" + s + ",q)", Type: araft.CommandRotateToken, P: araft.RotateTokenPayload{ID: id, NewHash: "h9", NewPrefix: "q"}},
			Cmd{Name: "RotateToken(" + s + ",\"\")", Type: araft.CommandRotateToken, P: araft.RotateTokenPayload{ID: id, NewHash: "h9", NewPrefix: ""}},
		)
	}
	return out
}

// RBACCmds: typed id references (existing ids of that type plus a few "future" ids).
func RBACCmds(orgs, teams, roles, mperms, tokens []int64) []Cmd {
	ts := T0.UnixNano()
	out := []Cmd{
		{Name: "CreateOrg(o)", Type: araft.CommandCreateOrganization, P: araft.CreateOrganizationPayload{Organization: araft.OrganizationEntry{Name: "o", CreatedAtUnixNano: ts}}},
		{Name: "CreateOrg(o2)", Type: araft.CommandCreateOrganization, P: araft.CreateOrganizationPayload{Organization: araft.OrganizationEntry{Name: "o2", CreatedAtUnixNano: ts}}},
		{Name: "CreateOrg(\"\")", Type: araft.CommandCreateOrganization, P: araft.CreateOrganizationPayload{Organization: araft.OrganizationEntry{Name: "", CreatedAtUnixNano: ts}}},
	}
	for _, id := range orgs {
		s := fmt.Sprint(id)
		out = append(out,
			Cmd{Name: "UpdateOrg(" + s + ",name=o2)", Type: araft.CommandUpdateOrganization, P: araft.UpdateOrganizationPayload{ID: id, Name: "o2", UpdatedAtUnixNano: ts + 1, ChangedFields: []string{"name"}}},
			Cmd{Name: "UpdateOrg(" + s + ",name=o3,name=o3)", Type: araft.CommandUpdateOrganization, P: araft.UpdateOrganizationPayload{ID: id, Name: "o3", UpdatedAtUnixNano: ts + 1, ChangedFields: []string{"name", "name"}}},
			Cmd{Name: "UpdateOrg(" + s + ",disable)", Type: araft.CommandUpdateOrganization, P: araft.UpdateOrganizationPayload{ID: id, Enabled: false, UpdatedAtUnixNano: ts + 2, ChangedFields: []string{"enabled"}}},
			Cmd{Name: "DeleteOrg(" + s + ")", Type: araft.CommandDeleteOrganization, P: araft.DeleteOrganizationPayload{ID: id}},
			Cmd{Name: "CreateTeam(org" + s + ",t)", Type: araft.CommandCreateTeam, P: araft.CreateTeamPayload{Team: araft.TeamEntry{OrganizationID: id, Name: "t", CreatedAtUnixNano: ts}}},
		)
	}
	for _, id := range teams {
		s := fmt.Sprint(id)
		out = append(out,
			Cmd{Name: "UpdateTeam(" + s + ",name=t2)", Type: araft.CommandUpdateTeam, P: araft.UpdateTeamPayload{ID: id, Name: "t2", UpdatedAtUnixNano: ts + 1, ChangedFields: []string{"name"}}},
			Cmd{Name: "UpdateTeam(" + s + ",disable)", Type: araft.CommandUpdateTeam, P: araft.UpdateTeamPayload{ID: id, Enabled: false, UpdatedAtUnixNano: ts + 2, ChangedFields: []string{"enabled"}}},
			Cmd{Name: "DeleteTeam(" + s + ")", Type: araft.CommandDeleteTeam, P: araft.DeleteTeamPayload{ID: id}},
			Cmd{Name: "CreateRole(team" + s + ")", Type: araft.CommandCreateRole, P: araft.CreateRolePayload{Role: araft.RoleEntry{TeamID: id, DatabasePattern: "db*", Permissions: "read", CreatedAtUnixNano: ts}}},
		)
		for _, tk := range tokens {
			out = append(out,
				Cmd{Name: fmt.Sprintf("AddTokenToTeam(tok%d,team%d)", tk, id), Type: araft.CommandAddTokenToTeam, P: araft.AddTokenToTeamPayload{Membership: araft.TokenMembershipEntry{TokenID: tk, TeamID: id, CreatedAtUnixNano: ts}}},
				Cmd{Name: fmt.Sprintf("RemoveTokenFromTeam(tok%d,team%d)", tk, id), Type: araft.CommandRemoveTokenFromTeam, P: araft.RemoveTokenFromTeamPayload{TokenID: tk, TeamID: id}},
			)
		}
	}
	for _, id := range roles {
		s := fmt.Sprint(id)
		out = append(out,
			Cmd{Name: "UpdateRole(" + s + ",perms=write)", Type: araft.CommandUpdateRole, P: araft.UpdateRolePayload{ID: id, Permissions: "write", ChangedFields: []string{"permissions"}}},
			Cmd{Name: "UpdateRole(" + s + ",pattern=\"\")", Type: araft.CommandUpdateRole, P: araft.UpdateRolePayload{ID: id, DatabasePattern: "", ChangedFields: []string{"database_pattern"}}},
			Cmd{Name: "DeleteRole(" + s + ")", Type: araft.CommandDeleteRole, P: araft.DeleteRolePayload{ID: id}},
			Cmd{Name: "CreateMPerm(role" + s + ")", Type: araft.CommandCreateMeasurementPermission, P: araft.CreateMeasurementPermissionPayload{MeasurementPermission: araft.MeasurementPermissionEntry{RoleID: id, MeasurementPattern: "cpu*", Permissions: "read", CreatedAtUnixNano: ts}}},
		)
	}
	for _, id := range mperms {
		out = append(out, Cmd{Name: fmt.Sprintf("DeleteMPerm(%d)", id), Type: araft.CommandDeleteMeasurementPermission, P: araft.DeleteMeasurementPermissionPayload{ID: id}})
	}
	for _, id := range tokens {
		out = append(out, Cmd{Name: fmt.Sprintf("DeleteToken(%d)", id), Type: araft.CommandDeleteToken, P: araft.DeleteTokenPayload{ID: id}})
	}
	return out
}

func MalformedCmds() []Cmd {
	return []Cmd{
		{Name: "GarbageLog", Raw: []byte("{not json")},
		{Name: "UnknownType", Type: araft.CommandType(200), P: map[string]any{}},
		{Name: "AddNodeGarbage", Type: araft.CommandAddNode, P: []byte(`[1,2]`)},
	}
}

// HierarchySeed builds token(1) org(2) team(3) role(4) mperm(5) membership(6) org2(7) team(8, in org 7).
func HierarchySeed() []Cmd {
	ts := T0.UnixNano()
	return []Cmd{
		{Name: "CreateToken(a,p)", Type: araft.CommandCreateToken, P: araft.CreateTokenPayload{Token: tok("a", "p", "h1", "read")}},
		{Name: "CreateOrg(o)", Type: araft.CommandCreateOrganization, P: araft.CreateOrganizationPayload{Organization: araft.OrganizationEntry{Name: "o", CreatedAtUnixNano: ts}}},
		{Name: "CreateTeam(org2,t)", Type: araft.CommandCreateTeam, P: araft.CreateTeamPayload{Team: araft.TeamEntry{OrganizationID: 2, Name: "t", CreatedAtUnixNano: ts}}},
		{Name: "CreateRole(team3)", Type: araft.CommandCreateRole, P: araft.CreateRolePayload{Role: araft.RoleEntry{TeamID: 3, DatabasePattern: "db*", Permissions: "read", CreatedAtUnixNano: ts}}},
		{Name: "CreateMPerm(role4)", Type: araft.CommandCreateMeasurementPermission, P: araft.CreateMeasurementPermissionPayload{MeasurementPermission: araft.MeasurementPermissionEntry{RoleID: 4, MeasurementPattern: "cpu*", Permissions: "read", CreatedAtUnixNano: ts}}},
		{Name: "AddTokenToTeam(tok1,team3)", Type: araft.CommandAddTokenToTeam, P: araft.AddTokenToTeamPayload{Membership: araft.TokenMembershipEntry{TokenID: 1, TeamID: 3, CreatedAtUnixNano: ts}}},
		{Name: "CreateOrg(o2)", Type: araft.CommandCreateOrganization, P: araft.CreateOrganizationPayload{Organization: araft.OrganizationEntry{Name: "o2", CreatedAtUnixNano: ts}}},
		{Name: "CreateTeam(org7,t)", Type: araft.CommandCreateTeam, P: araft.CreateTeamPayload{Team: araft.TeamEntry{OrganizationID: 7, Name: "t", CreatedAtUnixNano: ts}}},
	}
}
