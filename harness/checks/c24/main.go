// C24 — The replicated WAL stream is ordered, gap-free and authenticated.
// (a) schedules: 2-3 producer threads call the real Sender.Replicate concurrently; every schedule up
//     to a deviation bound; the bytes the real distribution loop wrote are then fed to the real
//     Receiver.receiveLoop. (b) wire adversary: every single-frame and single-byte manipulation of
//     a clean 6-entry stream (checkpoint every 2) is fed to the real receiveLoop.
// (c) (wal.go) the producers are concurrent appenders on a real wal.Writer whose replication hook is
//     wired as the coordinator wires it, so numbering/ordering decided upstream of the sender is explored.
// (d) (wal.go) a reader reconnects under the same id while its old connection is still registered.
package main

import (
	"bytes"
	"context"
	"encoding/binary"
	"fmt"
	"io"
	"net"
	"os"
	"sort"
	"strconv"
	"strings"
	"sync"
	"time"

	"github.com/basekick-labs/arc/internal/cluster/replication"
	"github.com/basekick-labs/arc/internal/cluster/security"
	"github.com/basekick-labs/arc/zzverif/engine/ev"
	"github.com/basekick-labs/arc/zzverif/engine/sched"
	"github.com/basekick-labs/arc/zzverif/shim/vatomic"
	"github.com/basekick-labs/arc/zzverif/shim/vclock"
	"github.com/basekick-labs/arc/zzverif/shim/vsched"
	"github.com/basekick-labs/arc/zzverif/shim/vsync"
	"github.com/rs/zerolog"
)

const (
	secret  = "verif-shared-secret-0123456789abcdef"
	cluster = "c"
	nonce   = "handshake-nonce-1"
)

// capConn: Write appends to a buffer and never blocks; Read blocks (visibly) until Close.
type capConn struct {
	mu     sync.Mutex
	buf    bytes.Buffer
	closed bool
}

func (c *capConn) Write(p []byte) (int, error) {
	c.mu.Lock()
	defer c.mu.Unlock()
	if c.closed {
		return 0, io.ErrClosedPipe
	}
	return c.buf.Write(p)
}
func (c *capConn) isClosed() bool { c.mu.Lock(); defer c.mu.Unlock(); return c.closed }
func (c *capConn) Read(p []byte) (int, error) {
	vsched.Yield("conn read", c.isClosed)
	for !c.isClosed() {
		time.Sleep(100 * time.Microsecond) // detached only
	}
	return 0, io.EOF
}
func (c *capConn) Close() error                       { c.mu.Lock(); c.closed = true; c.mu.Unlock(); return nil }
func (c *capConn) LocalAddr() net.Addr                { return addr{} }
func (c *capConn) RemoteAddr() net.Addr               { return addr{} }
func (c *capConn) SetDeadline(time.Time) error        { return nil }
func (c *capConn) SetReadDeadline(time.Time) error    { return nil }
func (c *capConn) SetWriteDeadline(time.Time) error   { return nil }
func (c *capConn) bytes() []byte                      { c.mu.Lock(); defer c.mu.Unlock(); return append([]byte{}, c.buf.Bytes()...) }

type addr struct{}

func (addr) Network() string { return "mem" }
func (addr) String() string  { return "mem" }

// replayConn serves a fixed byte stream then EOF; writes (acks) are discarded.
type replayConn struct {
	r *bytes.Reader
}

func (c *replayConn) Read(p []byte) (int, error)       { return c.r.Read(p) }
func (c *replayConn) Write(p []byte) (int, error)      { return len(p), nil }
func (c *replayConn) Close() error                     { return nil }
func (c *replayConn) LocalAddr() net.Addr              { return addr{} }
func (c *replayConn) RemoteAddr() net.Addr             { return addr{} }
func (c *replayConn) SetDeadline(time.Time) error      { return nil }
func (c *replayConn) SetReadDeadline(time.Time) error  { return nil }
func (c *replayConn) SetWriteDeadline(time.Time) error { return nil }

type applied struct {
	payloads []string
}

func (a *applied) ApplyReplicatedEntry(ctx context.Context, payload []byte) error {
	a.payloads = append(a.payloads, string(payload))
	return nil
}

// receive feeds a stream to the real receiver and returns the applied payloads and last sequence.
func receive(stream []byte, n string) ([]string, uint64) {
	key, err := security.DeriveReplicationSessionKey(secret, n)
	if err != nil {
		ev.Unbound("derive session key: " + err.Error())
	}
	a := &applied{}
	cfg := &replication.ReceiverConfig{ReaderID: "r1", IngestHandler: a, Logger: zerolog.Nop(), SharedSecret: secret, ClusterName: cluster, AckInterval: time.Hour}
	last := replication.VerifReceive(cfg, &replayConn{r: bytes.NewReader(stream)}, key)
	return a.payloads, last
}

type spec struct {
	name      string
	producers [][]string // payloads per producer thread
	interval  int
}

func specs() []spec {
	return []spec{
		{"2 producers x 1 entry, checkpoint every 2", [][]string{{"a1"}, {"b1"}}, 2},
		{"2 producers x 2 entries, checkpoint every 2", [][]string{{"a1", "a2"}, {"b1", "b2"}}, 2},
		{"3 producers x 1 entry, checkpoint every 1", [][]string{{"a1"}, {"b1"}, {"c1"}}, 1},
	}
}

// scenarios: the list (and its order) is the same in the parent and in every worker process.
func scenarios() []sched.Scenario {
	out := directScenarios()
	out = append(out, walScenarios()...)
	out = append(out, reconnectScenario())
	return out
}

func directScenarios() []sched.Scenario {
	var out []sched.Scenario
	for _, sp := range specs() {
		sp := sp
		out = append(out, sched.Scenario{Name: sp.name, Setup: func() (func(), func() sched.Outcome, func()) {
			vclock.Install(time.Now())
			vatomic.Reset()
			conn := &capConn{}
			var dropped int64
			var setupErr string
			body := func() {
				s := replication.NewSender(&replication.SenderConfig{BufferSize: 64, WriteTimeout: time.Hour, Logger: zerolog.Nop(), SharedSecret: secret,
					ClusterName: cluster, LocalNodeID: "w1", CheckpointInterval: sp.interval})
				vatomic.Watch(s.VerifSeqPtr(), "sequence")
				if err := s.Start(context.Background()); err != nil {
					setupErr = err.Error()
					return
				}
				if err := s.AcceptReader(conn, "r1", nonce, 0); err != nil {
					setupErr = err.Error()
					return
				}
				var wg vsync.WaitGroup
				for pi, ps := range sp.producers {
					pi, ps := pi, ps
					wg.Add(1)
					vsched.Go(fmt.Sprintf("producer%d", pi), func() {
						defer wg.Done()
						for _, p := range ps {
							s.Replicate(&replication.ReplicateEntry{TimestampUS: 1, Payload: []byte(p)})
						}
					})
				}
				wg.Wait()
				vsched.Yield("wait for the distribution loop to drain", s.VerifDrained)
				dropped = s.VerifDropped()
				s.Stop()
			}
			check := func() sched.Outcome {
				vclock.Uninstall()
				if setupErr != "" {
					return sched.Outcome{Key: "setup-error:" + setupErr}
				}
				var want []string
				for _, ps := range sp.producers {
					want = append(want, ps...)
				}
				got, _ := receive(conn.bytes(), nonce)
				order := strings.Join(got, ",")
				if dropped > 0 {
					return sched.Outcome{Key: "writer-dropped " + order}
				}
				w := append([]string{}, want...)
				g := append([]string{}, got...)
				sort.Strings(w)
				sort.Strings(g)
				if strings.Join(w, ",") != strings.Join(g, ",") {
					return sched.Outcome{Key: "applied " + order, Violation: "reader-did-not-apply-every-queued-entry(healthy connection dropped)", Detail: map[string]any{"queued": want, "applied": got}}
				}
				// per-producer order must be preserved
				for _, ps := range sp.producers {
					idx := -1
					for _, p := range ps {
						j := indexOf(got, p)
						if j < idx {
							return sched.Outcome{Key: "applied " + order, Violation: "producer-order-not-preserved", Detail: got}
						}
						idx = j
					}
				}
				return sched.Outcome{Key: "applied " + order}
			}
			return body, check, nil
		}})
	}
	return out
}

func indexOf(l []string, s string) int {
	for i, x := range l {
		if x == s {
			return i
		}
	}
	return -1
}

// ---- (b) wire adversary -----------------------------------------------------------------------

type frame struct {
	raw []byte
	typ byte
}

func split(stream []byte) []frame {
	var out []frame
	for len(stream) >= 5 {
		n := int(binary.BigEndian.Uint32(stream[:4]))
		if 4+n > len(stream) {
			break
		}
		out = append(out, frame{raw: stream[:4+n], typ: stream[4]})
		stream = stream[4+n:]
	}
	return out
}

func join(fs []frame) []byte {
	var b []byte
	for _, f := range fs {
		b = append(b, f.raw...)
	}
	return b
}

// cleanStream produces the bytes the real sender writes for payloads sent sequentially.
func cleanStream(payloads []string, n string, interval int) []byte {
	conn := &capConn{}
	s := replication.NewSender(&replication.SenderConfig{BufferSize: 64, WriteTimeout: time.Hour, Logger: zerolog.Nop(), SharedSecret: secret,
		ClusterName: cluster, LocalNodeID: "w1", CheckpointInterval: interval})
	s.Start(context.Background())
	if err := s.AcceptReader(conn, "r1", n, 0); err != nil {
		ev.Unbound("AcceptReader: " + err.Error())
	}
	for _, p := range payloads {
		s.Replicate(&replication.ReplicateEntry{TimestampUS: 1, Payload: []byte(p)})
	}
	for i := 0; i < 20000 && !s.VerifDrained(); i++ {
		time.Sleep(100 * time.Microsecond)
	}
	if !s.VerifDrained() {
		ev.Unbound("sender did not drain")
	}
	b := conn.bytes()
	conn.Close()
	s.Stop()
	return b
}

func wireAdversary(run *ev.Run) (cases, nontrivial int, samples []any) {
	orig := []string{"p1", "p2", "p3", "p4", "p5", "p6"}
	clean := cleanStream(orig, nonce, 2)
	fs := split(clean)
	if got, _ := receive(clean, nonce); strings.Join(got, ",") != strings.Join(orig, ",") {
		// the UNMANIPULATED stream of a burst of 6 queued entries is itself not applied completely:
		// that is the property (reader applies every queued entry, healthy connection kept), not a harness problem
		run.Violate("reader-did-not-apply-every-queued-entry|burst of 6 entries, checkpoint every 2, no wire manipulation",
			"the real receiver stopped applying an unmanipulated stream produced by the real sender", map[string]any{"queued": orig, "applied": got, "frames": len(fs)})
		return 1, 1, []any{map[string]any{"clean_stream_frames": len(fs), "applied": got}}
	}
	other := split(cleanStream([]string{"x1", "x2", "x3", "x4", "x5", "x6"}, "another-session-nonce", 2))
	// position (index in fs) of the first checkpoint at or after frame i
	nextCP := func(i int) int {
		for j := i; j < len(fs); j++ {
			if fs[j].typ == replication.MsgReplicateCheckpoint {
				return j
			}
		}
		return len(fs)
	}
	// entries (payloads) that precede or equal frame index j in the original stream
	entriesUpTo := func(j int) int {
		n := 0
		for k := 0; k <= j && k < len(fs); k++ {
			if fs[k].typ == replication.MsgReplicateEntry {
				n++
			}
		}
		return n
	}
	judge := func(kind, where string, stream []byte, gapAllowedUntil int) {
		cases++
		got, _ := receive(stream, nonce)
		if strings.Join(got, ",") != strings.Join(orig, ",") {
			nontrivial++
		}
		// nothing altered / injected, strictly increasing, each at most once
		last := -1
		for _, g := range got {
			j := indexOf(orig, g)
			if j < 0 {
				run.Violate("applied-altered-or-injected-entry|"+kind+"@"+where, "the reader applied a payload the writer never queued on this connection", map[string]any{"kind": kind, "where": where, "applied": got})
				return
			}
			if j <= last {
				run.Violate("applied-replayed-or-reordered-entry|"+kind+"@"+where, "the reader applied entries out of order or twice", map[string]any{"kind": kind, "where": where, "applied": got})
				return
			}
			last = j
		}
		// a gap must be detected no later than the next checkpoint
		for i := 0; i < len(got); i++ {
			j := indexOf(orig, got[i])
			if j != i { // got skips some entry before j
				if gapAllowedUntil < 0 || j >= gapAllowedUntil {
					run.Violate("gap-not-detected-by-next-checkpoint|"+kind+"@"+where, "entries after a missing one were applied beyond the next checkpoint", map[string]any{"kind": kind, "where": where, "applied": got})
				}
				return
			}
		}
	}
	for i, f := range fs {
		where := fmt.Sprintf("frame%d(type=0x%02x)", i, f.typ)
		// drop
		judge("drop", where, join(append(append([]frame{}, fs[:i]...), fs[i+1:]...)), entriesUpTo(nextCP(i+1)))
		// duplicate
		d := append(append([]frame{}, fs[:i+1]...), fs[i:]...)
		judge("duplicate", where, join(d), -1)
		// swap with next
		if i+1 < len(fs) {
			sw := append([]frame{}, fs...)
			sw[i], sw[i+1] = sw[i+1], sw[i]
			judge("swap-adjacent", where, join(sw), entriesUpTo(nextCP(i+2)))
		}
		// splice the same-position frame of another session
		if i < len(other) {
			sp := append([]frame{}, fs...)
			sp[i] = other[i]
			judge("cross-session-splice", where, join(sp), entriesUpTo(nextCP(i+1)))
		}
		// replay an earlier checkpoint here
		for k := 0; k < i; k++ {
			if fs[k].typ == replication.MsgReplicateCheckpoint {
				rp := append(append(append([]frame{}, fs[:i]...), fs[k]), fs[i:]...)
				judge("checkpoint-replay", where, join(rp), -1)
			}
		}
	}
	// every single-byte flip (2 masks) of the whole stream
	for p := 0; p < len(clean); p++ {
		for _, m := range []byte{0x01, 0x80} {
			if p < 4 && m == 0x80 && p == 0 {
				continue // length top bit: 2 GiB frame; rejected by MaxMessageSize, covered by p==1
			}
			mut := append([]byte{}, clean...)
			mut[p] ^= m
			// which frame does p fall in
			off, fi := 0, 0
			for k, f := range fs {
				if p < off+len(f.raw) {
					fi = k
					break
				}
				off += len(f.raw)
			}
			judge("byte-flip", fmt.Sprintf("frame%d(type=0x%02x)", fi, fs[fi].typ), mut, entriesUpTo(nextCP(fi+1)))
		}
	}
	samples = append(samples, map[string]any{"clean_stream_frames": len(fs), "clean_stream_bytes": len(clean)})
	return
}

func main() {
	sched.Main(scenarios)
	run := ev.Start("C24", "model_checking")
	if err := hookMappingInRepo(); err != nil {
		ev.Unbound(err.Error())
	}
	scs := scenarios()
	names := make([]string, len(scs))
	var jobs []sched.Job
	bound := 3
	if !run.Quick() {
		bound = 4
	}
	// the WAL-hook scenarios have three more threads' worth of scheduling points per execution (WAL mutex, WAL
	// writer goroutine, hook): the 2x1 scenario runs to the same bound as the direct producers, the 3- and 4-entry
	// ones and the reconnect scenario to one deviation less (the budget: quick <= 60 s)
	boundOf := func(name string) int {
		b := bound
		if (strings.HasPrefix(name, "WAL hook:") && !strings.Contains(name, "2 appenders x 1 ")) || name == reconnectName {
			b = bound - 1
		}
		if v, err := strconv.Atoi(os.Getenv("VERIF_C24_WALBOUND")); err == nil && strings.HasPrefix(name, "WAL hook:") {
			b = v // experiments only
		}
		return b
	}
	minBound := bound
	bounds := map[string]int{}
	for i, s := range scs {
		names[i] = s.Name
		b := boundOf(s.Name)
		bounds[s.Name] = b
		if b < minBound {
			minBound = b
		}
		jobs = append(jobs, sched.Job{Scenario: i, Bound: b, FreeCost: 1})
	}
	res, err := sched.RunSharded(names, jobs, 4, 16, run.Deadline, 5*time.Second)
	if err != nil {
		fmt.Println("HARNESS-UNBOUND:", err)
		os.Exit(2)
	}
	var execs int
	var points int64
	outcomes := map[string]bool{}
	complete := true
	var per []map[string]any
	var samples []any
	for _, r := range res {
		execs += r.Execs
		points += r.Points
		complete = complete && r.Complete
		for k := range r.Outcomes {
			outcomes[r.Scenario+"|"+k] = true
			if strings.HasPrefix(k, "setup-error") {
				ev.Unbound(k)
			}
		}
		if len(r.Nondet) > 0 {
			ev.Nondeterminism(strings.Join(r.Nondet, "; "))
		}
		for _, cl := range sched.SortedKeys(r.Violations) {
			v := r.Violations[cl]
			run.Violate(cl+"|"+r.Scenario, fmt.Sprintf("schedule with %d preemption(s) (%d schedules in this class)", v.Preemptions, v.Count),
				map[string]any{"scenario": r.Scenario, "choices": v.Choices, "trace": v.Trace, "detail": v.Detail})
		}
		per = append(per, map[string]any{"scenario": r.Scenario, "bound": r.Bound, "schedules": r.Execs, "points": r.Points, "outcomes": r.Outcomes,
			"stuck": r.Stuck, "diverged": r.Diverged, "foreign_calls": r.Foreign, "complete": r.Complete})
		if len(r.Sample) > 0 && len(samples) < 2 {
			samples = append(samples, map[string]any{"scenario": r.Scenario, "longest_schedule": r.Sample})
		}
		fmt.Printf("scenario %q: bound=%d schedules=%d points=%d outcomes=%d stuck=%d diverged=%d foreign=%d complete=%v\n", r.Scenario, r.Bound, r.Execs, r.Points, len(r.Outcomes), r.Stuck, r.Diverged, r.Foreign, r.Complete)
		for _, d := range r.DivSamples {
			fmt.Println("  diverged:", d)
		}
	}
	wc, wn, ws := wireAdversary(run)
	samples = append(samples, ws...)
	fmt.Printf("wire adversary: %d manipulated streams, %d changed what the reader applied\n", wc, wn)
	run.Coverage["states"] = len(outcomes)
	run.Coverage["transitions"] = points
	run.Coverage["traces_validated_against_impl"] = execs + wc
	run.Coverage["schedules"] = execs
	run.Coverage["wire_manipulations"] = wc
	run.Coverage["wire_manipulations_nontrivial"] = wn
	run.Coverage["deviation_bound_completed"] = minBound
	run.Coverage["deviation_bounds"] = bounds
	run.Coverage["samples"] = samples
	run.Coverage["exhaustive"] = complete
	run.Coverage["scenarios"] = per
	run.Coverage["explanation"] = "states = distinct (scenario, applied order + wire sequence numbers) outcomes; transitions = scheduling points; the sender's sequence counter is a watched atomic, the WAL numbers under its (instrumented) mutex; the receiver is the real receiveLoop run over the bytes the real sender wrote"
	run.Assume("WAL-hook scenarios: the hook closure is a literal copy of the one Coordinator.StartReplication installs (the run refuses to start if coordinator.go no longer contains it); wal.Writer files live on tmpfs; WAL sync ticker and rotation never fire (virtual clock is not advanced)")
	run.Assume("the real Receiver.receiveLoop runs after each execution over the bytes the sender wrote to the connection: what it applies is a function of that byte stream only (acks are disabled by AckInterval=1h), so interleaving it with the writer's threads adds no behaviour")
	run.Assume("deviation bounds per scenario are in coverage.deviation_bounds: the 3- and 4-entry WAL-hook scenarios and the reconnect scenario run one deviation below the direct-producer scenarios")
	run.Assume("wire adversary: one manipulation per stream (drop, duplicate, adjacent swap, cross-session splice, checkpoint replay, single bit flips 0x01/0x80 of every byte)")
	run.Finish()
}
