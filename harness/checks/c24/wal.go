// C24 (c): the sender driven the way production drives it. The producers are concurrent appenders on a
// REAL wal.Writer (instrumented by the same overlay; files on tmpfs) whose replication hook is the
// closure cluster.Coordinator.StartReplication installs (field mapping copied literally; main() refuses
// to run if coordinator.go no longer contains it). Whatever numbering / ordering is decided upstream of
// Sender.Replicate (the WAL numbers its entries under its mutex and calls the hook after releasing it)
// is therefore part of the explored schedule space.
// (d): a reader reconnects with the same id while its previous connection is still registered.
package main

import (
	"context"
	"encoding/binary"
	"fmt"
	"os"
	"path/filepath"
	"regexp"
	"sort"
	"strings"
	"sync"
	"sync/atomic"
	"time"

	"github.com/basekick-labs/arc/internal/cluster/replication"
	"github.com/basekick-labs/arc/internal/wal"
	"github.com/basekick-labs/arc/zzverif/engine/sched"
	"github.com/basekick-labs/arc/zzverif/shim/vatomic"
	"github.com/basekick-labs/arc/zzverif/shim/vclock"
	"github.com/basekick-labs/arc/zzverif/shim/vsched"
	"github.com/basekick-labs/arc/zzverif/shim/vsync"
	"github.com/rs/zerolog"
)

// ---- scratch (tmpfs only) ---------------------------------------------------------------------

var (
	scratchRoot = fmt.Sprintf("/dev/shm/verif.c24.%d", os.Getpid())
	execSeq     int64
)

func newExecDir() string {
	return filepath.Join(scratchRoot, fmt.Sprintf("e%06d", atomic.AddInt64(&execSeq, 1)))
}

func dropExecDir(d string) {
	os.RemoveAll(d)
	os.Remove(scratchRoot) // succeeds only when empty; worker processes end with os.Exit, so tidy as we go
}

// waitFor parks the calling thread until pred holds (a pure predicate). Detached (free-running -race
// pass) it polls, bounded, because that pass does not judge the oracle.
func waitFor(site string, pred func() bool) {
	if vsched.Yield(site, pred) {
		return
	}
	for i := 0; i < 20000 && !pred(); i++ {
		time.Sleep(100 * time.Microsecond)
	}
}

// ---- (c) WAL appenders ------------------------------------------------------------------------

type walOp struct {
	db      string // "" = AppendRaw(payload); else AppendRawWithMeta(db, payload)
	payload string
}

// replicated is the payload the reader must apply for this append.
func (o walOp) replicated() string {
	if o.db == "" {
		return o.payload
	}
	b := []byte{wal.WALEnvelopeMarker, 0, 0}
	binary.BigEndian.PutUint16(b[1:3], uint16(len(o.db)))
	return string(b) + o.db + o.payload
}

type walSpec struct {
	name      string
	appenders [][]walOp
	interval  int
}

func walSpecs() []walSpec {
	return []walSpec{
		{"WAL hook: 2 appenders x 1 AppendRaw, checkpoint every 2", [][]walOp{{{"", "a1"}}, {{"", "b1"}}}, 2},
		{"WAL hook: 2 appenders x 2 AppendRawWithMeta, checkpoint every 2", [][]walOp{{{"d", "a1"}, {"d", "a2"}}, {{"d", "b1"}, {"d", "b2"}}}, 2},
		{"WAL hook: AppendRaw x2 against AppendRawWithMeta x1, checkpoint every 1", [][]walOp{{{"", "a1"}, {"", "a2"}}, {{"d", "b1"}}}, 1},
	}
}

// hookCall is what the replication hook was handed (in the order the hook calls happened).
type hookCall struct {
	WALSeq  uint64 `json:"wal_seq"`
	Payload string `json:"payload"`
}

type hookLog struct {
	mu    sync.Mutex // real mutex: in the free-running -race pass the hook runs on several goroutines
	calls []hookCall
}

func (h *hookLog) note(seq uint64, p []byte) {
	h.mu.Lock()
	h.calls = append(h.calls, hookCall{seq, string(p)})
	h.mu.Unlock()
}
func (h *hookLog) snapshot() []hookCall {
	h.mu.Lock()
	defer h.mu.Unlock()
	return append([]hookCall{}, h.calls...)
}

type wireEntry struct {
	Seq     uint64 `json:"seq"`
	Payload string `json:"payload"`
}

// wireEntries decodes the entry frames of the byte stream the sender wrote.
func wireEntries(stream []byte) []wireEntry {
	var out []wireEntry
	for _, f := range split(stream) {
		if f.typ != replication.MsgReplicateEntry {
			continue
		}
		e, err := replication.ParseEntry(f.raw[5:])
		if err != nil {
			out = append(out, wireEntry{0, "unparseable:" + err.Error()})
			continue
		}
		out = append(out, wireEntry{e.Sequence, string(e.Payload)})
	}
	return out
}

func quoteList(l []string) string {
	q := make([]string, len(l))
	for i, s := range l {
		q[i] = printable(s)
	}
	return strings.Join(q, ",")
}

// printable drops the binary envelope header for display (keys and signatures stay readable).
func printable(s string) string {
	if len(s) > 3 && s[0] == wal.WALEnvelopeMarker {
		n := int(binary.BigEndian.Uint16([]byte(s[1:3])))
		if 3+n <= len(s) {
			return s[3:3+n] + ":" + s[3+n:]
		}
	}
	return s
}

func walScenarios() []sched.Scenario {
	var out []sched.Scenario
	for _, sp := range walSpecs() {
		sp := sp
		out = append(out, sched.Scenario{Name: sp.name, Setup: func() (func(), func() sched.Outcome, func()) {
			vclock.Install(time.Now())
			vatomic.Reset()
			conn := &capConn{}
			dir := newExecDir()
			hl := &hookLog{}
			var dropped, walDropped int64
			var setupErr string
			var appendErrs []string
			var aeMu sync.Mutex
			body := func() {
				// same construction order as production: WAL first, then the sender, then the hook
				w, err := wal.NewWriter(&wal.WriterConfig{WALDir: dir, BufferSize: 64, Logger: zerolog.Nop()})
				if err != nil {
					setupErr = "wal.NewWriter: " + err.Error()
					return
				}
				s := replication.NewSender(&replication.SenderConfig{BufferSize: 64, WriteTimeout: time.Hour, Logger: zerolog.Nop(), SharedSecret: secret,
					ClusterName: cluster, LocalNodeID: "w1", CheckpointInterval: sp.interval})
				vatomic.Watch(s.VerifSeqPtr(), "sequence")
				if err := s.Start(context.Background()); err != nil {
					setupErr = err.Error()
					return
				}
				// internal/cluster/coordinator.go StartReplication, "Hook into WAL if available" (verbatim
				// mapping; hl.note is harness bookkeeping and has no scheduling point)
				w.SetReplicationHook(func(entry *wal.ReplicationEntry) {
					hl.note(entry.Sequence, entry.Payload)
					s.Replicate(&replication.ReplicateEntry{
						Sequence:    entry.Sequence,
						TimestampUS: entry.TimestampUS,
						Payload:     entry.Payload,
					})
				})
				if err := s.AcceptReader(conn, "r1", nonce, 0); err != nil {
					setupErr = err.Error()
					return
				}
				var wg vsync.WaitGroup
				for ai, ops := range sp.appenders {
					ai, ops := ai, ops
					wg.Add(1)
					vsched.Go(fmt.Sprintf("appender%d", ai), func() {
						defer wg.Done()
						for _, o := range ops {
							var err error
							if o.db == "" {
								err = w.AppendRaw([]byte(o.payload))
							} else {
								err = w.AppendRawWithMeta(o.db, []byte(o.payload))
							}
							if err != nil {
								aeMu.Lock()
								appendErrs = append(appendErrs, err.Error())
								aeMu.Unlock()
							}
						}
					})
				}
				wg.Wait()
				waitFor("wait for the distribution loop to drain", s.VerifDrained)
				dropped = s.VerifDropped()
				w.Close() // joins the WAL writer goroutine (drains its queue to the file)
				walDropped = atomic.LoadInt64(&w.DroppedEntries)
				s.Stop()
			}
			check := func() sched.Outcome {
				vclock.Uninstall()
				if setupErr != "" {
					return sched.Outcome{Key: "setup-error:" + setupErr}
				}
				var want []string
				for _, ops := range sp.appenders {
					for _, o := range ops {
						want = append(want, o.replicated())
					}
				}
				stream := conn.bytes()
				wire := wireEntries(stream)
				got, _ := receive(stream, nonce)
				calls := hl.snapshot()
				var seqs []string
				for _, e := range wire {
					seqs = append(seqs, fmt.Sprint(e.Seq))
				}
				key := "applied " + quoteList(got) + " wire-seq " + strings.Join(seqs, ",")
				detail := map[string]any{"appended": printableList(want), "applied": printableList(got), "wire": printableWire(wire), "hook_calls": printableCalls(calls)}
				aeMu.Lock()
				ae := append([]string{}, appendErrs...)
				aeMu.Unlock()
				if len(ae) > 0 || walDropped > 0 {
					// the WAL queue holds 64 entries and at most 4 are appended: an append error is not expected
					return sched.Outcome{Key: "append-error " + key, Violation: "wal-append-failed", Detail: map[string]any{"errors": ae, "wal_dropped": walDropped}}
				}
				if dropped > 0 {
					return sched.Outcome{Key: "writer-dropped " + key}
				}
				// every hook call carried the payload that was appended (nothing upstream of the sender altered it)
				var hooked []string
				for _, c := range calls {
					hooked = append(hooked, c.Payload)
				}
				if !sameMultiset(hooked, want) {
					return sched.Outcome{Key: key, Violation: "hook-payload-is-not-the-appended-payload", Detail: detail}
				}
				// nothing the writer never appended is applied
				for _, g := range got {
					if indexOf(want, g) < 0 {
						return sched.Outcome{Key: key, Violation: "applied-payload-never-appended", Detail: detail}
					}
				}
				// every appended entry was sent to the connected reader (the writer reported no drop)
				var sent []string
				for _, e := range wire {
					sent = append(sent, e.Payload)
				}
				for _, p := range want {
					if indexOf(sent, p) < 0 {
						return sched.Outcome{Key: key, Violation: "appended-entry-never-sent-to-the-connected-reader(no drop reported)", Detail: detail}
					}
				}
				// exactly the queued entries, each once
				if !sameMultiset(got, want) {
					return sched.Outcome{Key: key, Violation: "reader-did-not-apply-every-queued-entry(healthy connection dropped)", Detail: detail}
				}
				// order consistent with the sequence numbers on the wire: strictly increasing, and the k-th applied
				// payload is the payload sent under the k-th sequence number
				for i, e := range wire {
					if i > 0 && e.Seq <= wire[i-1].Seq {
						return sched.Outcome{Key: key, Violation: "wire-sequence-not-strictly-increasing", Detail: detail}
					}
					if i >= len(got) || got[i] != e.Payload {
						return sched.Outcome{Key: key, Violation: "applied-payload-differs-from-payload-sent-under-that-sequence", Detail: detail}
					}
				}
				// per-appender order preserved
				for _, ops := range sp.appenders {
					idx := -1
					for _, o := range ops {
						j := indexOf(got, o.replicated())
						if j < idx {
							return sched.Outcome{Key: key, Violation: "appender-order-not-preserved", Detail: detail}
						}
						idx = j
					}
				}
				return sched.Outcome{Key: key}
			}
			return body, check, func() { dropExecDir(dir) }
		}})
	}
	return out
}

func sameMultiset(a, b []string) bool {
	x := append([]string{}, a...)
	y := append([]string{}, b...)
	sort.Strings(x)
	sort.Strings(y)
	return strings.Join(x, "\x00") == strings.Join(y, "\x00") && len(x) == len(y)
}

func printableList(l []string) []string {
	o := make([]string, len(l))
	for i, s := range l {
		o[i] = printable(s)
	}
	return o
}
func printableWire(l []wireEntry) []wireEntry {
	o := make([]wireEntry, len(l))
	for i, e := range l {
		o[i] = wireEntry{e.Seq, printable(e.Payload)}
	}
	return o
}
func printableCalls(l []hookCall) []hookCall {
	o := make([]hookCall, len(l))
	for i, e := range l {
		o[i] = hookCall{e.WALSeq, printable(e.Payload)}
	}
	return o
}

// hookMappingInRepo checks that the closure copied into walScenarios is still what the coordinator
// installs (the source the binary was built from: /repo, or the VERIF_REPLACE variant of the file).
func hookMappingInRepo() error {
	path := "/repo/internal/cluster/coordinator.go"
	for _, kv := range strings.Split(os.Getenv("VERIF_REPLACE"), ",") {
		if f := strings.SplitN(kv, "=", 2); len(f) == 2 && f[0] == "internal/cluster/coordinator.go" {
			path = f[1]
		}
	}
	src, err := os.ReadFile(path)
	if err != nil {
		return err
	}
	ws := regexp.MustCompile(`\s+`)
	norm := ws.ReplaceAllString(string(src), " ")
	wantSrc := `c.walWriter.SetReplicationHook(func(entry *wal.ReplicationEntry) { c.replicationSender.Replicate(&replication.ReplicateEntry{ Sequence: entry.Sequence, TimestampUS: entry.TimestampUS, Payload: entry.Payload, }) })`
	if !strings.Contains(norm, wantSrc) {
		return fmt.Errorf("%s no longer installs the WAL replication hook the harness copied (expected %q)", path, wantSrc)
	}
	return nil
}

// ---- (d) reconnect with the same reader id -----------------------------------------------------

const (
	nonce2        = "handshake-nonce-2"
	reconnectName = "reader reconnects with the same id while its old connection is still registered"
)

// The reader "r1" is connected on conn1 and has received one entry. It reconnects (same id, new handshake
// nonce) while the writer still holds conn1 - the two-phase accept the coordinator performs:
// PrepareReader, (ack write), ActivateReader, which closes the old connection. Entries queued after
// ActivateReader returned must reach the reader over the new, healthy connection.
func reconnectScenario() sched.Scenario {
	return sched.Scenario{Name: reconnectName, Setup: func() (func(), func() sched.Outcome, func()) {
		vclock.Install(time.Now())
		vatomic.Reset()
		conn1, conn2 := &capConn{}, &capConn{}
		var dropped int64
		var readersAtEnd int
		var newConnClosedByWriter bool
		var setupErr string
		body := func() {
			s := replication.NewSender(&replication.SenderConfig{BufferSize: 64, WriteTimeout: time.Hour, Logger: zerolog.Nop(), SharedSecret: secret,
				ClusterName: cluster, LocalNodeID: "w1", CheckpointInterval: 2})
			vatomic.Watch(s.VerifSeqPtr(), "sequence")
			if err := s.Start(context.Background()); err != nil {
				setupErr = err.Error()
				return
			}
			if err := s.AcceptReader(conn1, "r1", nonce, 0); err != nil {
				setupErr = err.Error()
				return
			}
			s.Replicate(&replication.ReplicateEntry{TimestampUS: 1, Payload: []byte("p1")})
			waitFor("wait for the distribution loop to drain", s.VerifDrained)
			// what Coordinator.AcceptReplicationConnection does for the new connection
			rd, err := s.PrepareReader(conn2, "r1", nonce2, 1)
			if err != nil {
				setupErr = err.Error()
				return
			}
			s.ActivateReader(rd)
			// entries queued from here on belong to the new connection
			s.Replicate(&replication.ReplicateEntry{TimestampUS: 1, Payload: []byte("p2")})
			s.Replicate(&replication.ReplicateEntry{TimestampUS: 1, Payload: []byte("p3")})
			// the distribution loop is sequential: once it has TAKEN the sentinel it has finished broadcasting p3
			// (the sent/received counters cannot be used here: nothing is counted when no reader is registered)
			waitFor("wait for the queue to empty", func() bool { return s.VerifQueueLen() == 0 })
			s.Replicate(&replication.ReplicateEntry{TimestampUS: 1, Payload: []byte("sentinel")})
			waitFor("wait for the sentinel to be taken", func() bool { return s.VerifQueueLen() == 0 })
			dropped = s.VerifDropped()
			readersAtEnd = s.ReaderCount()
			newConnClosedByWriter = conn2.isClosed() // the harness never closes it; Stop has not run yet
			s.Stop()
		}
		check := func() sched.Outcome {
			vclock.Uninstall()
			if setupErr != "" {
				return sched.Outcome{Key: "setup-error:" + setupErr}
			}
			got1, _ := receive(conn1.bytes(), nonce)
			got2, _ := receive(conn2.bytes(), nonce2)
			key := fmt.Sprintf("old-conn applied %s; new-conn applied %s; new conn closed by writer=%v; readers registered=%d", strings.Join(got1, ","), strings.Join(got2, ","), newConnClosedByWriter, readersAtEnd)
			detail := map[string]any{"old_connection_applied": got1, "new_connection_applied": got2, "queued_after_activation": []string{"p2", "p3"},
				"new_connection_closed_by_writer": newConnClosedByWriter, "readers_registered_at_end": readersAtEnd}
			if dropped > 0 {
				return sched.Outcome{Key: "writer-dropped " + key}
			}
			if newConnClosedByWriter || !strings.HasPrefix(strings.Join(got2, ",")+",", "p2,p3,") {
				return sched.Outcome{Key: key, Violation: "healthy-reconnected-connection-closed-by-writer", Detail: detail}
			}
			return sched.Outcome{Key: key}
		}
		return body, check, nil
	}}
}
