// C29 — Continuous query windows are contiguous and processed once.
//
// Every event history of a bounded family (clock ticks, scheduled executions with storage healthy / source
// unreadable / destination writes failing, manual executions of EVERY request shape — no bounds, start_time
// only, end_time only, both, each also as dry run, the explicit bounds drawn from a grid relative to the
// current last_processed_time L and the clock: before L, L, between L and now, now, and an old closed range —
// restart, update of the definition) is executed on the REAL ContinuousQueryHandler + the real
// CQScheduler glue + real DuckDB + real ArrowBuffer over a LocalBackend on tmpfs, with SQLite metadata on
// tmpfs and the clock of continuous_query.go virtualised (shim/vclock, frozen between tick events).
//
// Passes (see passes()): quick = core alphabet to length 3, one request shape + two context events, a
// six-event alphabet at length 4; thorough = the whole 28-event alphabet to length 3, the core alphabet to
// length 4; both with a second, whole-second clock. All passes but the length-4 quick one append a fixed probe
// (tick(I), sched) to every enumerated history, so that what the NEXT scheduled execution does after the
// enumerated events is always observed; the oracle is evaluated before and after the probe.
//
// Concurrency dimension (conc.go, run first): the real CQScheduler runs with its own goroutines under the
// cooperative scheduler shim/vsched (cq_scheduler.go rewritten by overlay, virtual tickers and timers); one
// execution of a history is parked at a gate (window chosen / query done) while update, manual execute, restart,
// delete+recreate, reload-all and clock ticks happen, then released; oracle = the tiling oracle over the
// execution log + "at most one execution of a continuous query is in flight" + the rows oracle.
//
// Oracle (the property, nothing more). The in-band chain = completed scheduled executions and completed
// manual executions WITHOUT explicit bounds (the request that does what a scheduler tick does):
//   - overlap: a successful scheduled window overlaps no earlier window of the chain;
//   - gap: a successful scheduled window starts where the previous window of the chain ended (time between
//     them may only be covered, contiguously from that end, by windows of completed executions performed in
//     between — i.e. by executions that really processed it). What a manual execution with explicit bounds
//     does to last_processed_time is NOT prescribed (leaving it alone, or advancing it over a slice the
//     execution itself processed, both keep the tiling); skipping or re-running a slice is what is caught;
//   - failed-execution-advanced-window / dry-run-side-effect: an execution that did not complete leaves
//     last_processed_time and the execution log's "completed" set untouched;
//   - rows: the destination measurement, read back with an independent Parquet reader, holds exactly the
//     rows an independent aggregation of the seeded source rows yields for every completed execution's
//     recorded window, labelled with that window's recorded START
//     (label≠window-start[(sub-second)] / completed-window-output-missing / unexpected-output-rows).
package main

import (
	"bytes"
	"context"
	"crypto/sha256"
	"database/sql"
	"encoding/hex"
	"encoding/json"
	"fmt"
	"io"
	"io/fs"
	"net/http/httptest"
	"os"
	"path/filepath"
	"runtime"
	"runtime/pprof"
	"sort"
	"strconv"
	"strings"
	"time"

	"github.com/basekick-labs/arc/internal/api"
	"github.com/basekick-labs/arc/internal/config"
	"github.com/basekick-labs/arc/internal/database"
	"github.com/basekick-labs/arc/internal/ingest"
	"github.com/basekick-labs/arc/internal/license"
	"github.com/basekick-labs/arc/internal/scheduler"
	"github.com/basekick-labs/arc/internal/storage"
	"github.com/basekick-labs/arc/zzverif/engine/ev"
	"github.com/basekick-labs/arc/zzverif/hx"
	"github.com/basekick-labs/arc/zzverif/shim/vclock"
	"github.com/gofiber/fiber/v2"
	_ "github.com/mattn/go-sqlite3"
	"github.com/rs/zerolog"
	"github.com/valyala/fasthttp"
)

const (
	dbName = "db"
	srcM   = "src"
	dstM   = "dst"
	ivl    = time.Minute // the CQ interval I; tick events are multiples of it
	cqPath = "/api/v1/continuous_queries"
)

// the wall clock of a real server is never on a whole second: the main pass starts at .250
var baseWhole = time.Date(2024, 3, 5, 10, 31, 0, 0, time.UTC)

// manual(range) backfills [base-90m, base-75m): older than any default window (those start at now-1h or later)
var backfillStart, backfillEnd = baseWhole.Add(-90 * time.Minute), baseWhole.Add(-75 * time.Minute)

const (
	eTickHalf = iota
	eTick
	eTick3
	eSched
	eSchedRead
	eSchedWrite
	eManual
	eManualRange
	eManualDry
	eRestart
	eUpdate
	nCore     // the core alphabet ends here; the events below are the other manual-execution request shapes
	eStartPre = iota - 1
	eStartL
	eStartMid
	eStartNow
	eEndPre
	eEndL
	eEndMid
	eEndNow
	eRngPreL
	eRngPreMid
	eRngPreNow
	eRngLMid
	eRngLNow
	eRngMidNow
	eDryStartMid
	eDryEndMid
	eDryRngMidNow
	nEvents
)

var evNames = [nEvents]string{"tick(I/2)", "tick(I)", "tick(3I)", "sched", "sched@source-unreadable", "sched@dest-write-fails",
	"manual", "manual(range)", "manual(dry_run)", "restart", "update",
	"manual(start=preL)", "manual(start=L)", "manual(start=mid)", "manual(start=now)",
	"manual(end=preL)", "manual(end=L)", "manual(end=mid)", "manual(end=now)",
	"manual(preL..L)", "manual(preL..mid)", "manual(preL..now)", "manual(L..mid)", "manual(L..now)", "manual(mid..now)",
	"manual(dry_run start=mid)", "manual(dry_run end=mid)", "manual(dry_run mid..now)"}

// The grid the explicit bounds of a manual execution are drawn from, RELATIVE to the state the request meets:
// L = last_processed_time (when NULL: the default window start, now-1h truncated to the second) and the clock.
//
//	preL = L-30s   L   mid = L + half of (now-L) rounded down to 10 s (= L when less than 20 s passed)   now (whole second)
//
// Every bound is a whole second that is no source row's timestamp (rows sit on :x5 seconds).
const (
	pNone = iota
	pPre
	pL
	pMid
	pNow
	pOld // the fixed old range [base-90m, base-75m)
)

type manualShape struct {
	start, end int
	dry        bool
}

var shapes = map[int]manualShape{
	eManual: {pNone, pNone, false}, eManualRange: {pOld, pOld, false}, eManualDry: {pNone, pNone, true},
	eStartPre: {pPre, pNone, false}, eStartL: {pL, pNone, false}, eStartMid: {pMid, pNone, false}, eStartNow: {pNow, pNone, false},
	eEndPre: {pNone, pPre, false}, eEndL: {pNone, pL, false}, eEndMid: {pNone, pMid, false}, eEndNow: {pNone, pNow, false},
	eRngPreL: {pPre, pL, false}, eRngPreMid: {pPre, pMid, false}, eRngPreNow: {pPre, pNow, false},
	eRngLMid: {pL, pMid, false}, eRngLNow: {pL, pNow, false}, eRngMidNow: {pMid, pNow, false},
	eDryStartMid: {pMid, pNone, true}, eDryEndMid: {pNone, pMid, true}, eDryRngMidNow: {pMid, pNow, true},
}

func gridPoint(p int, lp string, now time.Time, isEnd bool) (time.Time, bool) {
	d := now.UTC().Truncate(time.Second)
	ref := now.UTC().Add(-time.Hour).Truncate(time.Second)
	if lp != "" {
		t, err := time.Parse(time.RFC3339Nano, lp)
		must(err, "parse last_processed_time")
		ref = t.UTC()
	}
	switch p {
	case pPre:
		return ref.Add(-30 * time.Second), true
	case pL:
		return ref, true
	case pMid:
		half := (d.Sub(ref) / 2).Truncate(10 * time.Second)
		if half < 0 {
			half = 0
		}
		return ref.Add(half), true
	case pNow:
		return d, true
	case pOld:
		if isEnd {
			return backfillEnd, true
		}
		return backfillStart, true
	}
	return time.Time{}, false
}

// simpler[e] = events that are tried in place of e while canonicalising a minimal counterexample
var simpler = map[int][]int{eTickHalf: {eTick}, eTick3: {eTick}, eSchedRead: {eSched}, eSchedWrite: {eSched}, eManual: {eSched}}

type cqDef struct {
	interval string
	query    string
	cols     []string // aggregate columns produced besides host and time
	empty    bool     // matches no source row: every execution completes with 0 records (concurrency pass only)
}

var defs = []cqDef{
	{"1m", "SELECT host, count(*) AS n, CAST(sum(v) AS BIGINT) AS s, min(v) AS lo, max(v) AS hi FROM db.src WHERE time >= {start_time} AND time < {end_time} GROUP BY host",
		[]string{"n", "s", "lo", "hi"}, false},
	{"2m", "SELECT CAST({start_time} AS TIMESTAMP) AS time, host, count(*) AS n, max(v) AS hi FROM db.src WHERE time >= {start_time} AND time < {end_time} GROUP BY host",
		[]string{"n", "hi"}, false},
	// the two definitions of the "no-rows" family of the concurrency pass (conc.go): same shape, no matching host
	{"1m", "SELECT host, count(*) AS n, CAST(sum(v) AS BIGINT) AS s, min(v) AS lo, max(v) AS hi FROM db.src WHERE time >= {start_time} AND time < {end_time} AND host = 'nobody' GROUP BY host",
		[]string{"n", "s", "lo", "hi"}, true},
	{"2m", "SELECT CAST({start_time} AS TIMESTAMP) AS time, host, count(*) AS n, max(v) AS hi FROM db.src WHERE time >= {start_time} AND time < {end_time} AND host = 'nobody' GROUP BY host",
		[]string{"n", "hi"}, true},
}

// ---- seeded source rows ---------------------------------------------------------------------

type srcRow struct {
	t    int64 // µs
	host string
	v    int64
}

// one row per 10 s for host a (v = index) and every second one for host b (v = 10000+index), at seconds
// :05, :15, ... so that no row sits on a window boundary (those are at :00 or :30); from the start of the
// backfill range to past the furthest reachable clock position. v is strictly increasing in time, so (n, sum, min, max) identify a window.
func seedRows(maxDepth int) []srcRow {
	var out []srcRow
	end := baseWhole.Add(time.Duration(maxDepth)*3*ivl + 3*time.Minute)
	i := int64(0)
	for t := backfillStart.Add(5 * time.Second); t.Before(end); t = t.Add(10 * time.Second) {
		out = append(out, srcRow{t.UnixMicro(), "a", i})
		if i%2 == 0 {
			out = append(out, srcRow{t.UnixMicro(), "b", 10000 + i})
		}
		i++
	}
	return out
}

// expectRows: the independent aggregation for definition d over [s, e), labelled with s.
func expectRows(rows []srcRow, d int, s, e time.Time) []hx.Row {
	if defs[d].empty {
		return nil
	}
	type agg struct{ n, sum, lo, hi int64 }
	m := map[string]*agg{}
	for _, r := range rows {
		if r.t < s.UnixMicro() || r.t >= e.UnixMicro() {
			continue
		}
		a := m[r.host]
		if a == nil {
			a = &agg{lo: r.v, hi: r.v}
			m[r.host] = a
		}
		a.n++
		a.sum += r.v
		if r.v < a.lo {
			a.lo = r.v
		}
		if r.v > a.hi {
			a.hi = r.v
		}
	}
	var out []hx.Row
	for h, a := range m {
		row := hx.Row{"time": s.UnixMicro(), "host": h}
		all := map[string]int64{"n": a.n, "s": a.sum, "lo": a.lo, "hi": a.hi}
		for _, c := range defs[d].cols {
			row[c] = all[c]
		}
		out = append(out, row)
	}
	return out
}

// ---- fault-injecting storage wrapper (only the ArrowBuffer writes through it) -----------------

type faultBackend struct {
	storage.Backend
	fail   bool
	failed int
}

func (f *faultBackend) Write(ctx context.Context, path string, data []byte) error {
	if f.fail {
		f.failed++
		return hx.ErrInjected
	}
	return f.Backend.Write(ctx, path, data)
}

func (f *faultBackend) WriteReader(ctx context.Context, path string, r io.Reader, size int64) error {
	if f.fail {
		f.failed++
		return hx.ErrInjected
	}
	return f.Backend.WriteReader(ctx, path, r, size)
}

// ---- worker: one DuckDB, one licence, source template files ----------------------------------

type worker struct {
	root     string
	duck     *database.DuckDB
	lic      *license.Client
	rows     []srcRow
	tmpl     map[string][]byte // relative path -> parquet bytes of the seeded source measurement
	nSeq     int
	states   map[[8]byte]struct{}
	nTrans   int64
	concKeys map[string]struct{} // distinct outcomes of the concurrency pass (conc.go)
}

func must(err error, what string) {
	if err != nil {
		ev.Unbound(what + ": " + err.Error())
	}
}

func ingestCfg() *config.IngestConfig {
	// no background flush: size and age thresholds are out of reach; the harness flushes explicitly
	return &config.IngestConfig{MaxBufferSize: 10_000_000, MaxBufferAgeMS: 24 * 3600_000, Compression: "snappy", FlushWorkers: 1,
		FlushQueueSize: 4, ShardCount: 1, FlushTimeoutSeconds: 3600, WriteStatistics: true}
}

func newWorker(root string, maxDepth int) *worker {
	w := &worker{root: root, rows: seedRows(maxDepth), tmpl: map[string][]byte{}, states: map[[8]byte]struct{}{}}
	must(os.MkdirAll(filepath.Join(root, "tmp"), 0o755), "mkdir")
	// database.New configures DuckDB under real-time deadlines of a few seconds; on a machine that is heavily
	// oversubscribed (16 shards start at once next to other builds) one can expire: that is the environment,
	// not the property — try again
	var db *database.DuckDB
	var err error
	for attempt := 0; attempt < 6; attempt++ {
		db, err = database.New(&database.Config{MaxConnections: 4, MemoryLimit: "512MB", ThreadCount: 1,
			TempDirectory: filepath.Join(root, "tmp", "spill"), UploadDir: filepath.Join(root, "tmp", "upload"), LocalStorageRoot: root}, zerolog.Nop())
		if err == nil {
			break
		}
		time.Sleep(time.Duration(attempt+1) * time.Second)
	}
	must(err, "database.New")
	w.duck = db
	w.lic = license.VerifClient()
	if !w.lic.CanUseCQScheduler() {
		ev.Unbound("licence seam: CanUseCQScheduler is false")
	}
	// the source measurement is produced once by the real ingest path (ArrowBuffer -> hour partitions)
	tdir := filepath.Join(root, "tmpl")
	be, err := storage.NewLocalBackend(tdir, zerolog.Nop())
	must(err, "NewLocalBackend")
	buf := ingest.NewArrowBuffer(ingestCfg(), be, zerolog.Nop())
	cols := map[string][]interface{}{"time": nil, "host": nil, "v": nil}
	for _, r := range w.rows {
		cols["time"] = append(cols["time"], r.t)
		cols["host"] = append(cols["host"], r.host)
		cols["v"] = append(cols["v"], r.v)
	}
	must(buf.WriteColumnarDirect(context.Background(), dbName, srcM, cols), "seed write")
	must(buf.FlushAll(context.Background()), "seed flush")
	must(buf.Close(), "seed close")
	n := 0
	must(filepath.WalkDir(tdir, func(p string, d fs.DirEntry, err error) error {
		if err != nil || d.IsDir() {
			return err
		}
		b, err := os.ReadFile(p)
		if err != nil {
			return err
		}
		rel, _ := filepath.Rel(tdir, p)
		w.tmpl[rel] = b
		rs, _, _, err := hx.ReadParquet(b)
		if err != nil {
			return err
		}
		n += len(rs)
		return nil
	}), "read template")
	if n != len(w.rows) || len(w.tmpl) < 2 {
		ev.Unbound(fmt.Sprintf("seeding: %d rows in %d files, want %d rows in several hour partitions", n, len(w.tmpl), len(w.rows)))
	}
	return w
}

// ---- the system under test for one history ----------------------------------------------------

type sys struct {
	w      *worker
	dir    string
	store  string
	local  *storage.LocalBackend
	fb     *faultBackend
	buf    *ingest.ArrowBuffer
	h      *api.ContinuousQueryHandler
	sch    *scheduler.CQScheduler
	app    *fiber.App
	obs    *sql.DB
	cqID   int64
	def    int
	lastID int64
	// concurrency pass only (conc.go): requests are served synchronously on the caller's goroutine (a
	// controlled thread) and the handler logs into the in-flight recorder
	conc    *concRun
	handler fasthttp.RequestHandler
	defBase int // the two definitions in use are defs[defBase], defs[defBase+1]
}

func (w *worker) newSys() *sys { return w.newSysOpt(nil) }

func (w *worker) newSysOpt(conc *concRun) *sys {
	w.nSeq++
	s := &sys{w: w, dir: filepath.Join(w.root, fmt.Sprintf("h%07d", w.nSeq)), conc: conc}
	s.store = filepath.Join(s.dir, "store")
	for rel, b := range w.tmpl {
		p := filepath.Join(s.store, rel)
		must(os.MkdirAll(filepath.Dir(p), 0o755), "mkdir")
		must(os.WriteFile(p, b, 0o644), "seed copy")
	}
	var err error
	s.local, err = storage.NewLocalBackend(s.store, zerolog.Nop())
	must(err, "NewLocalBackend")
	s.fb = &faultBackend{Backend: s.local}
	s.boot()
	s.obs, err = sql.Open("sqlite3", "file:"+filepath.Join(s.dir, "meta.db")+"?mode=ro")
	must(err, "open observer")
	s.obs.SetMaxOpenConns(1)
	// create the continuous query through the real API
	if conc != nil {
		s.defBase = conc.g.defBase()
		s.def = s.defBase
	}
	d := defs[s.def]
	body, _ := json.Marshal(map[string]any{"name": "cq1", "database": dbName, "source_measurement": srcM, "destination_measurement": dstM,
		"query": d.query, "interval": d.interval, "tag_columns": []string{"host"}, "is_active": true})
	code, resp := s.call("POST", cqPath+"/", body)
	if code != 201 {
		ev.Unbound(fmt.Sprintf("create CQ: HTTP %d %s", code, resp))
	}
	var cq api.ContinuousQuery
	must(json.Unmarshal(resp, &cq), "create response")
	s.cqID = cq.ID
	if s.sch.JobCount() != 1 {
		ev.Unbound("create did not register a scheduler job")
	}
	return s
}

// boot = what cmd/arc/main.go does: handler over (DuckDB, storage, ArrowBuffer, SQLite), scheduler, routes.
func (s *sys) boot() {
	var err error
	s.buf = ingest.NewArrowBuffer(ingestCfg(), s.fb, zerolog.Nop())
	hlog := zerolog.Nop()
	if s.conc != nil {
		hlog = zerolog.New(s.conc).Level(zerolog.InfoLevel)
	}
	s.h, err = api.NewContinuousQueryHandler(s.w.duck, s.local, s.buf, &config.ContinuousQueryConfig{Enabled: true, DBPath: filepath.Join(s.dir, "meta.db")}, nil, hlog)
	must(err, "NewContinuousQueryHandler")
	s.sch, err = scheduler.NewCQScheduler(&scheduler.CQSchedulerConfig{CQHandler: s.h, LicenseClient: s.w.lic, Logger: zerolog.Nop()})
	must(err, "NewCQScheduler")
	must(s.sch.Start(), "scheduler start")
	if !s.sch.IsRunning() {
		ev.Unbound("scheduler did not start (licence gate)")
	}
	s.h.SetScheduler(s.sch)
	s.app = fiber.New(fiber.Config{DisableStartupMessage: true})
	s.h.RegisterRoutes(s.app)
	if s.conc != nil {
		s.handler = s.app.Handler()
	}
}

func (s *sys) shutdown() {
	s.sch.Stop()
	s.buf.Close()
	s.h.Close()
}

func (s *sys) destroy() {
	s.shutdown()
	s.obs.Close()
	os.RemoveAll(s.dir)
}

func (s *sys) call(method, path string, body []byte) (int, []byte) {
	if s.conc != nil {
		// app.Test serves the request on another goroutine; under the cooperative scheduler the handler has to
		// run on the calling (controlled) thread
		var req fasthttp.Request
		req.Header.SetMethod(method)
		req.SetRequestURI(path)
		req.Header.SetContentType("application/json")
		req.SetBody(body)
		var fctx fasthttp.RequestCtx
		fctx.Init(&req, nil, nil)
		s.handler(&fctx)
		return fctx.Response.StatusCode(), append([]byte{}, fctx.Response.Body()...)
	}
	req := httptest.NewRequest(method, path, bytes.NewReader(body))
	req.Header.Set("Content-Type", "application/json")
	resp, err := s.app.Test(req, -1)
	must(err, "fiber test")
	b, _ := io.ReadAll(resp.Body)
	resp.Body.Close()
	return resp.StatusCode, b
}

type execRow struct {
	id         int64
	execID     string
	status     string
	start, end time.Time
	written    int64
}

func asTime(v any) time.Time {
	switch x := v.(type) {
	case time.Time:
		return x.UTC()
	case string:
		for _, f := range []string{time.RFC3339Nano, "2006-01-02 15:04:05.999999999-07:00", "2006-01-02 15:04:05"} {
			if t, err := time.Parse(f, x); err == nil {
				return t.UTC()
			}
		}
	case []byte:
		return asTime(string(x))
	}
	ev.Unbound(fmt.Sprintf("unreadable timestamp in CQ metadata: %T %v", v, v))
	return time.Time{}
}

// newExecs returns the execution-log rows added since the last call.
func (s *sys) newExecs() []execRow {
	rows, err := s.obs.Query(`SELECT id, execution_id, status, start_time, end_time, records_written FROM continuous_query_executions WHERE query_id = ? AND id > ? ORDER BY id`, s.cqID, s.lastID)
	must(err, "read executions")
	defer rows.Close()
	var out []execRow
	for rows.Next() {
		var r execRow
		var st, en any
		must(rows.Scan(&r.id, &r.execID, &r.status, &st, &en, &r.written), "scan execution")
		r.start, r.end = asTime(st), asTime(en)
		out = append(out, r)
		s.lastID = r.id
	}
	return out
}

// lastProcessed returns last_processed_time ("" when NULL).
func (s *sys) lastProcessed() string {
	var v any
	must(s.obs.QueryRow(`SELECT last_processed_time FROM continuous_queries WHERE id = ?`, s.cqID).Scan(&v), "read last_processed_time")
	if v == nil {
		return ""
	}
	return asTime(v).Format(time.RFC3339Nano)
}

func (s *sys) destRows() []hx.Row {
	var out []hx.Row
	root := filepath.Join(s.store, dbName, dstM)
	filepath.WalkDir(root, func(p string, d fs.DirEntry, err error) error {
		if err != nil || d.IsDir() || !strings.HasSuffix(p, ".parquet") {
			return nil
		}
		b, err := os.ReadFile(p)
		must(err, "read destination file")
		rs, _, _, err := hx.ReadParquet(b)
		must(err, "decode destination file "+p)
		out = append(out, rs...)
		return nil
	})
	return out
}

// ---- one history ----------------------------------------------------------------------------------

type window struct {
	Ev     int    `json:"event_index"`
	Kind   string `json:"kind"` // sched | manual | manual(<shape>)
	Req    string `json:"request,omitempty"`
	Status string `json:"status"`
	Start  string `json:"start"`
	End    string `json:"end"`
	At     string `json:"clock"`
	Def    int    `json:"definition"`
	s, e   time.Time
}

type outcome struct {
	kinds   map[string]string // violation kind -> description
	windows []window
	dest    int
}

func (o *outcome) add(kind, desc string) {
	if _, ok := o.kinds[kind]; !ok {
		o.kinds[kind] = desc
	}
}

func f3(t time.Time) string { return t.UTC().Format("15:04:05.000") }

// runSeq executes one history. The scheduler's own (real-time, 1-2 min) tickers must never fire inside a
// history: one that took more than 40 s of real time is discarded and run again.
//
// checkAt > 0: the oracle is also evaluated after the first checkAt events (the enumerated history, before the
// probe); it is always evaluated at the end.
func (w *worker) runSeq(seq []int, frac time.Duration, checkAt int) *outcome {
	for {
		t0 := time.Now()
		o := w.runSeq1(seq, frac, checkAt)
		if time.Since(t0) < 40*time.Second {
			return o
		}
	}
}

func (w *worker) runSeq1(seq []int, frac time.Duration, checkAt int) *outcome {
	base := baseWhole.Add(frac)
	vclock.Install(base)
	vclock.SetTick(0)
	s := w.newSys()
	defer s.destroy()
	o := &outcome{kinds: map[string]string{}}
	ctx := context.Background()
	flush := func() { s.buf.FlushAll(ctx) }
	now := func() time.Time { return vclock.Now().UTC() }

	// observe one execution attempt: at most one new log row; anything but "completed" must leave
	// last_processed_time alone
	observe := func(i int, kind, req, lpBefore string, expectNone bool) {
		ex := s.newExecs()
		lpAfter := s.lastProcessed()
		if len(ex) > 1 {
			ev.Unbound(fmt.Sprintf("one %s event logged %d executions", kind, len(ex)))
		}
		status := "rejected"
		if len(ex) == 1 {
			status = ex[0].status
			o.windows = append(o.windows, window{Ev: i, Kind: kind, Req: req, Status: status, Start: ex[0].start.Format(time.RFC3339Nano), End: ex[0].end.Format(time.RFC3339Nano),
				At: now().Format(time.RFC3339Nano), Def: s.def, s: ex[0].start, e: ex[0].end})
		}
		if expectNone {
			if len(ex) != 0 || lpAfter != lpBefore {
				o.add("dry-run-side-effect", fmt.Sprintf("dry run at event %d logged %d executions, last_processed_time %q -> %q", i, len(ex), lpBefore, lpAfter))
			}
			return
		}
		if status != "completed" && lpAfter != lpBefore {
			o.add("failed-execution-advanced-window", fmt.Sprintf("%s at event %d ended %q but last_processed_time moved %q -> %q", kind, i, status, lpBefore, lpAfter))
		}
	}

	// judge evaluates the oracle on everything recorded so far
	judge := func() {
		// ---- tiling: the in-band chain = completed scheduled executions + completed manual executions without
		// explicit bounds; every scheduled window must start where the chain's previous window ended ----
		var chain []int
		for k, x := range o.windows {
			if (x.Kind == "sched" || x.Kind == "manual") && x.Status == "completed" {
				chain = append(chain, k)
			}
		}
		for a := 1; a < len(chain); a++ {
			cur := o.windows[chain[a]]
			if cur.Kind != "sched" {
				continue
			}
			for b := 0; b < a; b++ {
				prev := o.windows[chain[b]]
				if cur.s.Before(prev.e) && prev.s.Before(cur.e) {
					what := "scheduled"
					if prev.Kind != "sched" {
						what = "default-range manual"
					}
					o.add("overlap", fmt.Sprintf("scheduled window [%s,%s) (event %d) overlaps the earlier %s window [%s,%s) (event %d)", f3(cur.s), f3(cur.e), cur.Ev, what, f3(prev.s), f3(prev.e), prev.Ev))
				}
			}
			prev := o.windows[chain[a-1]]
			if cur.s.After(prev.e) {
				// the time between may only have been taken by completed executions in between, contiguously from prev.e
				type iv struct{ s, e time.Time }
				var fill []iv
				for k := chain[a-1] + 1; k < chain[a]; k++ {
					if x := o.windows[k]; x.Status == "completed" {
						fill = append(fill, iv{x.s, x.e})
					}
				}
				sort.Slice(fill, func(i, j int) bool { return fill[i].s.Before(fill[j].s) })
				at := prev.e
				for _, f := range fill {
					if !f.s.After(at) && f.e.After(at) {
						at = f.e
					}
				}
				if at.Before(cur.s) {
					upto := cur.s // the first slice nobody summarised ends where the next completed window in between starts
					for _, f := range fill {
						if f.s.After(at) && f.s.Before(upto) {
							upto = f.s
						}
					}
					o.add("gap", fmt.Sprintf("scheduled window [%s,%s) (event %d) starts after the previous in-band window ended at %s (event %d); [%s,%s) is summarised by no execution", f3(cur.s), f3(cur.e), cur.Ev, f3(prev.e), prev.Ev, f3(at), f3(upto)))
				}
			}
		}

		// ---- rows in the destination measurement ----
		got := s.destRows()
		o.dest = len(got)
		gotN := map[string]int{}
		for _, r := range got {
			gotN[r.Key()]++
		}
		var want []hx.Row
		// first the rows that are demanded; they consume their copies in the destination
		for _, x := range o.windows {
			if x.Status != "completed" || seq[x.Ev] == eSchedWrite {
				continue
			}
			rows := expectRows(w.rows, x.Def, x.s, x.e)
			for _, r := range rows {
				if gotN[r.Key()] > 0 {
					gotN[r.Key()]--
				}
			}
			want = append(want, rows...)
		}
		for _, x := range o.windows {
			if x.Status != "completed" || seq[x.Ev] != eSchedWrite {
				continue
			}
			// the execution handed its rows to the asynchronous ingest buffer and completed; that the later
			// storage write of buffered rows failed is not this property's subject (durability of buffered
			// rows is C07's): such rows are neither demanded nor forbidden — a copy that is left over in the
			// destination after the demanded rows took theirs is accepted
			for _, r := range expectRows(w.rows, x.Def, x.s, x.e) {
				if gotN[r.Key()] > 0 {
					gotN[r.Key()]--
					want = append(want, r)
				}
			}
		}
		classifyRows(o, want, got)
	}

	for i, e := range seq {
		if checkAt > 0 && i == checkAt {
			judge()
		}
		w.nTrans++
		switch e {
		// the scheduler's tickers are virtual too (time rewrite of cq_scheduler.go, needed by the concurrency
		// pass): in the sequential passes the clock JUMPS, so that no ticker fires and a scheduled execution
		// is exactly the synchronous VerifFire below
		case eTickHalf:
			vclock.Jump(ivl / 2)
		case eTick:
			vclock.Jump(ivl)
		case eTick3:
			vclock.Jump(3 * ivl)
		case eSched, eSchedRead, eSchedWrite:
			lp := s.lastProcessed()
			srcDir := filepath.Join(s.store, dbName, srcM)
			if e == eSchedRead {
				must(os.Rename(srcDir, srcDir+".offline"), "take source offline")
			}
			if e == eSchedWrite {
				s.fb.fail = true
			}
			if !s.sch.VerifFire(s.cqID) {
				ev.Unbound("no scheduler job registered for the active CQ after " + names(seq[:i]))
			}
			flush() // the age-based buffer flush (5 s by default) happens long before the next tick
			if e == eSchedRead {
				must(os.Rename(srcDir+".offline", srcDir), "bring source back")
			}
			s.fb.fail = false
			observe(i, "sched", "", lp, false)
		case eRestart:
			s.shutdown()
			s.boot()
		case eUpdate:
			s.def = 1 - s.def
			d := defs[s.def]
			body, _ := json.Marshal(map[string]any{"name": "cq1", "database": dbName, "source_measurement": srcM, "destination_measurement": dstM,
				"query": d.query, "interval": d.interval, "tag_columns": []string{"host"}, "is_active": true})
			if code, resp := s.call("PUT", fmt.Sprintf("%s/%d", cqPath, s.cqID), body); code != 200 {
				ev.Unbound(fmt.Sprintf("update CQ: HTTP %d %s", code, resp))
			}
		default: // a manual execution; explicit bounds are taken from the grid relative to (L, now) at this moment
			sh, ok := shapes[e]
			if !ok {
				ev.Unbound("event without a definition: " + evNames[e])
			}
			lp := s.lastProcessed()
			m := map[string]any{}
			if t, ok := gridPoint(sh.start, lp, now(), false); ok {
				m["start_time"] = t.Format(time.RFC3339)
			}
			if t, ok := gridPoint(sh.end, lp, now(), true); ok {
				m["end_time"] = t.Format(time.RFC3339)
			}
			if sh.dry {
				m["dry_run"] = true
			}
			body, _ := json.Marshal(m) // map keys are marshalled sorted
			code, resp := s.call("POST", fmt.Sprintf("%s/%d/execute", cqPath, s.cqID), body)
			if code != 200 && code != 400 && code != 500 {
				ev.Unbound(fmt.Sprintf("manual execute: HTTP %d %s", code, resp))
			}
			flush()
			observe(i, evNames[e], string(body), lp, sh.dry)
		}
		w.noteState(s, o, now().Sub(base))
	}
	flush()
	judge()
	return o
}

func sansTime(r hx.Row) string {
	c := hx.Row{}
	for k, v := range r {
		if k != "time" {
			c[k] = v
		}
	}
	return c.Key()
}

func classifyRows(o *outcome, want, got []hx.Row) {
	wm, gm := hx.Multiset(want), hx.Multiset(got)
	var missing, extra []hx.Row
	for _, r := range want {
		k := r.Key()
		if gm[k] > 0 {
			gm[k]--
		} else {
			missing = append(missing, r)
		}
	}
	for _, r := range got {
		k := r.Key()
		if wm[k] > 0 {
			wm[k]--
		} else {
			extra = append(extra, r)
		}
	}
	if len(missing) == 0 && len(extra) == 0 {
		return
	}
	byKey := func(rs []hx.Row) {
		sort.Slice(rs, func(i, j int) bool { return rs[i].Key() < rs[j].Key() })
	}
	byKey(missing)
	byKey(extra)
	// same aggregates under another timestamp = a labelling error
	var restMissing []hx.Row
	for _, m := range missing {
		hit := -1
		for j, x := range extra {
			if sansTime(x) == sansTime(m) {
				hit = j
				break
			}
		}
		if hit < 0 {
			restMissing = append(restMissing, m)
			continue
		}
		x := extra[hit]
		extra = append(extra[:hit], extra[hit+1:]...)
		kind := "label≠window-start"
		if d := x["time"].(int64) - m["time"].(int64); d > 0 && d < 1_000_000 {
			kind = "label≠window-start(sub-second)" // the label carries a fraction of a second that the window bounds do not
		}
		o.add(kind, fmt.Sprintf("row %s summarises the window starting %s but is stored with time %s",
			sansTime(m), time.UnixMicro(m["time"].(int64)).UTC().Format(time.RFC3339Nano), time.UnixMicro(x["time"].(int64)).UTC().Format(time.RFC3339Nano)))
	}
	if len(restMissing) > 0 {
		o.add("completed-window-output-missing", fmt.Sprintf("%d rows of completed executions are not in the destination measurement, e.g. %s", len(restMissing), restMissing[0].Key()))
	}
	if len(extra) > 0 {
		o.add("unexpected-output-rows", fmt.Sprintf("%d rows in the destination measurement belong to no completed execution's window, e.g. %s", len(extra), extra[0].Key()))
	}
}

// noteState hashes the observable state after an event (clock offset, definition, last_processed_time,
// execution log windows and statuses, number of destination files) for the distinct-state count.
func (w *worker) noteState(s *sys, o *outcome, off time.Duration) {
	h := sha256.New()
	fmt.Fprintf(h, "%d|%d|%s|", off, s.def, s.lastProcessed())
	for _, x := range o.windows {
		fmt.Fprintf(h, "%s,%s,%s,%s;", x.Kind, x.Status, x.Start, x.End)
	}
	n := 0
	filepath.WalkDir(filepath.Join(s.store, dbName, dstM), func(p string, d fs.DirEntry, err error) error {
		if err == nil && !d.IsDir() {
			n++
		}
		return nil
	})
	fmt.Fprintf(h, "|%d", n)
	var k [8]byte
	copy(k[:], h.Sum(nil))
	w.states[k] = struct{}{}
}

func names(seq []int) string {
	var s []string
	for _, e := range seq {
		s = append(s, evNames[e])
	}
	return strings.Join(s, ",")
}

// ---- enumeration ----------------------------------------------------------------------------------

// A pass = a family of histories, each run on a fresh system with the clock starting at base+frac and, when
// probe is set, followed by the fixed probe (tick(I), sched); then the oracle is evaluated both on the
// enumerated history and after the probe.
type pass struct {
	name   string
	frac   time.Duration
	maxLen int
	probe  bool
	what   string
	gen    func(yield func([]int) bool) // every history of the family, in a fixed order; stops when yield returns false
}

var probeEvents = []int{eTick, eSched}

func alphabet(from, to int) []int {
	var out []int
	for e := from; e < to; e++ {
		out = append(out, e)
	}
	return out
}

func evList(es []int) string { return "{" + names(es) + "}" }

// genAll: every history of length 1..maxLen over the alphabet
func genAll(alpha []int, maxLen int) func(func([]int) bool) { return genLen(alpha, 1, maxLen) }

// genLen: every history of length minLen..maxLen over the alphabet
func genLen(alpha []int, minLen, maxLen int) func(func([]int) bool) {
	return func(yield func([]int) bool) {
		ok := true
		for length := minLen; length <= maxLen && ok; length++ {
			seq := make([]int, length)
			var rec func(i int)
			rec = func(i int) {
				if !ok {
					return
				}
				if i == length {
					ok = yield(seq)
					return
				}
				for _, e := range alpha {
					seq[i] = e
					rec(i + 1)
				}
			}
			rec(0)
		}
	}
}

// genOne: every history of length 1..maxLen with exactly one event of `one` (at any position), the other
// events taken from ctx
func genOne(one, ctx []int, maxLen int) func(func([]int) bool) {
	return func(yield func([]int) bool) {
		ok := true
		for length := 1; length <= maxLen && ok; length++ {
			for pos := length - 1; pos >= 0 && ok; pos-- { // the longest prefixes first (matters only when the deadline cuts a run)
				seq := make([]int, length)
				var rec func(i int)
				rec = func(i int) {
					if !ok {
						return
					}
					if i == length {
						ok = yield(seq)
						return
					}
					al := ctx
					if i == pos {
						al = one
					}
					for _, e := range al {
						seq[i] = e
						rec(i + 1)
					}
				}
				rec(0)
			}
		}
	}
}

const q250 = 250 * time.Millisecond

func passes(quick bool) []pass {
	core, shapesOnly, all := alphabet(0, nCore), alphabet(nCore, nEvents), alphabet(0, nEvents)
	// the events that matter around a manual execution: time passing, an in-band execution of either kind, a
	// restart, a changed definition
	ctx := []int{eTickHalf, eTick, eSched, eManual, eRestart, eUpdate}
	small := []int{eTick, eSched, eManual}
	d := 0
	// development aid (mutation runs): smaller bounds; the evidence then says exhaustive=false
	if n, err := strconv.Atoi(os.Getenv("VERIF_C29_DEPTH")); err == nil && n >= 1 {
		d = n
	}
	cut := func(n int) int {
		if d > 0 && d < n {
			return d
		}
		return n
	}
	mk := func(name string, frac time.Duration, maxLen int, what string, gen func(func([]int) bool)) pass {
		return pass{name: name, frac: frac, maxLen: maxLen, probe: true, what: what, gen: gen}
	}
	if quick {
		// the longer histories of the quick tier: time passing, the in-band executions, a failing execution, the
		// old backfill, a restart (every history of the core alphabet up to this length is in thorough)
		deep := []int{eTick, eSched, eSchedRead, eManual, eManualRange, eRestart}
		qctx := []int{eTick, eSched, eManual, eRestart, eUpdate} // thorough adds tick(I/2) and, at .250 s, everything else
		return []pass{
			mk("shapes@.250s", q250, cut(3), "every history of length 1..%d with exactly one of the manual request shapes "+evList(shapesOnly)+" and the other events from "+evList(qctx), genOne(shapesOnly, qctx, cut(3))),
			mk("core@.250s", q250, cut(3), "every history of length 1..%d over the core alphabet "+evList(core), genAll(core, cut(3))),
			mk("core@.000s", 0, cut(2), "every history of length 1..%d over the core alphabet", genAll(core, cut(2))),
			mk("shapes@.000s", 0, cut(3), "every history of length 1..%d with exactly one of the manual request shapes and the other events from "+evList(small), genOne(shapesOnly, small, cut(3))),
			{name: "deep@.250s", frac: q250, maxLen: cut(4), what: "every history of length %d over " + evList(deep), gen: genLen(deep, cut(4), cut(4))},
		}
	}
	return []pass{
		mk("all@.250s", q250, cut(3), "every history of length 1..%d over the whole alphabet (core + all manual request shapes)", genAll(all, cut(3))),
		mk("core@.250s", q250, cut(4), "every history of length 1..%d over the core alphabet "+evList(core), genAll(core, cut(4))),
		mk("core@.000s", 0, cut(3), "every history of length 1..%d over the core alphabet", genAll(core, cut(3))),
		mk("shapes@.000s", 0, cut(3), "every history of length 1..%d with exactly one of the manual request shapes "+evList(shapesOnly)+" and the other events from "+evList(ctx), genOne(shapesOnly, ctx, cut(3))),
	}
}

func (p pass) count() int64 {
	var n int64
	p.gen(func([]int) bool { n++; return true })
	return n
}

func isSubseq(small, big []int) bool {
	j := 0
	for _, x := range big {
		if j < len(small) && small[j] == x {
			j++
		}
	}
	return j == len(small)
}

type class struct {
	kind string
	seq  []int
	desc string
	win  []window
	frac string
	n    int
}

// canonical minimal form of a failing history for one kind: ddmin, then replace events by simpler ones
func (w *worker) minimise(seq []int, kind string, frac time.Duration) []int {
	fails := func(h []int) bool {
		if len(h) == 0 {
			return false
		}
		_, ok := w.runSeq(h, frac, 0).kinds[kind]
		return ok
	}
	cur := ev.Minimize(seq, fails)
	for changed := true; changed; {
		changed = false
		for i, e := range cur {
			for _, alt := range simpler[e] {
				cand := append([]int{}, cur...)
				cand[i] = alt
				if fails(cand) {
					cur, changed = cand, true
					break
				}
			}
		}
		if changed {
			cur = ev.Minimize(cur, fails)
		}
	}
	return cur
}

func runShard(run *ev.Run, idx, total int) {
	runtime.GOMAXPROCS(2) // 16 shard processes share the machine; histories are sequential
	if pf := os.Getenv("VERIF_C29_PROF"); pf != "" {
		f, _ := os.Create(pf)
		pprof.StartCPUProfile(f)
		defer pprof.StopCPUProfile()
	}
	root := filepath.Join(os.Getenv("VERIF_C29_ROOT"), fmt.Sprintf("w%02d", idx))
	maxDepth := 5
	w := newWorker(root, maxDepth)
	classes := map[string]*class{}
	byKind := map[string][]*class{}
	samples, samplesBad := ev.NewSamples(1), ev.NewSamples(1)
	counters := map[string]int64{}
	complete := true
	only := os.Getenv("VERIF_C29_ONLY") // development aid: "seq" or "conc"
	ps := passes(run.Quick())
	if only == "conc" {
		ps = nil
	}
	// the concurrency dimension first (conc.go): it is the smaller part, and its short cases come first
	if only != "seq" {
		complete = w.concShard(run, idx, total, counters)
	}
	for _, p := range ps {
		if !complete {
			break
		}
		var k int64
		p.gen(func(hist []int) bool {
			k++
			if int(k%int64(total)) != idx {
				return true
			}
			if run.TimeUp() {
				complete = false
				return false
			}
			seq, checkAt := append([]int{}, hist...), 0
			if p.probe {
				seq, checkAt = append(seq, probeEvents...), len(hist)
			}
			t0 := time.Now()
			o := w.runSeq(seq, p.frac, checkAt)
			counters["shard_ms@"+p.name] += time.Since(t0).Milliseconds()
			counters["transitions"] += int64(len(seq))
			counters["histories"]++
			counters["histories@"+p.name]++
			nc, nf := 0, 0
			for _, x := range o.windows {
				if x.Status == "completed" {
					nc++
				} else {
					nf++
				}
				if x.Ev < len(hist) && x.Kind != "sched" && x.Kind != "manual" {
					counters["manual_executions_with_explicit_bounds_logged"]++
				}
			}
			counters["executions_completed"] += int64(nc)
			counters["executions_failed"] += int64(nf)
			counters["destination_rows_checked"] += int64(o.dest)
			if nc >= 2 {
				counters["histories_with_2+_completed_windows"]++
			}
			if len(hist) == p.maxLen && nc >= 3 && nf >= 1 {
				ks := []string{}
				for kind := range o.kinds {
					ks = append(ks, kind)
				}
				sort.Strings(ks)
				smp := map[string]any{"pass": p.name, "events": strings.Split(names(seq), ","), "windows": o.windows, "destination_rows": o.dest, "violations": ks}
				if len(ks) == 0 {
					samples.Add(smp)
				} else {
					samplesBad.Add(smp)
				}
			}
			if len(o.kinds) == 0 {
				return true
			}
			counters["histories_violating"]++
			for kind := range o.kinds {
				var hit *class
				for _, c := range byKind[p.name+"|"+kind] {
					if isSubseq(c.seq, seq) {
						hit = c
						break
					}
				}
				if hit == nil {
					min := w.minimise(append([]int{}, seq...), kind, p.frac)
					sig := kind + "|" + names(min)
					hit = classes[sig]
					if hit == nil {
						mo := w.runSeq(min, p.frac, 0)
						hit = &class{kind: kind, seq: min, desc: mo.kinds[kind], win: mo.windows, frac: "250ms"}
						if p.frac == 0 {
							hit.frac = "0"
						}
						classes[sig] = hit
					}
					byKind[p.name+"|"+kind] = append(byKind[p.name+"|"+kind], hit)
				}
				hit.n++
			}
			return true
		})
		if !complete {
			break
		}
	}
	for sig, c := range classes {
		for i := 0; i < c.n; i++ {
			run.Violate(sig, c.desc, map[string]any{"events": strings.Split(names(c.seq), ","), "clock_fraction": c.frac, "windows": c.win})
		}
	}
	counters["events_executed_incl_minimisation"] = w.nTrans
	// distinct observable states are merged by the parent
	var sb bytes.Buffer
	for k := range w.states {
		sb.WriteString(hex.EncodeToString(k[:]))
		sb.WriteByte('\n')
	}
	// other builders clean /dev/shm from time to time: make sure the output directories still exist
	os.MkdirAll(os.Getenv("VERIF_C29_ROOT"), 0o755)
	os.MkdirAll(filepath.Dir(os.Getenv("VERIF_SHARD_OUT")), 0o755)
	must(os.WriteFile(filepath.Join(os.Getenv("VERIF_C29_ROOT"), fmt.Sprintf("states.%02d", idx)), sb.Bytes(), 0o644), "write states")
	os.RemoveAll(root) // the process exits now: DuckDB is not closed (0.8 s per shard)
	pprof.StopCPUProfile()
	run.FinishShard(counters, append(samples.List(), samplesBad.List()...), complete)
}

func replay(run *ev.Run) {
	b, err := os.ReadFile(run.Replay)
	must(err, "replay file")
	var r struct {
		Replay struct {
			Events     []string `json:"events"`
			Frac       string   `json:"clock_fraction"`
			ConcGate   int      `json:"conc_gate"`
			ConcPoint  string   `json:"conc_point"`
			ConcEvents []string `json:"conc_events"`
			ConcNoRows bool     `json:"conc_no_rows"`
		} `json:"replay"`
	}
	must(json.Unmarshal(b, &r), "replay json")
	if len(r.Replay.ConcEvents) > 0 {
		root := fmt.Sprintf("/dev/shm/verif.c29.%d", os.Getpid())
		w := newWorker(root, 5)
		rc := replayConc(w, r.Replay.ConcGate, r.Replay.ConcPoint, r.Replay.ConcNoRows, r.Replay.ConcEvents)
		w.duck.Close()
		os.RemoveAll(root)
		os.Exit(rc)
	}
	var seq []int
	for _, n := range r.Replay.Events {
		found := false
		for e, name := range evNames {
			if name == n {
				seq = append(seq, e)
				found = true
			}
		}
		if !found {
			ev.Unbound("unknown event " + n)
		}
	}
	frac := 250 * time.Millisecond
	if r.Replay.Frac == "0" {
		frac = 0
	}
	root := fmt.Sprintf("/dev/shm/verif.c29.%d", os.Getpid())
	defer os.RemoveAll(root)
	w := newWorker(root, 5)
	o := w.runSeq(seq, frac, 0)
	out, _ := json.MarshalIndent(map[string]any{"events": r.Replay.Events, "windows": o.windows, "violations": o.kinds, "destination_rows": o.dest}, "", " ")
	fmt.Println(string(out))
	w.duck.Close()
	os.RemoveAll(root)
	if len(o.kinds) > 0 {
		os.Exit(1)
	}
	os.Exit(0)
}

func main() {
	run := ev.Start("C29", "model_checking")
	if run.Replay != "" {
		replay(run)
	}
	if idx, total, ok := ev.Shard(); ok {
		runShard(run, idx, total)
	}
	// scratch of earlier runs that died (exit 2 skips the deferred removal): drop it when its pid is gone
	if old, _ := filepath.Glob("/dev/shm/verif.c29.*"); len(old) > 0 {
		for _, d := range old {
			if _, err := os.Stat("/proc/" + strings.TrimPrefix(d, "/dev/shm/verif.c29.")); err != nil {
				os.RemoveAll(d)
			}
		}
	}
	root := fmt.Sprintf("/dev/shm/verif.c29.%d", os.Getpid())
	os.RemoveAll(root)
	must(os.MkdirAll(root, 0o755), "scratch")
	defer os.RemoveAll(root)
	os.Setenv("VERIF_C29_ROOT", root)
	shards := 16
	counters, samples, complete := run.SpawnShards(shards)
	states := map[string]struct{}{}
	for i := 0; i < shards; i++ {
		b, err := os.ReadFile(filepath.Join(root, fmt.Sprintf("states.%02d", i)))
		must(err, "shard states")
		for _, l := range strings.Fields(string(b)) {
			states[l] = struct{}{}
		}
	}
	only := os.Getenv("VERIF_C29_ONLY")
	if only != "seq" {
		concCoverage(run, root, shards, counters, complete)
	}
	os.RemoveAll(root)
	ps := passes(run.Quick())
	if only == "conc" {
		ps = nil
	}
	var want int64
	wantBy := map[string]int64{}
	for _, p := range ps {
		wantBy[p.name] = p.count()
		want += wantBy[p.name]
	}
	if complete && counters["histories"] != want {
		ev.Unbound(fmt.Sprintf("enumerated %d histories, the bound has %d", counters["histories"], want))
	}
	fmt.Printf("histories=%d (of %d) transitions=%d distinct observable states=%d completed executions=%d failed=%d destination rows compared=%d violating histories=%d\n",
		counters["histories"], want, counters["transitions"], len(states), counters["executions_completed"], counters["executions_failed"], counters["destination_rows_checked"], counters["histories_violating"])
	if only != "conc" && (counters["histories_with_2+_completed_windows"] < 100 || len(states) < 100) {
		ev.Unbound("vacuous exploration: almost no history produced two completed windows")
	}
	if len(samples) == 0 {
		samples = []any{map[string]any{"note": "no clean history with 3 completed and 1 failed execution in this run"}}
	}
	run.Coverage["exhaustive"] = complete && os.Getenv("VERIF_C29_DEPTH") == "" && only == "" && os.Getenv("VERIF_C29_BOUND") == "" && run.Coverage["conc_exhaustive"] == true
	run.Coverage["states"] = len(states)
	run.Coverage["transitions"] = counters["transitions"]
	run.Coverage["traces_validated_against_impl"] = counters["histories"]
	run.Coverage["samples"] = samples
	run.Coverage["histories_in_bound"] = want
	run.Coverage["alphabet"] = evNames[:]
	run.Coverage["core_alphabet"] = evNames[:nCore]
	run.Coverage["manual_request_grid"] = "explicit start_time/end_time of a manual execution are taken, at the moment of the request, from {preL = L-30s, L, mid = L + half of (now-L) rounded down to 10 s, now truncated to the second} with L = last_processed_time (when NULL: now-1h, the default window start); manual(range) is the fixed old range [base-90m, base-75m)"
	run.Coverage["manual_executions_with_explicit_bounds_logged"] = counters["manual_executions_with_explicit_bounds_logged"]
	var pd []string
	secs := map[string]int64{}
	for _, p := range ps {
		pr := ""
		if p.probe {
			pr = ", each followed by the probe " + evList(probeEvents)
		}
		pd = append(pd, fmt.Sprintf("%s: "+p.what+"%s (%d of %d run)", p.name, p.maxLen, pr, counters["histories@"+p.name], wantBy[p.name]))
		secs[p.name] = counters["shard_ms@"+p.name] / 1000
	}
	run.Coverage["pass_seconds_summed_over_shards"] = secs
	run.Coverage["passes"] = pd
	run.Coverage["executions_completed"] = counters["executions_completed"]
	run.Coverage["executions_failed_or_rejected_logged"] = counters["executions_failed"]
	run.Coverage["histories_with_2+_completed_windows"] = counters["histories_with_2+_completed_windows"]
	run.Coverage["destination_rows_compared"] = counters["destination_rows_checked"]
	run.Coverage["histories_violating"] = counters["histories_violating"]
	run.Coverage["explanation"] = "states = distinct observable states (clock offset, definition, last_processed_time, execution log, destination files) reached; transitions = events executed on the real handler/scheduler/DuckDB/ArrowBuffer; every history is a trace compared with the tiling oracle and an independent aggregation of the seeded source rows"
	run.Assume("clock: time.Now/Since in internal/api/continuous_query.go read the virtual clock, frozen between tick events; the scheduler's ticker is not used — a scheduled execution is CQScheduler.executeJob called synchronously for the registered job (what runJob does on a tick)")
	run.Assume("the ArrowBuffer is flushed explicitly after every execution event (stands for the 5 s age flush, far shorter than the 10 s minimum CQ interval); during sched@dest-write-fails the execution and that flush both see storage.Write fail (if the execution still completes because the write is asynchronous, its output rows are neither demanded nor forbidden: buffered-row durability is C07's subject); sched@source-unreadable takes the source measurement directory offline for the execution")
	run.Assume("restart is graceful (scheduler.Stop, ArrowBuffer.Close, handler.Close, then new objects over the same SQLite file and store); no WAL is attached to the ArrowBuffer")
	run.Assume("what a manual execution must do: without explicit bounds it is in-band (it does what a scheduler tick does, so the next scheduled window starts at its end); with an explicit start_time and/or end_time nothing is prescribed for last_processed_time beyond the tiling itself — the next scheduled window must start where the previous in-band window ended unless completed executions in between cover the time between contiguously (so leaving last_processed_time alone, or advancing it over a slice the execution really processed, are both accepted; jumping over an unprocessed slice or back over a processed one is not). Explicit bounds in the future are not enumerated; a rejected (HTTP 400), failed or dry-run request must leave last_processed_time and the execution log's completed set alone")
	run.Assume("concurrency pass: sync/go/channel/clock operations of internal/scheduler/cq_scheduler.go are operations of shim/vsched (one thread at a time, virtual tickers and timers fired by the harness's clock events); each case is ONE deterministic schedule: every event on its own thread, the next event starts when all older threads have ended or are blocked, a blocked glue call stays in the background and the clock moves +30 s once; the parked execution is held inside the handler's own log call (\"Executing [scheduled] continuous query\" = window chosen, \"Aggregation query returned records\" = query done) and the same log lines delimit 'in flight'; other interleavings (a thread preempted between two synchronisation operations of the scheduler) are not enumerated")
	run.Assume("concurrency pass: restart = process restart: a parked MANUAL execution (an HTTP request) is released and awaited before the shutdown sequence (the server drains requests first); a parked scheduled execution is what CQScheduler.Stop has to wait for; request events (update, manual, delete+recreate, reload-all, restart) that arrive while a restart is in progress wait for the new process, clock ticks do not. delete+recreate gives the continuous query a new id: chains, cursor and the in-flight rule are per id. The /no-rows family uses definitions that match no source row (executions complete with 0 records and never reach the ArrowBuffer, so the stop signal's context cancellation cannot fail them)")
	run.Assume("manual(range) is a backfill of [base-90m, base-75m), older than any default window; interval I = 1m (the scheduler's real ticker never fires); tag_columns=[host]; two definitions (implicit label / explicit CAST({start_time} AS TIMESTAMP) AS time)")
	run.Finish()
}
