// conc.go — the concurrency dimension of C29: an execution is IN FLIGHT (parked at a gate) while the scheduler
// glue is used.
//
// The sequential passes (main.go) run one event at a time. Here the real CQScheduler runs with its own
// goroutines: cq_scheduler.go is rewritten by overlay so that its sync / go / channel / clock operations are
// operations of the cooperative scheduler shim/vsched (one thread runs at a time; its tickers and timers are
// virtual and fire when the harness advances the clock), and the real ContinuousQueryHandler logs into a
// recorder that (a) sees when an execution has chosen its window and when it has been recorded and (b) can PARK
// the g-th execution of a history at one of two gate points until the history says `release`:
//
//	window-chosen   after last_processed_time and the clock were read, before the DuckDB query
//	                (log line "Executing [scheduled] continuous query")
//	query-done      after the DuckDB query, before the rows go to the ArrowBuffer and the execution is recorded
//	                (log line "Aggregation query returned records")
//
// A case = (gate: none | g ∈ {1st, 2nd execution begun} × point) × a sequence over
//
//	tick              virtual clock +2 min: every ticker fires once (intervals are 1 min / 2 min), every timer of
//	                  the scheduler due within 2 min fires
//	update            PUT of the other definition             (handleUpdate -> ReloadCQ)
//	manual            POST execute {}                         (handleExecute, in-band)
//	restart           scheduler.Stop, ArrowBuffer.Close, handler.Close, new objects, Start (a parked MANUAL
//	                  execution is released and awaited first: the HTTP server drains its requests; a request
//	                  event that arrives while a restart is in progress waits for the new process)
//	delete+recreate   DELETE, then POST of the same definition (-> StartJobDirect, new id)
//	reload-all        CQScheduler.ReloadAll                   (what POST /api/v1/schedulers/reload does)
//	release           the gate opens
//
// Every event runs on its own thread; the director (thread 0) starts the next event only when every older thread
// has ended or is blocked ("settled": a sentinel thread with the highest id gets to run; the scheduler's rule is
// running thread first, then ascending thread id, and no alternative is ever taken, so a case is ONE
// deterministic schedule). An event whose call is still blocked when everything has settled (ReloadCQ waiting
// for the parked execution) stays blocked in the background; the clock is then advanced by 30 s once (any
// drain/stop timeout of up to 30 s fires there; longer ones at the next tick) and the history goes on. After the
// last event the gate is opened if it still is closed, and a probe tick follows.
//
// Oracle, per continuous-query id, over the execution log in commit order:
//   - overlap / gap — the tiling oracle of the sequential passes;
//   - concurrent-executions — at most one execution of a CQ is in flight at any time (in flight = from the
//     "Executing ..." line to the "... completed" / "... failed" line of the same goroutine);
//   - cursor≠completed-window-end — last_processed_time is the end of a completed in-band window;
//   - the rows oracle (every completed window's rows, nothing else, labelled with the window start).
package main

import (
	"bytes"
	"context"
	"crypto/sha256"
	"encoding/hex"
	"encoding/json"
	"fmt"
	"os"
	"path/filepath"
	"runtime"
	"sort"
	"strings"
	"sync"
	"time"

	"github.com/basekick-labs/arc/internal/api"
	"github.com/basekick-labs/arc/zzverif/engine/ev"
	"github.com/basekick-labs/arc/zzverif/hx"
	"github.com/basekick-labs/arc/zzverif/shim/vclock"
	"github.com/basekick-labs/arc/zzverif/shim/vsched"
)

const (
	gTick = iota
	gUpdate
	gManual
	gRestart
	gRecreate
	gReloadAll
	nGEvents // the events proper end here
	gRelease = nGEvents
)

var gNames = []string{"tick", "update", "manual", "restart", "delete+recreate", "reload-all", "release"}

const (
	concStep     = 2 * ivl
	concSweep    = 30 * time.Second
	concWatchdog = 120 * time.Second
)

const (
	ptNone = iota
	ptWindow
	ptQuery
)

var ptNames = []string{"", "window-chosen", "query-done"}

type gate struct {
	nth    int  // which execution (in order of "window chosen") is parked; 0 = none
	pt     int  // where
	noRows bool // the continuous query matches no source row (its executions complete with 0 records and never reach the ArrowBuffer, so a cancelled context cannot fail them)
}

func (g gate) String() string {
	s := "no-gate"
	if g.nth != 0 {
		s = fmt.Sprintf("gate#%d@%s", g.nth, ptNames[g.pt])
	}
	if g.noRows {
		s += "/no-rows"
	}
	return s
}

func (g gate) defBase() int {
	if g.noRows {
		return 2
	}
	return 0
}

// gates in order of simplicity (the canonical form of a counterexample uses the first that still fails)
var allGates = []gate{{0, ptNone, false}, {1, ptWindow, false}, {1, ptQuery, false}, {2, ptWindow, false}, {2, ptQuery, false}, {1, ptWindow, true}, {2, ptWindow, true}}

type concCase struct {
	g   gate
	seq []int
}

func gNamesOf(seq []int) string {
	var s []string
	for _, e := range seq {
		s = append(s, gNames[e])
	}
	return strings.Join(s, ",")
}

func (c concCase) String() string { return c.g.String() + ":" + gNamesOf(c.seq) }

type concPass struct {
	name   string
	g      gate
	alpha  []int
	maxLen int
}

// concPasses: the families of a tier, in a fixed order.
func concPasses(quick bool) []concPass {
	full := []int{gTick, gUpdate, gManual, gRestart, gRecreate, gReloadAll}
	glue := []int{gTick, gUpdate, gManual, gReloadAll}
	n := 0
	if v := os.Getenv("VERIF_C29_CONCLEN"); v != "" { // development aid
		fmt.Sscanf(v, "%d", &n)
	}
	ln := func(d int) int {
		if n > 0 && n < d {
			return n
		}
		return d
	}
	var out []concPass
	if quick {
		out = append(out, concPass{"no-gate", allGates[0], full, ln(2)})
		for _, g := range allGates[1:] {
			out = append(out, concPass{g.String(), g, full, ln(3)})
		}
		out = append(out, concPass{"gate#1@window-chosen:4", allGates[1], []int{gTick, gUpdate, gManual}, ln(4)})
		return out
	}
	out = append(out, concPass{"no-gate", allGates[0], full, ln(3)})
	for _, g := range allGates[1:] {
		out = append(out, concPass{g.String(), g, full, ln(4)})
	}
	out = append(out, concPass{"gate#1@window-chosen:5", allGates[1], glue, ln(5)}, concPass{"gate#1@window-chosen/no-rows:5", allGates[5], glue, ln(5)})
	return out
}

// cases of a pass: every sequence of 1..maxLen events of the alphabet; with a gate, `release` is inserted at
// every position that leaves at least one event between the event that can start the g-th execution (the g-th
// tick/manual) and the release — anything else is a sequential history. A pass whose name ends in :n has the
// sequences of exactly n events only (the shorter ones are in the pass without the suffix).
func (p concPass) gen(yield func(concCase) bool) {
	minLen := 1
	if strings.Contains(p.name, ":") {
		minLen = p.maxLen
	}
	genLen(p.alpha, minLen, p.maxLen)(func(seq []int) bool {
		if p.g.nth == 0 {
			return yield(concCase{p.g, append([]int{}, seq...)})
		}
		starters, at := 0, -1
		for i, e := range seq {
			if e == gTick || e == gManual {
				starters++
				if starters == p.g.nth {
					at = i
					break
				}
			}
		}
		if at < 0 {
			return true
		}
		for pos := at + 2; pos <= len(seq); pos++ {
			c := concCase{p.g, make([]int, 0, len(seq)+1)}
			c.seq = append(c.seq, seq[:pos]...)
			c.seq = append(c.seq, gRelease)
			c.seq = append(c.seq, seq[pos:]...)
			if !yield(c) {
				return false
			}
		}
		return true
	})
}

func (p concPass) count() int64 {
	var n int64
	p.gen(func(concCase) bool { n++; return true })
	return n
}

func (p concPass) what() string {
	if p.g.nth == 0 {
		return fmt.Sprintf("%s: every sequence of 1..%d events over {%s}, no execution parked", p.name, p.maxLen, gNamesOf(p.alpha))
	}
	l := fmt.Sprintf("1..%d", p.maxLen)
	if strings.Contains(p.name, ":") {
		l = fmt.Sprint(p.maxLen)
	}
	nr := ""
	if p.g.noRows {
		nr = ", the continuous query matching no source row"
	}
	return fmt.Sprintf("%s: every sequence of %s events over {%s} with the %d. execution begun parked at %s and `release` at every position at least one event after the %d. tick/manual%s", p.name, l, gNamesOf(p.alpha), p.g.nth, ptNames[p.g.pt], p.g.nth, nr)
}

// ---- the recorder (the handler's zerolog writer) --------------------------------------------------------

type flight struct {
	N      int    `json:"n"`
	Kind   string `json:"kind"`
	ExecID string `json:"execution_id"`
	CQ     int64  `json:"cq_id"`
	Window string `json:"window"`
	Begin  int    `json:"begin_seq"`
	End    int    `json:"end_seq"` // 0 = never ended
	Status string `json:"status,omitempty"`
	Parked bool   `json:"parked,omitempty"`
	gid    int64
}

type execRowQ struct {
	execRow
	qid int64
}

type concRun struct {
	mu         sync.Mutex
	s          *sys
	g          gate
	gateOpen   bool
	seq        int
	flights    []*flight
	open       map[int64]*flight // by goroutine
	trace      []string
	conc       map[string]string // "A‖B" -> description of the first pair seen in flight together
	archive    []execRowQ        // log rows read just before their CQ (and, with it, its log) was deleted
	parked     int               // executions that really waited at the gate
	duringFl   int               // events that began while an execution was in flight
	blocked    int               // events whose call was still blocked when everything had settled
	glueErrs   int               // glue calls that returned an error
	restarting bool              // a restart is in progress (requests wait for the new process)
	name       string
	setupOK    bool
}

func goid() int64 {
	var buf [40]byte
	n := runtime.Stack(buf[:], false)
	var id int64
	for i := 10; i < n && buf[i] >= '0' && buf[i] <= '9'; i++ {
		id = id*10 + int64(buf[i]-'0')
	}
	return id
}

var (
	msgSchedBegin = []byte(`"message":"Executing scheduled continuous query"`)
	msgManBegin   = []byte(`"message":"Executing continuous query"`)
	msgQueryDone  = []byte(`"message":"Aggregation query returned records"`)
	msgEnds       = []struct{ msg, kind, status string }{
		{`"message":"Scheduled continuous query completed"`, "sched", "completed"},
		{`"message":"Scheduled continuous query execution failed"`, "sched", "failed"},
		{`"message":"Continuous query completed"`, "manual", "completed"},
		{`"message":"Continuous query execution failed"`, "manual", "failed"},
	}
)

func pairName(a, b string) string {
	if a == "manual" && b == "sched" {
		a, b = b, a
	}
	return a + "‖" + b
}

// Write receives one JSON log line of the handler, on the goroutine that logs it.
func (c *concRun) Write(p []byte) (int, error) {
	if fl := c.record(p); fl != nil {
		// the gate: this thread is not enabled until the history releases it
		vsched.Yield("gate "+ptNames[c.g.pt], func() bool { return c.gateOpen })
	}
	return len(p), nil
}

// record returns the flight to park, if this line is the gate point of the gated execution.
func (c *concRun) record(p []byte) *flight {
	c.mu.Lock()
	defer c.mu.Unlock()
	park := func(fl *flight, pt int) *flight {
		if c.g.nth == fl.N && c.g.pt == pt && !c.gateOpen && vsched.Attached() {
			fl.Parked = true
			c.parked++
			c.trace = append(c.trace, fmt.Sprintf("%d: %s execution %s parked at %s", c.seq, fl.Kind, fl.Window, ptNames[pt]))
			return fl
		}
		return nil
	}
	kind := ""
	switch {
	case bytes.Contains(p, msgSchedBegin):
		kind = "sched"
	case bytes.Contains(p, msgManBegin):
		if bytes.Contains(p, []byte(`"dry_run":true`)) {
			return nil
		}
		kind = "manual"
	case bytes.Contains(p, msgQueryDone):
		if fl := c.open[goid()]; fl != nil {
			return park(fl, ptQuery)
		}
		return nil
	}
	if kind != "" {
		var f struct {
			ID    string `json:"execution_id"`
			Start string `json:"start_time"`
			End   string `json:"end_time"`
		}
		if err := json.Unmarshal(p, &f); err != nil || f.ID == "" {
			ev.Unbound("recorder: unreadable begin line " + string(p))
		}
		c.seq++
		fl := &flight{N: len(c.flights) + 1, Kind: kind, ExecID: f.ID, CQ: c.s.cqID, Window: "[" + f.Start + "," + f.End + ")", Begin: c.seq, gid: goid()}
		for _, o := range c.flights {
			if o.End == 0 && o.CQ == fl.CQ {
				pn := pairName(o.Kind, fl.Kind)
				if _, ok := c.conc[pn]; !ok {
					c.conc[pn] = fmt.Sprintf("%s execution %s chose its window while %s execution %s of the same continuous query was still in flight", fl.Kind, fl.Window, o.Kind, o.Window)
				}
			}
		}
		if old := c.open[fl.gid]; old != nil && old.End == 0 {
			ev.Unbound("recorder: a goroutine began an execution before its previous one ended (log messages changed?)")
		}
		c.flights = append(c.flights, fl)
		c.open[fl.gid] = fl
		c.trace = append(c.trace, fmt.Sprintf("%d: %s execution %s window chosen", c.seq, kind, fl.Window))
		return park(fl, ptWindow)
	}
	for _, m := range msgEnds {
		if !bytes.Contains(p, []byte(m.msg)) {
			continue
		}
		fl := c.open[goid()]
		if fl == nil || fl.End != 0 || fl.Kind != m.kind {
			ev.Unbound("recorder: end line without a begin line: " + string(p))
		}
		c.seq++
		fl.End, fl.Status = c.seq, m.status
		delete(c.open, fl.gid)
		c.trace = append(c.trace, fmt.Sprintf("%d: %s execution %s %s", c.seq, fl.Kind, fl.Window, m.status))
		break
	}
	return nil
}

func (c *concRun) note(what string, isEventBegin bool) {
	c.mu.Lock()
	defer c.mu.Unlock()
	c.seq++
	if isEventBegin {
		for _, f := range c.flights {
			if f.End == 0 {
				c.duringFl++
				break
			}
		}
	}
	c.trace = append(c.trace, fmt.Sprintf("%d: %s", c.seq, what))
}

// allExecs: every row of the execution log (all query ids), in commit order.
func (s *sys) allExecs() []execRowQ {
	rows, err := s.obs.Query(`SELECT id, query_id, execution_id, status, start_time, end_time, records_written FROM continuous_query_executions ORDER BY id`)
	must(err, "read executions")
	defer rows.Close()
	var out []execRowQ
	for rows.Next() {
		var r execRowQ
		var st, en any
		must(rows.Scan(&r.id, &r.qid, &r.execID, &r.status, &st, &en, &r.written), "scan execution")
		r.start, r.end = asTime(st), asTime(en)
		out = append(out, r)
	}
	return out
}

func (s *sys) cqBody() []byte {
	d := defs[s.def]
	body, _ := json.Marshal(map[string]any{"name": "cq1", "database": dbName, "source_measurement": srcM, "destination_measurement": dstM,
		"query": d.query, "interval": d.interval, "tag_columns": []string{"host"}, "is_active": true})
	return body
}

// event performs one event on the calling (controlled) thread.
func (c *concRun) event(e int) {
	s := c.s
	if e != gTick && c.restarting {
		// a request that arrives while the server is restarting is served by the new process
		c.note(gNames[e]+" waits for the restart in progress", false)
		vsched.Yield("server restarting", func() bool { return !c.restarting })
	}
	switch e {
	case gTick:
		vclock.Advance(concStep)
	case gUpdate:
		s.def = 2*s.defBase + 1 - s.def
		code, resp := s.call("PUT", fmt.Sprintf("%s/%d", cqPath, s.cqID), s.cqBody())
		if code != 200 && code != 404 && code != 500 { // 404/500: the handler is being restarted underneath
			ev.Unbound(fmt.Sprintf("update CQ: HTTP %d %s", code, resp))
		}
	case gManual:
		code, resp := s.call("POST", fmt.Sprintf("%s/%d/execute", cqPath, s.cqID), []byte("{}"))
		if code != 200 && code != 400 && code != 404 && code != 500 {
			ev.Unbound(fmt.Sprintf("manual execute: HTTP %d %s", code, resp))
		}
	case gRestart:
		// a restart is a process restart: the HTTP server drains its in-flight requests before the shutdown
		// hooks run, so a parked MANUAL execution (a request) is let go first and finishes on the old objects;
		// a parked scheduled execution is what CQScheduler.Stop itself has to wait for
		manualOpen := func() bool {
			c.mu.Lock()
			defer c.mu.Unlock()
			for _, f := range c.flights {
				if f.End == 0 && f.Kind == "manual" {
					return true
				}
			}
			return false
		}
		if manualOpen() {
			c.note("restart: in-flight requests are drained first (release)", false)
			c.gateOpen = true
			vsched.Yield("drain requests", func() bool { return !manualOpen() })
		}
		c.restarting = true
		s.shutdown()
		s.boot()
		c.restarting = false
	case gRecreate:
		// DELETE removes the log of the CQ with it: read it first (no scheduling point in between)
		rows := s.allExecs()
		c.mu.Lock()
		c.archive = append(c.archive, rows...)
		c.mu.Unlock()
		if code, resp := s.call("DELETE", fmt.Sprintf("%s/%d", cqPath, s.cqID), nil); code != 200 {
			if code == 404 || code == 500 {
				return
			}
			ev.Unbound(fmt.Sprintf("delete CQ: HTTP %d %s", code, resp))
		}
		s.def = s.defBase
		code, resp := s.call("POST", cqPath+"/", s.cqBody())
		if code != 201 {
			ev.Unbound(fmt.Sprintf("re-create CQ: HTTP %d %s", code, resp))
		}
		var cq api.ContinuousQuery
		must(json.Unmarshal(resp, &cq), "create response")
		c.mu.Lock()
		s.cqID = cq.ID
		c.mu.Unlock()
	case gReloadAll:
		if err := s.sch.ReloadAll(); err != nil {
			// e.g. the handler underneath was closed by a restart that did not wait: an outcome, not a binding problem
			c.note("reload-all failed: "+err.Error(), false)
			c.glueErrs++
			if f := os.Getenv("VERIF_C29_DEBUGFILE"); f != "" { // development aid
				if fh, e := os.OpenFile(f, os.O_APPEND|os.O_CREATE|os.O_WRONLY, 0o644); e == nil {
					fmt.Fprintf(fh, "%s: reload-all failed: %v\n", c.name, err)
					fh.Close()
				}
			}
		}
	}
}

// ---- one case ----------------------------------------------------------------------------------------------

type concOutcome struct {
	kinds    map[string]string // "kind(who)" -> description
	key      string
	detail   map[string]any
	parked   int
	duringFl int
	blocked  int
	complete int // completed windows
	flights  int
	aborted  string // the run could not be judged (watchdog / divergence)
}

// runConc executes one case as ONE deterministic schedule under vsched (no alternative is ever taken).
func (w *worker) runConc(cc concCase) *concOutcome {
	vclock.Install(baseWhole.Add(q250))
	vclock.SetTick(0)
	cr := &concRun{open: map[int64]*flight{}, conc: map[string]string{}, g: cc.g, gateOpen: cc.g.nth == 0, name: cc.String()}
	cr.s = &sys{}
	body := func() {
		s := w.newSysOpt(cr)
		cr.mu.Lock()
		cr.s, cr.setupOK = s, true
		cr.mu.Unlock()
		// settle: a fresh thread has the highest id, so it runs only when every older thread has ended or is
		// blocked; twice, so that threads born during the first round have had their turn as well
		settle := func() {
			for k := 0; k < 2; k++ {
				fired := false
				vsched.Go("sentinel", func() { fired = true })
				vsched.Yield("settle", func() bool { return fired })
			}
		}
		settle()
		for _, e := range cc.seq {
			if e == gRelease {
				cr.note("release", false)
				cr.gateOpen = true
				settle()
				continue
			}
			e, done := e, false
			vsched.Go(gNames[e], func() {
				cr.note(gNames[e]+" begins", true)
				cr.event(e)
				cr.note(gNames[e]+" returned", false)
				done = true
			})
			settle()
			if !done {
				cr.blocked++
				cr.note(fmt.Sprintf("%s is blocked; clock +%s", gNames[e], concSweep), false)
				vclock.Advance(concSweep)
				settle()
			}
		}
		if !cr.gateOpen {
			cr.note("release (end of history)", false)
			cr.gateOpen = true
			settle()
		}
		cr.note("probe tick", false)
		vclock.Advance(concStep)
	}
	sc := vsched.Run(body, nil, concWatchdog)
	w.nTrans += int64(len(cc.seq))
	o := &concOutcome{kinds: map[string]string{}}
	switch {
	case sc.Stuck:
		o.aborted = "blocked outside the model (watchdog) at " + sc.StuckAt
	case sc.Diverged != "":
		o.aborted = sc.Diverged
	case sc.Panic != nil:
		ev.Unbound(fmt.Sprintf("concurrency case %s: panic %v", cc, sc.Panic))
	case sc.Deadlock:
		ev.Unbound(fmt.Sprintf("concurrency case %s: the director is blocked", cc))
	case sc.Foreign > 0:
		ev.Unbound(fmt.Sprintf("concurrency case %s: %d scheduler-shim calls from goroutines outside the model", cc, sc.Foreign))
	case !cr.setupOK:
		ev.Unbound("concurrency case " + cc.String() + ": set-up did not finish")
	}
	if o.aborted == "" {
		cr.judge(w, o)
	}
	if cr.setupOK {
		cr.s.destroy()
	}
	return o
}

// judge evaluates the oracle at quiescence (detached: every thread has ended or is parked for good).
func (c *concRun) judge(w *worker, o *concOutcome) {
	s := c.s
	s.buf.FlushAll(context.Background())
	c.mu.Lock()
	defer c.mu.Unlock()
	add := func(kind, who, desc string) {
		k := kind
		if who != "" {
			k += "(" + who + ")"
		}
		if _, ok := o.kinds[k]; !ok {
			o.kinds[k] = desc
		}
	}
	for pn, d := range c.conc {
		add("concurrent-executions", pn, d)
	}
	for _, f := range c.flights {
		if f.End == 0 {
			add("execution-never-ended", f.Kind, fmt.Sprintf("%s execution %s chose its window but had neither completed nor failed when every thread was idle", f.Kind, f.Window))
		}
	}
	all := append(append([]execRowQ{}, c.archive...), s.allExecs()...)
	seen := map[int64]bool{}
	byID := map[int64][]int{}
	var ids []int64
	var wins []window
	for _, r := range all {
		if seen[r.id] {
			continue
		}
		seen[r.id] = true
		kind := "manual"
		if strings.HasPrefix(r.execID, "cq-sched-") {
			kind = "sched"
		}
		if _, ok := byID[r.qid]; !ok {
			ids = append(ids, r.qid)
		}
		byID[r.qid] = append(byID[r.qid], len(wins))
		wins = append(wins, window{Ev: len(wins), Kind: kind, Req: fmt.Sprintf("cq %d", r.qid), Status: r.status, Start: r.start.Format(time.RFC3339Nano), End: r.end.Format(time.RFC3339Nano), s: r.start, e: r.end})
	}
	sort.Slice(ids, func(i, j int) bool { return ids[i] < ids[j] })
	for _, id := range ids {
		var chain []window
		for _, k := range byID[id] {
			if x := wins[k]; x.Status == "completed" {
				chain = append(chain, x)
				o.complete++
			}
		}
		// the tiling oracle of the sequential passes: every manual execution here is in-band (no explicit bounds)
		for a := 1; a < len(chain); a++ {
			cur := chain[a]
			if cur.Kind != "sched" {
				continue
			}
			for b := 0; b < a; b++ {
				prev := chain[b]
				if cur.s.Before(prev.e) && prev.s.Before(cur.e) {
					add("overlap", pairName(prev.Kind, cur.Kind), fmt.Sprintf("scheduled window [%s,%s) overlaps the %s window [%s,%s) recorded before it", f3(cur.s), f3(cur.e), prev.Kind, f3(prev.s), f3(prev.e)))
				}
			}
			if prev := chain[a-1]; cur.s.After(prev.e) {
				add("gap", prev.Kind+"→"+cur.Kind, fmt.Sprintf("scheduled window [%s,%s) starts after the previous in-band window ended at %s; [%s,%s) is summarised by no execution", f3(cur.s), f3(cur.e), f3(prev.e), f3(prev.e), f3(cur.s)))
			}
		}
		if id == s.cqID {
			lp, ok := s.lastProcessed(), false
			if len(chain) == 0 {
				ok = lp == ""
			}
			for _, x := range chain {
				if x.e.Format(time.RFC3339Nano) == lp {
					ok = true
				}
			}
			if !ok {
				add("cursor≠completed-window-end", "", fmt.Sprintf("last_processed_time is %q, which is the end of none of the %d completed in-band windows", lp, len(chain)))
			}
		}
	}
	// rows: every completed window's rows (of the definition that produced them: both are tried), nothing else
	got := s.destRows()
	gotN := map[string]int{}
	for _, r := range got {
		gotN[r.Key()]++
	}
	var want []hx.Row
	for i := range wins {
		x := &wins[i]
		if x.Status != "completed" {
			continue
		}
		pick := expectRows(w.rows, s.defBase, x.s, x.e)
		x.Def = s.defBase
		for d := s.defBase; d < s.defBase+2; d++ {
			rows := expectRows(w.rows, d, x.s, x.e)
			need := map[string]int{}
			for _, r := range rows {
				need[r.Key()]++
			}
			fits := true
			for k, n := range need {
				if gotN[k] < n {
					fits = false
				}
			}
			if fits {
				pick, x.Def = rows, d
				break
			}
		}
		for _, r := range pick {
			if gotN[r.Key()] > 0 {
				gotN[r.Key()]--
			}
		}
		want = append(want, pick...)
	}
	ro := &outcome{kinds: map[string]string{}}
	classifyRows(ro, want, got)
	for k, d := range ro.kinds {
		add(k, "", d)
	}
	// outcome key: the log relative to the base instant, the cursor, who was in flight together
	base := baseWhole.Add(q250)
	var kb strings.Builder
	for _, id := range ids {
		fmt.Fprintf(&kb, "cq%d:", id-ids[0])
		for _, k := range byID[id] {
			x := wins[k]
			fmt.Fprintf(&kb, "%s/%s[%d,%d)d%d ", x.Kind, x.Status, x.s.Sub(base)/time.Second, x.e.Sub(base)/time.Second, x.Def)
		}
	}
	if lp := s.lastProcessed(); lp != "" {
		t, _ := time.Parse(time.RFC3339Nano, lp)
		fmt.Fprintf(&kb, "L=%d", t.Sub(base)/time.Second)
	}
	ps := make([]string, 0, len(c.conc))
	for pn := range c.conc {
		ps = append(ps, pn)
	}
	sort.Strings(ps)
	fmt.Fprintf(&kb, " %s", strings.Join(ps, ","))
	o.key = kb.String()
	o.parked, o.duringFl, o.blocked, o.flights = c.parked, c.duringFl, c.blocked, len(c.flights)
	o.detail = map[string]any{"windows": wins, "executions": c.flights, "events": c.trace, "destination_rows": len(got)}
	w.noteConc(o.key)
}

func (w *worker) noteConc(key string) {
	if w.concKeys == nil {
		w.concKeys = map[string]struct{}{}
	}
	w.concKeys[key] = struct{}{}
}

// ---- enumeration in a shard ---------------------------------------------------------------------------

// minimiseConc: ddmin over the events under the case's gate, then the simplest gate that still shows the kind.
func (w *worker) minimiseConc(cc concCase, kind string) concCase {
	failsWith := func(g gate) func([]int) bool {
		return func(h []int) bool {
			if len(h) == 0 {
				return false
			}
			_, ok := w.runConc(concCase{g, h}).kinds[kind]
			return ok
		}
	}
	cur := concCase{cc.g, ev.Minimize(cc.seq, failsWith(cc.g))}
	// canonical events: a reload of everything is replaced by the update of the one CQ when that still fails
	for changed := true; changed; {
		changed = false
		for i, e := range cur.seq {
			for _, alt := range gSimpler[e] {
				cand := append([]int{}, cur.seq...)
				cand[i] = alt
				if failsWith(cur.g)(cand) {
					cur.seq, changed = ev.Minimize(cand, failsWith(cur.g)), true
					break
				}
			}
			if changed {
				break
			}
		}
	}
	for _, g := range allGates {
		if g == cur.g {
			break
		}
		h := cur.seq
		if g.nth == 0 { // no gate: `release` means nothing
			h = nil
			for _, e := range cur.seq {
				if e != gRelease {
					h = append(h, e)
				}
			}
		}
		if failsWith(g)(h) {
			cur = concCase{g, ev.Minimize(h, failsWith(g))}
			break
		}
	}
	return cur
}

// gSimpler[e] = events tried in place of e while canonicalising a minimal counterexample
var gSimpler = map[int][]int{gReloadAll: {gUpdate}}

// A violation class = kind + the canonical minimal case. Classes are shared by the shards through a directory:
// the first shard that meets a kind nobody has a fitting class for minimises it (under a per-kind lock file)
// and publishes the class; the others only match.
type gateJSON struct {
	Nth    int  `json:"nth"`
	Pt     int  `json:"pt"`
	NoRows bool `json:"no_rows"`
}

func (g gateJSON) gate() gate { return gate{g.Nth, g.Pt, g.NoRows} }

type concClass struct {
	Sig  string         `json:"sig"`
	Kind string         `json:"kind"`
	Gate gateJSON       `json:"gate"`
	Seq  []int          `json:"seq"`
	Desc string         `json:"desc"`
	Det  map[string]any `json:"observed"`
}

type pendingCase struct {
	kind string
	cc   concCase
}

type classStore struct {
	w      *worker
	dir    string
	known  map[string]*concClass
	loaded map[string]bool
	count  map[string]int
}

func newClassStore(w *worker, dir string) *classStore {
	os.MkdirAll(dir, 0o755)
	return &classStore{w: w, dir: dir, known: map[string]*concClass{}, loaded: map[string]bool{}, count: map[string]int{}}
}

func (cs *classStore) load() {
	ents, _ := os.ReadDir(cs.dir)
	for _, e := range ents {
		n := e.Name()
		if !strings.HasSuffix(n, ".json") || cs.loaded[n] {
			continue
		}
		b, err := os.ReadFile(filepath.Join(cs.dir, n))
		if err != nil {
			continue
		}
		var c concClass
		if json.Unmarshal(b, &c) != nil || c.Sig == "" {
			continue
		}
		cs.loaded[n] = true
		if _, ok := cs.known[c.Sig]; !ok {
			cs.known[c.Sig] = &c
		}
	}
}

// match: a known minimal form of the same kind that is contained in this case and parks the same execution (or
// none) stands for it (the smallest signature when several do).
func (cs *classStore) match(kind string, cc concCase) *concClass {
	var best *concClass
	for _, c := range cs.known {
		g := c.Gate.gate()
		if c.Kind == kind && (g.nth == cc.g.nth || g.nth == 0) && (!g.noRows || cc.g.noRows) && isSubseq(c.Seq, cc.seq) && (best == nil || c.Sig < best.Sig) {
			best = c
		}
	}
	return best
}

func lockName(kind string) string {
	h := sha256.Sum256([]byte(kind))
	return "lock." + hex.EncodeToString(h[:6])
}

// classify returns false when another shard is minimising this kind right now (try again later).
func (cs *classStore) classify(kind string, cc concCase) bool {
	if c := cs.match(kind, cc); c != nil {
		cs.count[c.Sig]++
		return true
	}
	cs.load()
	if c := cs.match(kind, cc); c != nil {
		cs.count[c.Sig]++
		return true
	}
	lock := filepath.Join(cs.dir, lockName(kind))
	f, err := os.OpenFile(lock, os.O_CREATE|os.O_EXCL|os.O_WRONLY, 0o644)
	if err != nil {
		if st, serr := os.Stat(lock); serr == nil && time.Since(st.ModTime()) > 3*time.Minute {
			os.Remove(lock) // the holder died
		}
		return false
	}
	f.Close()
	defer os.Remove(lock)
	cs.load()
	if c := cs.match(kind, cc); c != nil {
		cs.count[c.Sig]++
		return true
	}
	min := cs.w.minimiseConc(cc, kind)
	sig := "conc:" + kind + "|" + min.String()
	c := cs.known[sig]
	if c == nil {
		mo := cs.w.runConc(min)
		c = &concClass{Sig: sig, Kind: kind, Gate: gateJSON{min.g.nth, min.g.pt, min.g.noRows}, Seq: min.seq, Desc: mo.kinds[kind], Det: mo.detail}
		cs.known[sig] = c
		b, _ := json.Marshal(c)
		h := sha256.Sum256([]byte(sig))
		name := hex.EncodeToString(h[:8]) + ".json"
		tmp := filepath.Join(cs.dir, fmt.Sprintf(".tmp.%d.%s", os.Getpid(), name))
		if os.WriteFile(tmp, b, 0o644) == nil {
			os.Rename(tmp, filepath.Join(cs.dir, name))
		}
		cs.loaded[name] = true
	}
	cs.count[sig]++
	return true
}

func (w *worker) concShard(run *ev.Run, idx, total int, counters map[string]int64) bool {
	cs := newClassStore(w, filepath.Join(os.Getenv("VERIF_C29_ROOT"), "concclasses"))
	var pending []pendingCase
	complete := true
	sample := map[string]any(nil)
	for _, p := range concPasses(run.Quick()) {
		var k int64
		p.gen(func(cc concCase) bool {
			k++
			if int(k%int64(total)) != idx {
				return true
			}
			if run.TimeUp() {
				complete = false
				return false
			}
			t0 := time.Now()
			o := w.runConc(cc)
			counters["conc_shard_ms@"+p.name] += time.Since(t0).Milliseconds()
			counters["conc_cases"]++
			counters["conc_cases@"+p.name]++
			counters["conc_events"] += int64(len(cc.seq))
			if o.aborted != "" {
				counters["conc_aborted"]++
				fmt.Fprintf(os.Stderr, "concurrency case %s not judged: %s\n", cc, o.aborted)
				return true
			}
			counters["conc_executions"] += int64(o.flights)
			counters["conc_completed_windows"] += int64(o.complete)
			if o.parked > 0 {
				counters["conc_cases_with_parked_execution"]++
			}
			if o.parked > 0 && o.duringFl > 0 {
				counters["conc_cases_with_event_during_parked_execution"]++
			}
			if o.blocked > 0 {
				counters["conc_cases_with_blocked_glue_call"]++
			}
			if o.complete >= 2 {
				counters["conc_cases_with_2+_completed_windows"]++
			}
			if sample == nil && o.parked > 0 && o.blocked > 0 && o.complete >= 3 && len(o.kinds) == 0 && len(cc.seq) >= 4 {
				sample = map[string]any{"pass": "concurrency " + p.name, "case": cc.String(), "observed": o.detail}
			}
			if len(o.kinds) == 0 {
				return true
			}
			counters["conc_cases_violating"]++
			for kind := range o.kinds {
				if !cs.classify(kind, cc) {
					pending = append(pending, pendingCase{kind, cc})
				}
			}
			return true
		})
		if !complete {
			break
		}
	}
	// cases whose kind was being minimised by another shard at the time
	for _, pc := range pending {
		for !cs.classify(pc.kind, pc.cc) {
			if run.TimeUp() {
				complete = false
				break
			}
			time.Sleep(50 * time.Millisecond)
		}
	}
	for sig, n := range cs.count {
		c := cs.known[sig]
		rep := map[string]any{"conc_gate": c.Gate.Nth, "conc_point": ptNames[c.Gate.Pt], "conc_no_rows": c.Gate.NoRows, "conc_events": strings.Split(gNamesOf(c.Seq), ","), "observed": c.Det}
		for i := 0; i < n; i++ {
			run.Violate(sig, c.Desc+" ["+concCase{c.Gate.gate(), c.Seq}.String()+"]", rep)
		}
	}
	var sb bytes.Buffer
	for k := range w.concKeys {
		sb.WriteString(k)
		sb.WriteByte('\n')
	}
	os.MkdirAll(os.Getenv("VERIF_C29_ROOT"), 0o755)
	must(os.WriteFile(filepath.Join(os.Getenv("VERIF_C29_ROOT"), fmt.Sprintf("conckeys.%02d", idx)), sb.Bytes(), 0o644), "write concurrency outcomes")
	if sample != nil {
		b, _ := json.Marshal(sample)
		os.WriteFile(filepath.Join(os.Getenv("VERIF_C29_ROOT"), fmt.Sprintf("concsample.%02d", idx)), b, 0o644)
	}
	return complete
}

// concCoverage (parent): counts, vacuity guards, evidence.
func concCoverage(run *ev.Run, root string, shards int, counters map[string]int64, complete bool) {
	keys := map[string]struct{}{}
	var sample any
	for i := 0; i < shards; i++ {
		b, err := os.ReadFile(filepath.Join(root, fmt.Sprintf("conckeys.%02d", i)))
		must(err, "shard concurrency outcomes")
		for _, l := range strings.Split(string(b), "\n") {
			if l != "" {
				keys[l] = struct{}{}
			}
		}
		if sample == nil {
			if b, err := os.ReadFile(filepath.Join(root, fmt.Sprintf("concsample.%02d", i))); err == nil {
				json.Unmarshal(b, &sample)
			}
		}
	}
	ps := concPasses(run.Quick())
	var want int64
	var lines []string
	secs := map[string]int64{}
	for _, p := range ps {
		n := p.count()
		want += n
		lines = append(lines, fmt.Sprintf("%s (%d of %d run)", p.what(), counters["conc_cases@"+p.name], n))
		secs[p.name] = counters["conc_shard_ms@"+p.name] / 1000
	}
	if complete && counters["conc_cases"] != want {
		ev.Unbound(fmt.Sprintf("concurrency: enumerated %d cases, the bound has %d", counters["conc_cases"], want))
	}
	fmt.Printf("concurrency: cases=%d (of %d) events=%d executions=%d completed windows=%d distinct outcomes=%d; an execution parked in %d cases, events during a parked execution in %d, a glue call blocked in %d; not judged=%d violating=%d\n",
		counters["conc_cases"], want, counters["conc_events"], counters["conc_executions"], counters["conc_completed_windows"], len(keys), counters["conc_cases_with_parked_execution"],
		counters["conc_cases_with_event_during_parked_execution"], counters["conc_cases_with_blocked_glue_call"], counters["conc_aborted"], counters["conc_cases_violating"])
	if complete && os.Getenv("VERIF_C29_CONCLEN") == "" && (counters["conc_cases_with_event_during_parked_execution"] < 50 || counters["conc_cases_with_blocked_glue_call"] < 10 || len(keys) < 20) {
		ev.Unbound("vacuous concurrency pass: (almost) no case had an event during a parked execution / a blocked glue call")
	}
	if counters["conc_aborted"]*50 > counters["conc_cases"] {
		ev.Unbound(fmt.Sprintf("concurrency pass: %d of %d cases blocked outside the model (watchdog)", counters["conc_aborted"], counters["conc_cases"]))
	}
	run.Coverage["conc_passes"] = lines
	run.Coverage["conc_pass_seconds_summed_over_shards"] = secs
	run.Coverage["conc_cases"] = counters["conc_cases"]
	run.Coverage["conc_cases_in_bound"] = want
	run.Coverage["conc_events"] = counters["conc_events"]
	run.Coverage["conc_executions"] = counters["conc_executions"]
	run.Coverage["conc_completed_windows"] = counters["conc_completed_windows"]
	run.Coverage["conc_distinct_outcomes"] = len(keys)
	run.Coverage["conc_cases_with_parked_execution"] = counters["conc_cases_with_parked_execution"]
	run.Coverage["conc_cases_with_event_during_parked_execution"] = counters["conc_cases_with_event_during_parked_execution"]
	run.Coverage["conc_cases_with_blocked_glue_call"] = counters["conc_cases_with_blocked_glue_call"]
	run.Coverage["conc_cases_with_2+_completed_windows"] = counters["conc_cases_with_2+_completed_windows"]
	run.Coverage["conc_cases_not_judged"] = counters["conc_aborted"]
	run.Coverage["conc_cases_violating"] = counters["conc_cases_violating"]
	run.Coverage["conc_exhaustive"] = complete && counters["conc_aborted"] == 0 && os.Getenv("VERIF_C29_CONCLEN") == ""
	if sample != nil {
		run.Coverage["conc_sample"] = sample
	}
	run.Coverage["conc_alphabet"] = gNames
	run.Coverage["conc_rule"] = fmt.Sprintf("a case = gate (none, or the 1st/2nd execution begun parked at window-chosen / query-done) x a sequence of events with `release`; every case of every pass is run once, as one deterministic schedule of the real CQScheduler goroutines under shim/vsched (each event on its own thread; the next event starts when all older threads have ended or are blocked; a blocked call stays in the background and the clock moves +%s once); tick = clock +%s; after the history: release if needed, probe tick. Non-trivial = an event began while the parked execution was in flight; distinct = distinct (execution log per CQ id relative to the start, definitions used, cursor, kinds in flight together)", concSweep, concStep)
}

// replayConc re-runs one recorded case and prints what it observes.
func replayConc(w *worker, nth int, point string, noRows bool, events []string) int {
	cc := concCase{g: gate{noRows: noRows}}
	for i, n := range ptNames {
		if nth > 0 && n == point {
			cc.g = gate{nth, i, noRows}
		}
	}
	for _, n := range events {
		found := false
		for e, name := range gNames {
			if name == n {
				cc.seq = append(cc.seq, e)
				found = true
			}
		}
		if !found {
			ev.Unbound("unknown concurrency event " + n)
		}
	}
	o := w.runConc(cc)
	b, _ := json.MarshalIndent(map[string]any{"case": cc.String(), "violations": o.kinds, "outcome": o.key, "not_judged": o.aborted, "observed": o.detail}, "", " ")
	fmt.Println(string(b))
	if len(o.kinds) > 0 {
		return 1
	}
	return 0
}
