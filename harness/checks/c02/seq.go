// C02, sequence phase — typed ON vs OFF equivalence over SEQUENCES of payloads written into ONE ArrowBuffer.
//
// The single-payload phases (main.go) decide "what does one body decode to". What the typed fast path also
// owns is its own buffer-insert function (writeTypedColumnarRaw, a mirror of writeColumnarInternal): schema
// evolution, per-buffer bookkeeping (start time, record count, schema signature) and the size threshold are
// re-implemented there, and their effect is only visible across SEVERAL writes to one measurement followed by
// a flush. This phase enumerates every sequence of <= maxLen payloads over a small alphabet of column shapes
// for one measurement, writes it into a fresh real ArrowBuffer per mode, fires one flush trigger, and
// compares statuses and the multiset of stored rows (read back from the Parquet files) between the modes -
// after the trigger and again after Close.
package main

import (
	"context"
	"encoding/hex"
	"fmt"
	"os"
	"sort"
	"strings"
	"sync"
	"sync/atomic"
	"time"

	"github.com/basekick-labs/arc/internal/config"
	"github.com/basekick-labs/arc/internal/ingest"
	"github.com/basekick-labs/arc/zzverif/engine/ev"
	"github.com/basekick-labs/arc/zzverif/hx"
	"github.com/rs/zerolog"
)

// ---------------------------------------------------------------------------
// alphabet: payload shapes for ONE measurement ("c"), two value columns v and w
// ---------------------------------------------------------------------------

// column kinds: '-' absent, 'i' [int,int], 'f' [float,float], 's' [str,str], 'b' [bool,bool],
// 'n' [int,nil] (partly null), 'N' [nil,nil] (nil-only column)
type seqTok struct {
	v, w byte
}

var kindName = map[byte]string{'i': "int", 'f': "float", 's': "str", 'b': "bool", 'n': "int+nil", 'N': "nil-only"}

func (t seqTok) String() string {
	var p []string
	if t.v != '-' {
		p = append(p, "v:"+kindName[t.v])
	}
	if t.w != '-' {
		p = append(p, "w:"+kindName[t.w])
	}
	return "{" + strings.Join(p, ",") + "}"
}

// seqOrder is the alphabet in order of "simplicity": minimisation replaces a payload only by an earlier one,
// and the quick tier uses a PREFIX of this list for its longest sequences (so minimisation stays inside the
// enumerated space). v over {int,float,str,bool,int+nil,nil-only,absent} x w over {absent,int,nil-only}.
var seqOrder = []seqTok{
	{'i', '-'}, {'f', '-'}, {'i', 'i'}, {'s', '-'}, {'N', '-'}, {'f', 'i'}, {'-', 'i'}, {'b', '-'}, // 8
	{'n', '-'}, {'s', 'i'}, {'b', 'i'}, {'N', 'i'}, // 12
	{'n', 'i'}, {'-', '-'}, {'i', 'N'}, {'f', 'N'}, {'s', 'N'}, {'b', 'N'}, {'N', 'N'}, {'n', 'N'}, {'-', 'N'}, // 21
}

const seqRows = 2 // rows per payload

func seqCol(kind byte, pos, base int) *node {
	switch kind {
	case 'i':
		return A(pfix(base+10*pos+1), pfix(base+10*pos+2))
	case 'f':
		return A(f64(float64(base+10*pos)+1.5), f64(float64(base+10*pos)+2.5))
	case 's':
		return A(fixstr(fmt.Sprintf("a%d", base+pos)), fixstr(fmt.Sprintf("b%d", base+pos)))
	case 'b':
		return A(mpTrue(), mpFalse())
	case 'n':
		return A(pfix(base+10*pos+1), mpNil())
	case 'N':
		return A(mpNil(), mpNil())
	}
	return nil
}

// seqBody is the request body of token t at position pos of a sequence: explicit times (distinct per position
// and row, all in one hour partition), values distinct per position.
func seqBody(t seqTok, pos int) []byte {
	cols := []*node{fixstr("time"), A(u32(uint64(t0s+10*pos)), u32(uint64(t0s+10*pos+1)))}
	if c := seqCol(t.v, pos, 0); c != nil {
		cols = append(cols, fixstr("v"), c)
	}
	if c := seqCol(t.w, pos, 50); c != nil {
		cols = append(cols, fixstr("w"), c)
	}
	return encode(M(fixstr("m"), fixstr("c"), fixstr("columns"), M(cols...)))
}

// ---------------------------------------------------------------------------
// flush triggers
// ---------------------------------------------------------------------------

type seqTrig struct {
	name string
	size int // > 0: MaxBufferSize (rows); the size threshold is the trigger
}

var seqTrigs = []seqTrig{{"flush-all", 0}, {"aged-sweep", 0}, {"close", 0}, {"size=2", 2}, {"size=4", 4}, {"size=6", 6}}

// storage backend of one lifecycle: in-memory; a write under "zzblk/" parks the flush worker until released
type seqBackend struct {
	*hx.MemBackend
	entered chan struct{}
	release chan struct{}
}

func (s *seqBackend) Write(ctx context.Context, path string, data []byte) error {
	if strings.HasPrefix(path, blockDB+"/") {
		s.entered <- struct{}{}
		<-s.release
	}
	return s.MemBackend.Write(ctx, path, data)
}

const blockDB = "zzblk"

func blockerBody(rows int) []byte {
	var ts, vs []*node
	for i := 0; i < rows; i++ {
		ts = append(ts, u32(uint64(t0s+i)))
		vs = append(vs, pfix(i))
	}
	return encode(M(fixstr("m"), fixstr("b"), fixstr("columns"), M(fixstr("time"), A(ts...), fixstr("v"), A(vs...))))
}

// ---------------------------------------------------------------------------
// one lifecycle: fresh ArrowBuffer, writes, trigger, Close
// ---------------------------------------------------------------------------

type seqObs struct {
	writes   []string // status per payload
	hits     []bool   // payload produced a TypedColumnarRecord
	trig     string   // status of the trigger
	closeSt  string
	failT    bool // HasFlushFailure after the trigger / after Close
	failC    bool
	rowsT    map[string]int // stored rows after the trigger
	rowsC    map[string]int // stored rows after Close
	panicAt  string         // "", "write#k", "trigger", "close"
	panicMsg string
	evoFiles int // files already stored before the trigger fired (schema-evolution / size flushes during the writes)
	queued   int // size-triggered tasks run
	leftover int // rows still buffered after the trigger
	hung     bool
}

func renderRows(schema []string, rows []hx.Row, into map[string]int) {
	types := map[string]string{}
	for _, s := range schema { // "name:type"; the column names of this phase contain no colon
		if j := strings.Index(s, ":"); j >= 0 {
			types[s[:j]] = s[j+1:]
		}
	}
	for _, r := range rows {
		names := make([]string, 0, len(r))
		for k := range r {
			names = append(names, k)
		}
		sort.Strings(names)
		var sb strings.Builder
		for _, k := range names {
			one := hx.Row{k: r[k]}
			key := one.Key() // "name=value;"
			sb.WriteString(k)
			sb.WriteByte(':')
			sb.WriteString(types[k])
			sb.WriteString(key[len(k):])
		}
		into[sb.String()]++
	}
}

type seqStore struct {
	mem  *seqBackend
	seen map[string]bool
	rows map[string]int
}

// snapshot reads every not yet seen file of database "db" back and returns a copy of the accumulated multiset
func (s *seqStore) snapshot() (map[string]int, int) {
	paths, files := s.mem.Snapshot()
	n := 0
	for _, p := range paths {
		if !strings.HasPrefix(p, database+"/") {
			continue
		}
		n++
		if s.seen[p] {
			continue
		}
		s.seen[p] = true
		rows, schema, _, err := hx.ReadParquet(files[p])
		if err != nil {
			s.rows["UNREADABLE-FILE:"+errClass(err.Error())]++
			continue
		}
		renderRows(schema, rows, s.rows)
	}
	out := make(map[string]int, len(s.rows))
	for k, v := range s.rows {
		out[k] = v
	}
	return out, n
}

func statusOf(err error) string {
	if err == nil {
		return "ok"
	}
	return "error:" + errClass(err.Error())
}

func (w *worker) seqRun(dec *ingest.MessagePackDecoder, bodies [][]byte, trig seqTrig) (o seqObs) {
	mem := &seqBackend{MemBackend: hx.NewMemBackend(), entered: make(chan struct{}, 4), release: make(chan struct{})}
	size := 1 << 30
	if trig.size > 0 {
		size = trig.size
	}
	cfg := &config.IngestConfig{MaxBufferSize: size, MaxBufferAgeMS: 3_600_000, Compression: "snappy",
		FlushWorkers: 1, FlushQueueSize: 8, ShardCount: 4, FlushTimeoutSeconds: 30}
	buf := ingest.NewArrowBuffer(cfg, mem, zerolog.Nop())
	ingest.VerifDisarmPeriodicTimer(buf)
	store := &seqStore{mem: mem, seen: map[string]bool{}, rows: map[string]int{}}
	released := false
	release := func() {
		if !released {
			released = true
			close(mem.release)
		}
	}
	// guarded runs f on this goroutine; a panic is recorded with the stage it happened in
	guarded := func(stage string, f func()) (ok bool) {
		defer func() {
			if r := recover(); r != nil {
				if o.panicAt == "" {
					o.panicAt, o.panicMsg = stage, errClass(fmt.Sprint(r))
				}
				ok = false
			}
		}()
		f()
		return true
	}
	// Close may meet a lock left held by a panic; never let that hang the check
	doClose := func() {
		done := make(chan struct{})
		go func() {
			defer close(done)
			guarded("close", func() { o.closeSt = statusOf(buf.Close()) })
		}()
		select {
		case <-done:
		case <-time.After(30 * time.Second):
			o.hung = true
		}
	}
	defer release()

	if trig.size > 0 {
		// park the single flush worker inside a storage write of an unrelated database, so that the size-triggered
		// tasks of the sequence wait in the queue and their worker body can be run here, where a panic is observable
		res, err := w.dG.Decode(blockerBody(trig.size))
		if err == nil {
			err = buf.Write(w.ctx, blockDB, res)
		}
		if err != nil {
			ev.Unbound("sequence phase: blocker write failed: " + err.Error())
		}
		select {
		case <-mem.entered:
		case <-time.After(60 * time.Second):
			ev.Unbound("sequence phase: a write of MaxBufferSize rows did not reach the flush worker")
		}
	}

	for k, body := range bodies {
		st := ""
		ok := guarded(fmt.Sprintf("write#%d", k+1), func() {
			data := append([]byte{}, body...)
			res, err := dec.Decode(data)
			if err != nil {
				st = "decode-" + statusOf(err)
				return
			}
			hit := false
			if list, _ := res.([]interface{}); len(list) > 0 {
				_, hit = list[0].(*ingest.TypedColumnarRecord)
			}
			o.hits = append(o.hits, hit)
			st = "write-" + statusOf(buf.Write(w.ctx, database, res))
		})
		if !ok {
			o.writes = append(o.writes, "panic")
			break
		}
		o.writes = append(o.writes, st)
	}
	if o.panicAt == "" {
		_, o.evoFiles = store.snapshot()
		guarded("trigger", func() {
			switch {
			case trig.name == "flush-all":
				o.trig = statusOf(buf.FlushAll(w.ctx))
			case trig.name == "aged-sweep":
				ingest.VerifAdvanceBufferAge(buf, ingest.VerifMaxBufferAge(buf))
				ingest.VerifFlushAged(buf)
				o.trig = "ok"
			case trig.size > 0:
				o.queued = ingest.VerifRunQueuedFlushes(buf)
				o.trig = "ok"
			default:
				o.trig = "ok" // Close below is the trigger
			}
		})
	}
	o.rowsT, _ = store.snapshot()
	o.failT = buf.HasFlushFailure()
	if o.panicAt == "" {
		for _, n := range ingest.VerifBufferedRows(buf) {
			o.leftover += n
		}
	}
	release()
	doClose()
	o.rowsC, _ = store.snapshot()
	o.failC = buf.HasFlushFailure()
	return o
}

// ---------------------------------------------------------------------------
// comparison
// ---------------------------------------------------------------------------

func panicStage(o seqObs) string {
	if o.panicAt == "" {
		return "none"
	}
	return o.panicAt
}

// seqCompare returns "" when the two modes are indistinguishable, else the difference kind.
func seqCompare(t, g seqObs) string {
	if t.hung || g.hung {
		return fmt.Sprintf("seq-close-hung:typed=%v,generic=%v", t.hung, g.hung)
	}
	if t.panicAt != "" || g.panicAt != "" {
		return "seq-panic:typed=" + panicStage(t) + ",generic=" + panicStage(g)
	}
	if strings.Join(t.writes, "|") != strings.Join(g.writes, "|") {
		return "seq-accept-mismatch"
	}
	if t.trig != g.trig || t.closeSt != g.closeSt {
		return "seq-flush-status"
	}
	if d := hx.DiffMultiset(g.rowsT, t.rowsT); d != "" {
		return "seq-stored-rows@trigger"
	}
	if t.failT != g.failT {
		return "seq-flush-failure-flag@trigger"
	}
	if d := hx.DiffMultiset(g.rowsC, t.rowsC); d != "" {
		return "seq-stored-rows@close"
	}
	if t.failC != g.failC {
		return "seq-flush-failure-flag@close"
	}
	return ""
}

type seqVerdict struct {
	kind string
	t, g seqObs
}

func (w *worker) seqEval(toks []seqTok, trig seqTrig) seqVerdict {
	bodies := make([][]byte, len(toks))
	for i, t := range toks {
		bodies[i] = seqBody(t, i)
	}
	return w.seqEvalBodies(bodies, trig)
}

func (w *worker) seqEvalBodies(bodies [][]byte, trig seqTrig) seqVerdict {
	t := w.seqRun(w.dT, bodies, trig)
	g := w.seqRun(w.dG, bodies, trig)
	return seqVerdict{kind: seqCompare(t, g), t: t, g: g}
}

func seqKey(toks []seqTok) string {
	p := make([]string, len(toks))
	for i, t := range toks {
		p[i] = t.String()
	}
	return strings.Join(p, ">")
}

func seqObsJSON(o seqObs) map[string]any {
	ms := func(m map[string]int) []string {
		var out []string
		for k, n := range m {
			out = append(out, fmt.Sprintf("%dx %s", n, k))
		}
		sort.Strings(out)
		return out
	}
	return map[string]any{"writes": o.writes, "fast_path_hits": o.hits, "trigger_status": o.trig, "close_status": o.closeSt,
		"panic_at": o.panicAt, "panic": o.panicMsg, "flush_failure_after_trigger": o.failT, "flush_failure_after_close": o.failC,
		"rows_after_trigger": ms(o.rowsT), "rows_after_close": ms(o.rowsC), "rows_left_buffered_after_trigger": o.leftover,
		"size_tasks_run": o.queued}
}

// ---------------------------------------------------------------------------
// the phase
// ---------------------------------------------------------------------------

type seqCase struct {
	toks []seqTok
	trig int
}

func seqRank(t seqTok) int {
	for i, o := range seqOrder {
		if o == t {
			return i
		}
	}
	return 1 << 20
}

func seqPhase(run *ev.Run, quick bool, workers []*worker) (complete bool) {
	tStart := time.Now()
	// bounds: quick = every sequence of <=2 payloads over the full alphabet + every sequence of 3 over its first
	// seqQuickLen3 tokens; thorough = every sequence of <=3 over the full alphabet. Every applicable trigger each.
	maxLen := 3
	len3 := len(seqOrder)
	if quick {
		len3 = seqQuickLen3
	}
	var seqs [][]seqTok
	var rec func(cur []seqTok)
	rec = func(cur []seqTok) {
		if len(cur) > 0 {
			seqs = append(seqs, append([]seqTok{}, cur...))
		}
		if len(cur) == maxLen {
			return
		}
		alpha := seqOrder
		if len(cur) == 2 { // extending to length 3
			alpha = seqOrder[:len3]
			for _, c := range cur {
				if seqRank(c) >= len3 {
					return
				}
			}
		}
		for _, a := range alpha {
			rec(append(cur[:len(cur):len(cur)], a))
		}
	}
	rec(nil)
	var cases []seqCase
	for _, s := range seqs {
		for ti, tr := range seqTrigs {
			if tr.size > seqRows*len(s) { // threshold never reached by this sequence: identical to the plain close case
				continue
			}
			cases = append(cases, seqCase{s, ti})
		}
	}
	if run.Seed != 0 && len(cases) > 0 { // the seed only rotates the order of exploration
		r := run.Seed % len(cases)
		if r < 0 {
			r += len(cases)
		}
		cases = append(cases[r:], cases[:r]...)
	}

	// binding / vacuity self-check on the generic (reference) mode: every trigger really flushes
	{
		w := workers[0]
		two := []seqTok{{'i', '-'}, {'i', 'i'}}
		bodies := [][]byte{seqBody(two[0], 0), seqBody(two[1], 1)}
		for _, tr := range seqTrigs {
			if tr.size > 4 {
				continue
			}
			o := w.seqRun(w.dG, bodies, tr)
			want := 4
			if tr.name == "close" || tr.size == 4 {
				want = 2 // before Close only the schema-evolution flush of payload 1 happened; size=4 is never reached (2+2 split by evolution)
			}
			nT, nC := 0, 0
			for _, n := range o.rowsT {
				nT += n
			}
			for _, n := range o.rowsC {
				nC += n
			}
			if o.panicAt != "" || nT != want || nC != 4 {
				ev.Unbound(fmt.Sprintf("sequence phase: reference mode, trigger %s on {v:int}>{v:int,w:int}: %d rows after the trigger (want %d), %d after Close (want 4), panic=%q %s",
					tr.name, nT, want, nC, o.panicAt, o.panicMsg))
			}
		}
		t := w.seqRun(w.dT, bodies, seqTrigs[0])
		if len(t.hits) != 2 || !t.hits[0] || !t.hits[1] {
			ev.Unbound("sequence phase: plain columnar payloads do not take the typed fast path")
		}
	}

	var (
		next                                        int64 = -1
		done, allTyped, anyTyped, withEvo, withTask int64
		allTypedEvo                                 int64
		incomplete                                  int32
		mu                                          sync.Mutex
		memo                                        = map[string]string{} // trigger|seq -> kind
		raw                                         []seqCase
		outcomes                                    = map[string]int64{}
		tokHits                                     = map[string]bool{}
		wg                                          sync.WaitGroup
	)
	samples := ev.NewSamples(6)
	for _, w := range workers {
		wg.Add(1)
		go func(w *worker) {
			defer wg.Done()
			for {
				i := int(atomic.AddInt64(&next, 1))
				if i >= len(cases) {
					return
				}
				if run.TimeUp() {
					atomic.StoreInt32(&incomplete, 1)
					return
				}
				c := cases[i]
				v := w.seqEval(c.toks, seqTrigs[c.trig])
				atomic.AddInt64(&done, 1)
				all, some := true, false
				for _, h := range v.t.hits {
					all = all && h
					some = some || h
				}
				if all && len(v.t.hits) == len(c.toks) {
					atomic.AddInt64(&allTyped, 1)
					if v.g.evoFiles > 0 {
						atomic.AddInt64(&allTypedEvo, 1)
					}
				}
				if some {
					atomic.AddInt64(&anyTyped, 1)
				}
				if v.g.evoFiles > 0 {
					atomic.AddInt64(&withEvo, 1)
				}
				if v.g.queued > 0 {
					atomic.AddInt64(&withTask, 1)
				}
				mu.Lock()
				memo[seqTrigs[c.trig].name+"|"+seqKey(c.toks)] = v.kind
				out := "same"
				if v.kind != "" {
					out = v.kind
					raw = append(raw, c)
				}
				outcomes[fmt.Sprintf("%s trigger=%s evolution-flushes=%v", out, seqTrigs[c.trig].name, v.g.evoFiles > 0)]++
				for k, h := range v.t.hits {
					if h {
						tokHits[c.toks[k].String()] = true
					}
				}
				mu.Unlock()
				if i%997 == 0 {
					samples.Add(map[string]any{"sequence": seqKey(c.toks), "trigger": seqTrigs[c.trig].name, "difference": v.kind,
						"typed": seqObsJSON(v.t), "generic": seqObsJSON(v.g)})
				}
			}
		}(w)
	}
	wg.Wait()
	explored := time.Since(tStart)

	// ---- minimise every failing case to its class: drop payloads, replace payloads by simpler ones ----------
	var minEvals int64
	kindOf := func(w *worker, toks []seqTok, trig int) string {
		k := seqTrigs[trig].name + "|" + seqKey(toks)
		mu.Lock()
		kind, ok := memo[k]
		mu.Unlock()
		if ok {
			return kind
		}
		if len(toks) == 0 || seqTrigs[trig].size > seqRows*len(toks) {
			return ""
		}
		atomic.AddInt64(&minEvals, 1)
		kind = w.seqEval(toks, seqTrigs[trig]).kind
		mu.Lock()
		memo[k] = kind
		mu.Unlock()
		return kind
	}
	// minimise: greedy to a fixpoint of {drop a payload; swap two adjacent payloads into alphabet order; replace a payload
	// (or every occurrence of one shape) by an earlier one of the alphabet; use an earlier trigger of the trigger list}, the same difference kind persisting
	minimise := func(w *worker, c seqCase, kind string) ([]seqTok, int) {
		cur := append([]seqTok{}, c.toks...)
		trig := c.trig
		for progressed := true; progressed; {
			progressed = false
			for i := range cur {
				cand := append(append([]seqTok{}, cur[:i]...), cur[i+1:]...)
				if kindOf(w, cand, trig) == kind {
					cur, progressed = cand, true
					break
				}
			}
			if progressed {
				continue
			}
			for i := 0; i+1 < len(cur); i++ {
				if seqRank(cur[i]) > seqRank(cur[i+1]) {
					cand := append([]seqTok{}, cur...)
					cand[i], cand[i+1] = cand[i+1], cand[i]
					if kindOf(w, cand, trig) == kind {
						cur, progressed = cand, true
						break
					}
				}
			}
			if progressed {
				continue
			}
		repl:
			for i := range cur {
				for r := 0; r < seqRank(cur[i]); r++ {
					cand := append([]seqTok{}, cur...)
					cand[i] = seqOrder[r]
					if kindOf(w, cand, trig) == kind {
						cur, progressed = cand, true
						break repl
					}
				}
			}
			if progressed {
				continue
			}
			// every occurrence of one shape replaced by an earlier shape (keeps "same schema as before" relations intact)
		uni:
			for i := range cur {
				for r := 0; r < seqRank(cur[i]); r++ {
					cand := append([]seqTok{}, cur...)
					n := 0
					for k := range cand {
						if cand[k] == cur[i] {
							cand[k] = seqOrder[r]
							n++
						}
					}
					if n > 1 && kindOf(w, cand, trig) == kind {
						cur, progressed = cand, true
						break uni
					}
				}
			}
			if progressed {
				continue
			}
			for t := 0; t < trig; t++ {
				if kindOf(w, cur, t) == kind {
					trig, progressed = t, true
					break
				}
			}
		}
		return cur, trig
	}
	type class struct {
		kind      string
		trig      int
		min       []seqTok
		instances int
		first     string
	}
	classes := map[string]*class{}
	sort.SliceStable(raw, func(i, j int) bool {
		if len(raw[i].toks) != len(raw[j].toks) {
			return len(raw[i].toks) < len(raw[j].toks)
		}
		if a, b := seqKey(raw[i].toks), seqKey(raw[j].toks); a != b {
			return a < b
		}
		return raw[i].trig < raw[j].trig
	})
	var notMin int64
	next = -1
	for _, w := range workers {
		wg.Add(1)
		go func(w *worker) {
			defer wg.Done()
			for {
				i := int(atomic.AddInt64(&next, 1))
				if i >= len(raw) {
					return
				}
				if run.TimeUp() {
					atomic.AddInt64(&notMin, 1)
					atomic.StoreInt32(&incomplete, 1)
					continue
				}
				c := raw[i]
				mu.Lock()
				kind := memo[seqTrigs[c.trig].name+"|"+seqKey(c.toks)]
				mu.Unlock()
				min, mtrig := minimise(w, c, kind)
				sig := kind + "|" + seqTrigs[mtrig].name + "|" + seqKey(min)
				mu.Lock()
				cl := classes[sig]
				if cl == nil {
					cl = &class{kind: kind, trig: mtrig, min: min, first: seqTrigs[c.trig].name + "|" + seqKey(c.toks)}
					classes[sig] = cl
				}
				cl.instances++
				mu.Unlock()
			}
		}(w)
	}
	wg.Wait()

	sigs := make([]string, 0, len(classes))
	for s := range classes {
		sigs = append(sigs, s)
	}
	sort.Strings(sigs)
	classSummary := []any{}
	w0 := workers[0]
	for _, s := range sigs {
		c := classes[s]
		v1 := w0.seqEval(c.min, seqTrigs[c.trig])
		v2 := w0.seqEval(c.min, seqTrigs[c.trig])
		if v1.kind != c.kind || v2.kind != c.kind {
			ev.Nondeterminism(fmt.Sprintf("sequence class %s does not replay (got %q, %q)", s, v1.kind, v2.kind))
		}
		var hexes []string
		for i, t := range c.min {
			hexes = append(hexes, hex.EncodeToString(seqBody(t, i)))
		}
		detail := ""
		switch {
		case strings.HasPrefix(c.kind, "seq-panic"):
			detail = fmt.Sprintf(": typed panic %q, generic panic %q", v1.t.panicMsg, v1.g.panicMsg)
		case c.kind == "seq-stored-rows@trigger":
			detail = ": generic-vs-typed " + hx.DiffMultiset(v1.g.rowsT, v1.t.rowsT)
		case c.kind == "seq-stored-rows@close":
			detail = ": generic-vs-typed " + hx.DiffMultiset(v1.g.rowsC, v1.t.rowsC)
		case c.kind == "seq-accept-mismatch":
			detail = fmt.Sprintf(": typed %v, generic %v", v1.t.writes, v1.g.writes)
		case c.kind == "seq-flush-status":
			detail = fmt.Sprintf(": typed trigger=%s close=%s, generic trigger=%s close=%s", v1.t.trig, v1.t.closeSt, v1.g.trig, v1.g.closeSt)
		}
		if len(detail) > 600 {
			detail = detail[:600] + "..."
		}
		desc := fmt.Sprintf("%s: payloads %s for measurement c written into one ArrowBuffer per mode, then trigger %s%s",
			c.kind, seqKey(c.min), seqTrigs[c.trig].name, detail)
		run.Violate(s, desc, map[string]any{"sequence": seqKey(c.min), "trigger": seqTrigs[c.trig].name, "bodies_hex": hexes, "kind": c.kind,
			"typed": seqObsJSON(v1.t), "generic": seqObsJSON(v1.g), "raw_instances": c.instances, "first_raw_instance": c.first})
		classSummary = append(classSummary, map[string]any{"signature": s, "raw_instances": c.instances})
	}

	var toks, hitToks, trigNames []string
	for _, t := range seqOrder {
		toks = append(toks, t.String())
		if tokHits[t.String()] {
			hitToks = append(hitToks, t.String())
		}
	}
	for _, t := range seqTrigs {
		trigNames = append(trigNames, t.name)
	}
	complete = incomplete == 0
	run.Coverage["seq_rule"] = fmt.Sprintf("SEQUENCE PHASE: payload shapes for one measurement = value column v over {int,float,str,bool,int+nil,nil-only,absent} x value column w over {absent,int,nil-only} "+
		"(%d shapes, %d rows each, explicit distinct times in one hour partition); every sequence of <=2 shapes over the whole alphabet and every sequence of 3 over its first %d shapes (%d sequences) x every applicable trigger of "+
		"{FlushAll, aged-buffer sweep (start times aged by MaxBufferAge, then flushAgedBuffers), Close, MaxBufferSize=2|4|6 rows with the queued flush-worker tasks run} (a size threshold the sequence cannot reach is skipped) = %d cases; "+
		"each case is written into ONE fresh real ArrowBuffer per mode (typedEnabled on / off), the trigger is fired, then Close; per-payload accept status, trigger and Close status, the flush-failure flag and the multiset of "+
		"stored rows (every Parquet file read back with hx.ReadParquet, each row rendered with its file's column names, Arrow types and explicit NULLs) must be identical between the modes after the trigger and after Close, and neither mode may panic. "+
		"non-trivial = every payload of the case took the typed fast path and a schema-evolution flush happened before the trigger (%d cases)",
		len(seqOrder), seqRows, len3, len(seqs), len(cases), allTypedEvo)
	run.Coverage["seq_alphabet"] = toks
	run.Coverage["seq_alphabet_taking_fast_path"] = hitToks
	run.Coverage["seq_triggers"] = trigNames
	run.Coverage["seq_max_len"] = maxLen
	run.Coverage["seq_len3_alphabet_prefix"] = len3
	run.Coverage["seq_sequences"] = len(seqs)
	run.Coverage["seq_cases"] = len(cases)
	run.Coverage["seq_cases_evaluated"] = done
	run.Coverage["seq_buffer_lifecycles"] = 2 * (done + minEvals)
	run.Coverage["seq_cases_all_payloads_fast_path"] = allTyped
	run.Coverage["seq_cases_some_payload_fast_path"] = anyTyped
	run.Coverage["seq_cases_with_flush_before_trigger"] = withEvo
	run.Coverage["seq_distinct_nontrivial"] = allTypedEvo
	run.Coverage["seq_cases_with_size_task"] = withTask
	run.Coverage["seq_outcomes"] = outcomes
	run.Coverage["seq_failing_cases_before_minimisation"] = len(raw)
	run.Coverage["seq_failing_cases_not_minimised"] = notMin
	run.Coverage["seq_minimisation_evaluations"] = minEvals
	run.Coverage["seq_classes"] = classSummary
	run.Coverage["seq_samples"] = samples.List()
	run.Coverage["seq_exhaustive"] = complete
	run.Coverage["seq_wall_s"] = fmt.Sprintf("%.1f", time.Since(tStart).Seconds())
	fmt.Printf("C02 sequences: %d sequences (<=2 over %d shapes, 3 over the first %d) x triggers = %d cases (%d with every payload on the fast path, %d with a schema-evolution flush before the trigger, %d with a size-triggered task), %d outcomes, %d raw failures -> %d classes, %.1fs (+%.1fs minimising)\n",
		len(seqs), len(seqOrder), len3, len(cases), allTyped, withEvo, withTask, len(outcomes), len(raw), len(classes), explored.Seconds(), (time.Since(tStart) - explored).Seconds())
	if os.Getenv("VERIF_DEBUG") != "" {
		var ks []string
		for k, n := range outcomes {
			ks = append(ks, fmt.Sprintf("%7d %s", n, k))
		}
		sort.Strings(ks)
		for _, k := range ks {
			fmt.Println("   ", k)
		}
	}
	return complete
}

// seqQuickLen3: the quick tier extends to length 3 only over this prefix of seqOrder
const seqQuickLen3 = 8
