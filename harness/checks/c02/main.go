// C02 — Typed MessagePack decoding is indistinguishable from generic decoding.
//
// Bounded-exhaustive differential check. Payload trees are enumerated from a small grammar and encoded
// by a hand-written msgpack encoder (every header width is chosen explicitly), then every well-formed
// encoding of <=40 bytes is additionally truncated at every offset, given trailing bytes, given oversized
// length headers, and mutated by every single-byte substitution from a 12-byte set. Every body is run
// through the real ingest.MessagePackDecoder with the typed fast path ON and OFF, then through the real
// ArrowBuffer.Write; what was buffered (and whatever Write flushed) is drained and compared. Bodies on
// which the fast path actually produced a typed record are additionally pushed through FlushAll into an
// in-memory storage backend and the stored Parquet files are read back and compared.
//
// Oracle = "the same code with the optimisation off".
package main

import (
	"bytes"
	"context"
	"encoding/hex"
	"encoding/json"
	"fmt"
	"io"
	"math"
	"os"
	"regexp"
	"runtime"
	"sort"
	"strconv"
	"strings"
	"sync"
	"sync/atomic"
	"time"

	"github.com/apache/arrow-go/v18/arrow/array"
	"github.com/apache/arrow-go/v18/arrow/memory"
	"github.com/apache/arrow-go/v18/parquet/file"
	"github.com/apache/arrow-go/v18/parquet/pqarrow"
	"github.com/basekick-labs/arc/internal/config"
	"github.com/basekick-labs/arc/internal/ingest"
	"github.com/basekick-labs/arc/pkg/models"
	"github.com/basekick-labs/arc/zzverif/engine/ev"
	"github.com/rs/zerolog"
)

// ---------------------------------------------------------------------------
// tiny msgpack tree + encoder (every width explicit) + lenient parser
// ---------------------------------------------------------------------------

type node struct {
	k    byte    // 'L' leaf (verbatim bytes), 'A' array, 'M' map (kids = k,v,k,v...)
	b    []byte  // leaf bytes
	w    int     // container header width: 0 fix, 1 = 16 bit, 2 = 32 bit
	kids []*node // array elements / map pairs flattened
}

func L(b ...byte) *node { return &node{k: 'L', b: append([]byte{}, b...)} }

func be(n int, v uint64) []byte {
	out := make([]byte, n)
	for i := n - 1; i >= 0; i-- {
		out[i] = byte(v)
		v >>= 8
	}
	return out
}
func fixstr(s string) *node { return L(append([]byte{0xa0 | byte(len(s))}, s...)...) }
func str8(s string) *node   { return L(append([]byte{0xd9, byte(len(s))}, s...)...) }
func str16(s string) *node  { return L(append(append([]byte{0xda}, be(2, uint64(len(s)))...), s...)...) }
func str32(s string) *node  { return L(append(append([]byte{0xdb}, be(4, uint64(len(s)))...), s...)...) }
func bin8(s string) *node   { return L(append([]byte{0xc4, byte(len(s))}, s...)...) }
func bin16(s string) *node  { return L(append(append([]byte{0xc5}, be(2, uint64(len(s)))...), s...)...) }
func u8(v uint64) *node     { return L(append([]byte{0xcc}, be(1, v)...)...) }
func u16(v uint64) *node    { return L(append([]byte{0xcd}, be(2, v)...)...) }
func u32(v uint64) *node    { return L(append([]byte{0xce}, be(4, v)...)...) }
func u64(v uint64) *node    { return L(append([]byte{0xcf}, be(8, v)...)...) }
func i8(v int64) *node      { return L(append([]byte{0xd0}, be(1, uint64(v))...)...) }
func i16(v int64) *node     { return L(append([]byte{0xd1}, be(2, uint64(v))...)...) }
func i32(v int64) *node     { return L(append([]byte{0xd2}, be(4, uint64(v))...)...) }
func i64(v int64) *node     { return L(append([]byte{0xd3}, be(8, uint64(v))...)...) }
func f32(v float32) *node   { return L(append([]byte{0xca}, be(4, uint64(math.Float32bits(v)))...)...) }
func f64(v float64) *node   { return L(append([]byte{0xcb}, be(8, math.Float64bits(v))...)...) }
func pfix(v int) *node      { return L(byte(v)) }       // 0..127
func nfix(v int) *node      { return L(byte(int8(v))) } // -32..-1
func mpNil() *node          { return L(0xc0) }
func mpTrue() *node         { return L(0xc3) }
func mpFalse() *node        { return L(0xc2) }
func ext8(id int8, data string) *node {
	return L(append([]byte{0xc7, byte(len(data)), byte(id)}, data...)...)
}
func fixext1(id int8, d byte) *node { return L(0xd4, byte(id), d) }
func fixext4(id int8, d uint32) *node {
	return L(append([]byte{0xd6, byte(id)}, be(4, uint64(d))...)...)
}

// minimal-width integer
func mint(v int64) *node {
	switch {
	case v >= 0 && v <= 127:
		return pfix(int(v))
	case v < 0 && v >= -32:
		return nfix(int(v))
	case v >= 0 && v <= 0xff:
		return u8(uint64(v))
	case v >= 0 && v <= 0xffff:
		return u16(uint64(v))
	case v >= 0 && v <= 0xffffffff:
		return u32(uint64(v))
	case v >= 0:
		return u64(uint64(v))
	case v >= -128:
		return i8(v)
	case v >= -32768:
		return i16(v)
	case v >= -2147483648:
		return i32(v)
	}
	return i64(v)
}

func A(kids ...*node) *node             { return &node{k: 'A', kids: kids} }
func AW(w int, kids ...*node) *node     { return &node{k: 'A', w: w, kids: kids} }
func M(kids ...*node) *node             { return &node{k: 'M', kids: kids} }
func MW(w int, kids ...*node) *node     { return &node{k: 'M', w: w, kids: kids} }
func (n *node) with(kids []*node) *node { return &node{k: n.k, w: n.w, b: n.b, kids: kids} }

func minWidth(cnt int) int {
	if cnt <= 15 {
		return 0
	}
	if cnt <= 0xffff {
		return 1
	}
	return 2
}

// enc appends the encoding of n. If over == n the container/str header is replaced by its 32-bit form
// claiming 0xFFFFFFFF elements/bytes ("oversized length header").
func enc(dst []byte, n *node, over *node) []byte {
	switch n.k {
	case 'L':
		if over == n {
			c := n.b[0]
			switch {
			case c >= 0xa0 && c <= 0xbf:
				dst = append(dst, 0xdb, 0xff, 0xff, 0xff, 0xff)
				return append(dst, n.b[1:]...)
			case c == 0xd9:
				dst = append(dst, 0xdb, 0xff, 0xff, 0xff, 0xff)
				return append(dst, n.b[2:]...)
			}
		}
		return append(dst, n.b...)
	case 'A', 'M':
		cnt := len(n.kids)
		if n.k == 'M' {
			cnt /= 2
		}
		w := n.w
		if w < minWidth(cnt) {
			w = minWidth(cnt)
		}
		var fix, c16 byte = 0x90, 0xdc
		if n.k == 'M' {
			fix, c16 = 0x80, 0xde
		}
		if over == n {
			dst = append(dst, c16+1, 0xff, 0xff, 0xff, 0xff)
		} else {
			switch w {
			case 0:
				dst = append(dst, fix|byte(cnt))
			case 1:
				dst = append(append(dst, c16), be(2, uint64(cnt))...)
			default:
				dst = append(append(dst, c16+1), be(4, uint64(cnt))...)
			}
		}
		for _, k := range n.kids {
			dst = enc(dst, k, over)
		}
	}
	return dst
}

func encode(n *node) []byte { return enc(nil, n, nil) }

// parse reads one msgpack value leniently (any ext, any key type), preserving header widths so that
// encode(parse(b)) == b[:used]. ok=false when b is not a complete well-formed value.
func parse(b []byte, depth int) (n *node, used int, ok bool) {
	if len(b) == 0 || depth > 32 {
		return nil, 0, false
	}
	c := b[0]
	leaf := func(total int) (*node, int, bool) {
		if total < 0 || len(b) < total {
			return nil, 0, false
		}
		return L(b[:total]...), total, true
	}
	lenAt := func(off, n int) (int, bool) {
		if len(b) < off+n {
			return 0, false
		}
		v := 0
		for i := 0; i < n; i++ {
			v = v<<8 | int(b[off+i])
		}
		return v, true
	}
	container := func(kind byte, w, hdr, cnt int) (*node, int, bool) {
		items := cnt
		if kind == 'M' {
			items = cnt * 2
		}
		if items > len(b) { // cannot possibly be complete
			return nil, 0, false
		}
		nd := &node{k: kind, w: w}
		pos := hdr
		for i := 0; i < items; i++ {
			k, u, ok := parse(b[pos:], depth+1)
			if !ok {
				return nil, 0, false
			}
			nd.kids = append(nd.kids, k)
			pos += u
		}
		return nd, pos, true
	}
	switch {
	case c <= 0x7f || c >= 0xe0:
		return leaf(1)
	case c >= 0x80 && c <= 0x8f:
		return container('M', 0, 1, int(c&0x0f))
	case c >= 0x90 && c <= 0x9f:
		return container('A', 0, 1, int(c&0x0f))
	case c >= 0xa0 && c <= 0xbf:
		return leaf(1 + int(c&0x1f))
	}
	switch c {
	case 0xc0, 0xc2, 0xc3:
		return leaf(1)
	case 0xc1:
		return nil, 0, false
	case 0xc4, 0xd9:
		if l, ok := lenAt(1, 1); ok {
			return leaf(2 + l)
		}
	case 0xc5, 0xda:
		if l, ok := lenAt(1, 2); ok {
			return leaf(3 + l)
		}
	case 0xc6, 0xdb:
		if l, ok := lenAt(1, 4); ok {
			return leaf(5 + l)
		}
	case 0xc7:
		if l, ok := lenAt(1, 1); ok {
			return leaf(3 + l)
		}
	case 0xc8:
		if l, ok := lenAt(1, 2); ok {
			return leaf(4 + l)
		}
	case 0xc9:
		if l, ok := lenAt(1, 4); ok {
			return leaf(6 + l)
		}
	case 0xca, 0xce, 0xd2:
		return leaf(5)
	case 0xcb, 0xcf, 0xd3:
		return leaf(9)
	case 0xcc, 0xd0:
		return leaf(2)
	case 0xcd, 0xd1:
		return leaf(3)
	case 0xd4:
		return leaf(3)
	case 0xd5:
		return leaf(4)
	case 0xd6:
		return leaf(6)
	case 0xd7:
		return leaf(10)
	case 0xd8:
		return leaf(18)
	case 0xdc:
		if l, ok := lenAt(1, 2); ok {
			return container('A', 1, 3, l)
		}
	case 0xdd:
		if l, ok := lenAt(1, 4); ok {
			return container('A', 2, 5, l)
		}
	case 0xde:
		if l, ok := lenAt(1, 2); ok {
			return container('M', 1, 3, l)
		}
	case 0xdf:
		if l, ok := lenAt(1, 4); ok {
			return container('M', 2, 5, l)
		}
	}
	return nil, 0, false
}

// diag renders a tree in a readable diagnostic notation (for descriptions only).
func diag(n *node) string {
	switch n.k {
	case 'A':
		var p []string
		for _, k := range n.kids {
			p = append(p, diag(k))
		}
		return []string{"[", "arr16[", "arr32["}[n.w] + strings.Join(p, ",") + "]"
	case 'M':
		var p []string
		for i := 0; i+1 < len(n.kids); i += 2 {
			p = append(p, diag(n.kids[i])+":"+diag(n.kids[i+1]))
		}
		return []string{"{", "map16{", "map32{"}[n.w] + strings.Join(p, ",") + "}"
	}
	b := n.b
	c := b[0]
	rd := func(off, n int) uint64 {
		var v uint64
		for i := 0; i < n; i++ {
			v = v<<8 | uint64(b[off+i])
		}
		return v
	}
	switch {
	case c <= 0x7f:
		return strconv.Itoa(int(c))
	case c >= 0xe0:
		return strconv.Itoa(int(int8(c)))
	case c >= 0xa0 && c <= 0xbf:
		return strconv.Quote(string(b[1:]))
	}
	switch c {
	case 0xc0:
		return "nil"
	case 0xc2:
		return "false"
	case 0xc3:
		return "true"
	case 0xc4:
		return "bin8(" + hex.EncodeToString(b[2:]) + ")"
	case 0xc5:
		return "bin16(" + hex.EncodeToString(b[3:]) + ")"
	case 0xc6:
		return "bin32(" + hex.EncodeToString(b[5:]) + ")"
	case 0xd9:
		return "str8" + strconv.Quote(string(b[2:]))
	case 0xda:
		return "str16" + strconv.Quote(string(b[3:]))
	case 0xdb:
		return "str32" + strconv.Quote(string(b[5:]))
	case 0xca:
		return fmt.Sprintf("f32(%v)", math.Float32frombits(uint32(rd(1, 4))))
	case 0xcb:
		return fmt.Sprintf("f64(%v)", math.Float64frombits(rd(1, 8)))
	case 0xcc:
		return fmt.Sprintf("u8(%d)", rd(1, 1))
	case 0xcd:
		return fmt.Sprintf("u16(%d)", rd(1, 2))
	case 0xce:
		return fmt.Sprintf("u32(%d)", rd(1, 4))
	case 0xcf:
		return fmt.Sprintf("u64(%d)", rd(1, 8))
	case 0xd0:
		return fmt.Sprintf("i8(%d)", int8(rd(1, 1)))
	case 0xd1:
		return fmt.Sprintf("i16(%d)", int16(rd(1, 2)))
	case 0xd2:
		return fmt.Sprintf("i32(%d)", int32(rd(1, 4)))
	case 0xd3:
		return fmt.Sprintf("i64(%d)", int64(rd(1, 8)))
	case 0xc7:
		return fmt.Sprintf("ext8(id=%d,%s)", int8(b[2]), hex.EncodeToString(b[3:]))
	case 0xd4, 0xd5, 0xd6, 0xd7, 0xd8:
		return fmt.Sprintf("fixext%d(id=%d,%s)", 1<<(c-0xd4), int8(b[1]), hex.EncodeToString(b[2:]))
	}
	return "raw(" + hex.EncodeToString(b) + ")"
}

func diagBody(body []byte) string {
	n, used, ok := parse(body, 0)
	if !ok {
		return "malformed(" + hex.EncodeToString(body) + ")"
	}
	s := diag(n)
	if used < len(body) {
		s += " +trailing(" + hex.EncodeToString(body[used:]) + ")"
	}
	return s
}

// ---------------------------------------------------------------------------
// in-memory storage backend
// ---------------------------------------------------------------------------

type memBackend struct {
	mu    sync.Mutex
	files map[string][]byte
}

func newMem() *memBackend { return &memBackend{files: map[string][]byte{}} }
func (m *memBackend) Write(_ context.Context, p string, d []byte) error {
	m.mu.Lock()
	m.files[p] = append([]byte{}, d...)
	m.mu.Unlock()
	return nil
}
func (m *memBackend) WriteReader(ctx context.Context, p string, r io.Reader, _ int64) error {
	d, err := io.ReadAll(r)
	if err != nil {
		return err
	}
	return m.Write(ctx, p, d)
}
func (m *memBackend) Read(_ context.Context, p string) ([]byte, error) {
	m.mu.Lock()
	defer m.mu.Unlock()
	d, ok := m.files[p]
	if !ok {
		return nil, os.ErrNotExist
	}
	return d, nil
}
func (m *memBackend) ReadTo(ctx context.Context, p string, w io.Writer) error {
	d, err := m.Read(ctx, p)
	if err != nil {
		return err
	}
	_, err = w.Write(d)
	return err
}
func (m *memBackend) ReadToAt(ctx context.Context, p string, w io.Writer, off int64) error {
	d, err := m.Read(ctx, p)
	if err != nil {
		return err
	}
	if off < 0 || off >= int64(len(d)) {
		return fmt.Errorf("offset out of range")
	}
	_, err = w.Write(d[off:])
	return err
}
func (m *memBackend) StatFile(_ context.Context, p string) (int64, error) {
	m.mu.Lock()
	defer m.mu.Unlock()
	if d, ok := m.files[p]; ok {
		return int64(len(d)), nil
	}
	return -1, nil
}
func (m *memBackend) List(_ context.Context, prefix string) ([]string, error) {
	m.mu.Lock()
	defer m.mu.Unlock()
	var out []string
	for p := range m.files {
		if strings.HasPrefix(p, prefix) {
			out = append(out, p)
		}
	}
	sort.Strings(out)
	return out, nil
}
func (m *memBackend) Delete(_ context.Context, p string) error {
	m.mu.Lock()
	delete(m.files, p)
	m.mu.Unlock()
	return nil
}
func (m *memBackend) Exists(_ context.Context, p string) (bool, error) {
	m.mu.Lock()
	defer m.mu.Unlock()
	_, ok := m.files[p]
	return ok, nil
}
func (m *memBackend) Close() error       { return nil }
func (m *memBackend) Type() string       { return "verif-mem" }
func (m *memBackend) ConfigJSON() string { return "{}" }
func (m *memBackend) take() map[string][]byte {
	m.mu.Lock()
	defer m.mu.Unlock()
	out := m.files
	m.files = map[string][]byte{}
	return out
}

// ---------------------------------------------------------------------------
// observation of one mode
// ---------------------------------------------------------------------------

type colC struct {
	name, typ string
	nulls     string   // '1' = null
	vals      []string // null positions masked as "-"
}

type batchC struct {
	where  string // "buffer:<key>" or "file:<partition dir>"
	n      int
	cols   []colC
	genBad bool // generated time values not all equal
}

type obs struct {
	stage    string // ok | decode-error | write-error | flush-error | panic
	err      string
	typedHit bool
	nrec     int
	raws     []string
	batches  []batchC
	counts   string
}

type worker struct {
	dT, dG *ingest.MessagePackDecoder
	buf    *ingest.ArrowBuffer
	mem    *memBackend
	ctx    context.Context
}

const database = "db"

func newWorker() *worker {
	w := &worker{ctx: context.Background()}
	w.dT = ingest.NewMessagePackDecoder(zerolog.Nop())
	w.dT.SetTypedDecodeEnabled(true)
	w.dG = ingest.NewMessagePackDecoder(zerolog.Nop())
	w.dG.SetTypedDecodeEnabled(false)
	w.reset()
	return w
}

func (w *worker) reset() {
	if w.buf != nil {
		func() {
			defer func() { recover() }()
			ingest.VerifDrainBuffers(w.buf)
			w.buf.Close()
		}()
	}
	w.mem = newMem()
	cfg := &config.IngestConfig{MaxBufferSize: 1 << 30, MaxBufferAgeMS: 3_600_000, Compression: "snappy",
		FlushWorkers: 1, FlushQueueSize: 4, ShardCount: 4, FlushTimeoutSeconds: 30}
	w.buf = ingest.NewArrowBuffer(cfg, w.mem, zerolog.Nop())
}

// generated timestamps are the wall clock at decode time; every explicit time value of the grammar is
// years away from the wall clock, so "within a day of now" identifies a generated value.
func isGenerated(us int64) bool {
	now := time.Now().UnixMicro()
	d := now - us
	return d > -86_400_000_000 && d < 86_400_000_000
}

func fstr(f float64) string {
	if f != f {
		return "NaN"
	}
	return strconv.FormatUint(math.Float64bits(f), 16)
}

func canonBatch(where string, tb *ingest.TypedColumnBatch) batchC {
	bc := batchC{where: where, n: -1}
	if tb == nil {
		bc.cols = []colC{{name: "?", typ: "not-a-typed-batch"}}
		return bc
	}
	names := make([]string, 0, len(tb.Data))
	for n := range tb.Data {
		names = append(names, n)
	}
	sort.Strings(names)
	for _, name := range names {
		c := colC{name: name}
		valid := tb.Validity[name]
		isNull := func(i int) bool { return valid != nil && i < len(valid) && !valid[i] }
		var n int
		switch col := tb.Data[name].(type) {
		case []int64:
			c.typ, n = "int64", len(col)
			var gen int64
			haveGen := false
			for i, v := range col {
				switch {
				case isNull(i):
					c.vals = append(c.vals, "-")
				case name == "time" && isGenerated(v):
					c.vals = append(c.vals, "GEN")
					if haveGen && gen != v {
						bc.genBad = true
					}
					gen, haveGen = v, true
				default:
					c.vals = append(c.vals, strconv.FormatInt(v, 10))
				}
			}
		case []float64:
			c.typ, n = "float64", len(col)
			for i, v := range col {
				if isNull(i) {
					c.vals = append(c.vals, "-")
				} else {
					c.vals = append(c.vals, fstr(v))
				}
			}
		case []string:
			c.typ, n = "string", len(col)
			for i, v := range col {
				if isNull(i) {
					c.vals = append(c.vals, "-")
				} else {
					c.vals = append(c.vals, strconv.Quote(v))
				}
			}
		case []bool:
			c.typ, n = "bool", len(col)
			for i, v := range col {
				if isNull(i) {
					c.vals = append(c.vals, "-")
				} else {
					c.vals = append(c.vals, strconv.FormatBool(v))
				}
			}
		default:
			c.typ = fmt.Sprintf("%T", col)
		}
		nb := make([]byte, n)
		for i := range nb {
			nb[i] = '0'
			if isNull(i) {
				nb[i] = '1'
			}
		}
		c.nulls = string(nb)
		if valid != nil && len(valid) != n {
			c.nulls += fmt.Sprintf("(validity-len=%d)", len(valid))
		}
		if bc.n < n {
			bc.n = n
		}
		bc.cols = append(bc.cols, c)
	}
	return bc
}

var fileNameRe = regexp.MustCompile(`/[^/]*$`)

// canonFile reads a stored Parquet file back: schema (name:type), rows sorted (row order inside a file
// is a function of the sort keys, not of the decode path; sorting removes any tie-order question).
func canonFile(path string, data []byte) batchC {
	bc := batchC{where: "file:" + fileNameRe.ReplaceAllString(path, "")}
	fail := func(err error) batchC {
		bc.cols = []colC{{name: "?", typ: "unreadable:" + err.Error()}}
		return bc
	}
	rdr, err := file.NewParquetReader(bytes.NewReader(data))
	if err != nil {
		return fail(err)
	}
	defer rdr.Close()
	fr, err := pqarrow.NewFileReader(rdr, pqarrow.ArrowReadProperties{}, memory.DefaultAllocator)
	if err != nil {
		return fail(err)
	}
	tbl, err := fr.ReadTable(context.Background())
	if err != nil {
		return fail(err)
	}
	defer tbl.Release()
	nrows := int(tbl.NumRows())
	bc.n = nrows
	type cc struct {
		c    colC
		cell []string
	}
	var cols []cc
	gen := false
	for ci := 0; ci < int(tbl.NumCols()); ci++ {
		f := tbl.Schema().Field(ci)
		c := cc{c: colC{name: f.Name, typ: f.Type.String()}}
		for _, chunk := range tbl.Column(ci).Data().Chunks() {
			for i := 0; i < chunk.Len(); i++ {
				if chunk.IsNull(i) {
					c.cell = append(c.cell, "-")
					continue
				}
				switch a := chunk.(type) {
				case *array.Timestamp:
					v := int64(a.Value(i))
					if f.Name == "time" && isGenerated(v) {
						c.cell = append(c.cell, "GEN")
						gen = true
					} else {
						c.cell = append(c.cell, strconv.FormatInt(v, 10))
					}
				case *array.Int64:
					c.cell = append(c.cell, strconv.FormatInt(a.Value(i), 10))
				case *array.Float64:
					c.cell = append(c.cell, fstr(a.Value(i)))
				case *array.String:
					c.cell = append(c.cell, strconv.Quote(a.Value(i)))
				case *array.Boolean:
					c.cell = append(c.cell, strconv.FormatBool(a.Value(i)))
				default:
					c.cell = append(c.cell, a.ValueStr(i))
				}
			}
		}
		cols = append(cols, c)
	}
	if gen { // the partition hour of a generated timestamp is the wall clock's
		bc.where = "file:GENERATED-TIME-PARTITION"
	}
	sort.Slice(cols, func(i, j int) bool { return cols[i].c.name < cols[j].c.name })
	rows := make([]string, nrows)
	for r := 0; r < nrows; r++ {
		var parts []string
		for _, c := range cols {
			if r < len(c.cell) {
				parts = append(parts, c.cell[r])
			}
		}
		rows[r] = strings.Join(parts, "\x00")
	}
	sort.Strings(rows)
	for i := range cols {
		cols[i].c.vals = make([]string, nrows)
		nb := make([]byte, nrows)
		for r, row := range rows {
			cell := strings.Split(row, "\x00")
			v := "?"
			if i < len(cell) {
				v = cell[i]
			}
			cols[i].c.vals[r] = v
			nb[r] = '0'
			if v == "-" {
				nb[r] = '1'
			}
		}
		cols[i].c.nulls = string(nb)
		bc.cols = append(bc.cols, cols[i].c)
	}
	return bc
}

var digitsRe = regexp.MustCompile(`[0-9]+`)

func (w *worker) observe(dec *ingest.MessagePackDecoder, body []byte, flush bool) (o obs) {
	defer func() {
		if r := recover(); r != nil {
			o.stage, o.err = "panic", fmt.Sprint(r)
			w.reset()
		}
	}()
	data := append([]byte{}, body...) // each run owns its bytes (the generic path normalises in place)
	res, err := dec.Decode(data)
	if err != nil {
		o.stage, o.err = "decode-error", err.Error()
		return
	}
	list, _ := res.([]interface{})
	o.nrec = len(list)
	for _, r := range list {
		switch x := r.(type) {
		case *ingest.TypedColumnarRecord:
			o.typedHit = true
			o.raws = append(o.raws, string(x.RawPayload))
		case *models.ColumnarRecord:
			o.raws = append(o.raws, string(x.RawPayload))
		default:
			o.raws = append(o.raws, fmt.Sprintf("<%T>", r))
		}
	}
	o.stage = "ok"
	if err := w.buf.Write(w.ctx, database, res); err != nil {
		o.stage, o.err = "write-error", err.Error()
	}
	if flush && o.stage == "ok" {
		if err := w.buf.FlushAll(w.ctx); err != nil {
			o.stage, o.err = "flush-error", err.Error()
		}
	}
	drained, counts := ingest.VerifDrainBuffers(w.buf)
	keys := make([]string, 0, len(drained))
	for k := range drained {
		keys = append(keys, k)
	}
	sort.Strings(keys)
	for _, k := range keys {
		for _, tb := range drained[k] {
			o.batches = append(o.batches, canonBatch("buffer:"+k, tb))
		}
		o.counts += fmt.Sprintf("%s=%d;", k, counts[k])
	}
	files := w.mem.take()
	if len(files) > 0 {
		var fb []batchC
		for p, d := range files {
			fb = append(fb, canonFile(p, d))
		}
		sort.Slice(fb, func(i, j int) bool { return fmt.Sprint(fb[i]) < fmt.Sprint(fb[j]) })
		o.batches = append(o.batches, fb...)
	}
	return
}

// compare returns "" when the two observations are indistinguishable in the property's terms, else
// the difference kind.
func compare(t, g obs) string {
	ta, ga := t.stage == "ok", g.stage == "ok"
	if ta != ga || (t.stage == "panic") != (g.stage == "panic") {
		return "accept-mismatch:typed=" + t.stage + ",generic=" + g.stage
	}
	if len(t.batches) != len(g.batches) {
		return "stored-batch-count"
	}
	for i := range t.batches {
		a, b := t.batches[i], g.batches[i]
		if a.where != b.where {
			if strings.HasPrefix(a.where, "file:") && strings.HasPrefix(b.where, "file:") {
				return "partition"
			}
			return "database-or-measurement"
		}
	}
	for i := range t.batches {
		a, b := t.batches[i], g.batches[i]
		if a.n != b.n {
			return "row-count"
		}
	}
	if t.counts != g.counts {
		return "row-count"
	}
	for i := range t.batches {
		a, b := t.batches[i], g.batches[i]
		if len(a.cols) != len(b.cols) {
			return "column-set"
		}
		for j := range a.cols {
			if a.cols[j].name != b.cols[j].name {
				return "column-set"
			}
		}
	}
	for i := range t.batches {
		a, b := t.batches[i], g.batches[i]
		for j := range a.cols {
			if a.cols[j].typ != b.cols[j].typ {
				return "column-type"
			}
		}
	}
	for i := range t.batches {
		a, b := t.batches[i], g.batches[i]
		for j := range a.cols {
			if a.cols[j].nulls != b.cols[j].nulls {
				return "null-positions"
			}
		}
	}
	for i := range t.batches {
		a, b := t.batches[i], g.batches[i]
		for j := range a.cols {
			x, y := a.cols[j].vals, b.cols[j].vals
			if len(x) != len(y) {
				return "values"
			}
			for k := range x {
				if x[k] != y[k] {
					return "values"
				}
			}
		}
	}
	// "all rows share one generated value" is a property of ONE columnar record; row-format items each take
	// their own clock reading in either mode, so it is judged only when the fast path produced the record.
	if t.typedHit {
		for i := range t.batches {
			if t.batches[i].genBad || g.batches[i].genBad {
				return "generated-time-not-uniform"
			}
		}
	}
	if ta && ga {
		if t.nrec != g.nrec {
			return "record-count"
		}
		if len(t.raws) != len(g.raws) {
			return "wal-raw-payload"
		}
		for i := range t.raws {
			if t.raws[i] != g.raws[i] {
				return "wal-raw-payload"
			}
		}
	}
	return ""
}

type verdict struct {
	kind     string
	typedHit bool
	t, g     obs
}

// eval runs both modes on the body. deep: also compare the stored Parquet when the fast path hit.
func (w *worker) eval(body []byte, deep bool) verdict {
	t := w.observe(w.dT, body, false)
	g := w.observe(w.dG, body, false)
	v := verdict{kind: compare(t, g), typedHit: t.typedHit, t: t, g: g}
	if v.kind == "" && deep && t.typedHit && t.stage == "ok" {
		t2 := w.observe(w.dT, body, true)
		g2 := w.observe(w.dG, body, true)
		if k := compare(t2, g2); k != "" {
			v.kind, v.t, v.g = "stored-parquet:"+k, t2, g2
		}
		atomic.AddInt64(&deepEvals, 1)
	}
	return v
}

var deepEvals int64

// ---------------------------------------------------------------------------
// grammar
// ---------------------------------------------------------------------------

const t0s = 1_600_000_000 // 2020-09-13T12:26:40Z, far from the wall clock and not at an hour edge

type named struct {
	name string
	n    *node
}

// one representative per msgpack encoding (plus the interesting magnitudes)
func elements(full bool) []named {
	e := []named{
		{"fixint+", pfix(5)}, {"fixint-", nfix(-1)}, {"float64", f64(1.5)}, {"fixstr", fixstr("a")},
		{"nil", mpNil()}, {"true", mpTrue()}, {"uint64:2^63", u64(1 << 63)}, {"float64:1e19", f64(1e19)},
		{"badutf8", fixstr("\xff")}, {"bin8", bin8("\x01")}, {"ext8", ext8(5, "x")}, {"array", A(pfix(1))},
		{"map:int-key", M(pfix(1), pfix(1))}, {"NaN", f64(math.NaN())},
	}
	if full {
		e = append(e, []named{
			{"int8", i8(-100)}, {"int16", i16(-30000)}, {"int32", i32(-2_000_000_000)}, {"int64", i64(math.MinInt64)},
			{"uint8", u8(200)}, {"uint16", u16(60000)}, {"uint32", u32(4_000_000_000)}, {"uint64", u64(7)},
			{"uint64:2^64-1", u64(math.MaxUint64)}, {"uint64:2^63-1", u64(math.MaxInt64)},
			{"float32", f32(2.5)}, {"float32:1e19", f32(1e19)}, {"float64:-1e19", f64(-1e19)}, {"float64:2^63", f64(9223372036854775808.0)},
			{"str8", str8("b")}, {"str16", str16("c")}, {"str32", str32("d")}, {"false", mpFalse()},
			{"bin16", bin16("\x02")}, {"fixext1", fixext1(5, 0)}, {"fixext4:timestamp", fixext4(-1, t0s)},
			{"map:str+int-keys", M(fixstr("a"), pfix(1), pfix(1), pfix(1))}, {"map:array-key", M(A(), pfix(1))},
			{"map:str-key", M(fixstr("a"), pfix(1))}, {"empty-array", A()}, {"empty-str", fixstr("")},
		}...)
	}
	return e
}

// time values at every unit boundary, each with the encodings a client could pick
func timeValues(full bool) []named {
	var out []named
	add := func(name string, n *node) { out = append(out, named{name, n}) }
	ints := []int64{t0s, t0s * 1000, t0s * 1_000_000, t0s * 1_000_000_000, 1e10 - 1, 1e10, 1e13 - 1, 1e13, 1e16 - 1, 1e16, 0, -1, -1e10}
	if full {
		ints = append(ints, 1, -1e13, -1e16, math.MaxInt64, math.MinInt64, 1e10+1, 1e13+1, 1e16+1)
	}
	for _, v := range ints {
		add(fmt.Sprintf("int:%d", v), mint(v))
	}
	add("i64:t0s", i64(t0s))
	add("u64:1e10", u64(1e10))
	add("u64:2^63", u64(1<<63))
	add("u64:2^64-1", u64(math.MaxUint64))
	add("f64:1e10", f64(1e10))
	add("f64:1e10-0.5", f64(1e10-0.5))
	add("f64:t0s+.5", f64(t0s+0.5))
	add("f32:t0s", f32(t0s))
	add("f64:1e19", f64(1e19))
	add("f64:NaN", f64(math.NaN()))
	add("f64:-1.5", f64(-1.5))
	if full {
		add("i64:1e13", i64(1e13))
		add("u64:1e16", u64(1e16))
		add("f64:1e13", f64(1e13))
		add("f64:1e16", f64(1e16))
		add("f64:-1e19", f64(-1e19))
		add("f32:1e10", f32(1e10))
		add("f64:+Inf", f64(math.Inf(1)))
	}
	return out
}

func seqs(alpha []named, maxLen int, f func([]named)) {
	var rec func(cur []named)
	rec = func(cur []named) {
		f(cur)
		if len(cur) == maxLen {
			return
		}
		for _, a := range alpha {
			rec(append(cur[:len(cur):len(cur)], a))
		}
	}
	rec(nil)
}

func nodes(ns []named) []*node {
	out := make([]*node, len(ns))
	for i, n := range ns {
		out[i] = n.n
	}
	return out
}

func timeArr(n int) *node {
	var k []*node
	for i := 0; i < n; i++ {
		k = append(k, u32(t0s+uint64(i)))
	}
	return A(k...)
}
func intArr(n int) *node {
	var k []*node
	for i := 0; i < n; i++ {
		k = append(k, pfix(i+1))
	}
	return A(k...)
}

type base struct {
	fam  string
	lvl  int  // length of the enumerated sequence that produced it
	over int  // oversize-header variants: 0 never, 1 quick and thorough, 2 thorough only
	core bool // built from the reduced element alphabet only (quick mutates only these among the longer sequences)
	body []byte
}

type generator struct {
	seen  map[string]struct{}
	bases []base
	fam   map[string]int
	arena []byte
	tmp   []byte
	core  bool // value of base.core for the bodies being added
}

func (g *generator) add(fam string, lvl int, n *node) {
	g.tmp = enc(g.tmp[:0], n, nil)
	if _, dup := g.seen[string(g.tmp)]; dup {
		return
	}
	if len(g.arena)+len(g.tmp) > cap(g.arena) {
		g.arena = make([]byte, 0, 1<<22)
	}
	at := len(g.arena)
	g.arena = append(g.arena, g.tmp...)
	b := g.arena[at:len(g.arena):len(g.arena)]
	defer func() {
		last := &g.bases[len(g.bases)-1]
		switch {
		case strings.HasPrefix(fam, "F6:"):
			if fam == "F6:plain" {
				last.over = 1
			} else if lvl == 0 {
				last.over = 2
			}
		case strings.HasPrefix(fam, "F1:value-array") && lvl == 1, strings.HasPrefix(fam, "F4:") && lvl <= 1,
			strings.HasPrefix(fam, "F3:") && lvl <= 1, strings.HasPrefix(fam, "F5:") && lvl <= 1, strings.HasPrefix(fam, "F2:") && lvl == 1:
			last.over = 2
		}
	}()
	g.seen[string(b)] = struct{}{}
	g.bases = append(g.bases, base{fam, lvl, 0, g.core, b})
	g.fam[fam]++
}

func goodCols() *node { return M(fixstr("time"), A(u32(t0s)), fixstr("v"), A(pfix(1))) }

func generate(quick bool) *generator {
	hint := 1 << 18
	if !quick {
		hint = 1 << 22
	}
	g := &generator{seen: make(map[string]struct{}, hint), bases: make([]base, 0, hint), fam: map[string]int{}}
	full := elements(true)
	reduced := elements(false)
	key := fixstr
	m := func() *node { return fixstr("c") }

	// F1: value-column arrays
	isReduced := map[string]bool{}
	for _, e := range reduced {
		isReduced[e.name] = true
	}
	f1 := func(arr []named) {
		if len(arr) == 0 {
			return
		}
		n := len(arr)
		g.core = true
		for _, e := range arr {
			if !isReduced[e.name] {
				g.core = false
			}
		}
		defer func() { g.core = false }()
		g.add("F1:value-array", n, M(key("m"), m(), key("columns"), M(key("time"), timeArr(n), key("v"), A(nodes(arr)...))))
		g.add("F1:value-array-no-time", n, M(key("m"), m(), key("columns"), M(key("v"), A(nodes(arr)...))))
	}
	seqs(full, 2, f1)
	if quick {
		seqs(reduced, 3, f1)
	} else {
		seqs(full, 3, f1)
	}
	// value array first, time second; and a second value column next to it
	seqs(full, 1, func(arr []named) {
		if len(arr) == 0 {
			return
		}
		g.add("F1:value-array-before-time", 1, M(key("m"), m(), key("columns"), M(key("v"), A(nodes(arr)...), key("time"), timeArr(1))))
		for _, o := range full {
			g.add("F1:two-value-columns", 2, M(key("m"), m(), key("columns"), M(key("v"), A(nodes(arr)...), key("_x"), A(o.n))))
		}
	})

	// F2: time-column arrays
	tv := append(timeValues(true), full...)
	tvq := append(timeValues(false), reduced...)
	f2 := func(arr []named) {
		if len(arr) == 0 {
			return
		}
		g.add("F2:time-array", len(arr), M(key("m"), m(), key("columns"), M(key("time"), A(nodes(arr)...), key("v"), intArr(len(arr)))))
	}
	seqs(tv, 2, f2)
	if quick {
		seqs(tvq[:16], 3, f2)
	} else {
		seqs(tvq, 3, f2)
	}
	seqs(tv, 1, func(arr []named) {
		if len(arr) == 1 {
			g.add("F2:time-array-after-value", 1, M(key("m"), m(), key("columns"), M(key("v"), intArr(1), key("time"), A(arr[0].n))))
		}
	})

	// F3: top-level key sets (duplicates arise from repetition; non-string keys included)
	type pair struct {
		name string
		k, v *node
	}
	var P []pair
	for _, mv := range []named{{"fixstr", fixstr("c")}, {"str8", str8("c")}, {"int", pfix(5)}, {"uint64", u64(math.MaxUint64)},
		{"float", f64(1.5)}, {"bin", bin8("c")}, {"nil", mpNil()}, {"negint", nfix(-3)}} {
		P = append(P, pair{"m=" + mv.name, key("m"), mv.n})
	}
	for _, cv := range []named{{"good", goodCols()}, {"no-time", M(key("v"), A(pfix(1), mpNil()))}, {"non-map", pfix(5)},
		{"empty", M()}, {"int-key", M(pfix(1), A(pfix(1)))}, {"nil", mpNil()}, {"float-col", M(key("v"), A(f64(1.5)))}} {
		P = append(P, pair{"columns=" + cv.name, key("columns"), cv.n})
	}
	P = append(P, pair{"t", key("t"), u32(t0s)}, pair{"fields", key("fields"), M(key("a"), pfix(1))},
		pair{"fields=non-map", key("fields"), pfix(1)}, pair{"tags", key("tags"), M(key("k"), key("x"))},
		pair{"h", key("h"), key("srv")},
		pair{"batch", key("batch"), A(M(key("m"), fixstr("d"), key("columns"), goodCols()))}, pair{"batch=non-array", key("batch"), pfix(1)},
		pair{"intkey", pfix(5), pfix(1)}, pair{"nilkey", mpNil(), pfix(1)}, pair{"binkey-m", bin8("m"), fixstr("e")})
	for _, xv := range []named{{"int", pfix(1)}, {"str", fixstr("s")}, {"bin", bin8("\x01")}, {"ext8", ext8(5, "x")},
		{"fixext1", fixext1(5, 0)}, {"timestamp-ext", fixext4(-1, t0s)}, {"nil", mpNil()}, {"array", A(pfix(1), fixstr("s"))},
		{"map:int-key", M(pfix(1), pfix(1))}, {"map:str+int-keys", M(fixstr("a"), pfix(1), pfix(1), pfix(1))},
		{"map:array-key", M(A(), pfix(1))}, {"map:str-key", M(fixstr("a"), A(mpNil()))}, {"badutf8", fixstr("\xff")},
		{"map:nil-key", M(mpNil(), pfix(1))}} {
		if quick && (xv.name == "fixext1" || xv.name == "map:array-key" || xv.name == "map:str-key" || xv.name == "bin") {
			continue
		}
		P = append(P, pair{"extra=" + xv.name, key("extra"), xv.n})
	}
	maxP := 4
	if quick {
		maxP = 3
	}
	var recP func(cur []*node, depth int)
	recP = func(cur []*node, depth int) {
		g.add("F3:top-level-keys", depth, M(cur...))
		if depth == maxP {
			return
		}
		for _, p := range P {
			recP(append(cur[:len(cur):len(cur)], p.k, p.v), depth+1)
		}
	}
	recP(nil, 0)

	// F4: columns maps
	var C []pair
	for _, nm := range []string{"v", "", "_x"} {
		for _, cv := range []named{{"[1]", A(pfix(1))}, {"[1,2]", A(pfix(1), pfix(2))}, {"[str]", A(fixstr("a"))}, {"[nil]", A(mpNil())},
			{"[]", A()}, {"5", pfix(5)}, {"ext", ext8(5, "x")}, {"nil", mpNil()}, {"map:str+int-keys", M(fixstr("a"), pfix(1), pfix(1), pfix(1))},
			{"[1.5]", A(f64(1.5))}, {"arr16[1]", AW(1, pfix(1))}, {"map:nil-key", M(mpNil(), pfix(1))}} {
			if quick && (cv.name == "map:str+int-keys" || cv.name == "arr16[1]" || cv.name == "[1.5]" || cv.name == "map:nil-key" || (cv.name == "nil" && nm != "v")) {
				continue
			}
			C = append(C, pair{nm + "=" + cv.name, key(nm), cv.n})
		}
	}
	for _, cv := range []named{{"[us]", A(u64(t0s * 1_000_000))}, {"[s]", A(u32(t0s))}, {"[s,s]", A(u32(t0s), u32(t0s+1))}, {"[]", A()},
		{"5", pfix(5)}, {"[nil]", A(mpNil())}, {"[str]", A(fixstr("a"))}, {"ext", fixext1(5, 0)}} {
		C = append(C, pair{"time=" + cv.name, key("time"), cv.n})
	}
	C = append(C, pair{"intkey", pfix(5), A(pfix(1))}, pair{"binkey", bin8("v"), A(pfix(1))}, pair{"str8key", str8("v"), A(pfix(2))})
	maxC := 3
	var recC func(cur []*node, depth int)
	recC = func(cur []*node, depth int) {
		g.add("F4:columns-map", depth, M(key("m"), m(), key("columns"), M(cur...)))
		if depth <= 2 {
			g.add("F4:columns-map-before-m", depth, M(key("columns"), M(cur...), key("m"), m()))
		}
		if depth == maxC {
			return
		}
		for _, p := range C {
			recC(append(cur[:len(cur):len(cur)], p.k, p.v), depth+1)
		}
	}
	recC(nil, 0)

	// F5: top-level shapes (array of maps, batch)
	items := []*node{
		M(key("m"), m(), key("columns"), goodCols()),
		M(key("m"), m(), key("columns"), M(key("time"), A(u32(t0s)), key("v"), A(f64(1.5)))),
		M(key("m"), m(), key("t"), u32(t0s), key("fields"), M(key("a"), pfix(1))),
		M(key("m"), m(), key("fields"), M(key("a"), pfix(1))),
		M(key("m"), f64(1.5), key("columns"), goodCols()),
		M(key("m"), m(), key("columns"), M(key("v"), A(pfix(1))), key("x"), ext8(5, "x")),
		pfix(5),
		M(key("m"), fixstr("d"), key("columns"), M(key("v"), A(mpNil()))),
	}
	maxI := 3
	var recI func(cur []*node)
	recI = func(cur []*node) {
		g.add("F5:array-of-maps", len(cur), A(cur...))
		g.add("F5:batch", len(cur), M(key("batch"), A(cur...)))
		if len(cur) <= 1 {
			g.add("F5:batch+columnar", len(cur), M(key("m"), m(), key("columns"), goodCols(), key("batch"), A(cur...)))
			g.add("F5:batch+columnar", len(cur), M(key("batch"), A(cur...), key("m"), m(), key("columns"), goodCols()))
		}
		if len(cur) == maxI {
			return
		}
		for _, it := range items {
			recI(append(cur[:len(cur):len(cur)], it))
		}
	}
	recI(nil)

	// F6: header/key encoding widths
	keyEnc := []func(string) *node{fixstr, str8, str16, str32, bin8}
	for tw := 0; tw < 3; tw++ {
		for cw := 0; cw < 3; cw++ {
			for aw := 0; aw < 3; aw++ {
				for which := -1; which < 4; which++ {
					for ke := 1; ke < len(keyEnc); ke++ {
						ks := []*node{fixstr("m"), fixstr("columns"), fixstr("time"), fixstr("v")}
						if which >= 0 {
							ks[which] = keyEnc[ke]([]string{"m", "columns", "time", "v"}[which])
						} else if ke > 1 {
							continue
						}
						for _, mv := range []*node{fixstr("c"), str16("c"), str32("c")} {
							for _, val := range []*node{pfix(1), fixstr("a"), f32(2.5)} {
								fam := "F6:widths"
								if which == -1 && tw+cw+aw == 0 && mv.b[0] == 0xa1 {
									fam = "F6:plain"
								}
								g.add(fam, 100*max3(tw, cw, aw)+tw+cw+aw, MW(tw, ks[0], mv, ks[1], MW(cw, ks[2], AW(aw, u32(t0s)), ks[3], AW(aw, val))))
							}
						}
					}
				}
			}
		}
	}

	// F7: row format (never takes the fast path; guards the fall-back)
	for _, tvv := range timeValues(true) {
		g.add("F7:row", 1, M(key("m"), m(), key("t"), tvv.n, key("fields"), M(key("a"), pfix(1))))
	}
	for _, e := range full {
		g.add("F7:row", 1, M(key("m"), m(), key("t"), u32(t0s), key("fields"), M(key("a"), e.n)))
		g.add("F7:row", 1, M(key("m"), m(), key("t"), u32(t0s), key("f"), A(e.n)))
		g.add("F7:row", 1, M(key("m"), m(), key("t"), u32(t0s), key("h"), e.n, key("fields"), M(key("a"), pfix(1))))
	}
	return g
}

// No array16/32 or map16/32 code is in the set: a random 16/32-bit count makes the generic decoder allocate up
// to its 1M-element cap per case, and first-touch memory is extremely slow in the sandbox. The wide headers are
// exercised by family F6 and by the oversize-header variants instead.
var substitutions = []byte{0x00, 0x01, 0x80, 0x81, 0x91, 0xa1, 0xc0, 0xc1, 0xc4, 0xcb, 0xd4, 0xff}
var trailers = [][]byte{{0x00}, {0xc1}, {0xc0, 0xc0}, {0x81, 0xa1, 0x6d, 0xa1, 0x7a}}

const maxMutLen = 40

// mutations calls f with every byte-level variant of a well-formed body.
func mutations(body []byte, oversize bool, f func(kind string, b []byte)) {
	for cut := 0; cut < len(body); cut++ {
		f("truncate", body[:cut])
	}
	for _, t := range trailers {
		f("trailing", append(append([]byte{}, body...), t...))
	}
	buf := make([]byte, len(body))
	for i := range body {
		for _, s := range substitutions {
			if body[i] == s {
				continue
			}
			copy(buf, body)
			buf[i] = s
			f("substitute", buf)
		}
	}
	if !oversize {
		return
	}
	if root, used, ok := parse(body, 0); ok && used == len(body) {
		var walk func(n *node)
		walk = func(n *node) {
			if n.k != 'L' || (n.b[0] >= 0xa0 && n.b[0] <= 0xbf) || n.b[0] == 0xd9 {
				f("oversize-header", enc(nil, root, n))
			}
			for _, k := range n.kids {
				walk(k)
			}
		}
		walk(root)
	}
}

// ---------------------------------------------------------------------------
// minimisation (hierarchical delta debugging on the parsed tree)
// ---------------------------------------------------------------------------

type tstate struct {
	root *node
	rest []byte
}

func (s tstate) bytes() []byte { return append(encode(s.root), s.rest...) }

// A value (never a map key) may be replaced by a canonical leaf that is shorter, or equally long and earlier in
// this list. The list is ordered so that plain scalars are tried first; the ext leaf comes last, so a value
// the generic decoder refuses (unknown ext, un-decodable nested map) reduces to the smallest such value.
var scalarCanon = [][]byte{{0x01}, {0xc0}, {0xc3}, {0xa1, 0x61}, {0xc4, 0x00}, {0xd4, 0x05, 0x00}, {0xca, 0x3f, 0xc0, 0x00, 0x00}}

func rank(b []byte) int {
	for i, c := range scalarCanon {
		if bytes.Equal(b, c) {
			return i
		}
	}
	return 1 << 20
}

// rebuild returns a copy of the tree in which the node reached by path is replaced by repl(node)
// (nil result = remove that child from its parent).
func rebuild(n *node, path []int, repl func(*node) []*node) []*node {
	if len(path) == 0 {
		return repl(n)
	}
	kids := make([]*node, 0, len(n.kids))
	for i, k := range n.kids {
		if i == path[0] {
			kids = append(kids, rebuild(k, path[1:], repl)...)
		} else {
			kids = append(kids, k)
		}
	}
	return []*node{n.with(kids)}
}

func candidates(s tstate) []tstate {
	var out []tstate
	if len(s.rest) > 0 {
		out = append(out, tstate{s.root, nil})
	}
	type loc struct {
		n     *node
		path  []int
		isKey bool
	}
	var locs []loc
	var walk func(n *node, path []int, isKey bool)
	walk = func(n *node, path []int, isKey bool) {
		locs = append(locs, loc{n, append([]int{}, path...), isKey})
		for i, k := range n.kids {
			walk(k, append(path, i), n.k == 'M' && i%2 == 0)
		}
	}
	walk(s.root, nil, false)
	mk := func(path []int, repl func(*node) []*node) {
		r := rebuild(s.root, path, repl)
		if len(r) == 1 {
			out = append(out, tstate{r[0], s.rest})
		}
	}
	// 1. removals (pairs of maps, elements of arrays), outermost first
	for _, l := range locs {
		l := l
		switch l.n.k {
		case 'M':
			for i := 0; i+1 < len(l.n.kids); i += 2 {
				i := i
				mk(l.path, func(n *node) []*node {
					k := append(append([]*node{}, n.kids[:i]...), n.kids[i+2:]...)
					return []*node{n.with(k)}
				})
			}
			// the same index out of every array-valued entry (columns must stay the same length)
			maxLen := 0
			for i := 1; i < len(l.n.kids); i += 2 {
				if l.n.kids[i].k == 'A' && len(l.n.kids[i].kids) > maxLen {
					maxLen = len(l.n.kids[i].kids)
				}
			}
			for idx := 0; idx < maxLen; idx++ {
				idx := idx
				mk(l.path, func(n *node) []*node {
					k := append([]*node{}, n.kids...)
					for i := 1; i < len(k); i += 2 {
						if k[i].k == 'A' && len(k[i].kids) > idx {
							kk := append(append([]*node{}, k[i].kids[:idx]...), k[i].kids[idx+1:]...)
							k[i] = k[i].with(kk)
						}
					}
					return []*node{n.with(k)}
				})
			}
		case 'A':
			for i := range l.n.kids {
				i := i
				mk(l.path, func(n *node) []*node {
					k := append(append([]*node{}, n.kids[:i]...), n.kids[i+1:]...)
					return []*node{n.with(k)}
				})
			}
		}
	}
	// 1b. a container replaced by one of its children
	for _, l := range locs {
		if l.n.k != 'L' && !l.isKey && len(l.path) > 0 {
			for i := range l.n.kids {
				kid := l.n.kids[i]
				mk(l.path, func(*node) []*node { return []*node{kid} })
			}
		}
	}
	// 2. narrower headers
	for _, l := range locs {
		if l.n.k != 'L' && l.n.w > 0 {
			mk(l.path, func(n *node) []*node { c := n.with(n.kids); c.w = 0; return []*node{c} })
		}
		if l.n.k == 'L' {
			c := l.n.b[0]
			var payload []byte
			switch c {
			case 0xd9:
				payload = l.n.b[2:]
			case 0xda:
				payload = l.n.b[3:]
			case 0xdb:
				payload = l.n.b[5:]
			}
			if payload != nil && len(payload) < 32 {
				p := payload
				mk(l.path, func(*node) []*node { return []*node{fixstr(string(p))} })
			}
		}
	}
	// 2b. a duplicated map key spelled differently (keeps the entry, drops the duplication)
	for _, l := range locs {
		if l.n.k != 'M' {
			continue
		}
		for i := 0; i < len(l.n.kids); i += 2 {
			dup := false
			for j := 0; j < len(l.n.kids); j += 2 {
				if j != i && bytes.Equal(encode(l.n.kids[i]), encode(l.n.kids[j])) {
					dup = true
				}
			}
			if _, isStr := fixstrVal(l.n.kids[i]); dup && isStr {
				mk(append(append([]int{}, l.path...), i), func(*node) []*node { return []*node{fixstr("zq")} })
			}
		}
	}
	// 2c. payload bytes of a leaf (number / float bytes, str8+/bin/ext data) replaced by 00, 01 or 80 when that makes
	//     the leaf byte-wise smaller (collapses e.g. every uint64 above 2^63 to cf 80 00..00)
	for _, l := range locs {
		if l.n.k != 'L' || len(l.n.b) < 2 {
			continue
		}
		c := l.n.b[0]
		from := 1
		switch {
		case c >= 0xa0 && c <= 0xbf:
			// fixstr: names are handled by renaming; only non-ASCII bytes are canonicalised (to 0x80)
			for i := 1; i < len(l.n.b); i++ {
				if l.n.b[i] > 0x80 {
					nb := append([]byte{}, l.n.b...)
					nb[i] = 0x80
					mk(l.path, func(*node) []*node { return []*node{L(nb...)} })
				}
			}
			continue
		case c == 0xc4 || c == 0xd9:
			from = 2
		case c == 0xc5 || c == 0xda:
			from = 3
		case c == 0xc6 || c == 0xdb:
			from = 5
		case c == 0xc7:
			from = 3
		case c == 0xc8:
			from = 4
		case c == 0xc9:
			from = 6
		case c >= 0xd4 && c <= 0xd8:
			from = 2
		}
		for i := from; i < len(l.n.b); i++ {
			for _, r := range []byte{0x00, 0x01, 0x80} {
				if r < l.n.b[i] {
					nb := append([]byte{}, l.n.b...)
					nb[i] = r
					mk(l.path, func(*node) []*node { return []*node{L(nb...)} })
				}
			}
		}
	}
	// 3. values replaced by canonical leaves
	for _, l := range locs {
		if l.isKey || len(l.path) == 0 {
			continue
		}
		cur := encode(l.n)
		try := func(c []byte) {
			if len(c) < len(cur) || (len(c) == len(cur) && rank(c) < rank(cur)) {
				cc := c
				mk(l.path, func(*node) []*node { return []*node{L(cc...)} })
			}
		}
		for _, c := range scalarCanon {
			try(c)
		}
	}
	return out
}

// canonicalise moves a reduction fixpoint to a canonical representative of its class, so that bodies which
// differ only in the spelling of irrelevant names or in the order of map entries get ONE signature:
//  1. find the "free" strings: those whose every occurrence can be renamed to a fresh name with the same
//     difference persisting (protocol words the difference depends on, e.g. m / columns, are not free);
//  2. among all permutations of the entries of every map (free strings renamed a, b, c... in order of first
//     appearance), take the byte-wise smallest body on which the same difference persists.
func fixstrVal(n *node) (string, bool) {
	if n.k == 'L' && n.b[0] >= 0xa0 && n.b[0] <= 0xbf {
		return string(n.b[1:]), true
	}
	return "", false
}

func mapTree(n *node, f func(*node) *node) *node {
	if n.k == 'L' {
		return f(n)
	}
	kids := make([]*node, len(n.kids))
	for i, k := range n.kids {
		kids[i] = mapTree(k, f)
	}
	return f(n.with(kids))
}

func renameAll(root *node, ren map[string]string) *node {
	return mapTree(root, func(n *node) *node {
		if v, ok := fixstrVal(n); ok {
			if nv, ok := ren[v]; ok {
				return fixstr(nv)
			}
		}
		return n
	})
}

func renameFree(root *node, free map[string]bool) *node {
	ren := map[string]string{}
	next := 0
	mapTree(root, func(n *node) *node {
		if v, ok := fixstrVal(n); ok && free[v] {
			if _, done := ren[v]; !done {
				ren[v] = string(rune('a' + next))
				next++
			}
		}
		return n
	})
	// two-step so that swapping names (a<->b) is well defined
	tmp := map[string]string{}
	back := map[string]string{}
	for k, v := range ren {
		tmp[k] = "\x00" + v
		back["\x00"+v] = v
	}
	return renameAll(renameAll(root, tmp), back)
}

func permutations(n int) [][]int {
	if n == 0 {
		return [][]int{{}}
	}
	var out [][]int
	for _, p := range permutations(n - 1) {
		for pos := 0; pos <= len(p); pos++ {
			q := append(append(append([]int{}, p[:pos]...), n-1), p[pos:]...)
			out = append(out, q)
		}
	}
	return out
}

// orderings returns every tree obtained by permuting the entries of every map (maps with more than 4 entries
// are left alone; the product is capped).
func orderings(n *node) []*node {
	if n.k == 'L' {
		return []*node{n}
	}
	kidAlts := make([][]*node, len(n.kids))
	total := 1
	for i, k := range n.kids {
		kidAlts[i] = orderings(k)
		total *= len(kidAlts[i])
		if total > 512 {
			return []*node{n}
		}
	}
	var combos [][]*node
	var rec func(i int, cur []*node)
	rec = func(i int, cur []*node) {
		if i == len(kidAlts) {
			combos = append(combos, append([]*node{}, cur...))
			return
		}
		for _, a := range kidAlts[i] {
			rec(i+1, append(cur, a))
		}
	}
	rec(0, nil)
	var out []*node
	for _, kids := range combos {
		if n.k == 'M' && len(kids) >= 4 && len(kids) <= 8 {
			for _, p := range permutations(len(kids) / 2) {
				pk := make([]*node, 0, len(kids))
				for _, i := range p {
					pk = append(pk, kids[2*i], kids[2*i+1])
				}
				out = append(out, n.with(pk))
			}
		} else {
			out = append(out, n.with(kids))
		}
		if len(out) > 2048 {
			return []*node{n}
		}
	}
	return out
}

func canonicalise(s tstate, same func([]byte) bool) tstate {
	var order []string
	seen := map[string]bool{}
	mapTree(s.root, func(n *node) *node {
		if v, ok := fixstrVal(n); ok && !seen[v] {
			seen[v] = true
			order = append(order, v)
		}
		return n
	})
	free := map[string]bool{}
	for _, v := range order {
		c := tstate{renameAll(s.root, map[string]string{v: "zq"}), s.rest}
		if same(c.bytes()) {
			free[v] = true
		}
	}
	type cand struct {
		st tstate
		b  []byte
	}
	var cands []cand
	dedup := map[string]bool{}
	for _, o := range orderings(s.root) {
		st := tstate{renameFree(o, free), s.rest}
		b := st.bytes()
		if !dedup[string(b)] {
			dedup[string(b)] = true
			cands = append(cands, cand{st, b})
		}
	}
	sort.Slice(cands, func(i, j int) bool { return bytes.Compare(cands[i].b, cands[j].b) < 0 })
	for _, c := range cands {
		if same(c.b) {
			return c.st
		}
	}
	return s
}

// byte-level ddmin for bodies that are not well-formed msgpack
func byteMin(body []byte, fails func([]byte) bool) []byte {
	idx := make([]int, len(body))
	for i := range idx {
		idx[i] = i
	}
	keep := ev.Minimize(idx, func(sel []int) bool {
		b := make([]byte, len(sel))
		for i, j := range sel {
			b[i] = body[j]
		}
		return fails(b)
	})
	b := make([]byte, len(keep))
	for i, j := range keep {
		b[i] = body[j]
	}
	return b
}

type minimiser struct {
	w       *worker
	evalMu  *sync.Mutex
	kindOf  map[string]string // body -> kind (memo)
	final   map[string]string // body -> minimal body (memo over every state on a path)
	evals   *int64
	maxStep int
}

func (m *minimiser) kind(b []byte) string {
	m.evalMu.Lock()
	k, ok := m.kindOf[string(b)]
	m.evalMu.Unlock()
	if ok {
		return k
	}
	atomic.AddInt64(m.evals, 1)
	k = m.w.eval(b, false).kind
	m.evalMu.Lock()
	m.kindOf[string(b)] = k
	m.evalMu.Unlock()
	return k
}

func (m *minimiser) minimise(body []byte, kind string, deep bool) []byte {
	kindOf := func(b []byte) string {
		if deep {
			m.evalMu.Lock()
			k, ok := m.kindOf["D"+string(b)]
			m.evalMu.Unlock()
			if ok {
				return k
			}
			atomic.AddInt64(m.evals, 1)
			k = m.w.eval(b, true).kind
			m.evalMu.Lock()
			m.kindOf["D"+string(b)] = k
			m.evalMu.Unlock()
			return k
		}
		return m.kind(b)
	}
	root, used, ok := parse(body, 0)
	if !ok {
		return byteMin(body, func(b []byte) bool { return kindOf(b) == kind })
	}
	st := tstate{root, append([]byte{}, body[used:]...)}
	var visited []string
	seenCanon := map[string]bool{}
	fk := kind + "\x00"
	for {
		cur := st.bytes()
		m.evalMu.Lock()
		fin, known := m.final[fk+string(cur)]
		m.evalMu.Unlock()
		if known {
			for _, v := range visited {
				m.evalMu.Lock()
				m.final[fk+v] = fin
				m.evalMu.Unlock()
			}
			return []byte(fin)
		}
		visited = append(visited, string(cur))
		progressed := false
		for _, c := range candidates(st) {
			if kindOf(c.bytes()) == kind {
				st = c
				progressed = true
				break
			}
		}
		if !progressed {
			c := canonicalise(st, func(b []byte) bool { return kindOf(b) == kind })
			if cb := c.bytes(); !bytes.Equal(cb, cur) {
				if _, was := seenCanon[string(cb)]; !was { // canonicalise is idempotent; guard against ping-pong anyway
					seenCanon[string(cb)] = true
					st = c
					progressed = true
				}
			}
		}
		if !progressed {
			m.evalMu.Lock()
			for _, v := range visited {
				m.final[fk+v] = string(cur)
			}
			m.evalMu.Unlock()
			return cur
		}
	}
}

// ---------------------------------------------------------------------------

func errClass(s string) string {
	s = digitsRe.ReplaceAllString(s, "N")
	if len(s) > 90 {
		s = s[:90]
	}
	return s
}

type failure struct {
	body []byte
	kind string
	how  string // family or mutation kind
	deep bool
	gerr string
	terr string
	thit bool
}

func main() {
	run := ev.Start("C02", "exploration")
	quick := run.Quick()
	// 8 workers: the per-case cost is allocation-heavy (generic decode boxes every value) and the Go allocator/GC
	// scales poorly beyond that on over-subscribed vCPUs; VERIF_WORKERS overrides.
	nw := runtime.GOMAXPROCS(0)
	if nw > 8 {
		nw = 8
	}
	if v, err := strconv.Atoi(os.Getenv("VERIF_WORKERS")); err == nil && v > 0 {
		nw = v
	}
	if nw < 2 {
		nw = 2
	}

	// --replay file: run one recorded body (replay.hex) through both modes in isolation and print what each did
	if run.Replay != "" {
		raw, err := os.ReadFile(run.Replay)
		if err != nil {
			ev.Unbound("cannot read replay file: " + err.Error())
		}
		var rf struct {
			Signature string `json:"signature"`
			Replay    struct {
				Hex       string   `json:"hex"`
				BodiesHex []string `json:"bodies_hex"`
				Trigger   string   `json:"trigger"`
			} `json:"replay"`
		}
		if err := json.Unmarshal(raw, &rf); err == nil && len(rf.Replay.BodiesHex) > 0 {
			// a sequence-phase case: the recorded bodies written into one ArrowBuffer per mode, then the recorded trigger
			var bodies [][]byte
			for _, h := range rf.Replay.BodiesHex {
				b, err := hex.DecodeString(h)
				if err != nil {
					ev.Unbound("replay.bodies_hex: " + err.Error())
				}
				bodies = append(bodies, b)
			}
			trig := seqTrig{}
			for _, t := range seqTrigs {
				if t.name == rf.Replay.Trigger {
					trig = t
				}
			}
			if trig.name == "" {
				ev.Unbound("replay.trigger unknown: " + rf.Replay.Trigger)
			}
			w := newWorker()
			v := w.seqEvalBodies(bodies, trig)
			var ds []string
			for _, b := range bodies {
				ds = append(ds, diagBody(b))
			}
			out, _ := json.MarshalIndent(map[string]any{"payloads": ds, "trigger": trig.name, "difference": v.kind, "typed": seqObsJSON(v.t), "generic": seqObsJSON(v.g)}, "", " ")
			fmt.Println(string(out))
			if v.kind != "" {
				run.Violate(v.kind+"|"+trig.name+"|"+strings.Join(rf.Replay.BodiesHex, ">"), "replayed sequence still differs", rf.Replay)
			}
			run.Coverage["evaluations"] = 1
			run.Finish()
		}
		if err := json.Unmarshal(raw, &rf); err != nil || rf.Replay.Hex == "" {
			ev.Unbound("replay file has no replay.hex")
		}
		body, err := hex.DecodeString(rf.Replay.Hex)
		if err != nil {
			ev.Unbound("replay.hex: " + err.Error())
		}
		w := newWorker()
		v := w.eval(body, true)
		out, _ := json.MarshalIndent(map[string]any{"payload": diagBody(body), "difference": v.kind, "typed": obsJSON(v.t), "generic": obsJSON(v.g)}, "", " ")
		fmt.Println(string(out))
		if v.kind != "" {
			run.Violate(v.kind+"|"+rf.Replay.Hex, "replayed body still differs", map[string]any{"hex": rf.Replay.Hex})
		}
		run.Coverage["evaluations"] = 1
		run.Finish()
	}

	// harness self-check: the hand encoder and the lenient parser agree (encode∘parse = id)
	gen := generate(quick)
	for i, b := range gen.bases {
		if i%7 != 0 {
			continue
		}
		n, used, ok := parse(b.body, 0)
		if !ok || used != len(b.body) || !bytes.Equal(encode(n), b.body) {
			ev.Unbound("harness encoder/parser round-trip failed for " + hex.EncodeToString(b.body))
		}
	}
	// binding check: the fast path is reachable at all
	{
		w := newWorker()
		v := w.eval(encode(M(fixstr("m"), fixstr("c"), fixstr("columns"), goodCols())), true)
		if !v.typedHit || v.kind != "" || v.t.stage != "ok" {
			ev.Unbound(fmt.Sprintf("plain columnar payload does not take the typed fast path or disagrees (hit=%v kind=%q stage=%s %s)", v.typedHit, v.kind, v.t.stage, v.t.err))
		}
		h, _ := ingest.VerifTypedStats(w.dT)
		hg, mg := ingest.VerifTypedStats(w.dG)
		if h == 0 || hg != 0 || mg != 0 {
			ev.Unbound("typedEnabled toggle does not control the fast path")
		}
	}

	tStart := time.Now()
	order := make([]int, len(gen.bases))
	for i := range order {
		order[i] = i
	}
	if run.Seed != 0 && len(order) > 0 { // the seed only rotates the order of exploration
		r := run.Seed % len(order)
		if r < 0 {
			r += len(order)
		}
		order = append(order[r:], order[:r]...)
	}
	// development aid: VERIF_C02_PHASE=seq runs only the sequence phase (reported as not exhaustive)
	phaseLimited := os.Getenv("VERIF_C02_PHASE") == "seq"
	if phaseLimited {
		order = order[:0]
	}

	var (
		evals, treeEvals, mutEvals, typedHitsDistinct, typedHitsMut, mutBases int64
		next                                                                  int64 = -1
		complete                                                              int32 = 1
		fmu                                                                   sync.Mutex
		fails                                                                 []failure
		outcomes                                                              = map[string]int64{}
		mutKinds                                                              = map[string]int64{}
		wg                                                                    sync.WaitGroup
	)
	samples := ev.NewSamples(10)
	sampleFam := map[string]bool{}
	const maxRawFailures = 400_000
	record := func(f failure) {
		fmu.Lock()
		if len(fails) < maxRawFailures {
			f.body = append([]byte{}, f.body...)
			fails = append(fails, f)
		} else {
			atomic.StoreInt32(&complete, 0)
		}
		fmu.Unlock()
	}
	workers := make([]*worker, nw)
	for i := range workers {
		workers[i] = newWorker()
	}
	for wi := 0; wi < nw; wi++ {
		wg.Add(1)
		go func(w *worker) {
			defer wg.Done()
			local := map[string]int64{}
			localMut := map[string]int64{}
			defer func() {
				fmu.Lock()
				for k, v := range local {
					outcomes[k] += v
				}
				for k, v := range localMut {
					mutKinds[k] += v
				}
				fmu.Unlock()
			}()
			for {
				oi := int(atomic.AddInt64(&next, 1))
				if oi >= len(order) {
					return
				}
				if oi%16 == 0 && run.TimeUp() {
					atomic.StoreInt32(&complete, 0)
					return
				}
				b := gen.bases[order[oi]]
				v := w.eval(b.body, true)
				atomic.AddInt64(&evals, 1)
				atomic.AddInt64(&treeEvals, 1)
				if v.typedHit {
					atomic.AddInt64(&typedHitsDistinct, 1)
				}
				local[fmt.Sprintf("typed=%s generic=%s fastpath=%v", v.t.stage, v.g.stage, v.typedHit)]++
				if v.kind != "" {
					record(failure{body: b.body, kind: v.kind, how: b.fam, deep: strings.HasPrefix(v.kind, "stored-parquet:"), gerr: v.g.err, terr: v.t.err, thit: v.typedHit})
				}
				fmu.Lock()
				if !sampleFam[b.fam] {
					sampleFam[b.fam] = true
					samples.Add(map[string]any{"family": b.fam, "hex": hex.EncodeToString(b.body), "payload": diagBody(b.body),
						"typed": v.t.stage, "generic": v.g.stage, "fast_path_hit": v.typedHit})
				}
				fmu.Unlock()
				// byte-level variants of every well-formed encoding of <= 40 bytes
				// (a base on which the two paths already disagree is reported as is; its byte variants would only
				// re-report the same class thousands of times)
				if v.kind == "" && len(b.body) <= maxMutLen && mutEligible(b, quick) {
					atomic.AddInt64(&mutBases, 1)
					mutations(b.body, overEligible(b, quick), func(kind string, mb []byte) {
						if kind == "oversize-header" {
							overMu.Lock()
							defer overMu.Unlock()
						}
						mv := w.eval(mb, false)
						atomic.AddInt64(&evals, 1)
						atomic.AddInt64(&mutEvals, 1)
						localMut[kind]++
						if mv.typedHit {
							atomic.AddInt64(&typedHitsMut, 1)
						}
						local[fmt.Sprintf("typed=%s generic=%s fastpath=%v", mv.t.stage, mv.g.stage, mv.typedHit)]++
						if mv.kind != "" {
							record(failure{body: mb, kind: mv.kind, how: "mutation:" + kind, gerr: mv.g.err, terr: mv.t.err, thit: mv.typedHit})
						}
					})
				}
			}
		}(workers[wi])
	}
	wg.Wait()
	if os.Getenv("VERIF_DEBUG") != "" {
		fmt.Printf("  explored in %.1fs: %d raw failures, %d mutation bases\n", time.Since(tStart).Seconds(), len(fails), mutBases)
		byHow := map[string]int{}
		for _, f := range fails {
			byHow[f.how+" "+f.kind]++
		}
		var hs []string
		for h, n := range byHow {
			hs = append(hs, fmt.Sprintf("%7d %s", n, h))
		}
		sort.Strings(hs)
		for _, h := range hs {
			fmt.Println("   ", h)
		}
	}

	// ---- minimise every raw failure to its class ------------------------------------------------
	sort.SliceStable(fails, func(i, j int) bool {
		if len(fails[i].body) != len(fails[j].body) {
			return len(fails[i].body) < len(fails[j].body)
		}
		return bytes.Compare(fails[i].body, fails[j].body) < 0
	})
	type class struct {
		kind      string
		min       []byte
		instances int
		example   failure
		gerrs     map[string]int
		hows      map[string]int
	}
	classes := map[string]*class{}
	var cmu, memoMu sync.Mutex
	kindMemo, finalMemo := map[string]string{}, map[string]string{}
	var minEvals, notMin int64
	var fnext int64 = -1
	for wi := 0; wi < nw; wi++ {
		wg.Add(1)
		go func(w *worker) {
			defer wg.Done()
			m := &minimiser{w: w, evalMu: &memoMu, kindOf: kindMemo, final: finalMemo, evals: &minEvals}
			for {
				i := int(atomic.AddInt64(&fnext, 1))
				if i >= len(fails) {
					return
				}
				if run.TimeUp() {
					atomic.AddInt64(&notMin, 1)
					atomic.StoreInt32(&complete, 0)
					continue
				}
				f := fails[i]
				min := m.minimise(f.body, f.kind, f.deep)
				sig := f.kind + "|" + hex.EncodeToString(min)
				cmu.Lock()
				c := classes[sig]
				if c == nil {
					c = &class{kind: f.kind, min: min, example: f, gerrs: map[string]int{}, hows: map[string]int{}}
					classes[sig] = c
				}
				c.instances++
				c.gerrs[errClass(f.gerr)]++
				c.hows[strings.SplitN(f.how, ":", 2)[0]]++
				cmu.Unlock()
			}
		}(workers[wi])
	}
	wg.Wait()

	if os.Getenv("VERIF_DEBUG") != "" {
		fmt.Printf("  minimised at %.1fs, %d evals\n", time.Since(tStart).Seconds(), minEvals)
	}
	sigs := make([]string, 0, len(classes))
	for s := range classes {
		sigs = append(sigs, s)
	}
	sort.Strings(sigs)
	w0 := workers[0]
	classSummary := []any{}
	for _, s := range sigs {
		c := classes[s]
		// replay twice: identical verdicts or the harness does not own its nondeterminism
		v1 := w0.eval(c.min, c.example.deep)
		v2 := w0.eval(c.min, c.example.deep)
		if v1.kind != c.kind || v2.kind != c.kind {
			ev.Nondeterminism(fmt.Sprintf("class %s does not replay (got %q, %q)", s, v1.kind, v2.kind))
		}
		desc := fmt.Sprintf("%s on %s: typed path -> %s%s, generic path -> %s%s", c.kind, diagBody(c.min),
			v1.t.stage, paren(v1.t.err), v1.g.stage, paren(v1.g.err))
		run.Violate(s, desc, map[string]any{"hex": hex.EncodeToString(c.min), "payload": diagBody(c.min), "kind": c.kind,
			"typed": obsJSON(v1.t), "generic": obsJSON(v1.g), "raw_instances": c.instances,
			"first_raw_instance_hex": hex.EncodeToString(c.example.body), "first_raw_instance_from": c.example.how,
			"generic_error_classes_of_instances": c.gerrs, "instances_by_origin": c.hows})
		classSummary = append(classSummary, map[string]any{"signature": s, "payload": diagBody(c.min), "raw_instances": c.instances})
	}
	famNames := make([]string, 0, len(gen.fam))
	for f := range gen.fam {
		famNames = append(famNames, f)
	}
	sort.Strings(famNames)
	famCounts := map[string]int{}
	for _, f := range famNames {
		famCounts[f] = gen.fam[f]
	}
	nBases, nFails := len(gen.bases), len(fails)
	// the payload trees are no longer needed: drop them so the sequence phase (allocation-heavy: one Parquet writer
	// per flush) does not pay for scanning them in every GC cycle
	gen, order, fails = nil, nil, nil
	kindMemo, finalMemo = nil, nil
	runtime.GC()
	seqComplete := seqPhase(run, quick, workers)
	for _, w := range workers {
		w.buf.Close()
	}
	run.Coverage["evaluations"] = evals
	run.Coverage["distinct_nontrivial"] = typedHitsDistinct
	run.Coverage["rule"] = "payload trees enumerated exhaustively per family (F1 value arrays len<=3 over one representative per msgpack encoding; F2 time arrays over unit-boundary values x encodings; " +
		"F3 every sequence of top-level key/value pairs up to the bound incl. duplicates and non-string keys; F4 every sequence of <=3 column entries over names {time,v,\"\",_x} x {arrays, empty array, non-arrays}; " +
		"F5 array-of-maps and batch up to 3 items; F6 every header/key width; F7 row format), hand-encoded; then for every distinct encoding <=40 B selected for mutation: every truncation, 4 trailing suffixes, " +
		"every header replaced by a 32-bit 0xFFFFFFFF header, every single-byte substitution from {00,01,80,81,91,a1,c0,c1,c4,cb,d4,ff}. Each body decoded with typedEnabled on and off and written with the real ArrowBuffer.Write. " +
		"distinct = distinct byte strings among the tree encodings; non-trivial = the typed fast path returned a TypedColumnarRecord for it (the two runs executed different code). " +
		fmt.Sprint(run.Coverage["seq_rule"])
	run.Coverage["tree_payloads_distinct"] = nBases
	run.Coverage["tree_payloads_by_family"] = famCounts
	run.Coverage["tree_evaluations"] = treeEvals
	run.Coverage["mutation_bases"] = mutBases
	run.Coverage["mutation_evaluations"] = mutEvals
	run.Coverage["mutation_evaluations_by_kind"] = mutKinds
	run.Coverage["fast_path_hits_among_mutations"] = typedHitsMut
	run.Coverage["stored_parquet_comparisons"] = atomic.LoadInt64(&deepEvals)
	run.Coverage["outcomes"] = outcomes
	run.Coverage["distinct_outcomes"] = len(outcomes)
	run.Coverage["failing_inputs_before_minimisation"] = nFails
	run.Coverage["failing_inputs_not_minimised"] = notMin
	run.Coverage["minimisation_evaluations"] = minEvals
	run.Coverage["classes"] = classSummary
	run.Coverage["samples"] = samples.List()
	run.Coverage["substitution_set"] = hex.EncodeToString(substitutions)
	run.Coverage["max_mutated_len"] = maxMutLen
	run.Coverage["workers"] = nw
	run.Coverage["exhaustive"] = complete == 1 && seqComplete && !phaseLimited
	run.Assume("acceptance is judged at MessagePackDecoder.Decode + ArrowBuffer.Write (what the HTTP handler calls); measurement-name validation and RBAC in internal/api are functions of the decoded measurement, which is compared")
	run.Assume("a time value within 24 h of the wall clock is taken to be a generated timestamp (every explicit time of the grammar is years away); generated values are compared only for 'all rows of a record share one value' and their partition hour is not compared")
	run.Assume("values at null positions are not compared (they are not stored); NaN equals NaN; other floats compared bit-wise; rows of a stored Parquet file compared as a multiset")
	run.Assume("decimal columns not configured (the handler disables the fast path when they are); WAL disabled - the raw payload handed to the WAL is compared instead; snappy compression, default sort keys")
	run.Assume("oversized (0xFFFFFFFF) headers are generated for arrays, maps and strings on a small structural set of bases, one case at a time (each makes the generic decoder allocate its 1M-element cap); bin32/ext32 oversize headers are NOT generated because the msgpack fork allocates the claimed byte length up front (a 10-byte body with bin32 len 0xFFFFFFFF costs a 4 GiB allocation in either mode - a C04 matter, not a typed/generic difference); 16/32-bit array/map codes are not in the substitution set for the same cost reason")
	run.Assume("sequence phase: one measurement, one database, sequential writes (no concurrency), <=3 payloads of 2 rows, two value columns; each flush trigger's real body runs on the harness goroutine: FlushAll and Close directly, the aged sweep as flushAgedBuffers after every recorded buffer start time was moved MaxBufferAge into the past (the background timer is kept from re-arming so it never runs the sweep itself), a size-triggered flush as flushRecordsAsync on the tasks the real write path queued while the single flush worker is parked in a storage write of an unrelated database; timer scheduling of periodicFlush and worker-pool concurrency are outside this check")
	run.Assume("bodies longer than 40 B are not byte-mutated; arrays longer than 3, more than 3 columns / 4 top-level keys, nesting deeper than 2 are outside the enumeration")
	fmt.Printf("C02: %d tree payloads (%d took the fast path), %d mutated bodies from %d bases, %d stored-Parquet comparisons, %d distinct outcomes, %d raw failures -> %d classes\n",
		treeEvals, typedHitsDistinct, mutEvals, mutBases, atomic.LoadInt64(&deepEvals), len(outcomes), nFails, len(classes))
	if len(outcomes) < 3 {
		fmt.Println("C02: VACUITY WARNING: fewer than 3 distinct outcomes")
	}
	run.Finish()
}

func paren(s string) string {
	if s == "" {
		return ""
	}
	return " (" + s + ")"
}

func obsJSON(o obs) map[string]any {
	var bs []any
	for _, b := range o.batches {
		var cols []any
		for _, c := range b.cols {
			cols = append(cols, map[string]any{"name": c.name, "type": c.typ, "nulls": c.nulls, "values": c.vals})
		}
		bs = append(bs, map[string]any{"where": b.where, "rows": b.n, "columns": cols})
	}
	return map[string]any{"stage": o.stage, "error": o.err, "fast_path_hit": o.typedHit, "records": o.nrec, "stored": bs}
}

// mutEligible selects, structurally, the well-formed encodings (<=40 B) that are byte-mutated: the shorter
// sequences of every family (quick: a smaller cut of the same).
func mutEligible(b base, quick bool) bool {
	if quick {
		switch {
		case b.fam == "F1:value-array":
			return b.lvl <= 1 || (b.lvl == 2 && b.core)
		case strings.HasPrefix(b.fam, "F1:"):
			return b.lvl <= 1
		case b.fam == "F2:time-array":
			return b.lvl <= 1 || (b.lvl == 2 && len(b.body) <= 30)
		case strings.HasPrefix(b.fam, "F2:"):
			return true
		case strings.HasPrefix(b.fam, "F3:"):
			return b.lvl <= 2
		case b.fam == "F4:columns-map":
			return b.lvl <= 2
		case strings.HasPrefix(b.fam, "F4:"):
			return b.lvl <= 1
		case strings.HasPrefix(b.fam, "F5:"):
			return b.lvl <= 2
		case strings.HasPrefix(b.fam, "F6:"):
			return b.lvl < 100 // fix headers only
		case strings.HasPrefix(b.fam, "F7:"):
			return true
		}
		return false
	}
	switch {
	case strings.HasPrefix(b.fam, "F1:"), strings.HasPrefix(b.fam, "F2:"):
		return b.lvl <= 2
	case strings.HasPrefix(b.fam, "F3:"):
		return b.lvl <= 2 || (b.lvl == 3 && len(b.body) <= 28)
	case strings.HasPrefix(b.fam, "F4:"):
		return b.lvl <= 2 || (b.lvl == 3 && len(b.body) <= 24)
	case strings.HasPrefix(b.fam, "F6:"):
		return b.lvl < 200 // no 32-bit counts among the substituted bytes (each costs a 1M-element allocation)
	}
	return true
}

// overEligible selects the bases whose headers are also replaced by 0xFFFFFFFF 32-bit headers. Each such
// body makes the generic decoder allocate its 1M-element cap (first-touch memory costs ~0.1 ms per page in
// the sandbox: 0.03-10 s per case), so the set is structural and small and the cases run one at a time.
func overEligible(b base, quick bool) bool {
	if quick {
		return b.over == 1
	}
	return b.over >= 1
}

func max3(a, b, c int) int {
	if b > a {
		a = b
	}
	if c > a {
		a = c
	}
	return a
}

var overMu sync.Mutex
