// C28 — Query rate limits and quotas are never exceeded.
// (1) histories: every event sequence up to a depth (requests, clock advances aligned with slot,
//     window, hour and UTC-day boundaries, a backward clock step, limit updates) is run on the real
//     sliding-window counter / quota tracker under a virtual clock and compared with an exact
//     sliding-log / calendar reference. (2) the same through the real Manager (rate limit, then quota,
//     policy updates) on an in-memory SQLite. (3) schedules: 3 concurrent requests on one limiter.
package main

import (
	"context"
	"database/sql"
	"fmt"
	"os"
	"sort"
	"strings"
	"sync"
	"sync/atomic"
	"time"

	"github.com/basekick-labs/arc/internal/config"
	"github.com/basekick-labs/arc/internal/governance"
	"github.com/basekick-labs/arc/zzverif/engine/ev"
	"github.com/basekick-labs/arc/zzverif/engine/sched"
	"github.com/basekick-labs/arc/zzverif/shim/vclock"
	"github.com/basekick-labs/arc/zzverif/shim/vsched"
	"github.com/basekick-labs/arc/zzverif/shim/vsync"
	_ "github.com/mattn/go-sqlite3"
	"github.com/rs/zerolog"
)

const (
	W    = time.Minute
	slot = time.Second
)

type event struct {
	name string
	kind int // 0 request, 1 advance by d, 2 advance to next hour boundary + d, 3 advance to next UTC day boundary + d, 4 jump, 5 update limit
	d    time.Duration
	lim  int
}

func events() []event {
	return []event{
		{name: "req", kind: 0},
		{name: "+1ms", kind: 1, d: time.Millisecond},
		{name: "+999ms", kind: 1, d: slot - time.Millisecond},
		{name: "+1s", kind: 1, d: slot},
		{name: "+59.002s", kind: 1, d: W - slot + 2*time.Millisecond},
		{name: "+60s", kind: 1, d: W},
		{name: "to-hour-1ms", kind: 2, d: -time.Millisecond},
		{name: "to-hour", kind: 2, d: 0},
		{name: "to-hour+1ms", kind: 2, d: time.Millisecond},
		{name: "to-day", kind: 3, d: 0},
		{name: "jump-5s", kind: 4, d: -5 * time.Second},
		{name: "limit=1", kind: 5, lim: 1},
		{name: "limit=2", kind: 5, lim: 2},
	}
}

var base = time.Date(2023, 11, 14, 22, 58, 30, 0, time.UTC)

func now() time.Time { vclock.SetTick(0); return vclock.Now() }

func applyClock(e event) {
	switch e.kind {
	case 1:
		vclock.Advance(e.d)
	case 2:
		n := now()
		next := n.Truncate(time.Hour).Add(time.Hour)
		if d := next.Add(e.d).Sub(n); d > 0 {
			vclock.Advance(d)
		}
	case 3:
		n := now()
		next := n.Truncate(24 * time.Hour).Add(24 * time.Hour)
		if d := next.Add(e.d).Sub(n); d > 0 {
			vclock.Advance(d)
		}
	case 4:
		vclock.Jump(e.d)
	}
}

// maxInWindow: the largest number of timestamps inside any half-open interval of length w.
func maxInWindow(ts []int64, w int64) int {
	s := append([]int64{}, ts...)
	sort.Slice(s, func(i, j int) bool { return s[i] < s[j] })
	best, j := 0, 0
	for i := range s {
		for s[i]-s[j] >= w {
			j++
		}
		if i-j+1 > best {
			best = i - j + 1
		}
	}
	return best
}

// runLimiter executes seq on a fresh real limiter; returns the index of the first violating event (-1 none).
func runLimiter(evs []event, seq []int, limit0 int) (int, string) {
	vclock.Install(base)
	vclock.SetTick(0)
	l := governance.VerifNewSliding(W, 60, limit0)
	limit, maxLimit := limit0, limit0
	var admitted []int64
	for i, x := range seq {
		e := evs[x]
		switch e.kind {
		case 0:
			t := now().UnixNano()
			if l.Allow() {
				admitted = append(admitted, t)
				// admissions inside (t-W, t] must not exceed the limit in force
				n := 0
				for _, a := range admitted {
					if a > t-int64(W) && a <= t {
						n++
					}
				}
				if n > limit {
					return i, fmt.Sprintf("admitted %d in the %v ending at this request, limit in force %d", n, W, limit)
				}
				if m := maxInWindow(admitted, int64(W)); m > maxLimit {
					return i, fmt.Sprintf("%d admissions inside one %v interval, highest limit ever in force %d", m, W, maxLimit)
				}
			}
		case 5:
			l.UpdateLimit(e.lim)
			limit = e.lim
			if e.lim > maxLimit {
				maxLimit = e.lim
			}
		default:
			applyClock(e)
		}
	}
	return -1, ""
}

func runQuota(evs []event, seq []int, perHour, perDay int) (int, string) {
	vclock.Install(base)
	vclock.SetTick(0)
	q := governance.VerifNewQuota(perHour, perDay)
	hours, days := map[int64]int{}, map[int64]int{}
	for i, x := range seq {
		e := evs[x]
		switch e.kind {
		case 0:
			t := now()
			if ok, _ := q.AllowQuery(); ok {
				h, d := t.Unix()/3600, t.Unix()/86400
				hours[h]++
				days[d]++
				if hours[h] > perHour {
					return i, fmt.Sprintf("%d queries admitted in clock hour starting %s, quota %d", hours[h], time.Unix(h*3600, 0).UTC().Format(time.RFC3339), perHour)
				}
				if days[d] > perDay {
					return i, fmt.Sprintf("%d queries admitted in UTC day %s, quota %d", days[d], time.Unix(d*86400, 0).UTC().Format("2006-01-02"), perDay)
				}
			}
		case 5:
			// quota limits stay fixed in this pass
		default:
			applyClock(e)
		}
	}
	return -1, ""
}

// runManager drives the real Manager: CheckRateLimit then CheckQuota exactly as executeQuery does.
func runManager(evs []event, seq []int) (int, string) {
	vclock.Install(base)
	vclock.SetTick(0)
	db, err := sql.Open("sqlite3", ":memory:")
	if err != nil {
		ev.Unbound(err.Error())
	}
	defer db.Close()
	db.SetMaxOpenConns(1)
	m, err := governance.NewManager(&governance.ManagerConfig{DB: db, Config: &config.GovernanceConfig{}, Logger: zerolog.Nop()})
	if err != nil {
		ev.Unbound("governance.NewManager: " + err.Error())
	}
	const tok = int64(7)
	pol := &governance.Policy{TokenID: tok, RateLimitPerMinute: 1, MaxQueriesPerHour: 2, MaxQueriesPerDay: 3}
	if _, err := m.CreatePolicy(context.Background(), pol); err != nil {
		ev.Unbound("CreatePolicy: " + err.Error())
	}
	limit, maxLimit := 1, 1
	var admitted []int64
	hours, days := map[int64]int{}, map[int64]int{}
	for i, x := range seq {
		e := evs[x]
		switch e.kind {
		case 0:
			t := now()
			before := m.GetTokenUsage(tok)
			rl := m.CheckRateLimit(tok)
			if !rl.Allowed {
				after := m.GetTokenUsage(tok)
				if before != nil && after != nil && (before.QueriesThisHour != after.QueriesThisHour || before.QueriesThisDay != after.QueriesThisDay) {
					return i, "a rate-limited request consumed quota"
				}
				continue
			}
			admitted = append(admitted, t.UnixNano())
			n := 0
			for _, a := range admitted {
				if a > t.UnixNano()-int64(W) && a <= t.UnixNano() {
					n++
				}
			}
			if n > limit {
				return i, fmt.Sprintf("rate limit: %d admitted in the minute ending now, limit in force %d", n, limit)
			}
			if mm := maxInWindow(admitted, int64(W)); mm > maxLimit {
				return i, fmt.Sprintf("rate limit: %d admissions inside one minute, highest limit ever in force %d", mm, maxLimit)
			}
			if q := m.CheckQuota(tok); q.Allowed {
				h, d := t.Unix()/3600, t.Unix()/86400
				hours[h]++
				days[d]++
				if hours[h] > 2 {
					return i, fmt.Sprintf("hourly quota: %d admitted in one clock hour, quota 2", hours[h])
				}
				if days[d] > 3 {
					return i, fmt.Sprintf("daily quota: %d admitted in one UTC day, quota 3", days[d])
				}
			}
		case 5:
			p2 := *pol
			p2.RateLimitPerMinute = e.lim
			if _, err := m.UpdatePolicy(context.Background(), &p2); err != nil {
				ev.Unbound("UpdatePolicy: " + err.Error())
			}
			limit = e.lim
			if e.lim > maxLimit {
				maxLimit = e.lim
			}
		default:
			applyClock(e)
		}
	}
	return -1, ""
}

type runner func(seq []int) (int, string)

// exhaust enumerates every sequence of exactly `depth` events (all shorter ones are prefixes) and
// returns minimised violation classes.
func exhaust(run *ev.Run, label string, evs []event, depth int, f runner, allowed []int) (cases int64, viol int64) {
	var mu sync.Mutex
	found := map[string][]int{}
	var wg sync.WaitGroup
	// the virtual clock is process-global: enumerate sequentially per pass (they are cheap)
	_ = wg
	seq := make([]int, depth)
	var rec func(i int)
	stop := false
	rec = func(i int) {
		if stop {
			return
		}
		if i == depth {
			cases++
			if cases%200000 == 0 && run.TimeUp() {
				stop = true
				return
			}
			if k, _ := f(seq); k >= 0 {
				viol++
				pre := append([]int{}, seq[:k+1]...)
				key := fmt.Sprint(pre)
				mu.Lock()
				if _, ok := found[key]; !ok {
					found[key] = pre
				}
				mu.Unlock()
			}
			return
		}
		for _, e := range allowed {
			seq[i] = e
			rec(i + 1)
		}
	}
	rec(0)
	if stop {
		run.Coverage["exhaustive"] = false
	}
	// minimise each distinct violating prefix; classify by the minimal event list
	classes := map[string]string{}
	for _, pre := range found {
		min := ev.Minimize(pre, func(h []int) bool { k, _ := f(h); return k >= 0 })
		_, why := f(min)
		var names []string
		for _, x := range min {
			names = append(names, evs[x].name)
		}
		classes[label+"|"+strings.Join(names, ",")] = why
	}
	for sig, why := range classes {
		run.Violate(sig, why, map[string]any{"pass": label, "events": strings.Split(strings.SplitN(sig, "|", 2)[1], ",")})
	}
	return
}

// ---- (3) schedules -------------------------------------------------------------------------

func scenarios() []sched.Scenario {
	return []sched.Scenario{{Name: "3 concurrent requests, limit 2", Setup: func() (func(), func() sched.Outcome, func()) {
		vclock.Install(base)
		vclock.SetTick(0)
		var admitted atomic.Int32
		body := func() {
			l := governance.VerifNewSliding(W, 60, 2)
			var wg vsync.WaitGroup
			for i := 0; i < 3; i++ {
				wg.Add(1)
				vsched.Go(fmt.Sprintf("req%d", i), func() {
					defer wg.Done()
					if l.Allow() {
						admitted.Add(1)
					}
				})
			}
			wg.Wait()
		}
		return body, func() sched.Outcome {
			n := admitted.Load()
			if n > 2 {
				return sched.Outcome{Key: fmt.Sprint(n), Violation: "concurrent-requests-exceed-limit", Detail: n}
			}
			return sched.Outcome{Key: fmt.Sprintf("admitted=%d", n)}
		}, nil
	}}}
}

func main() {
	sched.Main(scenarios)
	run := ev.Start("C28", "model_checking")
	evs := events()
	all := make([]int, len(evs))
	for i := range all {
		all[i] = i
	}
	noUpd := all[:11]
	d1, d2, d3 := 5, 5, 4
	if !run.Quick() {
		d1, d2, d3 = 6, 6, 5
	}
	run.Coverage["exhaustive"] = true
	var total, nontrivial int64
	c, v := exhaust(run, "sliding-window(limit=1)", evs, d1, func(s []int) (int, string) { return runLimiter(evs, s, 1) }, all)
	total, nontrivial = total+c, nontrivial+v
	fmt.Printf("sliding-window limit=1: %d sequences of length %d, %d violate\n", c, d1, v)
	c, v = exhaust(run, "sliding-window(limit=2)", evs, d1, func(s []int) (int, string) { return runLimiter(evs, s, 2) }, noUpd)
	total, nontrivial = total+c, nontrivial+v
	fmt.Printf("sliding-window limit=2: %d sequences, %d violate\n", c, v)
	c, v = exhaust(run, "quota(hour=2,day=3)", evs, d2, func(s []int) (int, string) { return runQuota(evs, s, 2, 3) }, noUpd)
	total, nontrivial = total+c, nontrivial+v
	fmt.Printf("quota: %d sequences of length %d, %d violate\n", c, d2, v)
	mgrEvents := []int{0, 3, 5, 7, 8, 11, 12}
	c, v = exhaust(run, "manager(rate=1/min,quota=2/h,3/d)", evs, d3, func(s []int) (int, string) { return runManager(evs, s) }, mgrEvents)
	total, nontrivial = total+c, nontrivial+v
	fmt.Printf("manager: %d sequences of length %d, %d violate\n", c, d3, v)
	vclock.Uninstall()

	scs := scenarios()
	res, err := sched.RunSharded([]string{scs[0].Name}, []sched.Job{{Scenario: 0, Bound: 3, FreeCost: 0}}, 2, 4, run.Deadline, 5*time.Second)
	if err != nil {
		fmt.Println("HARNESS-UNBOUND:", err)
		os.Exit(2)
	}
	execs := 0
	var points int64
	for _, r := range res {
		execs += r.Execs
		points += r.Points
		if len(r.Nondet) > 0 {
			ev.Nondeterminism(strings.Join(r.Nondet, "; "))
		}
		for _, cl := range sched.SortedKeys(r.Violations) {
			run.Violate(cl, "concurrent admissions exceed the limit", r.Violations[cl])
		}
		fmt.Printf("schedules %q: %d schedules, outcomes=%v\n", r.Scenario, r.Execs, r.Outcomes)
		if !r.Complete {
			run.Coverage["exhaustive"] = false
		}
	}
	var names []string
	for _, e := range evs {
		names = append(names, e.name)
	}
	run.Coverage["states"] = total
	run.Coverage["transitions"] = total*int64(d1) + points
	run.Coverage["traces_validated_against_impl"] = total + int64(execs)
	run.Coverage["sequences_with_a_violation"] = nontrivial
	run.Coverage["schedules"] = execs
	run.Coverage["samples"] = []any{map[string]any{"alphabet": names, "depth_limiter": d1, "depth_quota": d2, "depth_manager": d3}}
	run.Coverage["explanation"] = "states = event sequences executed on fresh real limiter/tracker/Manager objects under the virtual clock (every sequence of the stated length over the alphabet; shorter ones are their prefixes); plus all schedules (preemption bound 3) of 3 concurrent requests"
	run.Assume("virtual clock: time inside internal/governance moves only by the listed events; a backward step of 5s is included")
	run.Assume("reference: exact sliding log over (t-W, t] and any W-long interval; calendar hour / UTC day buckets for quotas")
	run.Finish()
}
