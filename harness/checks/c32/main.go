// Package c32 is only a marker: the C32 harness is hosted inside /repo/cmd/arc (package main) by
// overlay, because its WAL-replay leg drives the unexported createWALRecoveryCallback /
// createColumnarRecoveryCallback. See /verif/harness/inpkg/arcmain/zz_verif_c32.go.
package main

func main() {}
