// C06 — The WAL reader returns only intact entries in append order.
// Real wal.Writer produces the files; every truncation offset and every single-byte corruption
// (4 substitution values per position) of every file is materialised and the real
// Recovery.RecoverWithOptions (Reader.ReadAll + callbacks) is run on it.
package main

import (
	"context"
	"encoding/binary"
	"errors"
	"fmt"
	"github.com/basekick-labs/arc/zzverif/shim/vclock"
	"hash/crc32"
	"os"
	"path/filepath"
	"reflect"
	"sort"
	"strings"
	"sync"
	"sync/atomic"
	"time"

	"github.com/Basekick-Labs/msgpack/v6"
	"github.com/basekick-labs/arc/internal/wal"
	"github.com/basekick-labs/arc/zzverif/engine/ev"
	"github.com/rs/zerolog"
)

// one appended entry, with the value the reader must reproduce (or nothing)
type appended struct {
	shape string
	do    func(w *wal.Writer, i int) error
	want  func(i int) *got // nil = undecodable by design (0-byte payload)
}

type got struct {
	DB   string
	Kind string // "rows" | "columnar"
	M    string
	Val  any
}

func norm(v any) any {
	switch x := v.(type) {
	case int8:
		return int64(x)
	case int16:
		return int64(x)
	case int32:
		return int64(x)
	case int:
		return int64(x)
	case uint8:
		return int64(x)
	case uint16:
		return int64(x)
	case uint32:
		return int64(x)
	case uint64:
		return int64(x)
	case float32:
		return float64(x)
	case []byte:
		return string(x)
	case []interface{}:
		o := make([]any, len(x))
		for i := range x {
			o[i] = norm(x[i])
		}
		return o
	case map[string]interface{}:
		o := map[string]any{}
		for k, e := range x {
			o[k] = norm(e)
		}
		return o
	case []map[string]interface{}:
		o := make([]any, len(x))
		for i := range x {
			o[i] = norm(x[i])
		}
		return o
	case map[string][]interface{}:
		o := map[string]any{}
		for k, e := range x {
			o[k] = norm(e)
		}
		return o
	}
	return v
}

func colPayload(i int) ([]byte, *got) {
	m := fmt.Sprintf("c%d", i)
	cols := map[string]interface{}{"time": []interface{}{int64(1000 + i), int64(2000 + i)}, "v": []interface{}{1.5, float64(i)}, "s": []interface{}{"x", nil}}
	b, err := msgpack.Marshal(map[string]interface{}{"m": m, "columns": cols})
	if err != nil {
		panic(err)
	}
	return b, &got{Kind: "columnar", M: m, Val: norm(cols)}
}

func frame(payload []byte, ts uint64) []byte {
	e := make([]byte, 16+len(payload))
	binary.BigEndian.PutUint32(e[0:4], uint32(len(payload)))
	binary.BigEndian.PutUint64(e[4:12], ts)
	binary.BigEndian.PutUint32(e[12:16], crc32.ChecksumIEEE(payload))
	copy(e[16:], payload)
	return e
}

// embedding payload: a row-format record whose binary field contains a perfectly framed WAL entry
// (for a record that was never appended), placed at payload offset 16.
var embedCache sync.Map

// embedPayloadB: same layout, but the total payload length is tuned to 144 (0x90) so that flipping
// bit 7 of the length's low byte yields 16 = the offset of the embedded frame: the reader then sees
// an in-range length, a checksum mismatch, and resumes exactly on the embedded header.
func embedPayloadB(i int) []byte {
	if v, ok := embedCache.Load(1000 + i); ok {
		return v.([]byte)
	}
	fake, _ := msgpack.Marshal([]map[string]interface{}{{"measurement": "FABRICATED", "i": int64(i)}})
	inner := frame(fake, 42)
	if len(inner) > 128 {
		panic("inner too long")
	}
	val := append([]byte{0xFF, 0xFF, 0xFF, 0xFF, 0xFF, 0xFF, 0xFF}, inner...)
	for len(val) < 7+128 {
		val = append(val, 0xFF)
	}
	b := []byte{0x91, 0x81, 0xA1, 's', 0xC6, 0, 0, 0, 0}
	binary.BigEndian.PutUint32(b[5:9], uint32(len(val)))
	b = append(b, val...)
	if len(b) != 144 {
		panic(fmt.Sprint("embedPayloadB length ", len(b)))
	}
	v, _ := embedCache.LoadOrStore(1000+i, b)
	return v.([]byte)
}

func embedPayload(i int) []byte {
	if v, ok := embedCache.Load(i); ok {
		return v.([]byte)
	}
	b := embedPayloadBuild(i)
	v, _ := embedCache.LoadOrStore(i, b) // Go map marshalling order is random: build once per i
	return v.([]byte)
}

func embedPayloadBuild(i int) []byte {
	fake, _ := msgpack.Marshal([]map[string]interface{}{{"measurement": "FABRICATED", "time": int64(9), "i": int64(i)}})
	inner := frame(fake, 42)
	val := append([]byte{0xFF, 0xFF, 0xFF, 0xFF, 0xFF, 0xFF, 0xFF}, inner...) // 7 pad bytes: value starts at payload offset 9
	val = append(val, []byte(fmt.Sprintf("tail%d", i))...)
	b := []byte{0x91, 0x81, 0xA1, 's', 0xC6, 0, 0, 0, 0}
	binary.BigEndian.PutUint32(b[5:9], uint32(len(val)))
	return append(b, val...)
}

func shapes() []appended {
	long := strings.Repeat("d", 255)
	env := func(name, db string) appended {
		return appended{shape: name,
			do:   func(w *wal.Writer, i int) error { p, _ := colPayload(i); return w.AppendRawWithMeta(db, p) },
			want: func(i int) *got { _, g := colPayload(i); g.DB = db; return g }}
	}
	return []appended{
		{shape: "row", do: func(w *wal.Writer, i int) error {
			return w.Append([]map[string]interface{}{{"measurement": fmt.Sprintf("r%d", i), "time": int64(i), "v": 1.5, "t": "a"}, {"measurement": fmt.Sprintf("r%d", i), "time": int64(i + 1), "v": nil}})
		}, want: func(i int) *got {
			return &got{Kind: "rows", Val: norm([]map[string]interface{}{{"measurement": fmt.Sprintf("r%d", i), "time": int64(i), "v": 1.5, "t": "a"}, {"measurement": fmt.Sprintf("r%d", i), "time": int64(i + 1), "v": nil}})}
		}},
		{shape: "raw-columnar", do: func(w *wal.Writer, i int) error { p, _ := colPayload(i); return w.AppendRaw(p) },
			want: func(i int) *got { _, g := colPayload(i); return g }},
		env("env-db-empty", ""),
		env("env-db-d", "d"),
		env("env-db-255", long),
		{shape: "embedding-row", do: func(w *wal.Writer, i int) error { return w.AppendRaw(embedPayload(i)) },
			want: func(i int) *got {
				var recs []map[string]interface{}
				if err := msgpack.Unmarshal(embedPayload(i), &recs); err != nil {
					panic(err)
				}
				return &got{Kind: "rows", Val: norm(recs)}
			}},
		{shape: "embedding-row-b", do: func(w *wal.Writer, i int) error { return w.AppendRaw(embedPayloadB(i)) },
			want: func(i int) *got {
				var recs []map[string]interface{}
				if err := msgpack.Unmarshal(embedPayloadB(i), &recs); err != nil {
					panic(err)
				}
				return &got{Kind: "rows", Val: norm(recs)}
			}},
		{shape: "zero-byte", do: func(w *wal.Writer, i int) error { return w.AppendRaw([]byte{}) }, want: func(i int) *got { return nil }},
	}
}

type walFile struct {
	name string
	data []byte
	// end offsets of each entry in this file and its global index
	ends []int
	idx  []int
}

var errFraming = errors.New("framing")
var framingSkipped, baselineViol int64
var framingMsg atomic.Value

// produce runs the real writer over the log and returns the files in creation order.
func produce(dir string, log []int, sh []appended, rotateAt int64) ([]walFile, error) {
	os.RemoveAll(dir)
	cfg := &wal.WriterConfig{WALDir: dir, SyncMode: wal.SyncModeAsync, MaxSizeBytes: rotateAt, Logger: zerolog.Nop(), BufferSize: 64}
	w, err := wal.NewWriter(cfg)
	if err != nil {
		return nil, err
	}
	for i, s := range log {
		if err := sh[s].do(w, i); err != nil {
			return nil, err
		}
	}
	if err := w.Close(); err != nil {
		return nil, err
	}
	names, _ := filepath.Glob(filepath.Join(dir, "*.wal"))
	sort.Strings(names) // file names embed creation time with ns resolution
	var out []walFile
	var framing error
	gi := 0
	for _, n := range names {
		b, err := os.ReadFile(n)
		if err != nil {
			return nil, err
		}
		f := walFile{name: filepath.Base(n), data: b}
		off := wal.WALFileHeaderSize
		for off+16 <= len(b) {
			l := int(binary.BigEndian.Uint32(b[off : off+4]))
			off += 16 + l
			f.ends = append(f.ends, off)
			f.idx = append(f.idx, gi)
			gi++
		}
		if off != len(b) && framing == nil {
			framing = fmt.Errorf("%w: writer output does not follow header+entries framing (file %s off=%d len=%d)", errFraming, f.name, off, len(b))
		}
		out = append(out, f)
	}
	if gi != len(log) && framing == nil {
		framing = fmt.Errorf("%w: writer produced %d framed entries for %d appends", errFraming, gi, len(log))
	}
	// with a framing error the raw files are still returned: the caller first asks the REAL recovery whether the
	// untouched output yields every appended entry (if not, that is the property, not a harness problem)
	return out, framing
}

// recoverDir writes files (with their original relative mtime order) and runs the real recovery.
func recoverDir(dir string, files []walFile) ([]got, error) {
	os.RemoveAll(dir)
	os.MkdirAll(dir, 0o700)
	base := time.Unix(1700000000, 0)
	for i, f := range files {
		p := filepath.Join(dir, f.name)
		if err := os.WriteFile(p, f.data, 0o600); err != nil {
			return nil, err
		}
		os.Chtimes(p, base.Add(time.Duration(i)*time.Second), base.Add(time.Duration(i)*time.Second))
	}
	var out []got
	rec := wal.NewRecovery(dir, zerolog.Nop())
	_, err := rec.RecoverWithOptions(context.Background(), func(ctx context.Context, records []map[string]interface{}) error {
		out = append(out, got{Kind: "rows", Val: norm(records)})
		return nil
	}, &wal.RecoveryOptions{ColumnarCallback: func(ctx context.Context, database, measurement string, columns map[string][]interface{}) error {
		out = append(out, got{Kind: "columnar", DB: database, M: measurement, Val: norm(columns)})
		return nil
	}})
	return out, err
}

// judge: recovered must be a subsequence of wants (by deep equality, in order); returns the matched indices.
func judge(wants []*got, rec []got) (matched []int, bad string) {
	j := 0
	for _, r := range rec {
		found := false
		for j < len(wants) {
			if wants[j] != nil && reflect.DeepEqual(*wants[j], r) {
				matched = append(matched, j)
				j++
				found = true
				break
			}
			j++
		}
		if !found {
			// classify: altered/fabricated vs out-of-order
			for k, w := range wants {
				if w != nil && reflect.DeepEqual(*w, r) {
					return matched, fmt.Sprintf("out-of-order-or-duplicate(entry %d)", k)
				}
			}
			return matched, "fabricated-or-altered"
		}
	}
	return matched, ""
}

func main() {
	run := ev.Start("C06", "fault_enumeration")
	sh := shapes()
	maxLen := 2
	if !run.Quick() {
		maxLen = 3
	}
	// all logs of length 1..maxLen over the shapes; each with and without forced rotation
	var logs [][]int
	var gen func(cur []int)
	gen = func(cur []int) {
		if len(cur) > 0 {
			logs = append(logs, append([]int{}, cur...))
		}
		if len(cur) == maxLen {
			return
		}
		for s := range sh {
			gen(append(cur, s))
		}
	}
	gen(nil)
	subs := []byte{0x01, 0x80, 0x00, 0xFF} // ^0x01, ^0x80, :=0x00, :=0xFF
	var evals, nontrivial, reads int64
	samples := ev.NewSamples(5)
	type job struct {
		log    []int
		rotate int64
	}
	var jobs []job
	for _, l := range logs {
		jobs = append(jobs, job{l, 1 << 30})
		if len(l) >= 2 {
			jobs = append(jobs, job{l, 200}) // forces a rotation after ~1-2 entries
		}
	}
	var next int64 = -1
	var wg sync.WaitGroup
	complete := int32(1)
	// the writer's clock is virtual (1µs per reading): rotation file names, which embed the time, do not
	// depend on how fast this machine happens to be
	vclock.Install(time.Unix(1_700_000_000, 0))
	root := fmt.Sprintf("/dev/shm/verif.c06.%d", os.Getpid())
	defer os.RemoveAll(root)
	for wk := 0; wk < 16; wk++ {
		wg.Add(1)
		go func(wk int) {
			defer wg.Done()
			dir := filepath.Join(root, fmt.Sprint(wk))
			for {
				ji := int(atomic.AddInt64(&next, 1))
				if ji >= len(jobs) {
					return
				}
				if run.TimeUp() {
					atomic.StoreInt32(&complete, 0)
					return
				}
				jb := jobs[ji]
				files, err := produce(dir, jb.log, sh, jb.rotate)
				framingErr := err
				if err != nil && !errors.Is(err, errFraming) {
					ev.Unbound("C06 produce: " + err.Error())
				}
				wants := make([]*got, len(jb.log))
				var shapeNames []string
				for i, s := range jb.log {
					wants[i] = sh[s].want(i)
					shapeNames = append(shapeNames, sh[s].shape)
				}
				desc := fmt.Sprintf("%v rotate=%v files=%d", shapeNames, jb.rotate < 1<<20, len(files))
				// baseline: intact files must yield every decodable entry
				base, err := recoverDir(dir, files)
				if err != nil {
					ev.Unbound("C06 baseline recovery: " + err.Error())
				}
				m, bad := judge(wants, base)
				nd := 0
				for _, w := range wants {
					if w != nil {
						nd++
					}
				}
				if bad != "" || len(m) != nd {
					atomic.AddInt64(&baselineViol, 1)
					run.Violate("intact-log-not-fully-recovered|"+strings.Join(shapeNames, ","), "recovery of an uncorrupted log did not return every appended entry: "+bad, map[string]any{"log": shapeNames, "rotate": jb.rotate, "files": len(files), "framing": fmt.Sprint(framingErr)})
					continue
				}
				if framingErr != nil {
					// recovery returns everything, yet the harness cannot locate the entries to corrupt them: skip this
					// log (other logs may still show the property broken); reported as HARNESS-UNBOUND at the end
					// unless a violation was found
					if atomic.AddInt64(&framingSkipped, 1) == 1 {
						framingMsg.Store(framingErr.Error())
					}
					continue
				}
				samples.Add(map[string]any{"log": shapeNames, "files": len(files), "bytes": len(files[0].data)})
				for fi := range files {
					orig := files[fi].data
					try := func(kind string, pos int, mut []byte, mustHave func(int) bool) {
						cp := append([]walFile{}, files...)
						cp[fi].data = mut
						rec, err := recoverDir(dir, cp)
						atomic.AddInt64(&evals, 1)
						if err != nil {
							return // whole-file rejection yields nothing: allowed
						}
						matched, bad := judge(wants, rec)
						if bad != "" {
							field := fieldOf(files[fi], pos)
							run.Violate(fmt.Sprintf("%s|%s@%s|%s", bad, kind, field, shapeNames[entryAt(files[fi], pos)]),
								"recovery returned an entry that was never appended (or out of order) after "+kind+" at "+field,
								map[string]any{"log": shapeNames, "rotate": jb.rotate, "file": fi, "kind": kind, "offset": pos, "recovered": rec})
							return
						}
						if len(matched) != nd {
							atomic.AddInt64(&nontrivial, 1)
						}
						if mustHave != nil {
							has := map[int]bool{}
							for _, x := range matched {
								has[x] = true
							}
							for gi, w := range wants {
								if w != nil && mustHave(gi) && !has[gi] {
									run.Violate(fmt.Sprintf("complete-entry-hidden-by-truncation|%s", shapeNames[gi]),
										"an entry completely written before the truncation point was not recovered",
										map[string]any{"log": shapeNames, "rotate": jb.rotate, "file": fi, "truncate_at": pos, "missing_entry": gi})
									return
								}
							}
						}
					}
					// every truncation offset of this file
					for t := 0; t < len(orig); t++ {
						t := t
						try("truncate", t, orig[:t], func(gi int) bool {
							for k, e := range files[fi].ends {
								if files[fi].idx[k] == gi {
									return e <= t
								}
							}
							return true // entries in other files are untouched
						})
					}
					// every single-byte corruption
					for p := 0; p < len(orig); p++ {
						for si, sb := range subs {
							mut := append([]byte{}, orig...)
							switch si {
							case 0, 1:
								mut[p] ^= sb
							default:
								if mut[p] == sb {
									continue
								}
								mut[p] = sb
							}
							try("corrupt", p, mut, func(gi int) bool {
								// entries in OTHER files must survive
								for _, x := range files[fi].idx {
									if x == gi {
										return false
									}
								}
								return true
							})
						}
					}
				}
				atomic.AddInt64(&reads, 1)
				_ = desc
			}
		}(wk)
	}
	wg.Wait()
	if n := atomic.LoadInt64(&framingSkipped); n > 0 && atomic.LoadInt64(&baselineViol) == 0 {
		ev.Unbound(fmt.Sprintf("C06 produce: %d logs skipped, first: %v", n, framingMsg.Load()))
	}
	run.Coverage["logs_skipped_unparseable_writer_output"] = atomic.LoadInt64(&framingSkipped)
	run.Coverage["evaluations"] = evals
	run.Coverage["distinct_nontrivial"] = nontrivial
	run.Coverage["rule"] = "logs = all sequences of length 1.." + fmt.Sprint(maxLen) + " over 8 payload shapes (row, raw columnar, enveloped db ''/d/255 chars, two rows embedding a framed entry at the offsets a corrupted length resumes on, 0-byte), each with and without forced rotation; variants = every truncation offset and every byte position x {^0x01,^0x80,:=0x00,:=0xFF} of every file; non-trivial = the variant loses at least one entry relative to the intact log (each (log,file,kind,offset,value) is a distinct case)"
	run.Coverage["samples"] = samples.List()
	run.Coverage["histories"] = len(jobs)
	run.Coverage["exhaustive"] = complete == 1
	run.Assume("timestamps in entry headers are not covered by the CRC and are not part of the payload the property speaks of; they are not judged")
	run.Assume("single-byte corruption and pure truncation only (no multi-byte bursts)")
	run.Finish()
}

// fieldOf names the region of the file an offset falls in (file header, entry length/timestamp/crc, envelope, payload)
func fieldOf(f walFile, pos int) string {
	if pos < wal.WALFileHeaderSize {
		return "file-header"
	}
	start := wal.WALFileHeaderSize
	for _, e := range f.ends {
		if pos < e {
			o := pos - start
			switch {
			case o < 4:
				return fmt.Sprintf("entry-length[%d]", o)
			case o < 12:
				return "entry-timestamp"
			case o < 16:
				return "entry-crc"
			default:
				return "payload"
			}
		}
		start = e
	}
	return "eof"
}

func entryAt(f walFile, pos int) int {
	for k, e := range f.ends {
		if pos < e {
			return f.idx[k]
		}
	}
	if len(f.idx) == 0 {
		return 0
	}
	return f.idx[len(f.idx)-1]
}
