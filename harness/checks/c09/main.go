// Package c09 is only a marker: the C09 harness is hosted inside /repo/cmd/arc (package main) by
// overlay, because compaction jobs run in a SUBPROCESS that re-executes os.Executable() with
// `compact --job-stdin`; hosted there, the re-exec is served by the real runCompactSubcommand.
// See /verif/harness/inpkg/arcmain/zz_verif_c09.go.
package main

func main() {}
