package main

// C09 — Compaction never loses or duplicates rows, even across crashes.
//
// Compaction jobs run in a SUBPROCESS: compaction.RunJobInSubprocess re-executes os.Executable()
// with `compact --job-stdin`. This binary therefore serves that re-exec itself (main below): it arms
// the os-level fault shim (vos, compiled into internal/storage/local.go and internal/compaction by
// overlay) for exactly one job and calls the REAL compaction.RunSubprocessJob, exactly as
// cmd/arc's runCompactSubcommand does (read the job JSON from stdin, print the result JSON).
// (The arc binary itself is not used as host: its start-up costs 1-4 s per job process here because
// of package initialisers unrelated to compaction, which makes the enumeration unaffordable.)
// A "kill" is a real SIGKILL of the job process: from the k-th mutating file-system call on nothing
// reaches the disk any more (vos crash semantics), nothing is written to stdout, and the process
// kills itself, so the parent (the real compaction.Manager) sees "signal: killed" -> recoverable ->
// adaptive split-and-retry.
//
// Enumerated: partitions (small Parquet files written by the real ArrowWriter, stored under file
// names dated in the past) x fault modes x EVERY mutating file-system call of the target job:
//   job-kill     the job subprocess is killed at call k; the parent's cycle goes on (adaptive split)
//   node-crash   the job is killed at call k and the parent dies with it: the crash state itself is
//                judged, then a fresh Manager starts with manifest recovery
//   job-error    call k of the job subprocess fails with EIO (no kill)
//   inproc-error Job.Run called directly in-process, call k fails with EIO, then normal cycles
// followed by later cycles (virtual clock +2h each) until the listing stops changing (<=3).
// Oracle: DuckDB scan of every *.parquet of the measurement, before vs after. For partitions with
// dedup metadata the key of a row is (every tag declared by ANY file of the measurement, time): rows
// that differ in any such tag must both survive (partitions tag*: the files disagree on arc:tags).
//
// TIME is an enumerated dimension too: compaction derives file names from the wall clock (Job.compactFiles,
// the parent's JobID), and the job processes of one cycle (a killed job, the two halves of its split-and-
// retry, the sibling batches, the daily job) share database/partition/tier and partly the BatchNumber. The
// clock of package compaction is virtual in the parent and in every job process; a job process reads
// "parent's clock at the start of the cycle + (k+1)*gap" for the k-th launch of the cycle, and the gap is
// part of the scenario (c09Gaps: 1 ms = all within one wall-clock second, 1 s, 1 min, 1 h). Besides the row
// oracle, every scenario asserts that two different job processes with different inputs never write the
// same output path (c09Env.distinctOutputs).
//
// The thorough tier is the full product (all modes x every call, on every partition). The quick
// tier is a smaller, completely enumerated space (each job launch costs ~0.5 CPU-seconds and a
// scenario launches ~5 jobs): the crash-free run of every quick partition, every call for one
// representative partition per class and one call per file step kind for the other shapes of the
// tag-disagreement class; see c09Part.Quick and the evidence "rule".

import (
	"context"
	"database/sql"
	"encoding/json"
	"fmt"
	"io"
	"io/fs"
	"os"
	"path/filepath"
	"sort"
	"strconv"
	"strings"
	"syscall"
	"time"

	"github.com/basekick-labs/arc/internal/compaction"
	"github.com/basekick-labs/arc/internal/config"
	"github.com/basekick-labs/arc/internal/ingest"
	"github.com/basekick-labs/arc/internal/storage"
	"github.com/basekick-labs/arc/zzverif/engine/ev"
	"github.com/basekick-labs/arc/zzverif/shim/vclock"
	"github.com/basekick-labs/arc/zzverif/shim/vos"
	"github.com/rs/zerolog"
	"golang.org/x/sys/unix"
)

func main() {
	if len(os.Args) > 1 && os.Args[1] == "compact" {
		c09JobProcess()
		return
	}
	verifC09()
}

// ---------------------------------------------------------------------------------------------
// job subprocess side

type c09Fault struct {
	Tier      string `json:"tier"`
	Partition string `json:"partition"`
	Batch     int    `json:"batch"`
	Nth       int    `json:"nth"` // n-th launch of a job with this identity (0 = first attempt)
	K         int    `json:"k"`
	Torn      int    `json:"torn"`
	Mode      string `json:"mode"` // kill | fail
}

// c09Plan is what the parent hands to every job process of one cycle: its own virtual instant when the
// cycle started, the number of job processes launched before this cycle and the gap between two launches.
// The k-th job process launched in the cycle (k = 0, 1, ...) runs at NowNS + (k+1)*GapNS.
type c09Plan struct {
	NowNS   int64      `json:"now_ns"`
	SeqBase int        `json:"seq_base"`
	GapNS   int64      `json:"gap_ns"`
	Faults  []c09Fault `json:"faults"`
}

// c09Gaps: the enumerated placements of the job processes of one cycle on the virtual time line. Launches are
// strictly ordered and uniformly spaced, so under gap g ANY two job processes of a cycle (killed job and its
// retried halves, the two halves, sibling batches, the daily job) differ by a multiple of g:
//
//	same-second  1 ms apart: all of them read the same wall-clock second (and minute, hour, day)
//	""           1 s apart: different second, same minute (the placement every scenario had before)
//	minute       1 min apart: across a minute boundary, same second-of-minute, same hour
//	hour         1 h apart: across an hour boundary (later cycles may cross midnight), same minute and second
var c09Gaps = map[string]time.Duration{"same-second": time.Millisecond, "": time.Second, "minute": time.Minute, "hour": time.Hour}
var c09TimedGaps = []string{"same-second", "minute", "hour"}

func c09GapName(g string) string {
	if g == "" {
		return "next-second"
	}
	return g
}

type c09JobLog struct {
	Seq       int       `json:"seq"`
	Tier      string    `json:"tier"`
	Partition string    `json:"partition"`
	Batch     int       `json:"batch"`
	Nth       int       `json:"nth"`
	Files     []string  `json:"files"`
	Ops       []vos.Op  `json:"ops"`
	Dead      bool      `json:"dead"`
	Instant   int64     `json:"instant_ns"` // what the job process's clock showed when it started
	Fault     *c09Fault `json:"fault,omitempty"`
	CPUStart  float64   `json:"cpu_s_at_main,omitempty"` // debug: CPU seconds used before main / by the whole job
	CPUJob    float64   `json:"cpu_s_total,omitempty"`
	WallJob   float64   `json:"wall_s_job,omitempty"`
}

func c09CPU() float64 {
	var ru syscall.Rusage
	syscall.Getrusage(syscall.RUSAGE_SELF, &ru)
	return float64(ru.Utime.Sec+ru.Stime.Sec) + float64(ru.Utime.Usec+ru.Stime.Usec)/1e6
}

func c09Claim(dir, prefix string) int {
	for i := 0; ; i++ {
		f, err := os.OpenFile(filepath.Join(dir, fmt.Sprintf("%s.%d", prefix, i)), os.O_CREATE|os.O_EXCL|os.O_WRONLY, 0o600)
		if err == nil {
			f.Close()
			return i
		}
		if !os.IsExist(err) {
			fmt.Fprintf(os.Stderr, "verif-c09: claim: %v\n", err)
			os.Exit(3)
		}
	}
}

func c09IDKey(tier, partition string, batch int) string {
	return tier + "." + strings.ReplaceAll(partition, "/", "_") + ".b" + strconv.Itoa(batch)
}

// c09JobProcess is the `compact --job-stdin` side: the glue of cmd/arc's runCompactSubcommand (job
// JSON on stdin -> compaction.RunSubprocessJob -> result JSON on stdout, "error: ..." + exit 1 when
// the job could not be set up) around the fault plan of the scenario.
func c09JobProcess() {
	cpu0, wall0 := c09CPU(), time.Now()
	data, err := io.ReadAll(os.Stdin)
	var cfg compaction.SubprocessJobConfig
	if err == nil {
		err = json.Unmarshal(data, &cfg)
	}
	if err != nil {
		fmt.Fprintf(os.Stderr, "error: invalid job config: %v\n", err)
		os.Exit(1)
	}
	planDir := os.Getenv("VERIF_C09_PLAN")
	var plan c09Plan
	if b, err := os.ReadFile(filepath.Join(planDir, "plan.json")); err != nil || json.Unmarshal(b, &plan) != nil {
		fmt.Fprintf(os.Stderr, "verif-c09: no plan: %v\n", err)
		os.Exit(3)
	}
	seq := c09Claim(planDir, "seq")
	nth := c09Claim(planDir, "nth."+c09IDKey(cfg.Tier, cfg.PartitionPath, cfg.BatchNumber))
	// the job process's clock is the parent's virtual clock (its reading at the start of the cycle) plus the
	// scenario's gap for every launch of the cycle so far: time is an enumerated dimension, not an accident
	gap := plan.GapNS
	if gap <= 0 {
		gap = int64(time.Second)
	}
	inst := plan.NowNS + int64(seq-plan.SeqBase+1)*gap
	vclock.Install(time.Unix(0, inst))
	lg := c09JobLog{Seq: seq, Tier: cfg.Tier, Partition: cfg.PartitionPath, Batch: cfg.BatchNumber, Nth: nth, Files: cfg.Files, Instant: inst}
	crash, torn, failK := -1, -1, -1
	for i := range plan.Faults {
		f := plan.Faults[i]
		if f.Tier == cfg.Tier && f.Partition == cfg.PartitionPath && f.Batch == cfg.BatchNumber && f.Nth == nth {
			lg.Fault = &f
			if f.Mode == "kill" {
				crash, torn = f.K, f.Torn
			} else {
				failK = f.K
			}
		}
	}
	vos.Start(crash, torn)
	if failK >= 0 {
		vos.FailAt(failK, syscall.EIO)
	}
	result, jobErr := compaction.RunSubprocessJob(&cfg)
	lg.Ops, lg.Dead = vos.Stop()
	if os.Getenv("VERIF_C09_DEBUG") != "" {
		lg.CPUStart, lg.CPUJob, lg.WallJob = cpu0, c09CPU(), time.Since(wall0).Seconds()
		fmt.Fprintf(os.Stderr, "C09-TIMING job cpu_at_main=%.2fs cpu_total=%.2fs wall=%.2fs\n", lg.CPUStart, lg.CPUJob, lg.WallJob)
	}
	b, _ := json.Marshal(lg)
	os.WriteFile(filepath.Join(planDir, fmt.Sprintf("job.%d.json", seq)), b, 0o600)
	if lg.Dead {
		// the process "died" at call k: nothing after it reached the disk, nothing reaches stdout
		syscall.Kill(os.Getpid(), syscall.SIGKILL)
		time.Sleep(30 * time.Second)
		os.Exit(99)
	}
	if jobErr != nil {
		fmt.Fprintf(os.Stderr, "error: %v\n", jobErr)
		os.Exit(1)
	}
	if err := json.NewEncoder(os.Stdout).Encode(result); err != nil {
		fmt.Fprintf(os.Stderr, "error: failed to encode result: %v\n", err)
		os.Exit(1)
	}
}

// ---------------------------------------------------------------------------------------------
// partitions

type c09File struct {
	Hour      int
	Cols      []string
	Rows      []map[string]any // "time": seconds into the hour; missing key = NULL
	Tags      []string
	DedupTime bool
}

type c09Part struct {
	cfSigs   map[string]string // violation kind -> signature seen in the crash-free run of this partition (from the recording)
	Name     string
	Files    []c09File
	MaxBatch int
	SortKeys []string
	// Quick: how the partition takes part in the quick tier ("" = thorough only):
	//   full      crash-free + job-kill at every storage mutation of the first hourly job + node-crash and job-error at one point per file step kind
	//             + the time dimension: crash-free under each of the other launch gaps (c09TimedGaps); job-kill at one point per file step
	//             kind with all job processes in one second, at three points (see c09BuildScenarios) one minute / one hour apart
	//   storage   crash-free + job-kill at every storage mutation of the first hourly job (no phase kills)
	//   kinds     crash-free + job-kill at one fault point per distinct file step kind of the first hourly job
	//   crashfree crash-free only
	Quick string
}

const (
	c09DB   = "db1"
	c09Meas = "m"
)

var c09Day = time.Date(2026, 3, 1, 0, 0, 0, 0, time.UTC)
var c09T0 = time.Date(2026, 3, 12, 12, 0, 0, 0, time.UTC)

func r(kv ...any) map[string]any {
	m := map[string]any{}
	for i := 0; i+1 < len(kv); i += 2 {
		m[kv[i].(string)] = kv[i+1]
	}
	return m
}

func c09Parts() []c09Part {
	var ps []c09Part
	plain := func(name string, n, maxBatch int, quick string) c09Part {
		p := c09Part{Name: name, MaxBatch: maxBatch, Quick: quick}
		for i := 0; i < n; i++ {
			f := c09File{Hour: 5, Cols: []string{"time", "host", "v", "n"}}
			for j := 0; j < 3; j++ {
				row := r("time", 10*i+j, "host", fmt.Sprintf("h%d", j%2), "v", float64(i*10+j))
				if j != 1 {
					row["n"] = int64(j + i)
				}
				f.Rows = append(f.Rows, row)
			}
			if i == 0 || i == 1 || i == n-1 {
				// the SAME row in three files: without dedup metadata all three copies must survive
				f.Rows = append(f.Rows, r("time", 900, "host", "hx", "v", 1.5, "n", int64(7)))
			}
			p.Files = append(p.Files, f)
		}
		return p
	}
	ps = append(ps, plain("plain6", 6, 4, "full"))
	{
		p := c09Part{Name: "tags6dup", MaxBatch: 4, Quick: "crashfree"}
		for i := 0; i < 6; i++ {
			f := c09File{Hour: 5, Cols: []string{"time", "host", "v"}, Tags: []string{"host"}}
			f.Rows = append(f.Rows, r("time", 100+i, "host", "a", "v", float64(i)))
			switch i {
			case 0, 2: // duplicate key inside batch 1
				f.Rows = append(f.Rows, r("time", 500, "host", "a", "v", float64(1000+i)))
			case 1: // duplicate key across the batches (files 1 and 4)
				f.Rows = append(f.Rows, r("time", 600, "host", "b", "v", float64(2000+i)))
			case 3: // same time, other host: a different key
				f.Rows = append(f.Rows, r("time", 500, "host", "b", "v", float64(3000+i)))
			case 4:
				f.Rows = append(f.Rows, r("time", 600, "host", "b", "v", float64(2000+i)), r("time", 700, "host", "a", "v", float64(4000+i)))
			case 5: // duplicate key inside batch 2
				f.Rows = append(f.Rows, r("time", 700, "host", "a", "v", float64(4000+i)))
			}
			p.Files = append(p.Files, f)
		}
		ps = append(ps, p)
	}
	{
		p := c09Part{Name: "dedupt5", MaxBatch: 3, Quick: "crashfree"}
		for i := 0; i < 5; i++ {
			f := c09File{Hour: 5, Cols: []string{"time", "v"}, DedupTime: true}
			f.Rows = append(f.Rows, r("time", 60*i, "v", float64(i)), r("time", 60*i+1))
			switch i {
			case 0, 1:
				f.Rows = append(f.Rows, r("time", 3000, "v", float64(100+i)))
			case 2, 3:
				f.Rows = append(f.Rows, r("time", 3100, "v", float64(200+i)))
			}
			p.Files = append(p.Files, f)
		}
		ps = append(ps, p)
	}
	// --- class "the input files of one batch disagree on arc:tags" --------------------------------
	// Six files in one hour, max 4 per batch: batch 1 = files 0-3 (split halves {0,1} {2,3} after a
	// kill), batch 2 = files 4,5; the daily job then merges the two outputs. Rows at second 500/600/
	// 800 agree on host+time (the NARROWER key) and differ only in a tag that some other file of the
	// measurement does not declare: inside batch 1, between the batches (they meet in the daily job),
	// inside batch 2. Rows at second 700 are TRUE duplicates (no NULL tag) inside and across batches.
	// A column that is a tag somewhere is carried only by files that declare it (or, for host, by
	// files without any tag metadata), so a file's own declaration is never wider than its columns.
	hr, h_, hd := []string{"host", "region"}, []string{"host"}, []string{"host", "dc"}
	tagPart := func(name, quick string, maxBatch int, tags [][]string, rows [][]map[string]any) c09Part {
		p := c09Part{Name: name, MaxBatch: maxBatch, Quick: quick}
		for i := range tags {
			f := c09File{Hour: 5, Cols: []string{"time", "host"}, Tags: tags[i]}
			for _, t := range tags[i] {
				if t != "host" {
					f.Cols = append(f.Cols, t)
				}
			}
			f.Cols = append(f.Cols, "v")
			for j, row := range rows[i] {
				row["v"] = float64(100*i + j)
				f.Rows = append(f.Rows, row)
			}
			p.Files = append(p.Files, f)
		}
		return p
	}
	shrinkTags := [][]string{hr, hr, hr, h_, hr, h_}
	shrinkRows := func() [][]map[string]any {
		return [][]map[string]any{
			{r("time", 500, "host", "h1", "region", "us"), r("time", 700, "host", "h2", "region", "us"), r("time", 10, "host", "a", "region", "us")},
			{r("time", 500, "host", "h1", "region", "eu"), r("time", 11, "host", "a", "region", "us")},
			{r("time", 600, "host", "h1", "region", "us"), r("time", 700, "host", "h2", "region", "us")},
			{r("time", 500, "host", "h1"), r("time", 600, "host", "h1"), r("time", 13, "host", "a")},
			{r("time", 600, "host", "h1", "region", "eu"), r("time", 800, "host", "h1", "region", "us"), r("time", 800, "host", "h1", "region", "eu"), r("time", 700, "host", "h2", "region", "us")},
			{r("time", 800, "host", "h1"), r("time", 15, "host", "a")},
		}
	}
	// a lone [host] file in the NEXT hour: the hourly tier leaves it alone (fewer than MinFiles), so the daily job merges it
	// RAW with the compacted outputs of hour 5: rows of an output that differ only in region meet a newest input
	// that declares only host
	lone := func(p c09Part) c09Part {
		i := len(p.Files)
		p.Files = append(p.Files, c09File{Hour: 6, Cols: []string{"time", "host", "v"}, Tags: h_,
			Rows: []map[string]any{r("time", 500, "host", "h1", "v", float64(100*i)), r("time", 16, "host", "a", "v", float64(100*i+1))}})
		return p
	}
	// tag set SHRINKS: older files [host,region], the newest file of each batch [host] (a dropped tag / a second writer)
	ps = append(ps, lone(tagPart("tagshrink7", "storage", 4, shrinkTags, shrinkRows())))
	// tag set GROWS: older files [host], newer files [host,region] (ordinary schema evolution)
	ps = append(ps, tagPart("taggrow6", "kinds", 4, [][]string{h_, h_, hr, hr, hr, hr}, [][]map[string]any{
		{r("time", 500, "host", "h1"), r("time", 10, "host", "a")},
		{r("time", 600, "host", "h1"), r("time", 700, "host", "h2")},
		{r("time", 500, "host", "h1", "region", "us"), r("time", 700, "host", "h2", "region", "us")},
		{r("time", 500, "host", "h1", "region", "eu"), r("time", 700, "host", "h2", "region", "us")},
		{r("time", 500, "host", "h1", "region", "ap"), r("time", 600, "host", "h1", "region", "us"), r("time", 600, "host", "h1", "region", "eu")},
		{r("time", 700, "host", "h2", "region", "us"), r("time", 15, "host", "a", "region", "us")},
	}))
	// DISJOINT-OVERLAPPING tag sets: two writers, [host,region] and [host,dc] (every row has a NULL tag, so no true duplicates here)
	ps = append(ps, tagPart("tagdisjoint6", "kinds", 4, [][]string{hr, hd, hr, hd, hd, hr}, [][]map[string]any{
		{r("time", 500, "host", "h1", "region", "us"), r("time", 700, "host", "h2", "region", "us")},
		{r("time", 500, "host", "h1", "dc", "d1"), r("time", 710, "host", "h2", "dc", "d1")},
		{r("time", 500, "host", "h1", "region", "eu"), r("time", 12, "host", "a", "region", "us")},
		{r("time", 500, "host", "h1", "dc", "d2"), r("time", 600, "host", "h1", "dc", "d1")},
		{r("time", 600, "host", "h1", "dc", "d2"), r("time", 600, "host", "h1", "dc", "d3"), r("time", 500, "host", "h1", "dc", "d3")},
		{r("time", 600, "host", "h1", "region", "us"), r("time", 500, "host", "h1", "region", "ap")},
	}))
	// a file WITHOUT arc:tags between two that have it; the newest file of batch 1 has none either
	ps = append(ps, tagPart("taggap6", "kinds", 4, [][]string{hr, nil, h_, nil, hr, nil}, [][]map[string]any{
		{r("time", 500, "host", "h1", "region", "us"), r("time", 500, "host", "h1", "region", "eu"), r("time", 700, "host", "h2", "region", "us")},
		{r("time", 500, "host", "h1"), r("time", 20, "host", "b")},
		{r("time", 600, "host", "h1"), r("time", 700, "host", "h2")},
		{r("time", 30, "host", "b"), r("time", 600, "host", "h2")},
		{r("time", 600, "host", "h1", "region", "us"), r("time", 600, "host", "h1", "region", "eu"), r("time", 700, "host", "h2", "region", "us")},
		{r("time", 40, "host", "b")},
	}))
	// the shrinking partition cut into batches of 2: {0,1} agree, {2,3} and {4,5} disagree; the rows that differ only
	// in region now sit in DIFFERENT batches and meet only in the daily job, which merges three outputs with two tag sets
	ps = append(ps, lone(tagPart("tagshrink7b2", "crashfree", 2, shrinkTags, shrinkRows())))
	{
		p := c09Part{Name: "nulltags4", MaxBatch: 2}
		for i := 0; i < 4; i++ {
			f := c09File{Hour: 5, Cols: []string{"time", "host", "region", "v"}, Tags: []string{"host", "region"}}
			f.Rows = append(f.Rows,
				r("time", 10+i, "region", "eu", "v", float64(i)), // NULL host, unique key
				r("time", 20+i, "host", "a", "v", float64(10+i)), // NULL region, unique key
				r("time", 30+i, "v", float64(20+i)),              // both NULL, unique key
				r("time", 40+i, "host", "a", "region", "eu"))     // NULL field
			if i < 2 {
				f.Rows = append(f.Rows, r("time", 999, "host", "a", "region", "eu", "v", float64(500+i)))
			}
			p.Files = append(p.Files, f)
		}
		ps = append(ps, p)
	}
	{
		p := c09Part{Name: "schema5", MaxBatch: 4}
		p.Files = []c09File{
			{Hour: 5, Cols: []string{"time", "host", "v"}, Rows: []map[string]any{r("time", 1, "host", "a", "v", 1.0), r("time", 2, "host", "b")}},
			{Hour: 5, Cols: []string{"time", "host", "v", "n"}, Rows: []map[string]any{r("time", 3, "host", "a", "v", 2.0, "n", int64(5)), r("time", 1, "host", "a", "v", 1.0)}},
			{Hour: 5, Cols: []string{"time", "v", "s"}, Rows: []map[string]any{r("time", 4, "v", 3.0, "s", "x'y"), r("time", 5, "s", "")}},
			{Hour: 5, Cols: []string{"time", "host", "ok", "v"}, Rows: []map[string]any{r("time", 6, "host", "c", "ok", true, "v", -0.5), r("time", 7, "ok", false)}},
			{Hour: 5, Cols: []string{"time", "n"}, Rows: []map[string]any{r("time", 8, "n", int64(-9)), r("time", 9)}},
		}
		ps = append(ps, p)
	}
	{
		p := c09Part{Name: "schematags6", MaxBatch: 3}
		for i := 0; i < 6; i++ {
			if i < 3 {
				f := c09File{Hour: 5, Cols: []string{"time", "host", "v"}, Tags: []string{"host"}}
				f.Rows = append(f.Rows, r("time", 10+i, "host", "a", "v", float64(i)), r("time", 50+i, "host", "b", "v", float64(i)))
				p.Files = append(p.Files, f)
				continue
			}
			f := c09File{Hour: 5, Cols: []string{"time", "host", "region", "v", "n"}, Tags: []string{"host", "region"}}
			f.Rows = append(f.Rows, r("time", 10+i, "host", "a", "region", "eu", "v", float64(i), "n", int64(i)))
			if i == 3 || i == 4 {
				f.Rows = append(f.Rows, r("time", 800, "host", "a", "region", "us", "v", float64(70+i)))
			}
			if i == 4 { // same host+time as a row of file 1 but with a region: a different key
				f.Rows = append(f.Rows, r("time", 11, "host", "a", "region", "eu", "v", 99.0))
			}
			p.Files = append(p.Files, f)
		}
		ps = append(ps, p)
	}
	{
		p := c09Part{Name: "mixedmeta4", MaxBatch: 4}
		for i := 0; i < 4; i++ {
			f := c09File{Hour: 5, Cols: []string{"time", "host", "v"}}
			if i >= 2 {
				f.Tags = []string{"host"}
				f.Rows = append(f.Rows, r("time", 5, "host", "a", "v", float64(100+i)))
			}
			f.Rows = append(f.Rows, r("time", 10+i, "host", "a", "v", float64(i)), r("time", 20+i, "host", "b", "v", float64(i)))
			p.Files = append(p.Files, f)
		}
		ps = append(ps, p)
	}
	ps = append(ps, plain("plain3", 3, 4, ""))
	{
		p := c09Part{Name: "tags4", MaxBatch: 4}
		for i := 0; i < 4; i++ {
			f := c09File{Hour: 5, Cols: []string{"time", "host", "v"}, Tags: []string{"host"}}
			f.Rows = append(f.Rows, r("time", 10+i, "host", "a", "v", float64(i)))
			if i == 0 || i == 3 {
				f.Rows = append(f.Rows, r("time", 77, "host", "z", "v", float64(50+i)))
			}
			if i == 0 || i == 1 {
				f.Rows = append(f.Rows, r("time", 78, "host", "z", "v", float64(60+i)))
			}
			p.Files = append(p.Files, f)
		}
		ps = append(ps, p)
	}
	{
		p := plain("twohours", 6, 3, "")
		for i := 3; i < 6; i++ {
			p.Files[i].Hour = 6
		}
		ps = append(ps, p)
	}
	{
		p := c09Part{Name: "tagsdedupt4", MaxBatch: 2}
		for i := 0; i < 4; i++ {
			f := c09File{Hour: 5, Cols: []string{"time", "host", "v"}, Tags: []string{"host"}, DedupTime: true}
			f.Rows = append(f.Rows, r("time", 10+i, "host", "a", "v", float64(i)), r("time", 200, "host", fmt.Sprintf("h%d", i%2), "v", float64(30+i)))
			p.Files = append(p.Files, f)
		}
		ps = append(ps, p)
	}
	ps = append(ps, plain("plain12", 12, 5, ""))
	{
		p := plain("sortkeys6", 6, 4, "")
		p.SortKeys = []string{"host", "time"}
		ps = append(ps, p)
	}
	return ps
}

func (p *c09Part) dedup() bool {
	for _, f := range p.Files {
		if len(f.Tags) > 0 || f.DedupTime {
			return true
		}
	}
	return false
}

// tagsDiffer: at least two files of the partition declare different arc:tags sets (a file without the key
// counts as a different set when another file has one).
func (p *c09Part) tagsDiffer() bool { return p.tagShape() != "" }

// tagShape classifies HOW the arc:tags declarations of the files (in listing order) disagree; "" = they agree.
//
//	with-untagged  some file has no arc:tags while another has
//	grow           the newest file declares the union (tags were only ever added)
//	disjoint       two files declare sets of which neither contains the other
//	shrink         otherwise: the sets are nested and the newest file declares fewer tags than an older one
func (p *c09Part) tagShape() string {
	union := p.tagUnion()
	if len(union) == 0 {
		return ""
	}
	seen := map[string]bool{}
	var sets [][]string
	untagged := false
	for _, f := range p.Files {
		if len(f.Tags) == 0 {
			untagged = true
			continue
		}
		t := append([]string{}, f.Tags...)
		sort.Strings(t)
		if !seen[strings.Join(t, ",")] {
			seen[strings.Join(t, ",")] = true
		}
		sets = append(sets, t)
	}
	switch {
	case untagged:
		return "with-untagged"
	case len(seen) == 1:
		return ""
	case strings.Join(sets[len(sets)-1], ",") == strings.Join(union, ","):
		return "grow"
	}
	sub := func(a, b []string) bool {
		in := map[string]bool{}
		for _, x := range b {
			in[x] = true
		}
		for _, x := range a {
			if !in[x] {
				return false
			}
		}
		return true
	}
	for i := range sets {
		for j := range sets {
			if !sub(sets[i], sets[j]) && !sub(sets[j], sets[i]) {
				return "disjoint"
			}
		}
	}
	return "shrink"
}

func (p *c09Part) tagUnion() []string {
	set := map[string]bool{}
	for _, f := range p.Files {
		for _, t := range f.Tags {
			set[t] = true
		}
	}
	var out []string
	for t := range set {
		out = append(out, t)
	}
	sort.Strings(out)
	return out
}

type c09Fixture struct {
	key  string
	data []byte
}

var c09Writer = ingest.NewArrowWriter(&config.IngestConfig{Compression: "snappy", WriteStatistics: true}, zerolog.Nop())

// build renders the partition with the real ingest Parquet writer; file names carry timestamps of
// the partition's own hour (long before the virtual "now"), as the flush path would have named them.
func (p *c09Part) build() ([]c09Fixture, int) {
	var out []c09Fixture
	nrows := 0
	for i, f := range p.Files {
		n := len(f.Rows)
		nrows += n
		cols := map[string]interface{}{}
		validity := map[string][]bool{}
		hourStart := c09Day.Add(time.Duration(f.Hour) * time.Hour).Unix()
		for _, c := range f.Cols {
			val := make([]bool, n)
			switch c {
			case "time":
				xs := make([]int64, n)
				for j, row := range f.Rows {
					xs[j] = (hourStart + int64(row["time"].(int))) * 1_000_000
					val[j] = true
				}
				cols[c] = xs
			case "host", "region", "dc", "s":
				xs := make([]string, n)
				for j, row := range f.Rows {
					if v, ok := row[c]; ok {
						xs[j], val[j] = v.(string), true
					}
				}
				cols[c] = xs
			case "v", "w":
				xs := make([]float64, n)
				for j, row := range f.Rows {
					if v, ok := row[c]; ok {
						xs[j], val[j] = v.(float64), true
					}
				}
				cols[c] = xs
			case "n":
				xs := make([]int64, n)
				for j, row := range f.Rows {
					if v, ok := row[c]; ok {
						xs[j], val[j] = v.(int64), true
					}
				}
				cols[c] = xs
			case "ok":
				xs := make([]bool, n)
				for j, row := range f.Rows {
					if v, ok := row[c]; ok {
						xs[j], val[j] = v.(bool), true
					}
				}
				cols[c] = xs
			default:
				ev.Unbound("C09 generator: unknown column " + c)
			}
			validity[c] = val
		}
		data, err := c09Writer.WriteParquetColumnar(context.Background(), c09Meas, cols, validity, f.Tags, f.DedupTime, nil)
		if err != nil {
			ev.Unbound("C09: WriteParquetColumnar: " + err.Error())
		}
		ts := c09Day.Add(time.Duration(f.Hour)*time.Hour + time.Duration(i*7+3)*time.Second)
		key := fmt.Sprintf("%s/%s/%s/%02d/%s_%s_%d.parquet", c09DB, c09Meas, c09Day.Format("2006/01/02"), f.Hour, c09Meas, ts.Format("20060102_150405"), 1000+i)
		out = append(out, c09Fixture{key, data})
	}
	return out, nrows
}

// ---------------------------------------------------------------------------------------------
// observation: DuckDB scan of every *.parquet of the measurement

type c09Obs struct {
	Rows     map[string]int // canonical row -> count
	Keys     map[string]int // dedup key -> count (dedup partitions)
	RowKey   map[string]string
	Files    []string          // every file under the store (relative), sorted
	Bad      map[string]string // unreadable *.parquet -> error
	Total    int
	Manifest int
	Parts    int
}

func c09Canon(v any) string {
	switch x := v.(type) {
	case time.Time:
		return "t" + strconv.FormatInt(x.UnixMicro(), 10)
	case float64:
		return "f" + strconv.FormatFloat(x, 'g', -1, 64)
	case float32:
		return "f" + strconv.FormatFloat(float64(x), 'g', -1, 64)
	case int64:
		return "i" + strconv.FormatInt(x, 10)
	case int32:
		return "i" + strconv.FormatInt(int64(x), 10)
	case int:
		return "i" + strconv.Itoa(x)
	case string:
		return strconv.Quote(x)
	case []byte:
		return strconv.Quote(string(x))
	case bool:
		return "b" + strconv.FormatBool(x)
	}
	return fmt.Sprintf("?%T:%v", v, v)
}

func c09Scan(db *sql.DB, store string, tags []string) *c09Obs {
	if os.Getenv("VERIF_C09_DEBUG") != "" {
		t0 := time.Now()
		defer func() { fmt.Fprintf(os.Stderr, "C09-TIMING scan %v\n", time.Since(t0)) }()
	}
	o := &c09Obs{Rows: map[string]int{}, Keys: map[string]int{}, RowKey: map[string]string{}, Bad: map[string]string{}}
	filepath.WalkDir(store, func(p string, d fs.DirEntry, err error) error {
		if err != nil || d.IsDir() {
			return nil
		}
		rel, _ := filepath.Rel(store, p)
		o.Files = append(o.Files, rel)
		if strings.HasPrefix(rel, compaction.ManifestBasePath+"/") {
			if strings.HasSuffix(rel, ".json") {
				o.Manifest++
			}
			return nil
		}
		if strings.HasSuffix(rel, ".part") {
			o.Parts++
		}
		if !strings.HasSuffix(rel, ".parquet") || strings.HasPrefix(filepath.Base(rel), ".") || !strings.HasPrefix(rel, c09DB+"/"+c09Meas+"/") {
			return nil
		}
		rs, err := db.Query(fmt.Sprintf("SELECT * FROM read_parquet('%s')", strings.ReplaceAll(p, "'", "''")))
		if err != nil {
			o.Bad[rel] = err.Error()
			return nil
		}
		defer rs.Close()
		cols, _ := rs.Columns()
		vals := make([]any, len(cols))
		ptrs := make([]any, len(cols))
		for i := range vals {
			ptrs[i] = &vals[i]
		}
		for rs.Next() {
			if err := rs.Scan(ptrs...); err != nil {
				o.Bad[rel] = err.Error()
				return nil
			}
			m := map[string]string{}
			var parts []string
			for i, c := range cols {
				if vals[i] == nil {
					continue
				}
				m[c] = c09Canon(vals[i])
				parts = append(parts, c+"="+m[c])
			}
			sort.Strings(parts)
			row := strings.Join(parts, ";")
			o.Rows[row]++
			o.Total++
			var kp []string
			for _, t := range tags {
				if v, ok := m[t]; ok {
					kp = append(kp, t+"="+v)
				} else {
					kp = append(kp, t+"=NULL")
				}
			}
			kp = append(kp, "time="+m["time"])
			key := strings.Join(kp, ";")
			o.Keys[key]++
			o.RowKey[row] = key
		}
		if err := rs.Err(); err != nil {
			o.Bad[rel] = err.Error()
		}
		return nil
	})
	sort.Strings(o.Files)
	return o
}

// ---------------------------------------------------------------------------------------------
// scenarios

type c09Scn struct {
	Part       string   `json:"partition"`
	Mode       string   `json:"mode"`
	Fault      c09Fault `json:"fault"`
	Label      string   `json:"crash_before"`
	Op         vos.Op   `json:"op"`
	Job        string   `json:"job"`
	BatchFiles int      `json:"batch_files"`
	// Gap: placement of the job processes on the time line (key of c09Gaps; "" = one second apart)
	Gap string `json:"launch_gap,omitempty"`
}

type c09Rec struct {
	CFSigs map[string]string `json:"crash_free_violations"`
	Part   string            `json:"part"`
	Jobs   []c09JobLog       `json:"jobs"`
	Inproc []vos.Op          `json:"inproc"`
	InJob  string            `json:"injob"`
	InN    int               `json:"in_n"`
}

type c09Worker struct {
	run     *ev.Run
	scratch string
	duck    *sql.DB
	caseN   int
	ctr     map[string]int64
	samples *ev.Samples
	debug   bool
}

func (w *c09Worker) logger() zerolog.Logger {
	if w.debug && os.Getenv("VERIF_C09_DEBUG") == "log" {
		return zerolog.New(os.Stderr).Level(zerolog.DebugLevel)
	}
	return zerolog.Nop()
}

type c09Env struct {
	w      *c09Worker
	part   *c09Part
	dir    string
	store  string
	tmp    string
	plan   string
	lb     *storage.LocalBackend
	before *c09Obs
	tags   []string
	faults []c09Fault
	cfSigs map[string]string // crash-free run: violation kind -> signature
	gap    time.Duration     // distance between two job-process launches of a cycle on the virtual time line
	seq0   int               // job processes launched before the current cycle
}

func (w *c09Worker) newEnv(p *c09Part, fx []c09Fixture) *c09Env {
	w.caseN++
	e := &c09Env{w: w, part: p, dir: filepath.Join(w.scratch, fmt.Sprintf("case%d", w.caseN)), tags: p.tagUnion(), cfSigs: map[string]string{}, gap: time.Second}
	e.store, e.tmp, e.plan = filepath.Join(e.dir, "store"), filepath.Join(e.dir, "tmp"), filepath.Join(e.dir, "plan")
	os.RemoveAll(e.dir)
	os.MkdirAll(e.tmp, 0o700)
	os.MkdirAll(e.plan, 0o700)
	lb, err := storage.NewLocalBackend(e.store, zerolog.Nop())
	if err != nil {
		ev.Unbound("C09: NewLocalBackend: " + err.Error())
	}
	e.lb = lb
	for _, f := range fx {
		if err := lb.Write(context.Background(), f.key, f.data); err != nil {
			ev.Unbound("C09: fixture write: " + err.Error())
		}
	}
	os.Setenv("VERIF_C09_PLAN", e.plan)
	vclock.Install(c09T0)
	e.before = c09Scan(w.duck, e.store, e.tags)
	if len(e.before.Bad) > 0 {
		ev.Unbound(fmt.Sprintf("C09: DuckDB cannot read a fixture written by the real ArrowWriter: %v", e.before.Bad))
	}
	return e
}

func (e *c09Env) close() { os.RemoveAll(e.dir) }

func (e *c09Env) manager() *compaction.Manager {
	lg := e.w.logger()
	tiers := []compaction.Tier{
		compaction.NewHourlyTier(&compaction.HourlyTierConfig{StorageBackend: e.lb, MinAgeHours: 1, MinFiles: 2, Enabled: true, Logger: lg}),
		compaction.NewDailyTier(&compaction.DailyTierConfig{StorageBackend: e.lb, MinAgeHours: 24, MinFiles: 2, SkipFileAgeCheckDays: 7, Enabled: true, Logger: lg}),
	}
	sk := map[string][]string{}
	if len(e.part.SortKeys) > 0 {
		sk[c09Meas] = e.part.SortKeys
	}
	return compaction.NewManager(&compaction.ManagerConfig{StorageBackend: e.lb, LockManager: compaction.NewLockManager(), MinAgeHours: 1, MinFiles: 2,
		MaxFilesPerBatch: e.part.MaxBatch, MaxConcurrent: 1, TempDirectory: e.tmp, MemoryLimit: "256MB", Threads: 1,
		SortKeysConfig: sk, DefaultSortKeys: []string{"time"}, Tiers: tiers, Logger: lg})
}

// launched counts the job processes started so far in this scenario.
func (e *c09Env) launched() int {
	n := 0
	for ; ; n++ {
		if _, err := os.Stat(filepath.Join(e.plan, fmt.Sprintf("seq.%d", n))); err != nil {
			return n
		}
	}
}

// setGap selects the placement of the job processes on the time line for this scenario.
func (e *c09Env) setGap(name string) {
	g, ok := c09Gaps[name]
	if !ok {
		ev.Unbound("C09: unknown launch gap " + name)
	}
	e.gap = g
}

// elapse moves the parent's clock past the instants its job processes ran at (they "took" one gap each), so
// that the parent never reads a time earlier than something a finished job has written.
func (e *c09Env) elapse() {
	if n := e.launched() - e.seq0; n > 0 {
		vclock.Jump(time.Duration(n) * e.gap)
		e.seq0 += n
	}
}

func (e *c09Env) writePlan() {
	e.seq0 = e.launched()
	b, _ := json.Marshal(c09Plan{NowNS: vclock.Now().UnixNano(), SeqBase: e.seq0, GapNS: int64(e.gap), Faults: e.faults})
	tmp := filepath.Join(e.plan, "plan.json.tmp")
	os.WriteFile(tmp, b, 0o600)
	os.Rename(tmp, filepath.Join(e.plan, "plan.json"))
}

func (e *c09Env) jobLogs() []c09JobLog {
	var out []c09JobLog
	for i := 0; ; i++ {
		if _, err := os.Stat(filepath.Join(e.plan, fmt.Sprintf("seq.%d", i))); err != nil {
			break
		}
		var l c09JobLog
		b, err := os.ReadFile(filepath.Join(e.plan, fmt.Sprintf("job.%d.json", i)))
		if err != nil || json.Unmarshal(b, &l) != nil {
			l = c09JobLog{Seq: i, Tier: "?(no log: the job process exited through os.Exit)"}
		}
		out = append(out, l)
	}
	return out
}

var c09Tiers = []string{"hourly", "daily"}

func (e *c09Env) cycle(m *compaction.Manager) {
	if e.w.debug {
		t0 := time.Now()
		defer func() {
			fmt.Fprintf(os.Stderr, "C09-TIMING cycle %v jobs_so_far=%d\n", time.Since(t0), len(e.jobLogs()))
		}()
	}
	e.writePlan()
	if _, err := m.RunCompactionCycleForTiers(context.Background(), c09Tiers); err != nil {
		ev.Unbound("C09: RunCompactionCycleForTiers: " + err.Error())
	}
	e.elapse()
}

// firstBatch is what runCycleInternal would hand to compactFilesAdaptively first for the partition.
func (e *c09Env) firstBatch(m *compaction.Manager, partition string) (compaction.Candidate, bool) {
	cands, err := m.Tiers[0].FindCandidates(context.Background(), c09DB, c09Meas)
	if err != nil {
		ev.Unbound("C09: FindCandidates: " + err.Error())
	}
	for _, c := range cands {
		if c.PartitionPath == partition {
			sort.Strings(c.Files)
			return compaction.SplitCandidateIntoBatches(c, m.MaxFilesPerBatch)[0], true
		}
	}
	return compaction.Candidate{}, false
}

func c09Few(xs []string) []string {
	sort.Strings(xs)
	if len(xs) > 4 {
		xs = xs[:4]
	}
	return xs
}

// judge compares an observation with the rows visible before. exact=false: only "nothing lost,
// nothing invented" (any crash state, any state before a later cycle has run).
func (e *c09Env) judge(s *c09Scn, at string, o *c09Obs, exact bool) {
	b := e.before
	rep := func(kind, desc string, rows []string) {
		e.w.ctr["raw_violations"]++
		// the shape part of the class is INTRINSIC to the partition (so a capped run cannot change a signature):
		// can the adaptive retry split the target batch (>= 2*MinFilesPerBatch files), and is dedup metadata present
		shape := "batch<4"
		if s.BatchFiles >= 2*compaction.MinFilesPerBatch {
			shape = "batch>=4"
		}
		if s.BatchFiles == 0 {
			shape = "batch=-"
		}
		if e.part.dedup() {
			shape += ",dedup"
		} else {
			shape += ",plain"
		}
		if ts := e.part.tagShape(); ts != "" {
			shape += ",tagsets-differ:" + ts
		}
		sig := strings.Join([]string{kind, at, s.Mode, s.Job, s.Label, shape}, "|")
		if s.Gap != "" {
			// a placement other than "one second apart" is part of the counterexample
			sig += "|launches:" + s.Gap
			desc += " [job processes of a cycle " + c09GapDesc(s.Gap) + "]"
		}
		if s.Mode == "crash-free" && (s.Gap == "" || e.part.cfSigs[kind] == "") {
			if e.cfSigs[kind] == "" {
				e.cfSigs[kind] = sig
			}
			sig = e.cfSigs[kind]
			desc = fmt.Sprintf("%s [no fault needed: partition %s, crash-free cycles]", desc, s.Part)
		} else if cf := e.part.cfSigs[kind]; cf != "" {
			// minimisation: the crash-free run of this partition already shows this kind of violation, so the fault is
			// not part of the counterexample: one class, the crash-free one
			sig = cf
			desc = fmt.Sprintf("%s [no fault needed: the crash-free run of partition %s shows it too; seen again with %s at %s]", desc, s.Part, s.Mode, s.Label)
		} else {
			desc = fmt.Sprintf("%s [smallest way to see it: partition %s, %s at call %d (%s %s)]", desc, s.Part, s.Mode, s.Fault.K, s.Op.Kind, filepath.Base(s.Op.Path))
		}
		var fileTags []string
		for i, f := range e.part.Files {
			fileTags = append(fileTags, fmt.Sprintf("file %d (hour %02d): arc:tags=%s dedup_time=%v", i, f.Hour, strings.Join(f.Tags, ","), f.DedupTime))
		}
		e.w.run.Violate(sig, desc, map[string]any{"scenario": s, "observed_at": at, "rows": c09Few(rows), "files_now": o.Files, "input_files": fileTags,
			"rows_before": b.Total, "rows_now": o.Total, "jobs": c09Brief(e.jobLogs())})
	}
	if len(o.Bad) > 0 {
		var fs []string
		for f, er := range o.Bad {
			fs = append(fs, f+": "+er)
		}
		rep("unreadable-parquet-at-final-path", "a *.parquet file at its final path cannot be read by DuckDB", fs)
	}
	var lost, dup, extra []string
	if !e.part.dedup() {
		for row, n := range b.Rows {
			if o.Rows[row] < n {
				lost = append(lost, fmt.Sprintf("%s (before %d, now %d)", row, n, o.Rows[row]))
			} else if o.Rows[row] > n {
				dup = append(dup, fmt.Sprintf("%s (before %d, now %d)", row, n, o.Rows[row]))
			}
		}
	} else {
		for key, n := range b.Keys {
			if o.Keys[key] == 0 {
				lost = append(lost, fmt.Sprintf("key %s (before %d rows, now none)", key, n))
			} else if o.Keys[key] > n {
				dup = append(dup, fmt.Sprintf("key %s (before %d rows, now %d)", key, n, o.Keys[key]))
			} else if exact && o.Keys[key] > 1 {
				e.w.ctr["dedup_keys_left_uncollapsed"]++
			}
		}
		for row, n := range o.Rows {
			if bn, ok := b.Rows[row]; ok && n > bn {
				dup = append(dup, fmt.Sprintf("%s (before %d, now %d)", row, bn, n))
			}
		}
	}
	for row := range o.Rows {
		if _, ok := b.Rows[row]; !ok {
			extra = append(extra, row)
		}
	}
	if len(lost) > 0 {
		rep("rows-lost", "rows visible before compaction are in no readable file", lost)
	}
	if len(extra) > 0 {
		rep("row-not-among-inputs", "a visible row is not one of the input rows", extra)
	}
	if exact && len(dup) > 0 {
		rep("rows-duplicated", "after recovery by a later cycle rows are visible more often than before compaction", dup)
	}
}

func c09GapDesc(g string) string {
	switch g {
	case "same-second":
		return "start 1 ms apart, all within the same wall-clock second"
	case "minute":
		return "start one minute apart"
	case "hour":
		return "start one hour apart"
	}
	return "start one second apart"
}

// c09Outputs: the final paths of the data files a job process uploaded or was about to upload, read from
// its own call log: the target of every rename onto a *.parquet of the database and every *.parquet.part
// staging file it created there (a killed job may not have got as far as the rename).
func c09Outputs(l c09JobLog, store string) []string {
	pre := filepath.Join(store, c09DB) + "/"
	set := map[string]bool{}
	for _, op := range l.Ops {
		var p string
		switch op.Kind {
		case "rename":
			p = op.Path2
		case "create", "open-trunc":
			p = strings.TrimSuffix(op.Path, ".part")
			if p == op.Path {
				continue
			}
		default:
			continue
		}
		if strings.HasPrefix(p, pre) && strings.HasSuffix(p, ".parquet") && !strings.HasPrefix(filepath.Base(p), ".") {
			set[p[len(store)+1:]] = true
		}
	}
	var out []string
	for p := range set {
		out = append(out, p)
	}
	sort.Strings(out)
	return out
}

// distinctOutputs: two DIFFERENT job processes of one scenario must never write the same output path unless
// their inputs are identical (the later upload replaces the earlier one, whose inputs are deleted or about to be).
func (e *c09Env) distinctOutputs(s *c09Scn) {
	logs := e.jobLogs()
	type owner struct {
		l     c09JobLog
		files string
	}
	by := map[string][]owner{}
	var paths []string
	for _, l := range logs {
		fs := append([]string{}, l.Files...)
		sort.Strings(fs)
		for _, p := range c09Outputs(l, e.store) {
			if by[p] == nil {
				paths = append(paths, p)
			}
			by[p] = append(by[p], owner{l, strings.Join(fs, "\n")})
			e.w.ctr["job_outputs_checked_for_distinct_paths"]++
		}
	}
	sort.Strings(paths)
	name := func(l c09JobLog) string {
		return fmt.Sprintf("%s-b%d/attempt%d(%d files)", l.Tier, l.Batch, l.Nth, len(l.Files))
	}
	for _, p := range paths {
		ow := by[p]
		for i := range ow {
			for j := i + 1; j < len(ow); j++ {
				if ow[i].files == ow[j].files {
					e.w.ctr["same_output_path_same_inputs"]++
					continue
				}
				e.w.ctr["raw_violations"]++
				sig := strings.Join([]string{"same-output-path-different-inputs", s.Mode, name(ow[i].l) + " vs " + name(ow[j].l), "launches:" + c09GapName(s.Gap)}, "|")
				e.w.run.Violate(sig, fmt.Sprintf("two different job processes of one scenario, with different inputs, write the same output path: the later upload replaces the earlier output (job processes of a cycle %s) [partition %s, %s at %s]",
					c09GapDesc(s.Gap), s.Part, s.Mode, s.Label),
					map[string]any{"scenario": s, "output_path": p, "job_a": c09Brief([]c09JobLog{ow[i].l}), "inputs_a": ow[i].l.Files, "instant_a": time.Unix(0, ow[i].l.Instant).UTC().Format(time.RFC3339Nano),
						"job_b": c09Brief([]c09JobLog{ow[j].l}), "inputs_b": ow[j].l.Files, "instant_b": time.Unix(0, ow[j].l.Instant).UTC().Format(time.RFC3339Nano), "jobs": c09Brief(logs)})
			}
		}
	}
}

func c09Brief(ls []c09JobLog) []string {
	var out []string
	for _, l := range ls {
		s := fmt.Sprintf("#%d %s %s b%d attempt%d files=%d ops=%d", l.Seq, l.Tier, l.Partition, l.Batch, l.Nth, len(l.Files), len(l.Ops))
		if l.Instant != 0 {
			s += " clock=" + time.Unix(0, l.Instant).UTC().Format("2006-01-02T15:04:05.000")
		}
		if l.Fault != nil {
			s += fmt.Sprintf(" FAULT(%s@%d dead=%v)", l.Fault.Mode, l.Fault.K, l.Dead)
		}
		out = append(out, s)
	}
	return out
}

// laterCycles runs cycles 2h apart until one changes nothing (at most 3), judging after each.
// prev is the observation made after the preceding step (nothing touches the store in between).
func (e *c09Env) laterCycles(s *c09Scn, m *compaction.Manager, prev *c09Obs) {
	for c := 1; c <= 3; c++ {
		vclock.Jump(2 * time.Hour)
		if prev.Manifest > 0 {
			e.w.ctr["later_cycles_starting_with_a_pending_manifest"]++
		}
		e.cycle(m)
		o := c09Scan(e.w.duck, e.store, e.tags)
		e.judge(s, "after-later-cycle", o, true)
		if strings.Join(prev.Files, "\n") == strings.Join(o.Files, "\n") {
			if o.Manifest > 0 {
				e.w.ctr["quiescent_with_manifest_left"]++
			}
			if o.Parts > 0 {
				e.w.ctr["quiescent_with_part_file_left"]++
			}
			return
		}
		if c == 3 {
			e.w.ctr["not_quiescent_after_3_later_cycles"]++
		}
		prev = o
	}
}

func (w *c09Worker) runScenario(p *c09Part, fx []c09Fixture, s *c09Scn) {
	e := w.newEnv(p, fx)
	defer e.close()
	w.ctr["evals"]++
	w.ctr["evals_"+s.Mode]++
	w.ctr["evals_launches_"+c09GapName(s.Gap)]++
	e.setGap(s.Gap)
	m := e.manager()
	var o *c09Obs
	switch s.Mode {
	case "crash-free":
		// no fault: sibling batches and the daily job under the scenario's placement on the time line
		e.cycle(m)
		if len(e.jobLogs()) < 2 {
			w.run.Violate("HARNESS|crash-free-cycle-ran-fewer-than-2-jobs|"+s.Part, "the timed crash-free run launched fewer than two job processes", map[string]any{"scenario": s, "jobs": c09Brief(e.jobLogs())})
			return
		}
		w.ctr["nontrivial"]++
		o = c09Scan(w.duck, e.store, e.tags)
		e.judge(s, "after-first-cycle", o, true)
	case "job-kill", "job-error":
		e.faults = []c09Fault{s.Fault}
		e.cycle(m)
		logs := e.jobLogs()
		reached, split := false, false
		for _, l := range logs {
			if l.Fault != nil && (l.Dead || (l.Fault.Mode == "fail" && l.Fault.K < len(l.Ops))) {
				reached = true
			}
			if l.Nth > 0 {
				split = true
			}
		}
		if !reached {
			w.ctr["fault_point_not_reached"]++
			w.run.Violate("HARNESS|fault-point-not-reached|"+s.Mode+"|"+s.Part, "the recorded call was not reached when the same job ran again", map[string]any{"scenario": s, "jobs": c09Brief(logs)})
			return
		}
		w.ctr["nontrivial"]++
		if split {
			w.ctr["scenarios_with_adaptive_split_retry"]++
		}
		o = c09Scan(w.duck, e.store, e.tags)
		e.judge(s, "after-crash-cycle", o, false)
	case "node-crash":
		e.faults = []c09Fault{s.Fault}
		cand, ok := e.firstBatch(m, s.Fault.Partition)
		if !ok {
			ev.Unbound("C09: no hourly candidate for " + s.Fault.Partition)
		}
		e.writePlan()
		err := m.CompactPartition(context.Background(), cand)
		e.elapse()
		logs := e.jobLogs()
		if len(logs) != 1 || !logs[0].Dead {
			w.ctr["fault_point_not_reached"]++
			w.run.Violate("HARNESS|fault-point-not-reached|"+s.Mode+"|"+s.Part, "the recorded call was not reached when the same job ran again", map[string]any{"scenario": s, "jobs": c09Brief(logs), "err": fmt.Sprint(err)})
			return
		}
		if err == nil || !strings.Contains(err.Error(), "signal: killed") {
			ev.Unbound("C09: a killed job was not reported as 'signal: killed': " + fmt.Sprint(err))
		}
		w.ctr["nontrivial"]++
		o = c09Scan(w.duck, e.store, e.tags)
		e.judge(s, "crash-state", o, false)
		m = e.manager() // the parent died too: fresh process state
	case "inproc-error":
		cand, ok := e.firstBatch(m, s.Fault.Partition)
		if !ok {
			ev.Unbound("C09: no hourly candidate for " + s.Fault.Partition)
		}
		ops, _ := e.inprocJob(m, cand, s.Fault.K)
		if s.Fault.K >= len(ops) {
			w.ctr["fault_point_not_reached"]++
			w.run.Violate("HARNESS|fault-point-not-reached|"+s.Mode+"|"+s.Part, "the recorded call was not reached when the same job ran again", map[string]any{"scenario": s})
			return
		}
		w.ctr["nontrivial"]++
		o = c09Scan(w.duck, e.store, e.tags)
		e.judge(s, "after-failed-job", o, false)
	default:
		ev.Unbound("C09: unknown scenario mode " + s.Mode)
	}
	e.laterCycles(s, m, o)
	e.distinctOutputs(s)
	w.samples.Add(map[string]any{"scenario": s, "jobs": c09Brief(e.jobLogs())})
}

// inprocJob runs the real Job.Run in this process on the real LocalBackend/DuckDB; call failK of the
// job fails with EIO (failK<0: none).
func (e *c09Env) inprocJob(m *compaction.Manager, cand compaction.Candidate, failK int) ([]vos.Op, error) {
	db, err := sql.Open("duckdb", "")
	if err != nil {
		ev.Unbound("C09: duckdb: " + err.Error())
	}
	defer db.Close()
	db.Exec("SET threads=1")
	lg := e.w.logger()
	job := compaction.NewJob(&compaction.JobConfig{Measurement: cand.Measurement, PartitionPath: cand.PartitionPath, Files: cand.Files,
		StorageBackend: e.lb, Database: cand.Database, Tier: cand.Tier, BatchNumber: cand.BatchNumber, TempDirectory: e.tmp,
		SortKeys: m.GetSortKeys(cand.Measurement), Logger: lg, DB: db, ManifestManager: compaction.NewManifestManager(e.lb, lg),
		JobID: fmt.Sprintf("%s_%s_%d_b%d", cand.Database, strings.ReplaceAll(cand.PartitionPath, "/", "_"), vclock.Now().UnixNano(), cand.BatchNumber)})
	vos.Start(-1, -1)
	if failK >= 0 {
		vos.FailAt(failK, syscall.EIO)
	}
	err = job.Run(context.Background())
	ops, _ := vos.Stop()
	return ops, err
}

// label names the logical step a mutating call belongs to (index-free, so that classes stay small).
func c09Label(op vos.Op, store, tmp string) string {
	p := op.Path
	under := func(dir string) bool { return p == dir || strings.HasPrefix(p, dir+"/") }
	switch {
	case p == store && op.Kind == "mkdir":
		return "storage-root-mkdir"
	case under(tmp):
		switch op.Kind {
		case "mkdir":
			return "temp-mkdir"
		case "remove":
			return "temp-cleanup"
		}
		return "download-to-temp"
	case under(filepath.Join(store, compaction.ManifestBasePath)):
		tmpf := strings.HasPrefix(filepath.Base(p), ".arc-")
		switch {
		case op.Kind == "mkdir":
			return "manifest-dir-mkdir"
		case op.Kind == "create":
			return "manifest-tmp-create"
		case op.Kind == "write":
			return "manifest-tmp-write"
		case op.Kind == "rename":
			return "manifest-rename"
		case op.Kind == "remove" && tmpf:
			return "manifest-tmp-remove"
		case op.Kind == "remove":
			return "manifest-delete"
		}
	case strings.HasSuffix(p, ".part"):
		switch op.Kind {
		case "write":
			return "output-part-write"
		case "rename":
			return "output-rename"
		}
		return "output-part-create"
	case under(store) && op.Kind == "mkdir":
		return "partition-dir-mkdir"
	case under(store) && op.Kind == "remove" && strings.HasSuffix(p, ".parquet"):
		return "input-delete"
	case under(store) && op.Kind == "remove":
		return "empty-dir-remove"
	}
	return op.Kind + ":?"
}

// ---------------------------------------------------------------------------------------------
// driver

// c09Pin binds this worker (every thread it has now; later threads and the job subprocesses inherit)
// to one CPU. DuckDB and the Go runtime size their thread pools by the affinity mask, so a job process
// starts with 1 thread instead of one per core: 3x less CPU per job and no oversubscription with 16
// workers. Environment only; the code under test is unchanged (jobs run with threads=1 anyway).
func c09Pin(i int) {
	var cur, set unix.CPUSet
	if unix.SchedGetaffinity(0, &cur) != nil || cur.Count() == 0 {
		return
	}
	var allowed []int
	for c := 0; c < 1024; c++ {
		if cur.IsSet(c) {
			allowed = append(allowed, c)
		}
	}
	set.Set(allowed[i%len(allowed)])
	ents, _ := os.ReadDir("/proc/self/task")
	for _, e := range ents {
		if tid, err := strconv.Atoi(e.Name()); err == nil {
			unix.SchedSetaffinity(tid, &set)
		}
	}
}

func c09Scratch() string {
	if s := os.Getenv("VERIF_C09_SCRATCH"); s != "" {
		return s
	}
	return fmt.Sprintf("/dev/shm/verif.c09.%d", os.Getpid())
}

func verifC09() {
	run := ev.Start("C09", "fault_enumeration")
	scratch := c09Scratch()
	shard, shards, isWorker := ev.Shard()
	var parts []c09Part
	for _, p := range c09Parts() {
		if p.Quick != "" || !run.Quick() {
			parts = append(parts, p)
		}
	}
	if !isWorker {
		defer os.RemoveAll(scratch)
		os.RemoveAll(scratch)
		os.MkdirAll(filepath.Join(scratch, "rec"), 0o700)
		os.Setenv("VERIF_C09_SCRATCH", scratch)
		os.Setenv("VERIF_C09_PHASE", "record")
		t0 := time.Now()
		c1, _, ok1 := run.SpawnShards(min(16, len(parts)))
		recordWall := time.Since(t0).Seconds()
		scns := c09BuildScenarios(run, parts, scratch)
		if os.Getenv("VERIF_C09_PLAN_ONLY") != "" {
			// debugging aid: print the size of the scenario space and stop (no evidence written)
			n := map[string]int{}
			for _, s := range scns {
				n[s.Mode+" launches:"+c09GapName(s.Gap)]++
			}
			fmt.Printf("C09 plan only: %d scenarios %v (crash-free phase %.1fs)\n", len(scns), n, recordWall)
			os.RemoveAll(scratch)
			os.Exit(0)
		}
		b, _ := json.Marshal(scns)
		os.WriteFile(filepath.Join(scratch, "scenarios.json"), b, 0o600)
		os.Setenv("VERIF_C09_PHASE", "enumerate")
		os.MkdirAll(filepath.Join(scratch, "claim"), 0o700)
		// more workers than CPUs: each worker is a strictly sequential chain of short-lived processes, and on a box
		// shared with other checks the extra workers keep the run from being starved
		c2, samples, _ := run.SpawnShards(max(1, min(24, len(scns))))
		for k, v := range c1 {
			c2[k] += v
		}
		var done []c09Scn
		for i := range scns {
			if c2[fmt.Sprintf("done#%d", i)] > 0 {
				done = append(done, scns[i])
			}
			delete(c2, fmt.Sprintf("done#%d", i))
		}
		c2["scenarios_planned"] = int64(len(scns))
		run.Coverage["wall_s_crash_free_phase"] = recordWall
		run.Coverage["wall_s_fault_phase"] = time.Since(t0).Seconds() - recordWall
		c09Report(run, parts, done, c2, samples, ok1 && len(done) == len(scns))
		return
	}
	c09Pin(shard)
	w := &c09Worker{run: run, scratch: filepath.Join(scratch, fmt.Sprintf("w%d.%s", shard, os.Getenv("VERIF_C09_PHASE"))), ctr: map[string]int64{}, samples: ev.NewSamples(1), debug: os.Getenv("VERIF_C09_DEBUG") != ""}
	os.MkdirAll(w.scratch, 0o700)
	defer os.RemoveAll(w.scratch)
	db, err := sql.Open("duckdb", "")
	if err != nil {
		ev.Unbound("C09: duckdb: " + err.Error())
	}
	db.SetMaxOpenConns(1)
	db.Exec("SET threads=1")
	w.duck = db
	complete := true
	if os.Getenv("VERIF_C09_PHASE") == "record" {
		for i := range parts {
			if i%shards == shard {
				w.record(&parts[i])
			}
		}
	} else {
		var scns []c09Scn
		b, err := os.ReadFile(filepath.Join(scratch, "scenarios.json"))
		if err != nil || json.Unmarshal(b, &scns) != nil {
			ev.Unbound("C09: scenarios.json: " + fmt.Sprint(err))
		}
		byName := map[string]*c09Part{}
		fxs := map[string][]c09Fixture{}
		for i := range parts {
			byName[parts[i].Name] = &parts[i]
		}
		// the workers take scenarios from one shared list (claimed by exclusive file creation), so a worker whose CPU
		// is busy with something else does not hold the others up; which worker runs a scenario has no influence on it
		for i := range scns {
			if run.TimeUp() {
				break // capped; the parent sees which scenarios have been run (done#i) and sets exhaustive accordingly
			}
			f, err := os.OpenFile(filepath.Join(scratch, "claim", strconv.Itoa(i)), os.O_CREATE|os.O_EXCL|os.O_WRONLY, 0o600)
			if err != nil {
				if os.IsExist(err) {
					continue
				}
				ev.Unbound("C09: claim: " + err.Error())
			}
			f.Close()
			p := byName[scns[i].Part]
			if fxs[p.Name] == nil {
				fxs[p.Name], _ = p.build()
				var rec c09Rec
				if b, err := os.ReadFile(filepath.Join(scratch, "rec", p.Name+".json")); err != nil || json.Unmarshal(b, &rec) != nil {
					ev.Unbound("C09: no recording for " + p.Name)
				}
				p.cfSigs = rec.CFSigs
			}
			w.runScenario(p, fxs[p.Name], &scns[i])
			w.ctr[fmt.Sprintf("done#%d", i)] = 1
		}
	}
	os.RemoveAll(w.scratch)
	run.FinishShard(w.ctr, w.samples.List(), complete)
}

// record: the crash-free run of one partition (judged like any other scenario) yields the call log
// of every job; a crash-free in-process Job.Run yields the call log for the in-process mode.
func (w *c09Worker) record(p *c09Part) {
	fx, nrows := p.build()
	e := w.newEnv(p, fx)
	if e.before.Total != nrows {
		ev.Unbound(fmt.Sprintf("C09: partition %s: generator wrote %d rows, DuckDB sees %d", p.Name, nrows, e.before.Total))
	}
	if p.dedup() {
		// generator hygiene: no duplicate key may involve a NULL tag (the property does not say how NULLs group)
		for k, n := range e.before.Keys {
			if n > 1 && strings.Contains(k, "=NULL") {
				ev.Unbound("C09 generator: duplicate key with a NULL tag in " + p.Name + ": " + k)
			}
		}
	}
	s := &c09Scn{Part: p.Name, Mode: "crash-free", Job: "-", Label: "-"}
	w.ctr["evals"]++
	w.ctr["evals_crash-free"]++
	m := e.manager()
	e.cycle(m)
	rec := c09Rec{Part: p.Name, Jobs: e.jobLogs()}
	o := c09Scan(w.duck, e.store, e.tags)
	e.judge(s, "after-first-cycle", o, true)
	for _, l := range rec.Jobs {
		if len(l.Ops) == 0 {
			ev.Unbound(fmt.Sprintf("C09: crash-free job #%d of %s recorded no file-system call (shim not compiled in?)", l.Seq, p.Name))
		}
	}
	if len(rec.Jobs) < 1 {
		ev.Unbound(fmt.Sprintf("C09: crash-free cycle over %s ran %d jobs (fixture not selected by the tiers?)", p.Name, len(rec.Jobs)))
	}
	e.laterCycles(s, m, o)
	e.distinctOutputs(s)
	rec.CFSigs = e.cfSigs
	w.samples.Add(map[string]any{"partition": p.Name, "files": len(p.Files), "rows": nrows, "crash_free_jobs": c09Brief(rec.Jobs)})
	for i := range rec.Jobs {
		for j := range rec.Jobs[i].Ops {
			rec.Jobs[i].Ops[j] = c09RelOp(rec.Jobs[i].Ops[j], e.store, e.tmp)
		}
	}
	e.close()
	if w.run.Quick() {
		// the quick tier has no in-process scenarios
		b, _ := json.Marshal(rec)
		os.WriteFile(filepath.Join(c09Scratch(), "rec", p.Name+".json"), b, 0o600)
		return
	}
	// in-process
	e = w.newEnv(p, fx)
	m = e.manager()
	first := rec.Jobs[0]
	for _, l := range rec.Jobs {
		if l.Tier == "hourly" && l.Batch == 1 && l.Partition < first.Partition {
			first = l
		}
	}
	cand, ok := e.firstBatch(m, first.Partition)
	if !ok {
		ev.Unbound("C09: no hourly candidate for " + first.Partition)
	}
	ops, err := e.inprocJob(m, cand, -1)
	if err != nil {
		ev.Unbound("C09: crash-free in-process Job.Run failed: " + err.Error())
	}
	for i := range ops {
		ops[i] = c09RelOp(ops[i], e.store, e.tmp)
	}
	rec.Inproc, rec.InJob, rec.InN = ops, "hourly-b1", len(cand.Files)
	s = &c09Scn{Part: p.Name, Mode: "crash-free-inproc", Job: "hourly-b1", Label: "-"}
	w.ctr["evals"]++
	o = c09Scan(w.duck, e.store, e.tags)
	e.judge(s, "after-failed-job", o, false)
	e.laterCycles(s, m, o)
	e.close()
	b, _ := json.Marshal(rec)
	os.WriteFile(filepath.Join(c09Scratch(), "rec", p.Name+".json"), b, 0o600)
}

func c09BuildScenarios(run *ev.Run, parts []c09Part, scratch string) []c09Scn {
	var out []c09Scn
	for _, p := range parts {
		var rec c09Rec
		b, err := os.ReadFile(filepath.Join(scratch, "rec", p.Name+".json"))
		if err != nil || json.Unmarshal(b, &rec) != nil {
			ev.Unbound("C09: no recording for " + p.Name)
		}
		// targets: the first hourly job (all modes); thorough: also the next hourly job and the first daily job (job-kill)
		var targets []c09JobLog
		var hourly []c09JobLog
		for _, l := range rec.Jobs {
			if l.Tier == "hourly" && l.Nth == 0 {
				hourly = append(hourly, l)
			}
		}
		sort.Slice(hourly, func(i, j int) bool {
			if hourly[i].Partition != hourly[j].Partition {
				return hourly[i].Partition < hourly[j].Partition
			}
			return hourly[i].Batch < hourly[j].Batch
		})
		if len(hourly) == 0 {
			ev.Unbound("C09: no hourly job recorded for " + p.Name)
		}
		targets = append(targets, hourly[0])
		if !run.Quick() && (p.Name == "plain6" || p.Name == "tags6dup" || p.Name == "twohours" || p.Name == "plain12" || p.Name == "tagshrink7") {
			if len(hourly) > 1 {
				targets = append(targets, hourly[1])
			}
			for _, l := range rec.Jobs {
				if l.Tier == "daily" && l.Nth == 0 {
					targets = append(targets, l)
					break
				}
			}
		}
		// temp-directory calls (package compaction's own os calls: download, DuckDB spill dir, cleanup) leave the
		// storage untouched and are equivalent as fault points: the two mkdirs, the first and the last download call
		// and the cleanup stand for their phases
		keep := func(ops []vos.Op) map[int]bool {
			k := map[int]bool{}
			first, last := -1, -1
			for i, op := range ops {
				if c09RecLabel(op) == "download-to-temp" {
					if first < 0 {
						first = i
					}
					last = i
				} else {
					k[i] = true
				}
			}
			if first >= 0 {
				k[first], k[last] = true, true
			}
			return k
		}
		// one fault point per distinct FILE step kind: the first call with each step label that creates, writes, renames or
		// deletes a file of the store (directory mkdir/rmdir calls are not file steps), and the last input delete
		kinds := func(ops []vos.Op) map[int]bool {
			k := map[int]bool{}
			seen := map[string]bool{}
			lastDel := -1
			for i, op := range ops {
				lab := c09RecLabel(op)
				if c09Phase(lab) || op.Kind == "mkdir" || lab == "empty-dir-remove" {
					continue
				}
				if !seen[lab] {
					seen[lab], k[i] = true, true
				}
				if lab == "input-delete" {
					lastDel = i
				}
			}
			if lastDel >= 0 {
				k[lastDel] = true
			}
			return k
		}
		// quick tier: which (mode, call, torn) of the first hourly job are fault points for this partition (see c09Part.Quick)
		quickWants := func(md string, k int, lab string, torn bool, kd map[int]bool) bool {
			switch p.Quick {
			case "full":
				return (md == "job-kill" && !c09Phase(lab)) || ((md == "node-crash" || md == "job-error") && kd[k] && !torn)
			case "storage":
				return md == "job-kill" && !c09Phase(lab)
			case "kinds":
				return md == "job-kill" && kd[k] && !torn
			}
			return false
		}
		allModes := !run.Quick()
		for ti, t := range targets {
			job := fmt.Sprintf("%s-b%d", t.Tier, t.Batch)
			if ti == 1 && t.Tier == "hourly" && t.Partition != targets[0].Partition {
				job = "hourly-b1(second-partition)"
			}
			kp, kd := keep(t.Ops), kinds(t.Ops)
			k3 := map[int]bool{}
			for _, want := range []string{"manifest-rename", "output-rename", "input-delete"} {
				for k, op := range t.Ops {
					if c09RecLabel(op) == want {
						k3[k] = true
						break
					}
				}
			}
			for k, op := range t.Ops {
				if !kp[k] {
					continue
				}
				lab := c09RecLabel(op)
				base := c09Scn{Part: p.Name, Label: lab, Op: op, Job: job, BatchFiles: len(t.Files),
					Fault: c09Fault{Tier: t.Tier, Partition: t.Partition, Batch: t.Batch, Nth: 0, K: k, Torn: -1}}
				modes := []string{"job-kill"}
				if ti == 0 {
					modes = []string{"job-kill", "node-crash"}
					if allModes || p.Quick == "full" {
						modes = append(modes, "job-error")
					}
				}
				// the time dimension: every job-kill of a batch that the adaptive retry can split (>= 2*MinFilesPerBatch
				// files: the killed job, its two halves, the sibling batches and the daily job are all launched in the
				// same cycle) is ALSO run under each of the other placements of the job processes on the time line.
				// Quick: plan 'full' only; gap same-second x K (one call per file step kind); gaps minute and hour x K3 = the
				// first manifest-rename (killed before its manifest exists: nothing to settle), the first output-rename (manifest
				// and complete staging file, output not final: rolled back, both halves compact) and the first input-delete
				// (output final: the parent completes the job, the halves find nothing to do).
				timed := func(s c09Scn, torn bool) {
					if s.Mode != "job-kill" || s.BatchFiles < 2*compaction.MinFilesPerBatch {
						return
					}
					if run.Quick() && !(p.Quick == "full" && ti == 0 && kd[k] && !torn) {
						return
					}
					for _, g := range c09TimedGaps {
						if run.Quick() && g != "same-second" && !k3[k] {
							continue
						}
						s.Gap = g
						out = append(out, s)
					}
				}
				for _, md := range modes {
					s := base
					s.Mode = md
					s.Fault.Mode = "kill"
					if md == "job-error" {
						s.Fault.Mode = "fail"
					}
					if !run.Quick() || quickWants(md, k, lab, false, kd) {
						out = append(out, s)
					}
					timed(s, false)
					if md != "job-error" && op.Kind == "write" && op.Len > 1 && (lab == "output-part-write" || lab == "manifest-tmp-write") {
						s.Fault.Torn = op.Len / 2
						s.Label = lab + "(torn)"
						if !run.Quick() || quickWants(md, k, lab, true, kd) {
							out = append(out, s)
						}
						timed(s, true)
					}
				}
			}
		}
		// crash-free under the other placements (sibling batches and the daily job): quick = plan 'full' only
		if (!run.Quick() || p.Quick == "full") && len(rec.Jobs) >= 2 {
			for _, g := range c09TimedGaps {
				out = append(out, c09Scn{Part: p.Name, Mode: "crash-free", Job: "-", Label: "-", Gap: g})
			}
		}
		if allModes {
			kp := keep(rec.Inproc)
			for k, op := range rec.Inproc {
				if kp[k] {
					out = append(out, c09Scn{Part: p.Name, Mode: "inproc-error", Label: c09RecLabel(op), Op: op, Job: rec.InJob, BatchFiles: rec.InN,
						Fault: c09Fault{Tier: "hourly", Partition: targets[0].Partition, Batch: 1, K: k, Torn: -1, Mode: "fail"}})
				}
			}
		}
	}
	if only := os.Getenv("VERIF_C09_ONLY"); only != "" {
		var f []c09Scn
		for _, s := range out {
			if strings.Contains(strings.Join([]string{s.Part, s.Mode, s.Job, s.Label, "launches:" + c09GapName(s.Gap)}, "|"), only) {
				f = append(f, s)
			}
		}
		out = f
	}
	// storage mutations first, phase kills last, partitions interleaved: a capped run covers the core first
	prio := func(s c09Scn) int {
		switch {
		case strings.HasPrefix(s.Label, "input-delete"), strings.HasPrefix(s.Label, "output-"), strings.HasPrefix(s.Label, "manifest-"):
			return 0
		case c09Phase(s.Label):
			return 2
		}
		return 1
	}
	mprio := map[string]int{"job-kill": 0, "node-crash": 1, "job-error": 2, "inproc-error": 3, "crash-free": 0}
	// the placement "all job processes of a cycle within one second" first (nothing else covers name collisions between
	// them), the placements across a minute / an hour boundary last
	gprio := map[string]int{"same-second": 0, "": 1, "minute": 2, "hour": 2}
	sort.SliceStable(out, func(i, j int) bool {
		a, b := out[i], out[j]
		if gprio[a.Gap] != gprio[b.Gap] {
			return gprio[a.Gap] < gprio[b.Gap]
		}
		if prio(a) != prio(b) {
			return prio(a) < prio(b)
		}
		if (a.Job == "hourly-b1") != (b.Job == "hourly-b1") {
			return a.Job == "hourly-b1"
		}
		if mprio[a.Mode] != mprio[b.Mode] {
			return mprio[a.Mode] < mprio[b.Mode]
		}
		return false
	})
	return out
}

// c09RelOp makes the paths of a recorded call independent of the scratch directory.
func c09RelOp(op vos.Op, store, tmp string) vos.Op {
	rel := func(p string) string {
		if p == store || strings.HasPrefix(p, store+"/") {
			return "$STORE" + p[len(store):]
		}
		if p == tmp || strings.HasPrefix(p, tmp+"/") {
			return "$TMP" + p[len(tmp):]
		}
		return p
	}
	op.Path, op.Path2 = rel(op.Path), rel(op.Path2)
	return op
}

// c09Phase: a call on the job's temp directory (or the no-op mkdir of the existing storage root).
func c09Phase(label string) bool {
	return strings.HasPrefix(label, "temp-") || label == "download-to-temp" || label == "storage-root-mkdir"
}

func c09RecLabel(op vos.Op) string { return c09Label(op, "$STORE", "$TMP") }

// c09Regroup: class-level reporting for the time dimension. A violation seen under a placement other than "one
// second apart" carries "|launches:<gap>" as 7th field. If the same violation (same first six fields) was ALSO seen
// one second apart, the placement is not part of the counterexample: it is folded into that signature. Otherwise
// neither the kill point nor the observation point is part of the class (every kill that makes the parent split
// the batch shows it): one signature <kind>|timed|<mode>|<job>|<shape>|launches:<gap> per class.
func c09Regroup(run *ev.Run, ctr map[string]int64) {
	vs, counts := run.TakeViolations()
	have := map[string]bool{}
	for _, v := range vs {
		have[v.Signature] = true
	}
	type grp struct {
		v       ev.Violation
		n       int
		at, lab map[string]bool
	}
	groups := map[string]*grp{}
	var order []string
	emit := func(v ev.Violation, n int) {
		for i := 0; i < max(1, n); i++ {
			run.Violate(v.Signature, v.Desc, v.Replay)
		}
	}
	for _, v := range vs {
		f := strings.Split(v.Signature, "|")
		if len(f) == 4 && f[0] == "same-output-path-different-inputs" && f[3] != "launches:next-second" && have[strings.Join(f[:3], "|")+"|launches:next-second"] {
			// the same pair of jobs collides one second apart too: the placement is not part of the counterexample
			ctr["violations_under_other_launch_gaps_folded_into_the_one_second_signature"] += int64(counts[v.Signature])
			continue
		}
		if len(f) != 7 || !strings.HasPrefix(f[6], "launches:") {
			emit(v, counts[v.Signature])
			continue
		}
		if have[strings.Join(f[:6], "|")] {
			ctr["violations_under_other_launch_gaps_folded_into_the_one_second_signature"] += int64(counts[v.Signature])
			continue
		}
		key := strings.Join([]string{f[0], "timed", f[2], f[3], f[5], f[6]}, "|")
		g := groups[key]
		if g == nil {
			g = &grp{v: v, at: map[string]bool{}, lab: map[string]bool{}}
			groups[key] = g
			order = append(order, key)
		}
		g.n += counts[v.Signature]
		g.at[f[1]], g.lab[f[4]] = true, true
	}
	keys := func(m map[string]bool) string {
		var ks []string
		for k := range m {
			ks = append(ks, k)
		}
		sort.Strings(ks)
		return strings.Join(ks, ", ")
	}
	for _, key := range order {
		g := groups[key]
		g.v.Signature = key
		g.v.Desc += fmt.Sprintf(" [NOT seen with the job processes one second apart; seen %d times, observed %s, fault points: %s]", g.n, keys(g.at), keys(g.lab))
		emit(g.v, g.n)
	}
}

func c09Report(run *ev.Run, parts []c09Part, scns []c09Scn, ctr map[string]int64, samples []any, complete bool) {
	c09Regroup(run, ctr)
	run.Coverage["evaluations"] = ctr["evals"]
	run.Coverage["distinct_nontrivial"] = ctr["nontrivial"]
	var names []string
	for _, p := range parts {
		n := fmt.Sprintf("%s(files=%d,max_files_per_batch=%d", p.Name, len(p.Files), p.MaxBatch)
		if ts := p.tagShape(); ts != "" {
			n += ",arc:tags differ:" + ts
		}
		if run.Quick() {
			n += ",plan=" + p.Quick
		}
		names = append(names, n+")")
	}
	labels := map[string]int{}
	modes := map[string]int{}
	gaps := map[string]int{}
	timedKill := map[string]int{}
	for _, s := range scns {
		labels[s.Label]++
		modes[s.Mode]++
		gaps[s.Mode+" x launches:"+c09GapName(s.Gap)]++
		if s.Mode == "job-kill" && s.BatchFiles >= 2*compaction.MinFilesPerBatch {
			timedKill[c09GapName(s.Gap)]++
		}
	}
	rule := "one evaluation = one (partition, fault mode, target job, mutating file-system call k of that job [, half-length torn write for the manifest temp file and the uploaded .part]) executed on the real Manager/Job/ManifestManager/LocalBackend/DuckDB with real job subprocesses, followed by later cycles (+2h each) until the listing is stable (<=3), plus one crash-free run per partition (all hourly batches and the daily job, then later cycles; thorough: also an in-process Job.Run). Fault points of a job: E = EVERY mutating call of LocalBackend made by it (manifest mkdir/temp create/write/rename, partition mkdir, .part create/write/rename, each input delete, manifest delete, empty-dir remove; torn variants of the two writes) plus, as phase kills, the calls of package compaction on its temp directory (both mkdirs, the first and the last of the storage-neutral download calls, the cleanup) and NewLocalBackend's mkdir of the root; S = E without the phase kills; K = one call per distinct FILE step kind = the first call of S with each step label that creates, writes, renames or deletes a file (manifest temp create/write/rename, .part create/write/rename, input delete, manifest delete; not the directory mkdir/rmdir calls) plus the last input delete, no torn variants. "
	if run.Quick() {
		byPlan := map[string][]string{}
		for _, p := range parts {
			byPlan[p.Quick] = append(byPlan[p.Quick], p.Name)
		}
		pl := func(k string) string { return strings.Join(byPlan[k], ", ") }
		rule += "QUICK space (complete, not sampled): target = the first hourly job; crash-free run of all " + strconv.Itoa(len(parts)) + " quick partitions; plan 'full' (" + pl("full") + ": representative of partitions without dedup metadata, splittable batch of 4): job-kill x S, node-crash x K and job-error x K; plan 'storage' (" + pl("storage") + ": representative of the class 'files of one batch disagree on arc:tags', splittable batch of 4): job-kill x S; plan 'kinds' (" + pl("kinds") + ": the other shapes of that class): job-kill x K; plan 'crashfree' (" + pl("crashfree") + "): crash-free only. inproc-error, the phase kills, node-crash and job-error at every call, further target jobs and the other partitions are left to the thorough tier. "
	} else {
		rule += "THOROUGH space: job-kill, node-crash and job-error x E on the first hourly job of every partition, inproc-error x every call of an in-process Job.Run of that batch, and for 5 partitions also the second hourly job and the first daily job as targets (job-kill x E). "
	}
	rule += "TIME is an enumerated dimension: the clock of a job process = the parent's virtual clock at the start of the cycle + (k+1)*gap for the k-th job process launched in that cycle (strictly ordered launches, uniformly spaced; afterwards the parent's clock moves past them, later cycles start 2h after that), gap in {1 ms ('same-second': the killed job, both halves of its split-and-retry, the sibling batches and the daily job all read the same wall-clock second), 1 s (every scenario above), 1 min, 1 h (across a minute / an hour boundary, equal lower fields)}: any two job processes of a cycle differ by a multiple of the gap, so a name collision between ANY pair of them that depends on the fields of the clock they share shows under one of the four. "
	if run.Quick() {
		rule += "QUICK (plan 'full': first hourly job, a splittable batch of 4): gap same-second x (job-kill x K + the crash-free run); gaps minute and hour x (job-kill x K3 + the crash-free run), K3 = the first manifest-rename (killed before its manifest exists), the first output-rename (manifest and complete staging file, output not final: rolled back, both halves compact) and the first input-delete (output final: the parent completes the job, the halves find nothing to do). "
	} else {
		rule += "THOROUGH: the three other gaps x (EVERY job-kill scenario above whose target batch the adaptive retry can split, i.e. >= 4 files, + the crash-free run of every partition). "
	}
	rule += "In every scenario the outputs of all job processes (rename targets and *.parquet.part staging files of their call logs) are compared: two different job processes with different inputs must not write the same path (signature family same-output-path-different-inputs|...). "
	rule += "non-trivial = the job really reached the call and was killed / got EIO there (read from the job process's own log; otherwise the run is flagged); distinct because (partition, mode, job, k, torn) differ. A violation kind that the crash-free run of a partition already shows is reported once, under the crash-free signature (the fault is not part of the minimal counterexample)"
	run.Coverage["rule"] = rule
	run.Coverage["samples"] = samples
	run.Coverage["partitions"] = names
	run.Coverage["fault_points_by_step"] = labels
	run.Coverage["scenarios_by_mode"] = modes
	run.Coverage["scenarios_by_mode_and_launch_gap"] = gaps
	run.Coverage["job_kill_scenarios_with_splittable_batch_by_launch_gap"] = timedKill
	run.Coverage["launch_gaps"] = map[string]string{"same-second": "1ms", "next-second": "1s", "minute": "1m", "hour": "1h"}
	run.Coverage["scenarios"] = len(scns)
	run.Coverage["exhaustive"] = complete
	for k, v := range ctr {
		if k != "evals" && k != "nontrivial" {
			run.Coverage[k] = v
		}
	}
	run.Assume("crash model: process crash of the job (SIGKILL) at a mutating file-system call: every completed call is visible, nothing later reaches the disk; torn writes for the manifest and the uploaded output (half length); power-loss reordering not modelled (LocalBackend never fsyncs)")
	run.Assume("the wall clock of package compaction is virtual (overlay) in the parent and in every job process; the parent's clock stands still (1 us per reading) while a cycle runs, the job processes of a cycle are placed gap apart after it (gap enumerated: 1 ms, 1 s, 1 min, 1 h; uniform within a scenario, mixed gaps are not enumerated), and a job process's own clock moves 1 us per reading; two sequentially launched job processes never read the IDENTICAL nanosecond (they are at least 1 ms apart) and the clock never steps back")
	run.Assume("dedup partitions: the survivor of a duplicate (tags,time) key is unspecified and keys that stay uncollapsed (duplicates in different batches or split halves) are NOT judged; only 'at least one and at most as many rows per key as before, every row one of the inputs'; duplicate keys with a NULL tag are excluded from the generator")
	run.Assume("partitions whose files disagree on arc:tags: the key of a row is (every tag declared by ANY file of the measurement, time), so two input rows that differ in any such tag must both survive; the generator lets a file carry a column that is a tag somewhere only if the file declares it itself (files without any arc:tags carry only the tag every tagged file declares), i.e. rows of a file that does not declare a tag are NULL in it; what compaction should do with a tag column carried as a plain field is not judged")
	run.Assume("node-crash (job and parent die together) is enumerated for the first job of a partition only; for later jobs of the cycle only the job dies; one fault per scenario; LocalBackend only (no S3/Azure batch delete); OSS mode (no completion manifests, no edge-sync observers)")
	run.Assume("the job subprocess is this harness binary: stdin JSON -> the real compaction.RunSubprocessJob -> stdout JSON; the ~45 lines of flag/JSON glue in cmd/arc runCompactSubcommand are mirrored, not executed (the arc binary needs seconds to start)")
	os.RemoveAll(c09Scratch())
	run.Finish()
}
