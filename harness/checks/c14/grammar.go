package main

// The adversarial SQL grammar of C14. Everything here is a finite table; the check enumerates the full
// product  skeleton x filler x decoy x header  (thorough) or the product of the Core subsets (quick).
// Index 0 of every dimension is the canonical (simplest) value; every filler names a simpler Base filler.
// Canonical values and bases are members of the Core subsets, so the structural minimisation (replace a
// dimension by its canonical value / base while the oracle still fails) stays inside the enumerated space
// in both tiers.

import (
	"database/sql"
	"fmt"
	"net/url"
	"sort"
	"strings"
)

// ---- skeletons -------------------------------------------------------------------------------------

// Template slots: {C} comment decoy at statement start, {I} select-list decoy, {P} the authorised table
// (db1.cpu without header, cpu with one), {A} alias of the authorised table (default " a"), {T} the
// adversarial table-position filler, {ONTAIL} decoy appended to an ON condition, {POST} trailing decoy.
// {A0} is an alias slot (default empty) that only the bareword decoys fill: the alias of an authorised table
// that precedes a later UNION branch / subquery holding {T}.
type skeleton struct {
	Name string
	Tmpl string
	Core bool
	Base string // name of a simpler skeleton tried first when minimising ("" = select)
	Get  bool   // transported as GET /api/v1/query/cpu?database=db1&where=<Tmpl> (no header, no decoys)
}

func buildSkeletons() []skeleton {
	s := []skeleton{
		{Name: "select", Tmpl: "{C}SELECT {I}* FROM {T}{POST}", Core: true},
		{Name: "cte", Tmpl: "{C}WITH c AS (SELECT {I}* FROM {T}) SELECT * FROM c{POST}", Core: true},
		{Name: "cte-shadows-measurement", Tmpl: "{C}WITH cpu AS (SELECT {I}* FROM {T}) SELECT * FROM cpu{POST}", Base: "cte"},
		{Name: "subquery-from", Tmpl: "{C}SELECT * FROM (SELECT {I}* FROM {T}) s{POST}", Core: true},
		{Name: "subquery-where-in", Tmpl: "{C}SELECT {I}* FROM {P}{A0} WHERE host IN (SELECT host FROM {T}){POST}", Core: true},
		{Name: "subquery-where-exists", Tmpl: "{C}SELECT {I}* FROM {P} WHERE EXISTS (SELECT 1 FROM {T}){POST}", Base: "subquery-where-in"},
		{Name: "subquery-where-scalar", Tmpl: "{C}SELECT {I}* FROM {P} WHERE (SELECT count(*) FROM {T}) >= 0{POST}", Base: "subquery-where-in"},
		{Name: "subquery-select-scalar", Tmpl: "{C}SELECT {I}(SELECT count(*) FROM {T}) AS n{POST}"},
		{Name: "comma-join", Tmpl: "{C}SELECT {I}* FROM {P}{A}, {T} b{POST}", Core: true},
		{Name: "comma-join-first", Tmpl: "{C}SELECT {I}* FROM {T} a, {P} b{POST}", Base: "comma-join"},
		{Name: "comma-join-after-subquery", Tmpl: "{C}SELECT {I}* FROM (SELECT 1) a, {T} b{POST}", Base: "comma-join"},
		{Name: "comma-join-after-on", Tmpl: "{C}SELECT {I}* FROM {P} a JOIN {P} c ON a.host = c.host{ONTAIL}, {T} b{POST}", Core: true, Base: "comma-join"},
		{Name: "union-all", Tmpl: "{C}SELECT {I}* FROM {P}{A0} UNION ALL SELECT * FROM {T}{POST}", Core: true},
		{Name: "union-all-first", Tmpl: "{C}SELECT {I}* FROM {T} UNION ALL SELECT * FROM {P}{POST}", Base: "union-all"},
		{Name: "except", Tmpl: "{C}SELECT {I}* FROM {T} EXCEPT SELECT * FROM {P}{POST}", Base: "union-all"},
	}
	// every JOIN kind, adversarial table on the right (and, for plain JOIN, on the left)
	type jk struct {
		kw, on string
		core   bool
	}
	joins := []jk{
		{"JOIN", " ON true", true}, {"INNER JOIN", " ON true", false}, {"LEFT JOIN", " ON true", false},
		{"FULL OUTER JOIN", " ON true", false}, {"CROSS JOIN", "", true},
		{"NATURAL JOIN", "", false}, {"SEMI JOIN", " ON true", false},
		{"ASOF JOIN", " USING (time)", true},
		{"POSITIONAL JOIN", "", false}, {"JOIN LATERAL", " ON true", true}, {"CROSS JOIN LATERAL", "", false},
	}
	for _, j := range joins {
		name := "join:" + strings.ToLower(strings.ReplaceAll(j.kw, " ", "-"))
		base := "join:join"
		if j.kw == "JOIN" {
			base = ""
		}
		s = append(s, skeleton{Name: name, Tmpl: "{C}SELECT {I}* FROM {P}{A} " + j.kw + " {T} b" + j.on + "{POST}", Core: j.core, Base: base})
	}
	s = append(s, skeleton{Name: "join-first", Tmpl: "{C}SELECT {I}* FROM {T} a JOIN {P} b ON true{POST}", Core: true, Base: "join:join"})
	// table positions that are introduced by neither FROM nor JOIN
	s = append(s,
		skeleton{Name: "from-first", Tmpl: "{C}FROM {T}{POST}", Core: true},
		skeleton{Name: "table-stmt", Tmpl: "{C}TABLE {T}{POST}", Core: true},
		skeleton{Name: "table-in-subquery", Tmpl: "{C}SELECT {I}* FROM (TABLE {T}) s{POST}", Base: "table-stmt"},
		skeleton{Name: "table-in-union", Tmpl: "{C}SELECT {I}* FROM {P} UNION ALL TABLE {T}{POST}", Base: "table-stmt"},
		skeleton{Name: "table-in-cte", Tmpl: "{C}WITH c AS (TABLE {T}) SELECT {I}* FROM c{POST}", Base: "table-stmt"},
		skeleton{Name: "describe", Base: "table-stmt", Tmpl: "{C}DESCRIBE {T}{POST}", Core: true},
		skeleton{Name: "show", Tmpl: "{C}SHOW {T}{POST}", Base: "describe"},
		skeleton{Name: "describe-in-subquery", Tmpl: "{C}SELECT {I}* FROM (DESCRIBE {T}) s{POST}", Base: "describe"},
		skeleton{Name: "pivot-wider", Tmpl: "{C}PIVOT_WIDER {T} ON host USING sum(value){POST}", Base: "pivot"},
		skeleton{Name: "pivot-in-subquery", Tmpl: "{C}SELECT {I}* FROM {P} a, (PIVOT {T} ON host USING sum(value)) b{POST}", Base: "pivot"},
		skeleton{Name: "summarize", Base: "table-stmt", Tmpl: "{C}SUMMARIZE {T}{POST}"},
		skeleton{Name: "pivot", Base: "table-stmt", Tmpl: "{C}PIVOT {T} ON host USING sum(value){POST}", Core: true},
		skeleton{Name: "unpivot", Base: "pivot", Tmpl: "{C}UNPIVOT {T} ON value INTO NAME n VALUE v{POST}"},
	)
	// the GET endpoint that assembles its own statement around a caller-supplied WHERE fragment
	s = append(s,
		skeleton{Name: "get-where-in", Tmpl: "host IN (SELECT host FROM {T})", Core: true, Get: true},
		skeleton{Name: "get-where-exists-table", Tmpl: "EXISTS (TABLE {T})", Core: true, Get: true, Base: "table-stmt"},
		skeleton{Name: "get-where-comma", Tmpl: "EXISTS (SELECT 1 FROM db1.cpu \"where\", {T})", Get: true, Base: "get-where-in"},
	)
	return s
}

// ---- table-position fillers ----------------------------------------------------------------------------

type filler struct {
	Family string // class of disguise (part of the violation class when it is what makes the statement pass)
	Text   string
	Core   bool
	Glue   bool   // no whitespace between the preceding keyword and the filler (FROM'...')
	BaseK  string // key of the simpler filler tried when minimising ("" = none)
	Key    string // unique key
	Base   int    // resolved index of BaseK, -1 when none
	Base2K string // a second simpler filler, tried when Base does not reproduce the violation
	Base2  int
	BWOK   bool // takes part in the product with the bareword decoys
	BWQ    bool // ... also in the quick tier
}

const (
	p0 = "{ROOT}/db2/secrets/**/*.parquet"
)

type pathVariant struct {
	name, p string
	core    bool
}

var pathVariants = []pathVariant{
	{"glob", p0, true},
	{"exact-file", "{ROOT}/db2/secrets/2024/01/01/00/secrets.parquet", true},
	{"wildcard-db", "{ROOT}/*/secrets/**/*.parquet", false},
	{"dotdot", "{ROOT}/db1/../db2/secrets/**/*.parquet", false},
	{"whole-root", "{ROOT}/**/*.parquet", true},
	{"double-slash", "{ROOT}//db2//secrets/**/*.parquet", false},
	{"file-scheme", "file://{ROOT}/db2/secrets/**/*.parquet", false},
	{"authorised-db1", "{ROOT}/db1/cpu/**/*.parquet", true},
}

// unicode characters DuckDB's tokenizer may treat as blanks; Go's \s and isWhitespace() know none of them
var uniSpaces = []struct {
	name string
	r    rune
	core bool
}{
	{"U+00A0", 0x00A0, true}, {"U+0085", 0x0085, false}, {"U+1680", 0x1680, false}, {"U+180E", 0x180E, false},
	{"U+2000", 0x2000, false}, {"U+2001", 0x2001, false}, {"U+2002", 0x2002, false}, {"U+2003", 0x2003, true},
	{"U+2004", 0x2004, false}, {"U+2005", 0x2005, false}, {"U+2006", 0x2006, false}, {"U+2007", 0x2007, false},
	{"U+2008", 0x2008, false}, {"U+2009", 0x2009, false}, {"U+200A", 0x200A, false}, {"U+200B", 0x200B, false},
	{"U+200C", 0x200C, false}, {"U+200D", 0x200D, false}, {"U+2028", 0x2028, false}, {"U+2029", 0x2029, false},
	{"U+202F", 0x202F, false}, {"U+205F", 0x205F, false}, {"U+2060", 0x2060, false}, {"U+3000", 0x3000, true},
	{"U+FEFF", 0xFEFF, false},
}

func sqQuote(s string) string { return "'" + strings.ReplaceAll(s, "'", "''") + "'" }

// catalogTableFunctions lists, from DuckDB's own catalog (a plain in-memory instance of the same library
// the server links), every table function with an overload whose first parameter is VARCHAR or VARCHAR[]
// — the functions that can be handed a path or a SQL text. Functions that change instance state are
// excluded (they would make later cases depend on earlier ones).
func catalogTableFunctions() []string {
	db, err := sql.Open("duckdb", "")
	must(err, "catalog duckdb")
	defer db.Close()
	rows, err := db.Query(`SELECT DISTINCT function_name FROM duckdb_functions()
		WHERE function_type = 'table' AND (parameter_types[1] = 'VARCHAR' OR parameter_types[1] = 'VARCHAR[]')
		ORDER BY 1`)
	must(err, "duckdb_functions()")
	defer rows.Close()
	stateful := map[string]bool{"checkpoint": true, "force_checkpoint": true, "enable_profiling": true, "enable_logging": true,
		"check_peg_parser": true}
	var out []string
	for rows.Next() {
		var n string
		must(rows.Scan(&n), "scan")
		if !stateful[n] {
			out = append(out, n)
		}
	}
	if len(out) < 10 {
		must(fmt.Errorf("only %d table functions found", len(out)), "catalog enumeration")
	}
	return out
}

// spellings applied to parquet_scan / read_csv / glob (read_parquet gets the whole table)
var secondarySpellings = map[string]bool{"plain": true, "upper": true, "dq": true, "bt": true, "schema": true, "gap:space": true, "gap:newline": true,
	"gap:formfeed": true, "gap:vtab": true, "gap:block-comment": true, "gap:line-comment": true, "gap:nested-comment": true,
	"gap:unicode:U+00A0": true, "gap:unicode:U+3000": true, "arg:list": true, "arg:concat": true}
var quickSecondary = map[string]bool{"plain": true, "dq": true, "gap:unicode:U+00A0": true, "gap:block-comment": true}

var coreFns = []string{"read_parquet", "parquet_scan", "read_csv", "glob"}

func fnArg(fn string) string {
	switch {
	case fn == "glob":
		return "{ROOT}/db2/**"
	case strings.HasPrefix(fn, "read_csv"), fn == "sniff_csv", fn == "read_text", fn == "read_blob":
		return "{ROOT}/db2/secrets/2024/01/01/00/notes.csv"
	}
	return p0
}

func capitalizeSegments(s string) string {
	parts := strings.Split(s, "_")
	for i, p := range parts {
		if p != "" {
			parts[i] = strings.ToUpper(p[:1]) + p[1:]
		}
	}
	return strings.Join(parts, "_")
}

var coreNames = map[string]bool{"dq-both": true, "bt-both": true, "sq-whole": true, "comment-before-name": true, "nbsp-before-dot": true,
	"dq-dotdot-table": true, "ident-lookalike-db": true, "only": true}

func buildFillers(catalog []string) []filler {
	var f []filler
	add := func(key, family, text, base string, core bool) {
		f = append(f, filler{Key: key, Family: family, Text: text, BaseK: base, Core: core})
	}
	// --- names -----------------------------------------------------------------------------------------
	add("name:qualified", "name:db.table", "db2.secrets", "", true) // canonical filler (index 0)
	add("name:bare", "name:bare", "secrets", "", true)
	add("name:authorised", "name:authorised", "db1.cpu", "", true)
	add("name:authorised-bare", "name:authorised", "cpu", "", true)
	names := []struct{ k, t string }{
		{"dq-db", `"db2".secrets`}, {"dq-table", `db2."secrets"`}, {"dq-both", `"db2"."secrets"`}, {"dq-whole", `"db2.secrets"`},
		{"bt-both", "`db2`.`secrets`"}, {"bt-whole", "`db2.secrets`"},
		{"sq-whole", `'db2.secrets'`}, {"dollar-whole", `$$db2.secrets$$`}, {"estr-whole", `E'db2.secrets'`},
		{"dq-escaped-quote", `"db2""".secrets`},
		{"space-dot", "db2 . secrets"}, {"comment-before-dot", "db2/**/.secrets"}, {"comment-after-dot", "db2./**/secrets"},
		{"newline-dot", "db2\n.secrets"}, {"line-comment-dot", "db2 --x\n.secrets"}, {"comment-before-name", "/* x */ db2.secrets"},
		{"line-comment-before-name", "--x\ndb2.secrets"}, {"nested-comment-before-name", "/*/**/*/db2.secrets"},
		{"nbsp-before-dot", "db2 .secrets"}, {"nbsp-after-dot", "db2. secrets"},
		{"upper", "DB2.SECRETS"},
		{"catalog-qualified", "memory.db2.secrets"},
		{"dq-dotdot-db", `"db1/../db2".secrets`}, {"dq-dotdot-table", `db1."../db2/secrets"`}, {"dq-dotdot-both", `db1."cpu/../../db2/secrets"`},
		{"dq-slash", `"db2/secrets"`},
		{"ident-lookalike-db", "__IDENT_0__.secrets"}, {"ident-lookalike-table", "db2.__IDENT_0__"}, {"ident-lookalike", "__IDENT_0__"},
		{"str-lookalike", "__STR_0__"}, {"str-lookalike-table", "db2.__STR_0__"}, {"frommask-lookalike", "db2.__FROM_MASK_0__"},
		{"only", "ONLY db2.secrets"}, {"parenthesised", "(db2.secrets)"},
	}
	for _, n := range names {
		add("name:"+n.k, "name:"+n.k, n.t, "name:qualified", coreNames[n.k])
	}
	f = append(f, filler{Key: "name:dq-both-glued", Family: "name:glued", Text: `"db2"."secrets"`, Glue: true, BaseK: "name:dq-both"})

	// --- quoted paths (replacement scans) ----------------------------------------------------------------
	quoteStyles := []struct {
		k    string
		q    func(string) string
		core bool
	}{
		{"sq", func(p string) string { return "'" + p + "'" }, true},
		{"dq", func(p string) string { return `"` + p + `"` }, true},
		{"bt", func(p string) string { return "`" + p + "`" }, true},
		{"dollar", func(p string) string { return "$$" + p + "$$" }, true},
		{"dollar-tag", func(p string) string { return "$p$" + p + "$p$" }, false},
		{"estr", func(p string) string { return "E'" + p + "'" }, true},
		{"estr-hex-escape", func(p string) string { return "E'" + strings.Replace(p, "secrets", `sec\x72ets`, 1) + "'" }, true},
		{"estr-escaped-quote", func(p string) string { return `E'\'` + p + "'" }, false},
		{"ustr", func(p string) string { return "U&'" + strings.Replace(p, "secrets", `sec\0072ets`, 1) + "'" }, false},
		{"sq-adjacent", func(p string) string { i := len(p) / 2; return "'" + p[:i] + "'\n'" + p[i:] + "'" }, false},
	}
	for _, pv := range pathVariants {
		for _, qs := range quoteStyles {
			if pv.name != "glob" && qs.k != "sq" && qs.k != "dq" && qs.k != "dollar" && qs.k != "estr" {
				continue
			}
			// simpler: the same quote style around the canonical glob, else the plain quote around the same path
			base, base2 := "path:"+qs.k+":glob", "path:sq:"+pv.name
			if pv.name == "glob" {
				base, base2 = "path:sq:glob", ""
				if qs.k == "sq" {
					base = ""
				}
			} else if qs.k == "sq" {
				base2 = ""
			}
			add("path:"+qs.k+":"+pv.name, "path:"+qs.k, qs.q(pv.p), base, (qs.core && pv.name == "glob") || (qs.k == "sq" && pv.core))
			f[len(f)-1].Base2K = base2
		}
	}
	f = append(f, filler{Key: "path:sq-glued", Family: "path:glued", Text: "'" + p0 + "'", Glue: true, BaseK: "path:sq:glob", Core: true})
	f = append(f, filler{Key: "path:dq-glued", Family: "path:glued", Text: `"` + p0 + `"`, Glue: true, BaseK: "path:dq:glob", Core: true})
	f = append(f, filler{Key: "path:dollar-glued", Family: "path:glued", Text: "$$" + p0 + "$$", Glue: true, BaseK: "path:dollar:glob"})
	add("path:sq-only", "path:only", "ONLY '"+p0+"'", "path:sq:glob", true)
	add("path:sq-only-parenthesised", "path:only", "ONLY ('"+p0+"')", "path:sq-only", true)
	add("path:dq-only-parenthesised", "path:only", "ONLY (\""+p0+"\")", "path:sq-only", false)
	add("path:sq-lateral", "path:lateral", "LATERAL '"+p0+"'", "path:sq:glob", false)
	add("path:sq-parenthesised", "path:parenthesised", "('"+p0+"')", "path:sq:glob", false)

	// --- file-reading table functions -----------------------------------------------------------------------
	type spelling struct {
		k    string
		mk   func(fn, arg string) string
		core bool
	}
	call := func(name, gap string) func(fn, arg string) string {
		return func(fn, arg string) string { return strings.ReplaceAll(name, "%", fn) + gap + "(" + sqQuote(arg) + ")" }
	}
	spellings := []spelling{
		{"plain", call("%", ""), true},
		{"upper", func(fn, a string) string { return strings.ToUpper(fn) + "(" + sqQuote(a) + ")" }, true},
		{"mixed-case", func(fn, a string) string { return capitalizeSegments(fn) + "(" + sqQuote(a) + ")" }, false},
		{"dq", call(`"%"`, ""), true},
		{"dq-upper", func(fn, a string) string { return `"` + strings.ToUpper(fn) + `"(` + sqQuote(a) + ")" }, false},
		{"bt", call("`%`", ""), true},
		{"schema", call("main.%", ""), true},
		{"catalog-schema", call("system.main.%", ""), false},
		{"schema-dq", call(`"main"."%"`, ""), false},
		{"schema-spaced", call("main . %", " "), false},
		{"gap:space", call("%", " "), true}, {"gap:tab", call("%", "\t"), false}, {"gap:newline", call("%", "\n"), false},
		{"gap:cr", call("%", "\r"), false}, {"gap:formfeed", call("%", "\f"), true}, {"gap:vtab", call("%", "\v"), true},
		{"gap:block-comment", call("%", "/**/"), true}, {"gap:block-comment-spaced", call("%", " /* x */ "), false},
		{"gap:line-comment", call("%", "--x\n"), false}, {"gap:nested-comment", call("%", "/*/**/*/"), false},
		{"gap:comment-with-quote", call("%", "/*'*/"), true},
		{"arg:list", func(fn, a string) string { return fn + "([" + sqQuote(a) + "])" }, true},
		{"arg:dollar", func(fn, a string) string { return fn + "($$" + a + "$$)" }, false},
		{"arg:estr", func(fn, a string) string { return fn + "(E" + sqQuote(a) + ")" }, false},
		{"arg:concat", func(fn, a string) string {
			i := len(a) / 2
			return fn + "(" + sqQuote(a[:i]) + " || " + sqQuote(a[i:]) + ")"
		}, true},
		{"arg:spaced", func(fn, a string) string { return fn + "(\n" + sqQuote(a) + " )" }, false},
	}
	for _, u := range uniSpaces {
		spellings = append(spellings, spelling{"gap:unicode:" + u.name, call("%", string(u.r)), u.core})
	}
	spellings = append(spellings, spelling{"gap:unicode+comment", call("%", "/**/ "), false})
	isCoreFn := map[string]bool{}
	for _, fn := range coreFns {
		isCoreFn[fn] = true
	}
	fns := append([]string{}, coreFns...)
	for _, fn := range catalog {
		if !isCoreFn[fn] {
			fns = append(fns, fn)
		}
	}
	for _, fn := range fns {
		for _, sp := range spellings {
			// the full spelling table is applied to the four functions named by the property; every other
			// catalog function gets the plain form and one representative of each disguise class
			if !isCoreFn[fn] {
				switch sp.k {
				case "plain", "gap:unicode:U+00A0":
				default:
					continue
				}
			} else if fn != "read_parquet" && !secondarySpellings[sp.k] {
				continue
			}
			fam := "fn-spelling:" + sp.k
			if strings.HasPrefix(sp.k, "gap:unicode:") {
				fam = "fn-spelling:gap:unicode-space"
			}
			base := "fn:" + fn + ":plain"
			if sp.k == "plain" {
				fam, base = "fn-plain:"+fn, ""
			} else if strings.HasPrefix(sp.k, "gap:unicode:") && sp.k != "gap:unicode:U+00A0" {
				base = "fn:" + fn + ":gap:unicode:U+00A0"
			}
			core := sp.core && (fn == "read_parquet" || (isCoreFn[fn] && quickSecondary[sp.k]) || sp.k == "plain")
			add("fn:"+fn+":"+sp.k, fam, sp.mk(fn, fnArg(fn)), base, core)
		}
	}
	// --- SQL text inside a string literal, executed by a table function ----------------------------------------
	add("sqltext:query-read_parquet", "fn-sqltext:query", "query("+sqQuote("SELECT * FROM read_parquet("+sqQuote(p0)+")")+")", "", true)
	add("sqltext:query-dollar-replacement-scan", "fn-sqltext:query", "query($$SELECT * FROM '"+p0+"'$$)", "sqltext:query-read_parquet", true)
	add("sqltext:query-table-stmt", "fn-sqltext:query", "query("+sqQuote("TABLE "+sqQuote(p0))+")", "sqltext:query-read_parquet", false)
	add("sqltext:query-name", "fn-sqltext:query-name", "query('SELECT * FROM db2.secrets')", "", true)
	add("sqltext:query_table-name", "fn-sqltext:query_table", "query_table('db2.secrets')", "", true)
	add("sqltext:query_table-path", "fn-sqltext:query_table", "query_table("+sqQuote(p0)+")", "", false)
	add("sqltext:json_execute_serialized_sql", "fn-sqltext:json_execute_serialized_sql",
		"json_execute_serialized_sql(json_serialize_sql("+sqQuote("SELECT * FROM read_parquet("+sqQuote(p0)+")")+"))", "", true)

	for i := range f {
		k := f[i].Key
		f[i].BWOK = strings.HasPrefix(k, "path:") || strings.HasPrefix(k, "sqltext:")
		for _, fn := range coreFns {
			if strings.HasPrefix(k, "fn:"+fn+":") {
				f[i].BWOK = true
			}
		}
	}
	for i := range f {
		switch f[i].Key {
		case "path:sq:glob", "path:dq:glob", "path:dollar:glob", "path:sq-glued", "fn:read_parquet:plain", "fn:read_parquet:gap:space",
			"fn:parquet_scan:plain", "sqltext:query-read_parquet":
			f[i].BWQ = true
		}
	}
	idx := map[string]int{}
	for i := range f {
		if _, dup := idx[f[i].Key]; dup {
			must(fmt.Errorf("duplicate filler key %s", f[i].Key), "grammar")
		}
		idx[f[i].Key] = i
	}
	for i := range f {
		f[i].Base2 = -1
		if f[i].Base2K != "" {
			b, ok := idx[f[i].Base2K]
			if !ok {
				must(fmt.Errorf("filler %s: unknown base %s", f[i].Key, f[i].Base2K), "grammar")
			}
			f[i].Base2 = b
		}
	}
	for i := range f {
		f[i].Base = -1
		if f[i].BaseK != "" {
			b, ok := idx[f[i].BaseK]
			if !ok {
				must(fmt.Errorf("filler %s: unknown base %s", f[i].Key, f[i].BaseK), "grammar")
			}
			f[i].Base = b
			if f[i].Core && !f[b].Core {
				f[b].Core = true
			}
		}
	}
	return f
}

// fnAlt maps a function filler "fn:<fn>:<spelling>" to the same spelling of read_parquet (tried when
// minimising so that one disguise is one class, not one class per function).
func fnAlt(f []filler) map[int]int {
	idx := map[string]int{}
	for i := range f {
		idx[f[i].Key] = i
	}
	alt := map[int]int{}
	for i := range f {
		k := f[i].Key
		if !strings.HasPrefix(k, "fn:") || strings.HasPrefix(k, "fn:read_parquet:") {
			continue
		}
		rest := strings.SplitN(k[3:], ":", 2)
		if len(rest) == 2 {
			if j, ok := idx["fn:read_parquet:"+rest[1]]; ok {
				alt[i] = j
			}
		}
	}
	return alt
}

// ---- decoys -----------------------------------------------------------------------------------------

type decoy struct {
	Name   string
	C      string // comment placed before the statement
	I      string // select-list item(s) placed right after SELECT
	A      string // replaces the alias of the authorised table (" a")
	OnTail string // appended to an ON condition
	Post   string // appended to the statement
	Core   bool
	Parts  []string // names of the simpler decoys this one combines (tried when minimising)
	Base   string   // name of a sibling decoy of the same kind tried when minimising
	ASet   bool     // A is meaningful even when empty
	AltI   string   // table-alias decoys: the select-list decoy that plays the same trick (tried when minimising)
	BW     bool     // bareword decoy: combined with the path-literal, named-file-function and SQL-text fillers only
}

func buildDecoys() []decoy {
	d := []decoy{
		{Name: "none", Core: true},
		// quote characters inside comments
		{Name: "block-comment-single-quote", Core: true, C: "/* ' */ "},
		{Name: "block-comment-double-quote", C: `/* " */ `},
		{Name: "block-comment-dollar-quote", C: "/* $$ */ "},
		{Name: "line-comment-single-quote", Core: true, C: "-- '\n"},
		{Name: "nested-comment-quote-inside", C: "/* /* ' */ */ "},
		{Name: "nested-comment-quote-after-inner", C: "/* /* */ ' */ "},
		{Name: "nested-comment-compact", C: "/*/**/*/ "},
		{Name: "comment-from-authorised", C: "/* FROM db1.cpu */ "},
		{Name: "comment-read_parquet", Core: true, C: "/* read_parquet */ "},
		{Name: "cte-prefix", Core: true, C: "WITH x AS (SELECT 1) "},
		{Name: "trailing-line-comment-quote", Core: true, Post: " --'"},
		{Name: "trailing-open-block-comment", Post: " /* '"},
		{Name: "trailing-semicolon", Post: ";"},
		// comment markers and other structure inside string literals
		{Name: "literal-line-comment-marker", Core: true, I: "'--' AS d, "},
		{Name: "literal-block-comment-open", I: "'/*' AS d, "},
		{Name: "literal-block-comment-pair", I: "'/*' AS d, ", Post: " /* '*/' */"},
		{Name: "literal-from-authorised", I: "'FROM db1.cpu' AS d, "},
		{Name: "literal-read_parquet", Core: true, Base: "comment-read_parquet", I: "'read_parquet' AS d, "},
		{Name: "alias-read_parquet", Base: "comment-read_parquet", I: "1 AS read_parquet, "},
		{Name: "literal-doubled-quote", I: "'''' AS d, "},
		// backslashes before quotes
		{Name: "literal-backslash", Core: true, I: `'\' AS d, `},
		{Name: "literal-backslash-then-comment-quote", I: `'a\' AS d, `, Post: " --'", Parts: []string{"literal-backslash", "trailing-line-comment-quote"}},
		{Name: "estring-escaped-quote", I: `E'\'' AS d, `},
		{Name: "estring-escaped-backslash", I: `E'\\' AS d, `},
		// dollar quotes
		{Name: "dollar-quoted-single-quote", I: "$$'$$ AS d, "},
		{Name: "dollar-tagged-single-quote", I: "$x$'$x$ AS d, "},
		{Name: "dollar-in-identifier", I: "1 AS a$$b, ", Post: " --$$"},
		// placeholder look-alikes
		{Name: "literal-str-lookalike", I: "'__STR_0__' AS d, "},
		{Name: "alias-str-lookalike", I: "1 AS __STR_0__, "},
		{Name: "alias-ident-lookalike", I: "1 AS __IDENT_0__, "},
		{Name: "quoted-ident-lookalike", I: `1 AS "__IDENT_0__", `},
		{Name: "quoted-db2-then-lookalike", Core: true, I: `1 AS "db2", `},
		{Name: "extract-from", I: "EXTRACT(YEAR FROM TIMESTAMP '2024-01-01 00:00:00') AS y, "},
		// structure inside quoted identifiers
		{Name: "identifier-single-quote", Core: true, I: `1 AS "'", `},
		{Name: "identifier-single-quote-closed", I: `1 AS "'", `, Post: " --'", Parts: []string{"identifier-single-quote", "trailing-line-comment-quote"}},
		{Name: "identifier-line-comment-marker", Base: "identifier-single-quote", I: `1 AS "--", `},
		{Name: "identifier-block-comment-open", Base: "identifier-single-quote", I: `1 AS "/*", `},
		{Name: "identifier-backtick", Core: true, Base: "identifier-single-quote", I: "1 AS \"`\", "},
		{Name: "identifier-open-paren", Base: "identifier-single-quote", I: `1 AS "(", `},
		{Name: "identifier-from-keyword", Base: "identifier-single-quote", I: `1 AS "from", `},
		// aliases of the authorised table that is joined with the adversarial one
		{Name: "table-alias-quoted-where", Core: true, A: ` "where"`},
		{Name: "table-alias-as-quoted-limit", Base: "table-alias-quoted-where", A: ` AS "limit"`},
		{Name: "table-alias-quoted-open-paren", Base: "table-alias-quoted-where", A: ` "("`},
		{Name: "table-alias-quoted-single-quote", Core: true, AltI: "identifier-single-quote", Base: "table-alias-quoted-where", A: ` "'"`},
		{Name: "table-alias-quoted-line-comment", AltI: "identifier-line-comment-marker", Base: "table-alias-quoted-where", A: ` "--"`},
		{Name: "table-alias-with-columns", A: " AS a(x, y, z)"},
		{Name: "table-alias-none", A: "", ASet: true},
		{Name: "on-struct-field-named-where", Core: true, OnTail: " AND ({'where': 1}).where = 1"},
		{Name: "on-struct-field-named-order", Base: "on-struct-field-named-where", OnTail: " AND ({'order': 1}).order = 1"},
	}
	for _, kw := range []string{"group", "order", "limit", "union", "for"} {
		d = append(d, decoy{Name: "table-alias-quoted-" + kw, A: ` "` + kw + `"`, Base: "table-alias-quoted-where"})
	}
	for _, kw := range []string{"qualify", "fetch", "window"} { // terminator keywords spelled bare (rejected by DuckDB's grammar when reserved)
		d = append(d, decoy{Name: "table-alias-bare-" + kw, A: " " + kw})
	}
	d = append(d, barewordDecoys()...)
	return d
}

// barewords lists unquoted identifiers whose bytes look like the start of a quoting construct to a lexer
// that loses track of where an identifier ends: every arrangement of `$` and a letter after a leading
// letter up to 5 bytes, digits next to `$`, longer tag-shaped forms, and identifiers ending in a
// string-prefix letter (e E u x b) directly followed by a quote-free token. For DuckDB each is ONE identifier.
func barewords() (all []string, core map[string]bool) {
	seen := map[string]bool{}
	add := func(w string) {
		if !seen[w] {
			seen[w] = true
			all = append(all, w)
		}
	}
	add("a$$x$$") // canonical: letter, `$$`, tag-shaped run, `$$`
	for k := 1; k <= 4; k++ {
		for n := 0; n < 1<<k; n++ {
			w := "a"
			for b := k - 1; b >= 0; b-- {
				if n>>b&1 == 1 {
					w += "$"
				} else {
					w += "x"
				}
			}
			if strings.Contains(w, "$") {
				add(w)
			}
		}
	}
	for _, w := range []string{"a$$x$$b", "a$x$x$", "a$$xy$$", "a$_$", "a$1", "a1$", "a$$1$$", "a1$$x$$", "a$$x1$$", "cost$5$",
		"ae", "aE", "au", "ax", "ab", "aU", "aX", "aB", "an", "aN", "plain"} {
		add(w)
	}
	core = map[string]bool{"a$$x$$": true, "a$x": true, "a$$": true, "a$$$$": true, "a$$x$$b": true, "a1$$x$$": true, "aE": true, "plain": true}
	return all, core
}

func barewordDecoys() []decoy {
	words, core := barewords()
	slots := []struct {
		k  string
		mk func(w string) decoy
	}{
		{"select-alias", func(w string) decoy { return decoy{I: "1 AS " + w + ", "} }},
		{"select-implicit-alias", func(w string) decoy { return decoy{I: "1 " + w + ", "} }},
		{"table-alias", func(w string) decoy { return decoy{A: " " + w} }},
		{"table-as-alias", func(w string) decoy { return decoy{A: " AS " + w} }},
		{"cte-name", func(w string) decoy { return decoy{C: "WITH " + w + " AS (SELECT 1) "} }},
	}
	var out []decoy
	for _, sl := range slots {
		for _, w := range words {
			d := sl.mk(w)
			d.Name = "bareword:" + sl.k + ":" + w
			d.BW = true
			d.Core = core[w]
			// minimisation: the same bareword as a select-list alias, then the canonical bareword in the same slot
			if sl.k != "select-alias" {
				d.AltI = "bareword:select-alias:" + w
			}
			if sl.k == "cte-name" {
				d.Parts = []string{"cte-prefix"} // first: is it the WITH prefix rather than the spelling of the name?
			}
			if w != "a$$x$$" {
				d.Base = "bareword:" + sl.k + ":a$$x$$"
			}
			out = append(out, d)
		}
	}
	return out
}

var headers = []string{"", "db1", "db2"}

// quickTier restricts the bareword decoys to eight representative fillers (see filler.BWQ)
var quickTier bool

// ---- rendering ------------------------------------------------------------------------------------------------

// render returns the request for one element of the product, or ok=false when the decoy has a component the
// skeleton has no slot for (such combinations are not part of the grammar).
func render(sk *skeleton, f *filler, d *decoy, hdr string) (request, bool) {
	t := sk.Tmpl
	need := func(part, slot string) bool { return part == "" || strings.Contains(t, slot) }
	if !need(d.C, "{C}") || !need(d.I, "{I}") || !need(d.OnTail, "{ONTAIL}") || !need(d.Post, "{POST}") {
		return request{}, false
	}
	if (d.A != "" || d.ASet) && !strings.Contains(t, "{A}") && !(d.BW && strings.Contains(t, "{A0}")) {
		return request{}, false
	}
	if d.BW && (!f.BWOK || (quickTier && !f.BWQ)) {
		return request{}, false
	}
	if sk.Get && (d.Name != "none" || hdr != "") {
		return request{}, false
	}
	p := "db1.cpu"
	if hdr != "" {
		p = "cpu"
	}
	alias := " a"
	if d.A != "" || d.ASet {
		alias = d.A
	}
	if f.Glue {
		if !strings.Contains(t, " {T}") {
			return request{}, false
		}
		t = strings.Replace(t, " {T}", "{T}", 1)
	}
	alias0 := ""
	if d.BW {
		alias0 = d.A
	}
	sqlText := strings.NewReplacer("{A0}", alias0, "{C}", d.C, "{I}", d.I, "{P}", p, "{A}", alias, "{T}", f.Text, "{ONTAIL}", d.OnTail, "{POST}", d.Post).Replace(t)
	if sk.Get {
		return request{Method: "GET", Path: "/api/v1/query/cpu?database=db1", Where: sqlText}, true
	}
	return request{Method: "POST", Path: "/api/v1/query", Header: hdr, SQL: sqlText}, true
}

// ---- the SHOW / listing product (its own small grammar) ----------------------------------------------------

func buildListing(quick bool) []request {
	var out []request
	dbs := []string{"db1", "db2", `"db2"`, `'db2'`, "`db2`", "DB2", "db1.db2", `"db1--db2"`, `"db2"--x`, "db2/**/", "/**/db2",
		`"db1/../db2"`, "..", "*", "db2\u00a0", `'db1' 'db2'`, "db1, db2", `$$db2$$`, `E'db2'`, "__IDENT_0__", `"db2" "db1"`}
	stmts := []string{"SHOW DATABASES", "SHOW TABLES", "SHOW MEASUREMENTS", "SHOW ALL TABLES", "show databases", "SHOW  DATABASES ;", "SHOW\u00a0DATABASES",
		"SHOW SCHEMAS", "SHOW TABLES FROM", "DESCRIBE"}
	fromForms := []string{"SHOW TABLES FROM ", "SHOW MEASUREMENTS FROM ", "SHOW TABLES IN ", "SHOW\nTABLES\nFROM\n", "SHOW ALL TABLES FROM ", "SHOW TABLES FROM/**/"}
	wraps := []struct{ pre, post string }{{"", ""}, {"/* x */ ", ""}, {"-- x\n", ""}, {"/* ' */ ", ""}, {"", ";"}, {"", " -- x"}, {"", " /* x"}, {"/*/**/*/", ""}, {"", "; SELECT 1"}, {"SELECT 1; ", ""}, {"\u00a0", ""}, {"(", ")"}}
	eps := []string{"/api/v1/query", "/api/v1/query/estimate", "/api/v1/query/msgpack"}
	if quick {
		fromForms = fromForms[:2]
		wraps = wraps[:6]
		eps = eps[:2]
	}
	for _, v := range fromForms {
		for _, x := range dbs {
			stmts = append(stmts, v+x)
		}
	}
	for _, st := range stmts {
		for _, w := range wraps {
			for _, h := range headers {
				for _, ep := range eps {
					out = append(out, request{Method: "POST", Path: ep, Header: h, SQL: w.pre + st + w.post})
				}
			}
		}
	}
	// GET /api/v1/measurements
	for _, q := range []string{"", "?database=db1", "?database=db2", "?database=DB2", "?database=*", "?database=%2A", "?database=db1%2F..%2Fdb2", "?database=..", "?database=db2%00",
		"?database=db1&database=db2", "?database=db2&database=db1", "?database=db2%20", "?database=", "?Database=db2", "?database=db1%2Cdb2", "?database=db-2"} {
		for _, h := range headers {
			out = append(out, request{Method: "GET", Path: "/api/v1/measurements" + q, Header: h})
		}
	}
	// GET /api/v1/query/:measurement
	for _, m := range []string{"cpu", "secrets", "db2.secrets", "secrets%2F..%2F..%2Fdb2%2Fsecrets", "cpu%00", "SECRETS"} {
		for _, q := range []string{"", "?database=db1", "?database=db2", "?database=default", "?database=db1&database=db2", "?database=db2&database=db1", "?database=db1%2F..%2Fdb2",
			"?database=db1&order_by=time", "?database=db1&limit=1&offset=0", "?database=db1&where=" + url.QueryEscape("1=1"), "?database=db2&where=" + url.QueryEscape("1=1")} {
			for _, h := range headers {
				out = append(out, request{Method: "GET", Path: "/api/v1/query/" + m + q, Header: h})
			}
		}
	}
	return out
}

func sortedKeys(m map[string]int) []string {
	k := make([]string, 0, len(m))
	for s := range m {
		k = append(k, s)
	}
	sort.Strings(k)
	return k
}
