// C14 — A query can only read data the caller is authorized to read.
//
// Seam: the REAL api.QueryHandler (POST /api/v1/query, /query/estimate, /query/msgpack, GET /api/v1/measurements,
// GET /api/v1/query/:measurement, SHOW handling) behind a fiber app driven with app.Test, a REAL
// database.DuckDB opened by database.New (which always ends with the production sandbox,
// lockdownExternalAccess, allowed_directories = storage root + spill dir), a REAL storage.LocalBackend on
// /dev/shm, built with -tags duckdb_arrow (the production Arrow query path). The only stub is the
// RBACChecker the handlers take as an interface: a RECORDER that grants `read` on database `db1` (any
// measurement) and nothing else — the decision the real RBACManager takes for one role
// {database_pattern: db1, permissions: read} — and records every (database, measurement) it is asked about.
//
// Enumerated (never sampled): the full product
//
//	statement skeleton x table-position filler x decoy x x-arc-database header {absent, db1, db2}
//
// of the finite tables in grammar.go (thorough), or the product of their Core subsets (quick; the subsets
// contain the canonical value of every dimension and are closed under "simpler value"), each statement
// sent to /api/v1/query and /api/v1/query/estimate; plus a separate product for SHOW statements, the
// measurement listing and GET /api/v1/query/:measurement.
//
// Oracle (never Arc's code): NON-INTERFERENCE. Every worker owns three stores that differ ONLY in the files
// of the unauthorized database db2 (canary A / canary B with another row count / db2 absent; db1 is
// byte-identical). Every request goes to all three. Status code and every JSON field except wall-clock
// noise and error text must be identical, no response byte may contain a canary token, and (observed with
// inotify on the store directories, one request at a time per store) every regular file the process OPENED
// during the request must lie under a (database, measurement) the recorder was asked about AND allowed.
// A statement rejected (4xx) by all three stores is fine.
//
// Violations are minimised inside the grammar (grid.reduce) and reported per class:
// <oracle kind>|<dimensions that differ from the canonical statement>|<minimal SQL>.
package main

import (
	"bytes"
	"database/sql"
	"encoding/json"
	"fmt"
	"hash/fnv"
	"io"
	"net/http/httptest"
	"net/url"
	"os"
	"os/signal"
	"path/filepath"
	"regexp"
	"runtime"
	"runtime/pprof"
	"sort"
	"strconv"
	"strings"
	"sync"
	"sync/atomic"
	"syscall"
	"unsafe"

	"github.com/basekick-labs/arc/internal/api"
	"github.com/basekick-labs/arc/internal/auth"
	"github.com/basekick-labs/arc/internal/database"
	"github.com/basekick-labs/arc/internal/metrics"
	"github.com/basekick-labs/arc/internal/storage"
	"github.com/basekick-labs/arc/zzverif/engine/ev"
	_ "github.com/duckdb/duckdb-go/v2"
	"github.com/gofiber/fiber/v2"
	"github.com/rs/zerolog"
)

const (
	canaryA = "CANARYAAAA"
	canaryB = "CANARYBBBB"
	rootTok = "{ROOT}"
)

var scratch string

func must(err error, what string) {
	if err != nil {
		cleanup()
		ev.Unbound(what + ": " + err.Error())
	}
}

func cleanup() {
	if scratch != "" {
		os.RemoveAll(scratch)
	}
}

// ---- recording RBAC checker -------------------------------------------------------------------

type permCheck struct {
	DB, Meas, Perm string
	Allowed        bool
}

type recorder struct {
	mu     sync.Mutex
	checks []permCheck
}

func (r *recorder) IsRBACEnabled() bool { return true }

func (r *recorder) CheckPermission(req *auth.PermissionCheckRequest) *auth.PermissionCheckResult {
	// exactly what RBACManager.checkRBACPermissionCached does for one role {database_pattern: "db1",
	// permissions: [read]} without measurement permissions: matchPattern("db1", req.Database) is equality.
	allowed := req.TokenInfo != nil && req.Permission == "read" && req.Database == "db1"
	r.mu.Lock()
	r.checks = append(r.checks, permCheck{req.Database, req.Measurement, req.Permission, allowed})
	r.mu.Unlock()
	if allowed {
		return &auth.PermissionCheckResult{Allowed: true, Source: "rbac"}
	}
	return &auth.PermissionCheckResult{Allowed: false, Source: "denied", Reason: "no permission for " + req.Permission + " on database '" + req.Database + "'"}
}

func (r *recorder) CheckPermissionsBatch(reqs []*auth.PermissionCheckRequest) []*auth.PermissionCheckResult {
	out := make([]*auth.PermissionCheckResult, len(reqs))
	for i, q := range reqs {
		out[i] = r.CheckPermission(q)
	}
	return out
}

func (r *recorder) take() []permCheck {
	r.mu.Lock()
	defer r.mu.Unlock()
	c := r.checks
	r.checks = nil
	return c
}

// ---- inotify: which regular files did the process open under the store root? ------------------------

type watcher struct {
	buf  []byte
	fd   int
	dirs map[int32]string // watch descriptor -> directory (relative to root, "" for root)
}

func newWatcher(root string) (*watcher, error) {
	fd, err := syscall.InotifyInit1(syscall.IN_NONBLOCK | syscall.IN_CLOEXEC)
	if err != nil {
		return nil, err
	}
	w := &watcher{fd: fd, dirs: map[int32]string{}}
	err = filepath.WalkDir(root, func(p string, d os.DirEntry, err error) error {
		if err != nil {
			return err
		}
		if !d.IsDir() {
			return nil
		}
		wd, err := syscall.InotifyAddWatch(fd, p, syscall.IN_OPEN|syscall.IN_ACCESS)
		if err != nil {
			return err
		}
		rel, _ := filepath.Rel(root, p)
		if rel == "." {
			rel = ""
		}
		w.dirs[int32(wd)] = rel
		return nil
	})
	return w, err
}

// drain returns the sorted set of regular files (relative to the root) opened/read since the last drain.
func (w *watcher) drain() []string {
	var set map[string]bool
	if w.buf == nil {
		w.buf = make([]byte, 64*1024)
	}
	buf := w.buf
	for {
		n, err := syscall.Read(w.fd, buf)
		if n <= 0 || err != nil {
			break
		}
		off := 0
		for off+syscall.SizeofInotifyEvent <= n {
			e := (*syscall.InotifyEvent)(unsafe.Pointer(&buf[off]))
			nameLen := int(e.Len)
			name := ""
			if nameLen > 0 {
				nb := buf[off+syscall.SizeofInotifyEvent : off+syscall.SizeofInotifyEvent+nameLen]
				name = string(bytes.TrimRight(nb, "\x00"))
			}
			if e.Mask&syscall.IN_ISDIR == 0 && name != "" {
				if set == nil {
					set = map[string]bool{}
				}
				set[filepath.Join(w.dirs[e.Wd], name)] = true
			}
			off += syscall.SizeofInotifyEvent + nameLen
		}
	}
	if len(set) == 0 {
		return nil
	}
	out := make([]string, 0, len(set))
	for f := range set {
		out = append(out, f)
	}
	sort.Strings(out)
	return out
}

// ---- stores ---------------------------------------------------------------------------------------

type store struct {
	name string // "A", "B", "N" (db2 absent)
	root string
	app  *fiber.App
	rec  *recorder
	db   *database.DuckDB
	w    *watcher
}

type fixtures struct {
	cpu     []byte // db1/cpu/2024/01/01/00/cpu.parquet (identical in every store)
	secretA []byte
	secretB []byte
}

const dataDir = "2024/01/01/00"

func makeFixtures(dir string) *fixtures {
	db, err := sql.Open("duckdb", "")
	must(err, "fixture duckdb")
	defer db.Close()
	db.SetMaxOpenConns(1)
	write := func(name, values string) []byte {
		p := filepath.Join(dir, name)
		_, err := db.Exec("COPY (SELECT * FROM (VALUES " + values + ") t(time, host, value)) TO '" + p + "' (FORMAT PARQUET)")
		must(err, "write fixture "+name)
		b, err := os.ReadFile(p)
		must(err, "read fixture")
		os.Remove(p)
		return b
	}
	f := &fixtures{}
	f.cpu = write("cpu.parquet", "(TIMESTAMP '2024-01-01 00:00:01', 'h1', 1.0), (TIMESTAMP '2024-01-01 00:00:02', 'h2', 2.0)")
	f.secretA = write("sa.parquet", "(TIMESTAMP '2024-01-01 00:00:01', '"+canaryA+"', 1111.0), (TIMESTAMP '2024-01-01 00:00:02', '"+canaryA+"', 1112.0)")
	f.secretB = write("sb.parquet", "(TIMESTAMP '2024-01-01 00:00:01', '"+canaryB+"', 2221.0), (TIMESTAMP '2024-01-01 00:00:02', '"+canaryB+"', 2222.0), (TIMESTAMP '2024-01-01 00:00:03', '"+canaryB+"', 2223.0)")
	return f
}

func newStore(base, name string, fx *fixtures) *store {
	s := &store{name: name, root: filepath.Join(base, name, "store"), rec: &recorder{}}
	put := func(rel string, b []byte) {
		p := filepath.Join(s.root, rel)
		must(os.MkdirAll(filepath.Dir(p), 0o755), "mkdir")
		must(os.WriteFile(p, b, 0o644), "write")
	}
	put("db1/cpu/"+dataDir+"/cpu.parquet", fx.cpu)
	switch name {
	case "A":
		put("db2/secrets/"+dataDir+"/secrets.parquet", fx.secretA)
		put("db2/secrets/"+dataDir+"/notes.csv", []byte("note\n"+canaryA+"\n"))
	case "B":
		put("db2/secrets/"+dataDir+"/secrets.parquet", fx.secretB)
		put("db2/secrets/"+dataDir+"/notes.csv", []byte("note\n"+canaryB+"\n"+canaryB+"\n"))
	}
	tmp := filepath.Join(base, name, "tmp")
	must(os.MkdirAll(tmp, 0o755), "mkdir")
	lg := zerolog.Nop()
	be, err := storage.NewLocalBackend(s.root, lg)
	must(err, "storage.NewLocalBackend")
	if be.GetBasePath() != s.root {
		must(fmt.Errorf("%q != %q", be.GetBasePath(), s.root), "LocalBackend base path")
	}
	// database.New is what cmd/arc/main.go calls; it ends with lockdownExternalAccess (the sandbox).
	db, err := database.New(&database.Config{
		MaxConnections:   2,
		MemoryLimit:      "256MB",
		ThreadCount:      1,
		TempDirectory:    filepath.Join(tmp, "spill"),
		UploadDir:        filepath.Join(tmp, "spill", "uploads"),
		LocalStorageRoot: be.GetBasePath(),
	}, lg)
	must(err, "database.New")
	s.db = db
	h := api.NewQueryHandler(db, be, lg, 30, 0)
	h.SetAuthAndRBAC(nil, s.rec)
	s.app = fiber.New(fiber.Config{DisableStartupMessage: true})
	s.app.Use(func(c *fiber.Ctx) error {
		c.Locals("token_info", &auth.TokenInfo{ID: 7, Name: "c14", Enabled: true})
		return c.Next()
	})
	h.RegisterRoutes(s.app)
	s.w, err = newWatcher(s.root)
	must(err, "inotify")
	return s
}

// ---- requests ----------------------------------------------------------------------------------------

type request struct {
	Method string `json:"method"`
	Path   string `json:"path"`
	Header string `json:"x-arc-database,omitempty"`
	SQL    string `json:"sql,omitempty"`   // POST body {"sql": ...}; {ROOT} = the store's storage root
	Where  string `json:"where,omitempty"` // GET: appended as &where=<escaped>; {ROOT} likewise
}

type response struct {
	Status int
	Body   []byte      // root replaced by {ROOT}
	Checks []permCheck // what the recorder was asked during this request
	Opened []string    // regular files opened under the root during this request
}

func (s *store) do(r request) response {
	s.rec.take()
	s.w.drain()
	var body io.Reader
	if r.Method == "POST" {
		b, _ := json.Marshal(map[string]string{"sql": strings.ReplaceAll(r.SQL, rootTok, s.root)})
		body = bytes.NewReader(b)
	}
	target := r.Path
	if r.Where != "" {
		target += "&where=" + url.QueryEscape(strings.ReplaceAll(r.Where, rootTok, s.root))
	}
	req := httptest.NewRequest(r.Method, target, body)
	if r.Method == "POST" {
		req.Header.Set("Content-Type", "application/json")
	}
	if r.Header != "" {
		req.Header.Set("x-arc-database", r.Header)
	}
	resp, err := s.app.Test(req, -1)
	if err != nil {
		return response{Status: -1, Body: []byte(err.Error())}
	}
	raw, _ := io.ReadAll(resp.Body)
	resp.Body.Close()
	return response{Status: resp.StatusCode, Body: bytes.ReplaceAll(raw, []byte(s.root), []byte(rootTok)),
		Checks: s.rec.take(), Opened: s.w.drain()}
}

// ---- the oracle -----------------------------------------------------------------------------------------

const (
	kContent   = 1 // a response contains a canary token, or the canary-A and canary-B stores answer differently
	kExistence = 2 // A and B answer alike but differently from the store without db2
	kUnchecked = 4 // a regular file was opened under a (database, measurement) that was not checked-and-allowed
	vNA        = 0xFF
)

func primary(v uint8) uint8 {
	switch {
	case v == vNA || v == 0:
		return 0
	case v&kContent != 0:
		return kContent
	case v&kExistence != 0:
		return kExistence
	}
	return kUnchecked
}

func kindName(k uint8) string {
	switch k {
	case kContent:
		return "unauthorized-content"
	case kExistence:
		return "unauthorized-existence"
	case kUnchecked:
		return "unchecked-file-read"
	}
	return "none"
}

// canon reduces a response to what the property observes: status, and for JSON bodies every field except
// wall-clock noise and error text (an error's class is its status).
func canon(r response) string {
	var m map[string]any
	if err := json.Unmarshal(r.Body, &m); err != nil {
		return fmt.Sprintf("%d|non-json", r.Status)
	}
	for _, k := range []string{"execution_time_ms", "timestamp", "error", "profile"} {
		delete(m, k)
	}
	b, _ := json.Marshal(m) // map keys are marshalled sorted
	return fmt.Sprintf("%d|%s", r.Status, b)
}

func uncheckedReads(r response) []string {
	var bad []string
	for _, f := range r.Opened {
		seg := strings.SplitN(f, "/", 3)
		if len(seg) < 3 {
			bad = append(bad, f)
			continue
		}
		ok := false
		for _, c := range r.Checks {
			if c.Allowed && c.Perm == "read" && c.DB == seg[0] && (c.Meas == seg[1] || c.Meas == "*") {
				ok = true
			}
		}
		if !ok {
			bad = append(bad, f)
		}
	}
	return bad
}

type judged struct {
	V        uint8
	Executed bool // some store let the statement through validation and RBAC (status not 4xx)
	Statuses [3]int
	Resp     [3]response
}

func (w *worker) judge(r request) judged {
	var j judged
	var c [3]string
	all4xx := true
	for i, s := range w.stores {
		x := s.do(r)
		if x.Status < 0 {
			x = s.do(r)
		}
		if x.Status < 0 {
			cleanup()
			ev.Unbound("fiber app.Test could not read the response of " + reqText(r) + ": " + string(x.Body))
		}
		j.Resp[i] = x
		j.Statuses[i] = x.Status
		c[i] = canon(x)
		if x.Status < 400 || x.Status >= 500 {
			all4xx = false
		}
		if bytes.Contains(x.Body, []byte(canaryA)) || bytes.Contains(x.Body, []byte(canaryB)) {
			j.V |= kContent
		}
		if len(uncheckedReads(x)) > 0 {
			j.V |= kUnchecked
		}
	}
	j.Executed = !all4xx
	if c[0] != c[1] {
		j.V |= kContent
	} else if c[0] != c[2] {
		j.V |= kExistence
	}
	return j
}

// ---- workers and the product grid ---------------------------------------------------------------------------

type worker struct {
	id     int
	stores [3]*store
}

func newWorker(id int, fx *fixtures) *worker {
	base := filepath.Join(scratch, fmt.Sprintf("w%02d", id))
	w := &worker{id: id}
	for i, n := range []string{"A", "B", "N"} {
		w.stores[i] = newStore(base, n, fx)
	}
	return w
}

type grid struct {
	sk        []skeleton
	fl        []filler
	dc        []decoy
	skSel     []int // enumerated indices per dimension (all of them in thorough, the Core subset in quick)
	flSel     []int
	dcSel     []int
	eps       []string // endpoint variants of a POST statement; index 0 = /api/v1/query
	verdict   [][]uint8
	skIdx     map[string]int
	dcIdx     map[string]int
	alt       map[int]int
	lazy      *worker // evaluates candidates of the minimisation that phase 1 did not reach
	lazyEvals int
}

func (g *grid) at(s, f, d, h int) int { return ((s*len(g.fl)+f)*len(g.dc)+d)*len(headers) + h }

func (g *grid) request(e, s, f, d, h int) (request, bool) {
	r, ok := render(&g.sk[s], &g.fl[f], &g.dc[d], headers[h])
	if !ok {
		return r, false
	}
	if e > 0 {
		if r.Method != "POST" {
			return r, false
		}
		r.Path = g.eps[e]
	}
	return r, true
}

type elem struct{ e, s, f, d, h int }

func (g *grid) v(x elem) uint8 { return g.verdict[x.e][g.at(x.s, x.f, x.d, x.h)] }

// reduce is the structural minimisation: replace one dimension at a time by its canonical value (or the
// next simpler one) while the verdict table — every candidate is itself an enumerated case — still shows a
// violation at least as strong. Pure look-ups; deterministic.
func (g *grid) reduce(x elem) elem {
	k := primary(g.v(x))
	fails := func(y elem) bool {
		if g.v(y) == vNA && g.lazy != nil {
			// not evaluated in phase 1 (time cap, or the quick tier's estimate sub-product): evaluate now,
			// so that the minimal form never depends on how far phase 1 got
			if r, ok := g.request(y.e, y.s, y.f, y.d, y.h); ok {
				g.verdict[y.e][g.at(y.s, y.f, y.d, y.h)] = g.lazy.judge(r).V
				g.lazyEvals++
			}
		}
		p := primary(g.v(y))
		return p != 0 && p <= k
	}
	try := func(y elem) bool {
		if y != x && fails(y) {
			x = y
			return true
		}
		return false
	}
	for changed := true; changed; {
		changed = false
		y := x
		y.e = 0
		changed = try(y) || changed
		if x.d != 0 {
			y = x
			y.d = 0
			if !try(y) {
				d := g.dc[x.d]
				done := false
				for _, pn := range d.Parts {
					y = x
					y.d = g.dcIdx[pn]
					if try(y) {
						done = true
						break
					}
				}
				if !done && d.AltI != "" {
					y = x
					y.d = g.dcIdx[d.AltI]
					done = try(y)
				}
				if !done && d.Base != "" {
					y = x
					y.d = g.dcIdx[d.Base]
					done = try(y)
				}
				changed = changed || done
			} else {
				changed = true
			}
		}
		y = x
		y.h = 0
		changed = try(y) || changed
		if x.s != 0 {
			y = x
			y.s = 0
			if try(y) {
				changed = true
			} else if b := g.sk[x.s].Base; b != "" {
				y = x
				y.s = g.skIdx[b]
				changed = try(y) || changed
			}
		}
		if b := g.fl[x.f].Base; b >= 0 {
			y = x
			y.f = b
			if try(y) {
				changed = true
				continue
			}
		}
		if b := g.fl[x.f].Base2; b >= 0 {
			y = x
			y.f = b
			if try(y) {
				changed = true
				continue
			}
		}
		if a, ok := g.alt[x.f]; ok {
			y = x
			y.f = a
			changed = try(y) || changed
		}
	}
	return x
}

func escapeNonASCII(s string) string {
	q := strconv.QuoteToASCII(s)
	q = q[1 : len(q)-1]
	return strings.ReplaceAll(q, `\"`, `"`)
}

func (g *grid) bypass(x elem) string {
	var parts []string
	if x.s != 0 {
		parts = append(parts, "skeleton:"+g.sk[x.s].Name)
	}
	fam := g.fl[x.f].Family
	if x.d != 0 && strings.HasPrefix(fam, "fn-plain:") {
		fam = "fn-plain" // the decoy is what gets the call through, whichever denylisted function it is
	}
	parts = append(parts, fam)
	if x.d != 0 {
		parts = append(parts, "decoy:"+g.dc[x.d].Name)
	}
	if x.h != 0 {
		parts = append(parts, "header:"+headers[x.h])
	}
	if x.e != 0 {
		parts = append(parts, "endpoint:"+g.eps[x.e])
	}
	return strings.Join(parts, "+")
}

// cause is a reading aid for the report (never part of a signature): which gate of internal/api/query.go the
// surviving dimensions defeat.
func (g *grid) cause(x elem) string {
	d, fam, sk := g.dc[x.d].Name, g.fl[x.f].Family, g.sk[x.s].Name
	switch {
	case strings.HasPrefix(sk, "get-where") && strings.HasPrefix(fam, "name:"):
		return "queryMeasurement (GET /api/v1/query/:measurement) checks RBAC only for the database/measurement parameters; table references inside the caller's where fragment are rewritten to read_parquet() by getTransformedSQL without any permission check"
	case d == "cte-prefix":
		return "maskedTokenInTablePosition arms TABLE/PIVOT/... only at a statement start, after `(` or a set operator; after the `)` that closes a WITH list (WITH x AS (...) TABLE '<path>') the statement keyword is treated as an ordinary word"
	case strings.HasPrefix(d, "bareword:"):
		return "sql.MaskStringLiterals loses the end of an unquoted identifier that contains quote-opener bytes ($, or a string-prefix letter) and masks the rest of the statement as one literal, hiding what follows from ValidateSQLRequest and checkQueryPermissions while DuckDB lexes the identifier whole"
	case d == "identifier-backtick":
		return "ValidateSQLRequest maps every backtick to a double quote before masking (backticksToDoubleQuotes), so a backtick INSIDE a quoted identifier flips the quote parity of the shared normalisation; ioDenylistNormalise then deletes the quotes and the path's /**/ reads as a comment"
	case strings.HasPrefix(d, "identifier-") || d == "table-alias-quoted-single-quote" || d == "table-alias-quoted-line-comment" || d == "table-alias-quoted-open-paren":
		return "ioDenylistNormalise deletes identifier quotes BEFORE lexing, so the text of a quoted identifier (' -- /* ( ) is re-lexed as SQL and hides the call / the table position from ioTableFunctionPattern and stringLiteralInTablePosition"
	case strings.HasPrefix(d, "table-alias-quoted-") || strings.HasPrefix(d, "on-struct-field"):
		return "maskedTokenInTablePosition/fromClauseTerminator treat any word spelled where/order/... as the end of the FROM list (a quoted alias after ioDenylistNormalise's quote deletion, or a struct field after a dot), disarming the comma-join check"
	case fam == "fn-spelling:gap:unicode-space":
		return "ioTableFunctionPattern requires `name\\s*(`; DuckDB's tokenizer also skips Unicode blanks (U+00A0, U+2000-200D, U+202F, U+205F, U+2060, U+3000, U+FEFF), RE2's \\s does not"
	case fam == "path:only":
		return "maskedTokenInTablePosition expects the table right after FROM/JOIN/comma; FROM ONLY '<path>' (and `, ONLY '<path>'`) puts a modifier in between"
	case strings.HasPrefix(fam, "fn-plain:") || strings.HasPrefix(fam, "fn-sqltext:"):
		return "function missing from the ioTableFunctionPattern denylist (query/json_execute_serialized_sql execute SQL text held in a masked string literal)"
	case strings.HasPrefix(sk, "table-") || sk == "describe" || sk == "show" || sk == "summarize" || sk == "pivot" || sk == "unpivot" || strings.HasPrefix(sk, "get-where-exists"):
		return "maskedTokenInTablePosition only recognises table positions introduced by FROM/JOIN (and commas after them); TABLE/DESCRIBE/SHOW/SUMMARIZE/PIVOT/UNPIVOT '<path>' are replacement scans too"
	}
	return ""
}

func reqText(r request) string {
	t := r.SQL
	if r.Method == "GET" {
		t = "GET " + r.Path
		if r.Where != "" {
			t += "&where=" + r.Where
		}
	}
	return escapeNonASCII(t)
}

func describe(j judged) string {
	var b strings.Builder
	names := []string{"canary-A", "canary-B", "db2-absent"}
	for i := range j.Resp {
		body := string(volatile.ReplaceAll(j.Resp[i].Body, nil))
		if len(body) > 160 {
			body = body[:160] + "..."
		}
		fmt.Fprintf(&b, "[%s] %d %s opened=%v checked=%v ", names[i], j.Resp[i].Status, escapeNonASCII(body), j.Resp[i].Opened, j.Resp[i].Checks)
	}
	return strings.TrimSpace(b.String())
}

var volatile = regexp.MustCompile(`"(execution_time_ms|timestamp)":("[^"]*"|[0-9.eE+-]+),?`)

func main() {
	run := ev.Start("C14", "exploration")
	metrics.Init(zerolog.Nop())
	scratch = fmt.Sprintf("/dev/shm/verif.c14.%d", os.Getpid())
	must(os.MkdirAll(scratch, 0o755), "scratch")
	defer cleanup()
	sig := make(chan os.Signal, 1)
	signal.Notify(sig, syscall.SIGINT, syscall.SIGTERM)
	go func() { <-sig; cleanup(); os.Exit(130) }()
	if pf := os.Getenv("C14_CPUPROFILE"); pf != "" {
		f, _ := os.Create(pf)
		pprof.StartCPUProfile(f)
		defer pprof.StopCPUProfile()
	}
	fx := makeFixtures(scratch)
	if len(os.Args) > 1 && os.Args[1] == "probe" {
		probe(fx)
		cleanup()
		return
	}

	quickTier = run.Quick()
	catalog := catalogTableFunctions()
	g := &grid{sk: buildSkeletons(), fl: buildFillers(catalog), dc: buildDecoys(), skIdx: map[string]int{}, dcIdx: map[string]int{}}
	g.alt = fnAlt(g.fl)
	for i, s := range g.sk {
		g.skIdx[s.Name] = i
	}
	for i, d := range g.dc {
		g.dcIdx[d.Name] = i
	}
	// the Core subsets are closed under "simpler value" so that minimisation never leaves the enumerated space
	for changed := true; changed; {
		changed = false
		for i := range g.sk {
			if g.sk[i].Core && g.sk[i].Base != "" && !g.sk[g.skIdx[g.sk[i].Base]].Core {
				g.sk[g.skIdx[g.sk[i].Base]].Core, changed = true, true
			}
		}
		for i := range g.dc {
			if !g.dc[i].Core {
				continue
			}
			for _, n := range append(append([]string{}, g.dc[i].Parts...), g.dc[i].Base, g.dc[i].AltI) {
				if n != "" && !g.dc[g.dcIdx[n]].Core {
					g.dc[g.dcIdx[n]].Core, changed = true, true
				}
			}
		}
		for i := range g.fl {
			if g.fl[i].Core {
				if b := g.fl[i].Base; b >= 0 && !g.fl[b].Core {
					g.fl[b].Core, changed = true, true
				}
				if b := g.fl[i].Base2; b >= 0 && !g.fl[b].Core {
					g.fl[b].Core, changed = true, true
				}
				if a, ok := g.alt[i]; ok && !g.fl[a].Core {
					g.fl[a].Core, changed = true, true
				}
			}
		}
	}
	for i := range g.sk {
		if g.sk[i].Core || !run.Quick() {
			g.skSel = append(g.skSel, i)
		}
	}
	for i := range g.fl {
		if g.fl[i].Core || !run.Quick() {
			g.flSel = append(g.flSel, i)
		}
	}
	for i := range g.dc {
		if g.dc[i].Core || !run.Quick() {
			g.dcSel = append(g.dcSel, i)
		}
	}
	g.eps = []string{"/api/v1/query", "/api/v1/query/estimate"}
	size := len(g.sk) * len(g.fl) * len(g.dc) * len(headers)
	g.verdict = make([][]uint8, len(g.eps))
	for e := range g.verdict {
		g.verdict[e] = bytes.Repeat([]byte{vNA}, size)
	}

	if os.Getenv("C14_COUNT") != "" {
		n := 0
		for _, si := range g.skSel {
			for _, fi := range g.flSel {
				for _, di := range g.dcSel {
					for h := range headers {
						if _, ok := g.request(0, si, fi, di, h); ok {
							n++
						}
					}
				}
			}
		}
		if os.Getenv("C14_COUNT") == "2" {
			for _, fi := range g.flSel {
				fmt.Println("F", g.fl[fi].Key)
			}
			for _, di := range g.dcSel {
				fmt.Println("D", g.dc[di].Name)
			}
			for _, si := range g.skSel {
				fmt.Println("S", g.sk[si].Name)
			}
		}
		fmt.Printf("tier=%s skeletons=%d fillers=%d decoys=%d statements=%d listing=%d\n", run.Tier, len(g.skSel), len(g.flSel), len(g.dcSel), n, len(buildListing(run.Quick())))
		cleanup()
		return
	}
	nw := runtime.NumCPU()
	if nw > 16 {
		nw = 16
	}
	if s := os.Getenv("C14_WORKERS"); s != "" {
		fmt.Sscanf(s, "%d", &nw)
	}
	workers := make([]*worker, nw)
	var wg sync.WaitGroup
	for i := range workers {
		wg.Add(1)
		go func(i int) { defer wg.Done(); workers[i] = newWorker(i, fx) }(i)
	}
	wg.Wait()

	// ---- phase 1: evaluate the whole product -----------------------------------------------------------------
	type unit struct{ s, f int }
	// the (skeleton, filler) pairs of the Core sub-product come first, so that a run stopped by the time cap
	// has still covered what the quick tier covers, for every skeleton
	var units []unit
	for pass := 0; pass < 2; pass++ {
		for _, s := range g.skSel {
			for _, f := range g.flSel {
				if (g.sk[s].Core && g.fl[f].Core) == (pass == 0) {
					units = append(units, unit{s, f})
				}
			}
		}
	}
	if s := os.Getenv("C14_LIMIT_UNITS"); s != "" { // development only: measure cost on a prefix
		var n int
		fmt.Sscanf(s, "%d", &n)
		if n < len(units) {
			units = units[:n]
		}
	}
	loadTable := os.Getenv("C14_TABLE_LOAD") // development only: re-classify a saved verdict table without phase 1
	if loadTable != "" {
		b, err := os.ReadFile(loadTable)
		must(err, "C14_TABLE_LOAD")
		if len(b) != len(g.eps)*size {
			must(fmt.Errorf("table has %d bytes, grid needs %d", len(b), len(g.eps)*size), "C14_TABLE_LOAD")
		}
		for e := range g.verdict {
			copy(g.verdict[e], b[e*size:(e+1)*size])
		}
		units = nil
		run.Replay = loadTable // a re-classification is not evidence: Finish must not write evidence/C14.json
	}
	var next int64
	var evaluations, statements, executed, timedOut int64
	var mu sync.Mutex
	distinct := map[uint64]struct{}{}
	statusHist := map[string]int{}
	samples := ev.NewSamples(6)
	for _, w := range workers {
		wg.Add(1)
		go func(w *worker) {
			defer wg.Done()
			local := map[uint64]struct{}{}
			hist := map[string]int{}
			var nEval, nStmt, nExec int64
			for {
				i := int(atomic.AddInt64(&next, 1)) - 1
				if i >= len(units) {
					break
				}
				if run.TimeUp() {
					atomic.StoreInt64(&timedOut, 1)
					break
				}
				u := units[i]
				for _, d := range g.dcSel {
					for h := range headers {
						r0, ok := g.request(0, u.s, u.f, d, h)
						if !ok {
							continue
						}
						nStmt++
						idx := g.at(u.s, u.f, d, h)
						for e := range g.eps {
							r, ok := g.request(e, u.s, u.f, d, h)
							if !ok {
								continue
							}
							if e == 1 && run.Quick() && d != 0 {
								continue // quick sub-product: the estimate endpoint sees the decoy-free statements
							}
							j := w.judge(r)
							g.verdict[e][idx] = j.V
							nEval++
							hist[fmt.Sprintf("%s %d/%d/%d", g.eps[e][len("/api/v1/"):], j.Statuses[0], j.Statuses[1], j.Statuses[2])]++
							if j.Executed {
								hs := fnv.New64a()
								hs.Write([]byte(r.Method + r.Path + "\x00" + r.Header + "\x00" + r.SQL + r.Where))
								local[hs.Sum64()] = struct{}{}
								nExec++
								if e == 0 && j.V == 0 && len(j.Resp[0].Opened) > 0 {
									samples.Add(map[string]any{"request": r0, "statuses": j.Statuses, "opened": j.Resp[0].Opened, "checked": fmt.Sprint(j.Resp[0].Checks), "verdict": "ok"})
								}
							}
						}
					}
				}
			}
			mu.Lock()
			for k := range local {
				distinct[k] = struct{}{}
			}
			for k, n := range hist {
				statusHist[k] += n
			}
			mu.Unlock()
			atomic.AddInt64(&evaluations, nEval)
			atomic.AddInt64(&statements, nStmt)
			atomic.AddInt64(&executed, nExec)
		}(w)
	}
	wg.Wait()

	if p := os.Getenv("C14_TABLE_SAVE"); p != "" && loadTable == "" {
		var b []byte
		for e := range g.verdict {
			b = append(b, g.verdict[e]...)
		}
		must(os.WriteFile(p, b, 0o644), "C14_TABLE_SAVE")
	}

	// ---- phase 2: classes -----------------------------------------------------------------------------------
	// every violating case is minimised; cases are one class when their minimal forms differ from the
	// canonical statement in the same dimensions (bypass). The class is represented by its first minimal
	// form in (core first, table order) — the same one in both tiers — and carries that form's oracle kind.
	type class struct {
		rep   elem
		count int
	}
	before := func(a, b elem) bool {
		ca := g.sk[a.s].Core && g.fl[a.f].Core && g.dc[a.d].Core && a.e < 2
		cb := g.sk[b.s].Core && g.fl[b.f].Core && g.dc[b.d].Core && b.e < 2
		if ca != cb {
			return ca
		}
		if a.s != b.s {
			return a.s < b.s
		}
		if a.f != b.f {
			return a.f < b.f
		}
		if a.d != b.d {
			return a.d < b.d
		}
		if a.h != b.h {
			return a.h < b.h
		}
		return a.e < b.e
	}
	classes := map[string]*class{}
	rawViol := 0
	g.lazy = workers[0]
	for e := range g.eps {
		for _, s := range g.skSel {
			for _, f := range g.flSel {
				for _, d := range g.dcSel {
					for h := range headers {
						x := elem{e, s, f, d, h}
						if primary(g.v(x)) == 0 {
							continue
						}
						rawViol++
						m := g.reduce(x)
						key := g.bypass(m)
						c := classes[key]
						if c == nil {
							c = &class{rep: m}
							classes[key] = c
						} else if before(m, c.rep) {
							c.rep = m
						}
						c.count++
					}
				}
			}
		}
	}
	keys := make([]string, 0, len(classes))
	for k := range classes {
		keys = append(keys, k)
	}
	sort.Strings(keys)
	w0 := workers[0]
	for _, key := range keys {
		m := classes[key].rep
		r, _ := g.request(m.e, m.s, m.f, m.d, m.h)
		// replay the minimal case twice: the observation must be the one the table holds
		j := w0.judge(r)
		j2 := w0.judge(r)
		if j.V != g.v(m) || j2.V != g.v(m) {
			cleanup()
			ev.Nondeterminism(fmt.Sprintf("verdict of %q changed on replay: table=%d replay=%d,%d", reqText(r), g.v(m), j.V, j2.V))
		}
		sigText := kindName(primary(j.V)) + "|" + key + "|" + reqText(r)
		desc := fmt.Sprintf("%d enumerated cases minimise to this class. Likely gate: %s. %s", classes[key].count, g.cause(m), describe(j))
		for i := 0; i < classes[key].count; i++ {
			run.Violate(sigText, desc, map[string]any{"request": r, "root": "{ROOT} = storage root of the store", "statuses": j.Statuses,
				"opened_canaryA_store": j.Resp[0].Opened, "permission_checks": fmt.Sprint(j.Resp[0].Checks)})
		}
	}

	// ---- the SHOW / listing product ---------------------------------------------------------------------------
	listing := buildListing(run.Quick())
	seen := map[string]bool{}
	var nList, nListExec int64
	for _, r := range listing {
		key := r.Method + r.Path + "\x00" + r.Header + "\x00" + r.SQL
		if seen[key] {
			continue
		}
		seen[key] = true
		j := w0.judge(r)
		nList++
		statusHist[fmt.Sprintf("listing %d/%d/%d", j.Statuses[0], j.Statuses[1], j.Statuses[2])]++
		if j.Executed {
			nListExec++
			hs := fnv.New64a()
			hs.Write([]byte(key))
			distinct[hs.Sum64()] = struct{}{}
		}
		if k := primary(j.V); k != 0 {
			hdr := ""
			if r.Header != "" {
				hdr = "+header:" + r.Header
			}
			run.Violate(fmt.Sprintf("%s|listing%s|%s %s %s", kindName(k), hdr, r.Method, r.Path, reqText(r)), describe(j), map[string]any{"request": r})
		} else if j.Executed && j.Statuses[0] == 200 {
			samples.Add(map[string]any{"request": r, "statuses": j.Statuses, "checked": fmt.Sprint(j.Resp[0].Checks), "verdict": "ok"})
		}
	}

	// ---- evidence ----------------------------------------------------------------------------------------------
	hsum := fnv.New64a()
	for e := range g.verdict {
		hsum.Write(g.verdict[e])
	}
	run.Coverage["evaluations"] = int(evaluations + nList)
	run.Coverage["statements"] = int(statements)
	run.Coverage["distinct_nontrivial"] = len(distinct)
	run.Coverage["executed_evaluations"] = int(executed + nListExec)
	run.Coverage["rule"] = "full product skeleton x table-position filler x decoy x x-arc-database header {absent, db1, db2} (combinations whose decoy has no slot in the skeleton are not part of the grammar), each statement sent to /api/v1/query and /api/v1/query/estimate (quick: estimate only for the decoy-free statements) of three stores that differ only in db2's files; plus the SHOW / measurement-listing / GET query product. One evaluation = one (statement, endpoint) judged on all three stores. A case is non-trivial when at least one store let it through validation and RBAC (status not 4xx), i.e. DuckDB or the storage lister actually ran; distinct = distinct (method, path, header, SQL)."
	run.Coverage["dimensions"] = map[string]int{"skeletons": len(g.skSel), "fillers": len(g.flSel), "decoys": len(g.dcSel), "headers": len(headers), "endpoints": len(g.eps), "listing_requests": int(nList), "catalog_table_functions": len(catalog)}
	run.Coverage["status_histogram_A/B/N"] = statusHist
	run.Coverage["raw_violations"] = rawViol
	run.Coverage["minimisation_extra_evaluations"] = g.lazyEvals
	run.Coverage["verdict_table_fnv64"] = fmt.Sprintf("%016x", hsum.Sum64())
	run.Coverage["exhaustive"] = timedOut == 0
	run.Coverage["workers"] = nw
	run.Coverage["samples"] = samples.List()
	run.Assume("the RBAC decision is a recording stub of the RBACChecker interface granting read on database db1 only (the decision RBACManager takes for one role {database_pattern db1, read}); C20 owns the real manager")
	run.Assume("file reads are observed with inotify (IN_OPEN/IN_ACCESS) on every directory of the store; a read served entirely from a DuckDB cache without opening the file would only be caught by the non-interference comparison")
	run.Assume("POST /api/v1/query/arrow is not driven: fiber's app.Test cannot reliably read its trailer-carrying stream; it runs the same ValidateSQLRequest / SHOW / checkQueryPermissions / getTransformedSQL gate sequence as the endpoints that are driven")
	run.Assume("single statements only: multi-request attacks that first create catalog objects (CREATE VIEW/MACRO/TEMP TABLE are not on the denylist) are outside the quantifier; LocalBackend only")
	if len(run.Coverage["samples"].([]any)) == 0 {
		run.Coverage["samples"] = []any{"none"}
	}
	cleanup()
	pprof.StopCPUProfile()
	run.Finish()
}

func probe(fx *fixtures) {
	w := newWorker(0, fx)
	b, _ := io.ReadAll(os.Stdin)
	for _, line := range strings.Split(string(b), "\n") {
		if strings.TrimSpace(line) == "" {
			continue
		}
		var r request
		if err := json.Unmarshal([]byte(line), &r); err != nil {
			r = request{Method: "POST", Path: "/api/v1/query", SQL: line}
		}
		fmt.Printf("== %s\n", escapeNonASCII(line))
		j := w.judge(r)
		for i, s := range w.stores {
			x := j.Resp[i]
			body := string(x.Body)
			if len(body) > 300 {
				body = body[:300] + "..."
			}
			fmt.Printf("  [%s] %d %s\n      checks=%v opened=%v\n", s.name, x.Status, body, x.Checks, x.Opened)
		}
		fmt.Printf("  verdict=%d (%s)\n", j.V, kindName(primary(j.V)))
	}
}
