// Package c05 is only a marker: the C05 harness is hosted inside /repo/cmd/arc (package main) by
// overlay, because it drives the unexported createWALRecoveryCallback / createColumnarRecoveryCallback.
// See /verif/harness/inpkg/arcmain/zz_verif_c05.go.
package main

func main() {}
