package main

// Reference side of C31: what a cell / a time text DENOTES, computed with exact arithmetic
// (math/big) and the Go standard library only. Nothing here calls Arc code.

import (
	"math"
	"math/big"
	"regexp"
	"strconv"
	"strings"
	"time"
)

// ---- time ------------------------------------------------------------------------------------

var numLit = regexp.MustCompile(`^[+-]?(\d+\.?\d*|\.\d+)([eE][+-]?\d+)?$`)

var (
	ratThousand = big.NewRat(1000, 1)
	ratMillion  = big.NewRat(1000000, 1)
	minI64      = big.NewInt(math.MinInt64)
	maxI64      = big.NewInt(math.MaxInt64)
)

// unitScale: microseconds per unit of the requested epoch format.
func unitScale(format string) *big.Rat {
	switch format {
	case "epoch_s":
		return big.NewRat(1000000, 1)
	case "epoch_ms":
		return big.NewRat(1000, 1)
	case "epoch_us":
		return big.NewRat(1, 1)
	case "epoch_ns":
		return big.NewRat(1, 1000)
	}
	return nil
}

// autoScale is the documented magnitude rule of the "auto" time format:
// |v| < 1e10 seconds, < 1e13 milliseconds, < 1e16 microseconds, else nanoseconds.
func autoScale(v *big.Rat) *big.Rat {
	a := new(big.Rat).Abs(v)
	lim := func(e int64) *big.Rat {
		return new(big.Rat).SetInt(new(big.Int).Exp(big.NewInt(10), big.NewInt(e), nil))
	}
	switch {
	case a.Cmp(lim(10)) < 0:
		return unitScale("epoch_s")
	case a.Cmp(lim(13)) < 0:
		return unitScale("epoch_ms")
	case a.Cmp(lim(16)) < 0:
		return unitScale("epoch_us")
	}
	return unitScale("epoch_ns")
}

var textLayouts = []string{
	time.RFC3339Nano, "2006-01-02 15:04:05.999999999", "2006-01-02 15:04:05", "2006-01-02T15:04:05", "2006-01-02",
}

func instantToMicros(t time.Time) *big.Rat {
	r := new(big.Rat).SetInt64(t.Unix())
	r.Mul(r, ratMillion)
	return r.Add(r, big.NewRat(int64(t.Nanosecond()), 1000))
}

// isGoLayout: a time_format that is neither empty nor epoch_* is read as a Go reference layout.
func isCustomLayout(format string) bool { return format != "" && unitScale(format) == nil }

// refTimeText: does text denote an instant under the requested format, and which one (exact µs)?
// Surrounding white space is not significant (if the server refuses such a value that is a
// rejection, which is always allowed).
func refTimeText(format, text string) (bool, *big.Rat) {
	s := strings.TrimSpace(text)
	if s == "" {
		return false, nil
	}
	if sc := unitScale(format); sc != nil {
		if !numLit.MatchString(s) {
			return false, nil
		}
		v, ok := new(big.Rat).SetString(s)
		if !ok {
			return false, nil
		}
		return true, v.Mul(v, sc)
	}
	if isCustomLayout(format) {
		t, err := time.Parse(format, s)
		if err != nil {
			return false, nil
		}
		return true, instantToMicros(t)
	}
	// auto
	if numLit.MatchString(s) {
		v, ok := new(big.Rat).SetString(s)
		if !ok {
			return false, nil
		}
		return true, new(big.Rat).Mul(v, autoScale(v))
	}
	for _, l := range textLayouts {
		if t, err := time.Parse(l, s); err == nil {
			return true, instantToMicros(t)
		}
	}
	return false, nil
}

// refTimeNumber: an integer / floating point time column value under the requested format.
func refTimeNumber(format string, v *big.Rat) *big.Rat {
	if sc := unitScale(format); sc != nil {
		return new(big.Rat).Mul(v, sc)
	}
	return new(big.Rat).Mul(v, autoScale(v))
}

// timeExp is the expectation for one row's stored time.
type timeExp struct {
	Valid  bool  // the cell denotes an instant under the requested format
	Fits   bool  // ... and that instant is representable as int64 microseconds
	Lo, Hi int64 // floor and ceiling of the exact value (equal when it is a whole microsecond)
}

func ratFloorCeil(r *big.Rat) (lo, hi *big.Int) {
	lo = new(big.Int)
	m := new(big.Int)
	lo.DivMod(r.Num(), r.Denom(), m) // Euclidean: floor for positive denominators
	hi = new(big.Int).Set(lo)
	if m.Sign() != 0 {
		hi.Add(hi, big.NewInt(1))
	}
	return
}

func mkTimeExp(valid bool, exact *big.Rat) timeExp {
	if !valid {
		return timeExp{}
	}
	lo, hi := ratFloorCeil(exact)
	if lo.Cmp(minI64) < 0 || hi.Cmp(maxI64) > 0 {
		return timeExp{Valid: true}
	}
	return timeExp{Valid: true, Fits: true, Lo: lo.Int64(), Hi: hi.Int64()}
}

// ---- CSV data cells --------------------------------------------------------------------------

// cellTok: one token of the CSV cell alphabet and what its text denotes under each storable type.
type cellTok struct {
	Raw     string // as written in the file
	Val     string // the field value the CSV grammar assigns to Raw
	IsInt   bool   // Val is a base-10 integer literal that fits int64
	I       int64
	IsFloat bool // Val is a numeric literal whose exact value IS a finite float64
	F       float64
	IsBool  bool // Val is a boolean literal (true/false in any case, 1, 0)
	B       bool
}

var intLit = regexp.MustCompile(`^[+-]?\d+$`)

func mkCellTok(raw, val string) cellTok {
	t := cellTok{Raw: raw, Val: val}
	if intLit.MatchString(val) {
		if n, ok := new(big.Int).SetString(val, 10); ok && n.IsInt64() {
			t.IsInt, t.I = true, n.Int64()
		}
	}
	if numLit.MatchString(val) {
		if r, ok := new(big.Rat).SetString(val); ok {
			if f, exact := r.Float64(); exact && !math.IsInf(f, 0) {
				t.IsFloat, t.F = true, f
			}
		}
	}
	switch strings.ToLower(val) {
	case "true", "1":
		t.IsBool, t.B = true, true
	case "false", "0":
		t.IsBool, t.B = true, false
	}
	return t
}

// ---- expected cells (both formats) -----------------------------------------------------------

const (
	kNull = iota
	kCSV
	kInt
	kFloat
	kStr
	kBool
	kDec
	kTimeVal // a timestamp-typed DATA column: stored as microseconds
	kAny     // exotic input type: only presence is demanded
)

type expCell struct {
	K     int
	Tok   *cellTok
	Int   *big.Int
	F     float64
	S     string
	B     bool
	Scale int32
	T     timeExp
}

func (e expCell) String() string {
	switch e.K {
	case kNull:
		return "NULL"
	case kCSV:
		return strconv.Quote(e.Tok.Val)
	case kInt:
		return e.Int.String()
	case kFloat:
		return strconv.FormatFloat(e.F, 'g', -1, 64)
	case kStr:
		return strconv.Quote(e.S)
	case kBool:
		return strconv.FormatBool(e.B)
	case kDec:
		return "dec:" + e.S
	case kTimeVal:
		if e.T.Lo == e.T.Hi {
			return "us:" + strconv.FormatInt(e.T.Lo, 10)
		}
		return "us:" + strconv.FormatInt(e.T.Lo, 10) + ".." + strconv.FormatInt(e.T.Hi, 10)
	}
	return "?"
}

func showStored(v any) string {
	switch x := v.(type) {
	case nil:
		return "NULL"
	case string:
		return strconv.Quote(x)
	case float64:
		return "double:" + strconv.FormatFloat(x, 'g', -1, 64)
	case int64:
		return "int64:" + strconv.FormatInt(x, 10)
	case uint64:
		return "uint64:" + strconv.FormatUint(x, 10)
	case bool:
		return "bool:" + strconv.FormatBool(x)
	}
	return "?"
}

// cellOK: is the stored canonical value v a lossless image of the expected cell?
func cellOK(e expCell, v any) bool {
	switch e.K {
	case kAny:
		return v != nil
	case kNull:
		return v == nil
	case kCSV:
		t := e.Tok
		switch x := v.(type) {
		case nil:
			return t.Val == "" // an empty cell may be NULL
		case string:
			return x == t.Val
		case int64:
			return t.IsInt && t.I == x
		case float64:
			return t.IsFloat && t.F == x
		case bool:
			return t.IsBool && t.B == x
		}
		return false
	case kInt:
		switch x := v.(type) {
		case int64:
			return e.Int.IsInt64() && e.Int.Int64() == x
		case uint64:
			return e.Int.IsUint64() && e.Int.Uint64() == x
		case float64:
			if math.IsInf(x, 0) || math.IsNaN(x) {
				return false
			}
			r := new(big.Rat).SetFloat64(x)
			return r.IsInt() && r.Num().Cmp(e.Int) == 0
		case string:
			return x == e.Int.String()
		}
		return false
	case kFloat:
		switch x := v.(type) {
		case float64:
			if math.IsNaN(e.F) {
				return math.IsNaN(x)
			}
			return x == e.F
		case string:
			f, err := strconv.ParseFloat(x, 64)
			return err == nil && (f == e.F || (math.IsNaN(f) && math.IsNaN(e.F)))
		}
		return false
	case kStr:
		x, ok := v.(string)
		return ok && x == e.S
	case kBool:
		x, ok := v.(bool)
		return ok && x == e.B
	case kDec:
		switch x := v.(type) {
		case float64:
			// the string form at the column's scale round-trips to the decimal text
			s := strconv.FormatFloat(x, 'f', int(e.Scale), 64)
			return normDec(s) == normDec(e.S)
		case string:
			return normDec(x) == normDec(e.S)
		}
		return false
	case kTimeVal:
		x, ok := v.(int64)
		return ok && e.T.Fits && x >= e.T.Lo && x <= e.T.Hi
	}
	return false
}

func normDec(s string) string {
	if strings.HasPrefix(s, "-") && strings.Trim(s, "-0.") == "" {
		return s[1:]
	}
	return s
}
