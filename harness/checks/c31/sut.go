package main

// The system under test: the real ImportHandler behind a real fiber router, writing through a real
// ingest.ArrowBuffer into an in-memory storage backend; plus the judge that compares what was
// stored with an expectation.

import (
	"bytes"
	"context"
	"encoding/json"
	"fmt"
	"mime/multipart"
	"net/url"
	"sort"
	"strings"
	"sync/atomic"

	"github.com/basekick-labs/arc/internal/api"
	"github.com/basekick-labs/arc/internal/config"
	"github.com/basekick-labs/arc/internal/ingest"
	"github.com/basekick-labs/arc/zzverif/hx"
	"github.com/gofiber/fiber/v2"
	"github.com/rs/zerolog"
	"github.com/valyala/fasthttp"
)

const (
	dbName   = "db1"
	measName = "m1"
)

type sut struct {
	app     *fiber.App
	h       *api.ImportHandler
	handler fasthttp.RequestHandler
}

func newSUT() *sut {
	s := &sut{}
	s.app = fiber.New(fiber.Config{DisableStartupMessage: true, BodyLimit: 64 << 20})
	s.h = api.NewImportHandler(zerolog.Nop())
	s.h.RegisterRoutes(s.app) // no AuthManager: the admin gate is the pass-through middleware
	s.handler = s.app.Handler()
	return s
}

func ingestCfg() *config.IngestConfig {
	return &config.IngestConfig{MaxBufferSize: 1_000_000, MaxBufferAgeMS: 3_600_000, Compression: "snappy", FlushWorkers: 1,
		FlushQueueSize: 16, ShardCount: 1, FlushTimeoutSeconds: 60, WriteStatistics: true}
}

type outcome struct {
	Status       int
	Body         string
	RowsImported int64 // -1 when the response carries none
	Paths        []string
	Files        map[string][]byte
}

// do sends one multipart upload to /api/v1/import/<kind> on a FRESH ArrowBuffer + FRESH backend, then
// FlushAll + Close, and returns the response and everything the backend holds.
func (s *sut) do(kind string, q url.Values, fileName string, file []byte) outcome {
	return s.doX(kind, q, fileName, file, doOpt{})
}

// doOpt: the buffer context and storage faults of the fault family (fault.go). The zero value is the
// plain case: one shard, nothing else buffered, storage never fails.
type doOpt struct {
	Shards  int                       // ArrowBuffer shard count (0 = 1)
	Headers map[string]string         // extra request headers
	Pre     func(*ingest.ArrowBuffer) // runs before the request (other measurements' pending rows)
	// Fail is consulted for every storage Write issued WHILE THE HANDLER RUNS (path, 1-based ordinal
	// of the write); a non-nil error is returned to Arc and nothing is stored. After the response the
	// hook is removed, so the harness' own FlushAll + Close never fail.
	Fail func(path string, n int) error
}

func (s *sut) doX(kind string, q url.Values, fileName string, file []byte, opt doOpt) outcome {
	mem := hx.NewMemBackend()
	cfg := ingestCfg()
	if opt.Shards > 0 {
		cfg.ShardCount = opt.Shards
	}
	buf := ingest.NewArrowBuffer(cfg, mem, zerolog.Nop())
	s.h.SetArrowBuffer(buf)
	if opt.Pre != nil {
		opt.Pre(buf)
	}
	var inHandler atomic.Bool
	if opt.Fail != nil {
		mem.FailWrite = func(path string, n int) error {
			if !inHandler.Load() {
				return nil
			}
			return opt.Fail(path, n)
		}
	}

	var body bytes.Buffer
	mw := multipart.NewWriter(&body)
	fw, _ := mw.CreateFormFile("file", fileName)
	fw.Write(file)
	mw.Close()

	var req fasthttp.Request
	req.Header.SetMethod("POST")
	req.SetRequestURI("/api/v1/import/" + kind + "?" + q.Encode())
	req.Header.Set("x-arc-database", dbName)
	for k, v := range opt.Headers {
		req.Header.Set(k, v)
	}
	req.Header.SetContentType(mw.FormDataContentType())
	req.SetBody(body.Bytes())
	var fctx fasthttp.RequestCtx
	fctx.Init(&req, nil, nil)
	inHandler.Store(true)
	s.handler(&fctx)
	inHandler.Store(false)

	o := outcome{Status: fctx.Response.StatusCode(), Body: string(fctx.Response.Body()), RowsImported: -1}
	buf.FlushAll(context.Background())
	buf.Close()
	var resp struct {
		Result struct {
			RowsImported *int64 `json:"rows_imported"`
		} `json:"result"`
	}
	if json.Unmarshal([]byte(o.Body), &resp) == nil && resp.Result.RowsImported != nil {
		o.RowsImported = *resp.Result.RowsImported
	}
	o.Paths, o.Files = mem.Snapshot()
	return o
}

// expectation: what an independent reading of the uploaded file says must be stored.
type expectation struct {
	// MustReject != "": the file cannot be imported completely for this reason; a 2xx answer is a
	// violation of that kind.
	MustReject string
	Cols       []string    // stored column names expected (incl. "time")
	Times      []timeExp   // per row
	Cells      [][]expCell // [row][col index into Cols, skipping "time"]
	DataCols   []string    // Cols without "time", order of Cells
	KeyCol     string      // "time" or a data column whose expected values are unique ints 1..n
}

type verdict struct {
	Kind   string    // "" = held
	Detail string    // stable description of the first disagreement (used for bucketing)
	Accept bool      // 2xx
	Types  string    // stored column types (vacuity statistics)
	Fault  *faultObs // set by the fault x context family only (statistics)
}

func (o outcome) ok2xx() bool { return o.Status >= 200 && o.Status < 300 }

func judge(o outcome, e expectation) verdict {
	if !o.ok2xx() {
		if len(o.Files) > 0 {
			n := 0
			for _, p := range o.Paths {
				if rows, _, _, err := hx.ReadParquet(o.Files[p]); err == nil {
					n += len(rows)
				}
			}
			return verdict{Kind: "partial-import", Detail: fmt.Sprintf("status=%d files=%d rows_stored=%d of %d", o.Status, len(o.Files), n, len(e.Times))}
		}
		return verdict{}
	}
	v := verdict{Accept: true}
	var rows []hx.Row
	colTypes := map[string]string{}
	for _, p := range o.Paths {
		if !strings.HasPrefix(p, dbName+"/"+measName+"/") {
			v.Kind, v.Detail = "wrong-target", "stored under "+p
			return v
		}
		rs, schema, _, err := hx.ReadParquet(o.Files[p])
		if err != nil {
			v.Kind, v.Detail = "stored-unreadable", err.Error()
			return v
		}
		for _, s := range schema {
			i := strings.LastIndex(s, ":")
			colTypes[s[:i]] = s[i+1:]
		}
		rows = append(rows, rs...)
	}
	if e.MustReject != "" {
		v.Kind = e.MustReject
		v.Detail = fmt.Sprintf("accepted with status %d, rows_stored=%d", o.Status, len(rows))
		return v
	}
	if len(rows) != len(e.Times) || o.RowsImported != int64(len(e.Times)) {
		v.Kind = "rowcount"
		v.Detail = fmt.Sprintf("file_rows=%d stored=%d rows_imported=%d", len(e.Times), len(rows), o.RowsImported)
		return v
	}
	var names []string
	for n := range colTypes {
		names = append(names, n)
	}
	sort.Strings(names)
	want := append([]string{}, e.Cols...)
	sort.Strings(want)
	if strings.Join(names, ",") != strings.Join(want, ",") {
		v.Kind = "columns"
		v.Detail = fmt.Sprintf("file_columns=%v stored_columns=%v", want, names)
		return v
	}
	var ts []string
	for _, n := range e.DataCols {
		ts = append(ts, colTypes[n])
	}
	v.Types = strings.Join(ts, ",")
	// match every expected row with one stored row through the key column
	used := make([]bool, len(rows))
	for i := range e.Times {
		found := -1
		for j, r := range rows {
			if used[j] {
				continue
			}
			if e.KeyCol == "time" {
				if t, ok := r["time"].(int64); ok && e.Times[i].Fits && t >= e.Times[i].Lo && t <= e.Times[i].Hi {
					found = j
					break
				}
			} else if id, ok := r[e.KeyCol].(int64); ok && id == int64(i+1) {
				found = j
				break
			}
		}
		if found < 0 {
			if e.KeyCol == "time" {
				var got []string
				for _, r := range rows {
					got = append(got, showStored(r["time"]))
				}
				sort.Strings(got)
				v.Kind = "time-wrong"
				v.Detail = fmt.Sprintf("row %d: want time %s, stored times %v", i+1, expCell{K: kTimeVal, T: e.Times[i]}, got)
			} else {
				v.Kind = "value-lossy"
				v.Detail = fmt.Sprintf("no stored row has %s=%d", e.KeyCol, i+1)
			}
			return v
		}
		used[found] = true
		r := rows[found]
		te := e.Times[i]
		if t, ok := r["time"].(int64); !ok || !te.Fits || t < te.Lo || t > te.Hi {
			v.Kind = "time-wrong"
			v.Detail = fmt.Sprintf("want %s stored %s", expCell{K: kTimeVal, T: te}, showStored(r["time"]))
			return v
		}
		for c, name := range e.DataCols {
			if !cellOK(e.Cells[i][c], r[name]) {
				v.Kind = "value-lossy"
				v.Detail = fmt.Sprintf("column type %s: cell %s stored as %s", colTypes[name], e.Cells[i][c], showStored(r[name]))
				return v
			}
		}
	}
	return v
}
