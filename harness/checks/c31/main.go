// C31 — File imports store every data row of the uploaded file.
//
// Bounded-exhaustive exploration of upload files against the REAL import handlers
// (internal/api/import.go, import_inprocess.go) mounted on a real fiber router, writing through a real
// ingest.ArrowBuffer into an in-memory storage backend. After every request the buffer is flushed and
// closed and every stored Parquet file is read back with an independent reader (hx.ReadParquet).
//
// CSV   : every file of <=3 data rows x <=3 columns over a 12-token cell alphabet x 3 delimiters x
//
//	skip_rows {0,1}; every time column of <=3 rows over a per-format alphabet (epoch s/ms/us/ns,
//	auto = epoch magnitudes + RFC3339 + date-only + space-separated, custom layout) x delimiter x
//	skip_rows x time-column position x time-column name; files without a time column; ragged rows.
//
// Parquet: every column of <=3 rows over a per-type value alphabet (with NULLs) for every Arrow type the
//
//	importer supports (and several it does not) x time column timestamp[s|ms|us|ns] x row-group
//	layout; every time column over a per-type alphabet for every time-column type x time_format.
//
// Fault x context (fault.go): for a few fixed files of EVERY import endpoint (csv, parquet, lp, tle): buffer
//
//	layout x every subset of other measurements/databases with pending rows (visited before and after
//	the imported key by FlushAll) x every subset of the request's storage writes failing; answered
//	2xx => exactly the file's rows are stored.
//
// Oracle (see ref.go): an independent reading of the uploaded bytes (encoding/csv strict mode; arrow-go
// reader + exact big-number arithmetic) says which rows the file holds. 2xx => same number of rows, all
// under db/measurement, time = requested conversion to microseconds, every other stored value a lossless
// image of the cell under the type the column was stored with. Non-2xx => NOTHING stored. A file that
// cannot be imported completely (time cell that is not a time / not representable, no time column, a
// row with a surplus cell) must not be answered 2xx.
package main

import (
	"fmt"
	"hash/fnv"
	"os"
	"runtime/debug"
	"runtime/pprof"
	"sort"
	"strings"
	"sync"
	"sync/atomic"
	"time"

	"github.com/basekick-labs/arc/zzverif/engine/ev"
)

type tcase interface {
	run(*sut) verdict
	shrinks() []tcase
	sig() string
	replay() any
	size() int
}

type failure struct {
	c    tcase
	v    verdict
	sig  string
	size int
}

func main() {
	run := ev.Start("C31", "exploration")
	workers := 16
	if pf := os.Getenv("C31_PROF"); pf != "" {
		f, _ := os.Create(pf)
		pprof.StartCPUProfile(f)
		defer pprof.StopCPUProfile()
	}

	debug.SetGCPercent(400)
	cp := csvPlan{MaxRowsTime: 2, Big: false, NoTimeColumns: 1}
	pp := pqPlan{MaxRows: 2}
	fp := quickFaultPlan()
	if !run.Quick() {
		fp = thoroughFaultPlan()
		cp = csvPlan{CrossPairs: true, MaxRowsTime: 3, Big: true, NoTimeColumns: 2}
		pp = pqPlan{MaxRows: 3}
		// own budget: thorough must end within 15 minutes; whatever is not reached is reported (exhaustive=false)
		if d := time.Now().Add(12 * time.Minute); d.Before(run.Deadline) {
			run.Deadline = d
		}
	}

	if run.Replay != "" {
		fmt.Println("C31: replay files are self-describing (endpoint, query, file); re-run the check to reproduce")
	}

	var evals, accepted, rejected, nontriv, dups, faultEvals int64
	var incomplete int32
	stats := map[string]int64{}
	var smu sync.Mutex
	seen := make([]map[uint64]struct{}, 64)
	seenMu := make([]sync.Mutex, 64)
	for i := range seen {
		seen[i] = map[uint64]struct{}{}
	}
	samples := ev.NewSamples(8)

	// failures are bucketed by (kind, detail); the few smallest cases of each bucket are minimised
	const perBucket = 12
	buckets := map[string][]failure{}
	var bmu sync.Mutex
	var rawFails int64

	ch := make(chan []tcase, 64)
	var wg sync.WaitGroup
	for w := 0; w < workers; w++ {
		wg.Add(1)
		go func() {
			defer wg.Done()
			s := newSUT()
			local := map[string]int64{}
			for batch := range ch {
				if atomic.LoadInt32(&incomplete) == 1 {
					continue
				}
				if run.TimeUp() {
					atomic.StoreInt32(&incomplete, 1)
					continue
				}
				for _, c := range batch {
					sg := c.sig()
					h := fnv.New64a()
					h.Write([]byte(sg))
					k := h.Sum64()
					seenMu[k%64].Lock()
					_, dup := seen[k%64][k]
					seen[k%64][k] = struct{}{}
					seenMu[k%64].Unlock()
					if dup {
						atomic.AddInt64(&dups, 1)
						continue
					}
					v := c.run(s)
					n := atomic.AddInt64(&evals, 1)
					if fo := v.Fault; fo != nil {
						// the fault x context family keeps its own books
						fe := atomic.AddInt64(&faultEvals, 1)
						if fe%701 == 2 {
							samples.Add(sg)
						}
						local["fault:cases"]++
						local["fault:executions_incl_order_retries"] += int64(fo.Runs)
						if fo.Outcome != "" {
							local["fault:outcome:"+fo.Outcome]++
						}
						if fo.Fired > 0 {
							local["fault:cases_with_a_fault_reached"]++
						}
						for p, k := range fo.Pos {
							local["fault:db1/m1_visited_"+p] += int64(k)
						}
						if fo.NonTrivial {
							atomic.AddInt64(&nontriv, 1)
							local["fault:nontrivial"]++
						}
						if fo.OrderIncomplete {
							local["fault:order_classes_incomplete"]++
							atomic.StoreInt32(&incomplete, 1)
						}
						if fo.PlacementMismatch != "" {
							ev.Unbound("C31 harness: the visiting order of the buffer keys is not the predicted one (" + fo.PlacementMismatch + "); case " + sg)
						}
					} else if v.Accept {
						atomic.AddInt64(&accepted, 1)
						if v.Kind == "" {
							atomic.AddInt64(&nontriv, 1)
							local["stored_types:"+v.Types]++
						}
					} else {
						atomic.AddInt64(&rejected, 1)
					}
					if n%40009 == 1 && v.Fault == nil {
						samples.Add(sg)
					}
					if v.Kind != "" {
						atomic.AddInt64(&rawFails, 1)
						bk := v.Kind + " :: " + v.Detail
						f := failure{c: c, v: v, sig: sg, size: c.size()}
						less := func(a, b failure) bool {
							if a.size != b.size {
								return a.size < b.size
							}
							return a.sig < b.sig
						}
						bmu.Lock()
						b := buckets[bk]
						if len(b) < perBucket || less(f, b[len(b)-1]) {
							b = append(b, f)
							sort.SliceStable(b, func(i, j int) bool { return less(b[i], b[j]) })
							if len(b) > perBucket {
								b = b[:perBucket]
							}
							buckets[bk] = b
						}
						bmu.Unlock()
					}
				}
			}
			smu.Lock()
			for k, n := range local {
				stats[k] += n
			}
			smu.Unlock()
		}()
	}
	var batch []tcase
	emit := func(c tcase) {
		batch = append(batch, c)
		if len(batch) == 128 {
			ch <- batch
			batch = nil
		}
	}
	only := os.Getenv("C31_ONLY") // debugging aid: restrict to one family ("csv" / "parquet" / "fault"); never set by ./check
	// the fault x context family first: it is small and must not be cut off by the thorough tier's time cap
	buildFaultFiles(fp)
	faultContexts, faultEmitted := 0, 0
	if only == "" || only == "fault" {
		faultContexts, faultEmitted = enumFault(fp, emit)
	}
	if only == "" || only == "csv" {
		enumCSV(cp, emit)
	}
	if only == "" || only == "parquet" {
		enumPQ(pp, emit)
	}
	if cp.Big && (only == "" || only == "csv") {
		enumCSVBig(emit)
	}
	if len(batch) > 0 {
		ch <- batch
	}
	close(ch)
	wg.Wait()
	if only != "" {
		atomic.StoreInt32(&incomplete, 1)
	}

	// ---- minimise (greedy over shrinks, same oracle kind), in parallel, memoised -----------------
	var todo []failure
	bks := make([]string, 0, len(buckets))
	for k := range buckets {
		bks = append(bks, k)
	}
	sort.Strings(bks)
	for _, k := range bks {
		todo = append(todo, buckets[k]...)
	}
	type minimal struct {
		c tcase
		v verdict
	}
	mins := make([]minimal, len(todo))
	var memo sync.Map
	var next int64 = -1
	var mwg sync.WaitGroup
	for w := 0; w < workers; w++ {
		mwg.Add(1)
		go func() {
			defer mwg.Done()
			s := newSUT()
			jm := func(c tcase) verdict {
				k := c.sig()
				if v, ok := memo.Load(k); ok {
					return v.(verdict)
				}
				v := c.run(s)
				memo.Store(k, v)
				return v
			}
			for {
				i := int(atomic.AddInt64(&next, 1))
				if i >= len(todo) {
					return
				}
				cur, cv := todo[i].c, todo[i].v
				// determinism: the recorded verdict must reproduce
				for k := 0; k < 2; k++ {
					if v := cur.run(s); v.Kind != cv.Kind || v.Detail != cv.Detail {
						ev.Nondeterminism(fmt.Sprintf("C31 case %s: verdict %q/%q then %q/%q", cur.sig(), cv.Kind, cv.Detail, v.Kind, v.Detail))
					}
				}
				for changed := true; changed; {
					changed = false
					for _, q := range cur.shrinks() {
						if v := jm(q); v.Kind == cv.Kind {
							cur, cv, changed = q, v, true
							break
						}
					}
				}
				mins[i] = minimal{cur, cv}
			}
		}()
	}
	mwg.Wait()
	classes := map[string]minimal{}
	for _, m := range mins {
		sg := m.v.Kind + "|" + m.c.sig()
		if _, ok := classes[sg]; !ok {
			classes[sg] = m
		}
	}
	csigs := make([]string, 0, len(classes))
	for s := range classes {
		csigs = append(csigs, s)
	}
	sort.Strings(csigs)
	for _, sg := range csigs {
		m := classes[sg]
		run.Violate(sg, describe(m.v), m.c.replay())
	}

	if os.Getenv("C31_VERBOSE") != "" {
		for _, k := range bks {
			fmt.Printf("bucket %-100s e.g. %s\n", k, buckets[k][0].c.sig())
		}
		var ks []string
		for k := range stats {
			ks = append(ks, k)
		}
		sort.Strings(ks)
		for _, k := range ks {
			fmt.Printf("stat %-60s %d\n", k, stats[k])
		}
	}

	distinctTypes := 0
	for k := range stats {
		if strings.HasPrefix(k, "stored_types:") {
			distinctTypes++
		}
	}
	run.Coverage["evaluations"] = evals
	run.Coverage["distinct_nontrivial"] = nontriv
	run.Coverage["accepted_2xx"] = accepted
	run.Coverage["rejected_non_2xx_nothing_stored_checked"] = rejected
	run.Coverage["duplicate_cases_skipped"] = dups
	run.Coverage["distinct_stored_type_signatures"] = distinctTypes
	run.Coverage["failing_inputs_before_minimisation"] = rawFails
	run.Coverage["failure_buckets"] = len(buckets)
	run.Coverage["exhaustive"] = incomplete == 0
	run.Coverage["samples"] = samples.List()
	run.Coverage["cell_alphabet"] = []string{"", "0", "1", "-1", "1.5", "9007199254740993", "1e400", "true", "TRUE", "abc", `"a,b"`, " 1"}
	ff := map[string]int64{}
	for k, n := range stats {
		if strings.HasPrefix(k, "fault:") {
			ff[strings.TrimPrefix(k, "fault:")] = n
		}
	}
	ff["contexts_file_x_layout_x_pending_keys"] = int64(faultContexts)
	run.Coverage["fault_family"] = ff
	// the family is emitted first, so the thorough tier's time cap (12^6 CSV block) does not cut it off
	run.Coverage["fault_family_exhaustive"] = faultEmitted > 0 && ff["cases"] == int64(faultEmitted) && ff["order_classes_incomplete"] == 0
	run.Coverage["fault_family_plan"] = fp.describe()
	run.Coverage["csv_plan"] = fmt.Sprintf("%+v", cp)
	run.Coverage["parquet_plan"] = fmt.Sprintf("%+v", pp)
	run.Coverage["rule"] = "product enumeration (no sampling): CSV data grids R<=3 x C<=1 and R<=2 x C<=2 data columns (+time column) over the 12-token cell alphabet x {',',';',TAB} x skip_rows{0,1}" +
		" (thorough adds the full 3x2 grid block, 12^6 files); every time column of <=MaxRowsTime rows over the per-format alphabet (epoch_s/ms/us/ns: 8 tokens, auto: 11, custom layout: 4) x delimiter x skip_rows x" +
		" time column first/last x named time/ts; files without time column; ragged rows; Parquet: every column of <=MaxRows rows over a per-type alphabet incl. NULL for each Arrow type x time column timestamp[s,ms,us,ns] x" +
		" row-group layout {one, one per row}, and every time column over a per-type alphabet for each time column type x time_format. Each case = one HTTP request to the real handler on a fresh ArrowBuffer and backend." +
		" distinct = by (endpoint, query, file bytes) (FNV-64 of the signature; duplicates skipped and counted); non-trivial = answered 2xx AND every stored row compared cell by cell with the independent parse without disagreement"
	run.Assume("authentication disabled (nil AuthManager -> pass-through admin gate), RBAC disabled; storage is an in-memory backend that never fails outside the fault x context family; there, only 'answered 2xx => the file's rows are stored' is demanded - what a failed flush leaves behind when the answer is an error (partly stored multi-hour files, lost rows of other measurements) is C07's business")
	run.Assume("fault x context family: TLE rows are identified by (norad_id, object_name) only; LP rows by time, tag and field value; the other keys' pending rows are not judged")
	run.Assume("a rejection (non-2xx) of an importable file is allowed by the statement; only 'nothing stored' is demanded of it")
	run.Assume("sub-microsecond remainders may be truncated or rounded either way (floor..ceil of the exact value accepted)")
	run.Assume("CSV numeric alphabet contains only values that are exactly representable in binary floating point or are integers; decimal->binary rounding of fractions like 0.1 is not judged. An empty CSV cell may be stored as NULL or as the empty string")
	run.Assume("Parquet DECIMAL columns are documented to import as DOUBLE: only decimals whose text at the column scale round-trips through float64 are generated")
	run.Assume("the auto time format is judged by its documented magnitude rule (<1e10 s, <1e13 ms, <1e16 us, else ns) on contemporary epochs only")
	pprof.StopCPUProfile()
	run.Finish()
}

func describe(v verdict) string {
	m := map[string]string{
		"partial-import":          "the request was rejected (non-2xx) but rows of the file were stored",
		"rowcount":                "the import was accepted but the number of stored rows (or rows_imported) differs from the number of data rows",
		"columns":                 "the import was accepted but the stored column set differs from the file's",
		"time-wrong":              "the stored time is not the requested conversion of the time cell to microseconds",
		"value-lossy":             "a stored value is not a lossless image of the file's cell under the stored column type",
		"bad-time-accepted":       "a time cell that does not denote a time under the requested format was accepted",
		"time-overflow":           "a time that is not representable as int64 microseconds was accepted (stored wrapped)",
		"no-time-column-accepted": "a file without the time column was accepted",
		"surplus-cell-dropped":    "a row with more cells than the header has columns was accepted; the surplus cell is silently dropped",
		"wrong-target":            "a file was stored outside the requested database/measurement",
		"stored-unreadable":       "a stored Parquet file cannot be read back",
		"ack-rows-lost":           "the import was answered 2xx although a storage write of the request failed and the file's rows are not (all) stored",
		"ctx-rows-wrong":          "the import was answered 2xx with other measurements pending in the buffer, no storage write failed, and the rows stored under the requested measurement are not the file's",
		"ctx-rowcount":            "the import was answered 2xx and the file's rows are stored, but rows_imported is not the number of data rows",
	}
	return m[v.Kind] + " (" + v.Detail + ")"
}
