package main

// The FAULT x CONTEXT family: what an ACCEPTED import promises when the storage backend fails and when
// the ArrowBuffer the import shares with live ingest holds other measurements' pending rows.
//
// Every import endpoint (csv, parquet, lp, tle) buffers the file's rows and then calls
// ArrowBuffer.FlushAll, which visits EVERY pending buffer of every shard - the imported key and whatever
// else is buffered - and reports one error for the lot. The answer "200, rows_imported=N" is a claim
// about the imported key only. The family enumerates, for a fixed small set of files per endpoint:
//
//   context : shard layout {1 shard: all keys in one Go map, visiting order = map order;
//             n shards: every key in its own shard, visiting order = shard order} x every subset (up to a
//             size) of a pool of other database/measurement keys with one pending row each, the pool
//             being placed before AND after the imported key in visiting order
//   fault   : every subset of the storage-write slots of the request, a slot being (buffer key, j-th
//             Write under that key's prefix while the handler runs): this contains "fail every write
//             under the imported prefix", "fail the k-th write", "fail only under another prefix", and
//             every combination
//
// Oracle (the property's "each data row is stored once ... a file that cannot be imported completely is
// rejected"): 2xx with rows_imported=N => exactly the file's N rows (ground truth by construction, read
// back with hx.ReadParquet after the harness' own fault-free FlushAll+Close) are stored under the
// requested database/measurement and rows_imported=N. Anything else must be answered non-2xx. A non-2xx
// answer while a fault was injected is not judged further (what a failed flush leaves behind is C07's
// business); a non-2xx answer with NO fault injected must have stored nothing of the file.

import (
	"bytes"
	"context"
	"encoding/base64"
	"fmt"
	"net/url"
	"sort"
	"strings"
	"sync"

	"github.com/apache/arrow-go/v18/arrow"
	"github.com/apache/arrow-go/v18/arrow/array"
	"github.com/apache/arrow-go/v18/parquet"
	"github.com/apache/arrow-go/v18/parquet/pqarrow"
	"github.com/basekick-labs/arc/internal/ingest"
	"github.com/basekick-labs/arc/zzverif/engine/ev"
	"github.com/basekick-labs/arc/zzverif/hx"
)

// ---- files -----------------------------------------------------------------------------------

// fFile: one upload of the family with its ground truth (known by construction, not parsed back).
type fFile struct {
	ID       string
	Endpoint string
	Name     string
	Bytes    []byte
	Query    url.Values
	Headers  map[string]string
	Keys     []string         // buffer keys the file's rows go to; Keys[0] = db1/m1
	Slots    []int            // per key: storage writes of a fault-free flush (= distinct hours of its rows)
	Want     []map[string]int // per key: multiset of the file's rows (projected on Project)
	N        int              // data rows of the file
	Project  []string         // columns compared with the ground truth (nil = every stored column)
}

// the time shapes: one row; two rows in one hour; three rows over two hours (two storage writes)
var fTimes = map[string][]int64{
	"1row":     {baseSec},
	"2rows-1h": {baseSec, baseSec + 1},
	"3rows-2h": {baseSec, baseSec + 1, baseSec + 3600},
}

func hoursOf(secs []int64) int {
	h := map[int64]bool{}
	for _, s := range secs {
		h[s/3600] = true
	}
	return len(h)
}

func rowsMS(rows []hx.Row) map[string]int { return hx.Multiset(rows) }

func fCSV(shape string) fFile {
	var b strings.Builder
	b.WriteString("time,id\n")
	var rows []hx.Row
	for i, s := range fTimes[shape] {
		fmt.Fprintf(&b, "%d,%d\n", s, i+1)
		rows = append(rows, hx.Row{"time": s * 1_000_000, "id": int64(i + 1)})
	}
	return fFile{ID: "csv:" + shape, Endpoint: "csv", Name: "f.csv", Bytes: []byte(b.String()),
		Query: url.Values{"measurement": {measName}, "time_format": {"epoch_s"}},
		Keys:  []string{dbName + "/" + measName}, Slots: []int{hoursOf(fTimes[shape])}, Want: []map[string]int{rowsMS(rows)}, N: len(rows)}
}

func fParquet(shape string) fFile {
	secs := fTimes[shape]
	var tv, ids []pqVal
	var rows []hx.Row
	for i, s := range secs {
		tv = append(tv, pqVal{I: s * 1_000_000})
		ids = append(ids, pqVal{I: int64(i + 1)})
		rows = append(rows, hx.Row{"time": s * 1_000_000, "id": int64(i + 1)})
	}
	tt := tsType(arrow.Microsecond, "UTC")
	fields := []arrow.Field{{Name: "time", Type: tt, Nullable: true}, {Name: "id", Type: arrow.PrimitiveTypes.Int64, Nullable: true}}
	arrs := []arrow.Array{buildArray(tt, tv), buildArray(arrow.PrimitiveTypes.Int64, ids)}
	sc := arrow.NewSchema(fields, nil)
	rec := array.NewRecord(sc, arrs, int64(len(secs)))
	defer rec.Release()
	for _, a := range arrs {
		a.Release()
	}
	tbl := array.NewTableFromRecords(sc, []arrow.Record{rec})
	defer tbl.Release()
	var buf bytes.Buffer
	if err := pqarrow.WriteTable(tbl, &buf, 1024, parquet.NewWriterProperties(), pqarrow.DefaultWriterProps()); err != nil {
		ev.Unbound("C31 harness: cannot write the fault-family parquet file: " + err.Error())
	}
	return fFile{ID: "parquet:" + shape, Endpoint: "parquet", Name: "f.parquet", Bytes: buf.Bytes(),
		Query: url.Values{"measurement": {measName}},
		Keys:  []string{dbName + "/" + measName}, Slots: []int{hoursOf(secs)}, Want: []map[string]int{rowsMS(rows)}, N: len(rows)}
}

const measName2 = "m2"

// fLP: line protocol, default precision ns. two=true adds one row of a SECOND measurement (m2), so the
// request owns two buffer keys and rows_imported counts both.
func fLP(shape string, two bool) fFile {
	var b strings.Builder
	var rows []hx.Row
	for i, s := range fTimes[shape] {
		fmt.Fprintf(&b, "%s,host=a v=%di %d\n", measName, i+1, s*1_000_000_000)
		rows = append(rows, hx.Row{"time": s * 1_000_000, "host": "a", "v": int64(i + 1)})
	}
	f := fFile{ID: "lp:" + shape, Endpoint: "lp", Name: "f.lp", Query: url.Values{},
		Keys: []string{dbName + "/" + measName}, Slots: []int{hoursOf(fTimes[shape])}, Want: []map[string]int{rowsMS(rows)}, N: len(rows)}
	if two {
		fmt.Fprintf(&b, "%s,host=b v=%di %d\n", measName2, 7, int64(baseSec)*1_000_000_000)
		f.ID += "+m2:1row"
		f.Keys = append(f.Keys, dbName+"/"+measName2)
		f.Slots = append(f.Slots, 1)
		f.Want = append(f.Want, rowsMS([]hx.Row{{"time": int64(baseSec) * 1_000_000, "host": "b", "v": int64(7)}}))
		f.N++
	}
	f.Bytes = []byte(b.String())
	return f
}

// TLE: the two element sets of the repository's own fixtures (ISS epoch 2024-02-20 08:20, NOAA 19 epoch
// 2024-02-20 00:00: two hours) and NOAA 19 moved into the ISS hour (checksum recomputed). Ground truth =
// one row per element set, identified by (norad_id, object_name); the derived orbital columns are not
// this property's business.
func tleChecksum(line68 string) byte {
	sum := 0
	for i := 0; i < len(line68); i++ {
		if ch := line68[i]; ch >= '0' && ch <= '9' {
			sum += int(ch - '0')
		} else if ch == '-' {
			sum++
		}
	}
	return byte('0' + sum%10)
}

func fTLE(shape string) fFile {
	iss := "ISS (ZARYA)\n1 25544U 98067A   24051.34722222  .00016717  00000-0  10270-3 0  9014\n2 25544  51.6400 208.9163 0006703 319.1918  40.8793 15.49560830442108\n"
	noaa1 := "1 33591U 09005A   24051.00000000  .00000080  00000-0  55221-4 0  9994"
	noaa2 := "2 33591  99.1926 170.2345 0014183 315.6789  44.3210 14.12343268788907"
	data, hours := iss, 1
	rows := []hx.Row{{"norad_id": "25544", "object_name": "ISS (ZARYA)"}}
	switch shape {
	case "2rows-1h":
		l := strings.Replace(noaa1[:68], "24051.00000000", "24051.34800000", 1)
		noaa1 = l + string(tleChecksum(l))
		fallthrough
	case "2rows-2h":
		data += "NOAA 19\n" + noaa1 + "\n" + noaa2 + "\n"
		rows = append(rows, hx.Row{"norad_id": "33591", "object_name": "NOAA 19"})
		if shape == "2rows-2h" {
			hours = 2
		}
	}
	return fFile{ID: "tle:" + shape, Endpoint: "tle", Name: "f.tle", Bytes: []byte(data), Query: url.Values{},
		Headers: map[string]string{"x-arc-measurement": measName},
		Keys:    []string{dbName + "/" + measName}, Slots: []int{hours}, Want: []map[string]int{rowsMS(rows)}, N: len(rows),
		Project: []string{"norad_id", "object_name"}}
}

// fFiles is fixed at start-up (before the workers run); a faultCase refers to a file by index. Within an
// endpoint the files are ordered simplest first (shrinking moves towards index 0 of the endpoint).
var fFiles []fFile

func fileIndex(id string) int {
	for i, f := range fFiles {
		if f.ID == id {
			return i
		}
	}
	return -1
}

// ---- placement of keys -----------------------------------------------------------------------

// arcShard: FNV-1a(key) % n, what ArrowBuffer.getShard computes. Used only to CHOOSE key names whose
// visiting order is fixed; every run compares the visiting order it observed (order of the storage
// writes) with the predicted one and the check stops as HARNESS-UNBOUND on a disagreement.
func arcShard(key string, n int) int {
	h := uint32(2166136261)
	for i := 0; i < len(key); i++ {
		h ^= uint32(key[i])
		h *= 16777619
	}
	return int(h % uint32(n))
}

func otherCandidates() []string {
	var out []string
	for _, m := range []string{"cpu", "mem", "disk", "net", measName, measName2, "temp", "load"} {
		for _, d := range []string{dbName, "db2", "prod", "edge"} {
			if k := d + "/" + m; k != dbName+"/"+measName && k != dbName+"/"+measName2 {
				out = append(out, k)
			}
		}
	}
	return out
}

// shardCfg: one buffer layout with its pool of other keys (in visiting order for n>1).
type shardCfg struct {
	Shards    int
	Pool      []string // other keys that may hold pending rows
	MaxOthers int
	Before    int // n>1: how many pool keys are visited before db1/m1
}

// placeMulti finds the smallest shard count >= from for which db1/m1 and db1/m2 and nb+na pool keys all
// live in distinct shards, nb of the pool keys before db1/m1 and na after it.
func placeMulti(from, nb, na int) shardCfg {
	m1, m2 := dbName+"/"+measName, dbName+"/"+measName2
	for n := from; n <= 256; n++ {
		s1, s2 := arcShard(m1, n), arcShard(m2, n)
		if s1 == s2 {
			continue
		}
		used := map[int]bool{s1: true, s2: true}
		var before, after []string
		for _, k := range otherCandidates() {
			s := arcShard(k, n)
			if used[s] {
				continue
			}
			if s < s1 && len(before) < nb {
				before, used[s] = append(before, k), true
			} else if s > s1 && len(after) < na {
				after, used[s] = append(after, k), true
			}
		}
		if len(before) == nb && len(after) == na {
			pool := append(before, after...)
			sort.Slice(pool, func(i, j int) bool { return arcShard(pool[i], n) < arcShard(pool[j], n) })
			return shardCfg{Shards: n, Pool: pool, Before: nb}
		}
	}
	ev.Unbound("C31 harness: no shard count places the key pool around db1/m1")
	return shardCfg{}
}

// ---- one case --------------------------------------------------------------------------------

type slot struct {
	Key string
	Ord int // 1-based: the Ord-th storage Write under Key's prefix while the handler runs
}

func (s slot) String() string { return fmt.Sprintf("%s#%d", s.Key, s.Ord) }

type faultCase struct {
	F      int      // index into fFiles
	Shards int      // ArrowBuffer shard count
	Others []string // other buffer keys holding one pending row each
	Fail   []slot   // the storage writes that fail
}

// faultObs: what one case observed (statistics; nothing here decides)
type faultObs struct {
	Runs              int            // executions (a 1-shard case is repeated until every visiting order class was seen)
	Fired             int            // injected faults that were reached in the last execution
	Outcome           string         // 2xx-verified | rejected-nothing-of-file-stored | rejected-file-partly-stored | rejected-file-completely-stored
	Pos               map[string]int // position of db1/m1 in the visiting order, per execution
	OrderIncomplete   bool           // the retry cap was hit before every order class was seen
	PlacementMismatch string         // n shards: observed visiting order differs from the predicted one
	NonTrivial        bool
}

const orderRetryCap = 400

func keyOfPath(p string) string {
	i := strings.IndexByte(p, '/')
	if i < 0 {
		return p
	}
	j := strings.IndexByte(p[i+1:], '/')
	if j < 0 {
		return p
	}
	return p[:i+1+j]
}

func (c faultCase) file() fFile { return fFiles[c.F] }

func (c faultCase) allKeys() []string {
	return append(append([]string{}, c.file().Keys...), c.Others...)
}

// once executes the case one time; order = distinct buffer keys in the order their first storage write
// was attempted by the handler's FlushAll.
func (c faultCase) once(s *sut) (v verdict, order []string, fired int, outcomeClass string) {
	f := c.file()
	failSet := map[slot]bool{}
	for _, x := range c.Fail {
		failSet[x] = true
	}
	cnt := map[string]int{}
	var mu sync.Mutex
	opt := doOpt{Shards: c.Shards, Headers: f.Headers}
	opt.Pre = func(buf *ingest.ArrowBuffer) {
		for i, k := range c.Others {
			d := strings.IndexByte(k, '/')
			batch := &ingest.TypedColumnBatch{Data: map[string]interface{}{
				"time": []int64{int64(baseSec)*1_000_000 + int64(i)}, "x": []int64{int64(100 + i)}}}
			if err := buf.WriteTypedColumnarDirect(context.Background(), k[:d], k[d+1:], batch, 1); err != nil {
				ev.Unbound("C31 harness: cannot buffer a pending row for " + k + ": " + err.Error())
			}
		}
	}
	opt.Fail = func(path string, n int) error {
		mu.Lock()
		defer mu.Unlock()
		k := keyOfPath(path)
		if cnt[k] == 0 {
			order = append(order, k)
		}
		cnt[k]++
		if failSet[slot{k, cnt[k]}] {
			fired++
			return hx.ErrInjected
		}
		return nil
	}
	o := s.doX(f.Endpoint, f.Query, f.Name, f.Bytes, opt)

	// what is stored, by buffer key
	isOther := map[string]bool{}
	for _, k := range c.Others {
		isOther[k] = true
	}
	stored := map[string][]hx.Row{}
	for _, k := range f.Keys {
		stored[k] = nil
	}
	for _, p := range o.Paths {
		k := keyOfPath(p)
		if _, imp := stored[k]; !imp && !isOther[k] {
			return verdict{Kind: "wrong-target", Detail: "stored under " + k, Accept: o.ok2xx()}, order, fired, ""
		}
		if isOther[k] {
			continue
		}
		rs, _, _, err := hx.ReadParquet(o.Files[p])
		if err != nil {
			return verdict{Kind: "stored-unreadable", Detail: err.Error(), Accept: o.ok2xx()}, order, fired, ""
		}
		stored[k] = append(stored[k], rs...)
	}
	complete, nothing := true, true
	for i, k := range f.Keys {
		rows := stored[k]
		if len(rows) > 0 {
			nothing = false
		}
		if f.Project != nil {
			pr := make([]hx.Row, len(rows))
			for j, r := range rows {
				pr[j] = hx.Row{}
				for _, col := range f.Project {
					pr[j][col] = r[col]
				}
			}
			rows = pr
		}
		if hx.DiffMultiset(f.Want[i], hx.Multiset(rows)) != "" && complete {
			complete = false
		}
	}
	if !o.ok2xx() {
		switch {
		case nothing:
			outcomeClass = "rejected-nothing-of-file-stored"
		case complete:
			outcomeClass = "rejected-file-completely-stored"
		default:
			outcomeClass = "rejected-file-partly-stored"
		}
		if len(c.Fail) == 0 && !nothing {
			n := 0
			for _, k := range f.Keys {
				n += len(stored[k])
			}
			return verdict{Kind: "partial-import", Detail: fmt.Sprintf(f.ID+": status=%d no fault injected, rows_stored=%d of %d", o.Status, n, f.N)}, order, fired, outcomeClass
		}
		return verdict{}, order, fired, outcomeClass
	}
	v = verdict{Accept: true}
	switch {
	case !complete && fired > 0:
		// the class of the seeded FlushAll change: the flush of the imported rows failed, the answer says stored
		v.Kind = "ack-rows-lost"
		v.Detail = fmt.Sprintf(f.ID+": status=%d rows_imported=%d although a storage write failed; the rows stored under the requested measurement are not the file's", o.Status, o.RowsImported)
	case !complete:
		v.Kind = "ctx-rows-wrong"
		v.Detail = fmt.Sprintf(f.ID+": status=%d rows_imported=%d, no storage write failed; the rows stored under the requested measurement are not the file's", o.Status, o.RowsImported)
	case o.RowsImported != int64(f.N):
		v.Kind = "ctx-rowcount"
		v.Detail = fmt.Sprintf(f.ID+": file_rows=%d rows_imported=%d", f.N, o.RowsImported)
	}
	return v, order, fired, "2xx-verified"
}

func posOf(key string, order []string) string {
	for i, k := range order {
		if k == key {
			switch {
			case len(order) == 1:
				return "only"
			case i == 0:
				return "first"
			case i == len(order)-1:
				return "last"
			}
			return "middle"
		}
	}
	return "not-visited"
}

func (c faultCase) run(s *sut) verdict {
	f := c.file()
	obs := &faultObs{Pos: map[string]int{}}
	keys := c.allKeys()
	// 1 shard: every key sits in one Go map and FlushAll visits them in map order, which the runtime
	// randomises per iteration. The case is repeated until EVERY key (the file's and the pending ones) has
	// been seen as the FIRST and as the LAST key visited (cap orderRetryCap); the verdict is the worst over
	// all executions. (Not every permutation: orders that differ only in the middle are one class.)
	needOrders := c.Shards <= 1 && len(keys) >= 2
	seenFirst, seenLast := map[string]bool{}, map[string]bool{}
	var worst verdict
	var have bool
	for {
		v, order, fired, oc := c.once(s)
		obs.Runs++
		obs.Fired = fired
		obs.Outcome = oc
		obs.Pos[posOf(f.Keys[0], order)]++
		if !have || (v.Kind != "" && (worst.Kind == "" || v.Kind+"|"+v.Detail < worst.Kind+"|"+worst.Detail)) {
			worst, have = v, true
		}
		if !needOrders {
			if c.Shards > 1 {
				// predicted visiting order: by shard index (all keys in distinct shards)
				pred := append([]string{}, keys...)
				sort.Slice(pred, func(i, j int) bool { return arcShard(pred[i], c.Shards) < arcShard(pred[j], c.Shards) })
				// a key whose flush never reached storage is missing from `order` only if Arc stopped early;
				// compare the observed order with the predicted order restricted to the observed keys
				var predSeen []string
				in := map[string]bool{}
				for _, k := range order {
					in[k] = true
				}
				for _, k := range pred {
					if in[k] {
						predSeen = append(predSeen, k)
					}
				}
				if strings.Join(predSeen, ",") != strings.Join(order, ",") {
					obs.PlacementMismatch = fmt.Sprintf("shards=%d predicted %v observed %v", c.Shards, pred, order)
				}
			}
			break
		}
		if len(order) > 0 {
			seenFirst[order[0]] = true
			seenLast[order[len(order)-1]] = true
		}
		done := true
		for _, k := range keys {
			if !seenFirst[k] || !seenLast[k] {
				done = false
			}
		}
		if done {
			break
		}
		if obs.Runs >= orderRetryCap {
			obs.OrderIncomplete = true
			break
		}
	}
	obs.NonTrivial = worst.Kind == "" && (obs.Outcome == "2xx-verified" && (len(c.Others) > 0 || c.Shards > 1) || obs.Fired > 0)
	worst.Fault = obs
	return worst
}

func (c faultCase) sig() string {
	var fs []string
	for _, x := range c.Fail {
		fs = append(fs, x.String())
	}
	return fmt.Sprintf("fault|%s|shards=%d|pending=[%s]|fail=[%s]", c.file().ID, c.Shards, strings.Join(c.Others, ","), strings.Join(fs, ","))
}

func (c faultCase) replay() any {
	f := c.file()
	m := map[string]any{"endpoint": "/api/v1/import/" + f.Endpoint, "query": f.Query.Encode(), "x-arc-database": dbName,
		"headers": f.Headers, "ingest.shard_count": c.Shards,
		"pending_before_request": fmt.Sprintf("one row (time, x) buffered with ArrowBuffer.WriteTypedColumnarDirect for each of %v", c.Others),
		"failing_storage_writes": fmt.Sprintf("%v (key#j = the j-th storage.Write under <key>/ issued while the handler runs returns an error)", c.Fail)}
	if f.Endpoint == "parquet" {
		m["file_base64"] = base64.StdEncoding.EncodeToString(f.Bytes)
		m["file_columns"] = "time timestamp[us,UTC], id int64; rows as in csv:" + strings.TrimPrefix(f.ID, "parquet:")
	} else {
		m["file"] = string(f.Bytes)
	}
	return m
}

func (c faultCase) size() int {
	n := 4*len(c.Others) + 2*len(c.Fail) + c.F
	if c.Shards > 1 {
		n++
	}
	return n
}

func (c faultCase) clone() faultCase {
	d := c
	d.Others = append([]string{}, c.Others...)
	d.Fail = append([]slot{}, c.Fail...)
	return d
}

// canonicalOther: the name every pending key shrinks to under 1 shard (where the name does not matter)
const canonicalOther = "db2/cpu"

// shrinks: strictly simpler neighbours, most aggressive first. Fault slots that do not exist in the
// simpler case are dropped with what they belonged to.
func (c faultCase) shrinks() []tcase {
	var out []tcase
	f := c.file()
	valid := func(d faultCase) faultCase {
		g := d.file()
		slots := map[string]int{}
		for i, k := range g.Keys {
			slots[k] = g.Slots[i]
		}
		for _, k := range d.Others {
			slots[k] = 1
		}
		var keep []slot
		for _, x := range d.Fail {
			if x.Ord <= slots[x.Key] {
				keep = append(keep, x)
			}
		}
		d.Fail = keep
		return d
	}
	if len(c.Others) > 0 {
		d := c.clone()
		d.Others = nil
		out = append(out, valid(d))
	}
	for i := range c.Others {
		d := c.clone()
		d.Others = append(d.Others[:i], d.Others[i+1:]...)
		out = append(out, valid(d))
	}
	for i := range c.Fail {
		d := c.clone()
		d.Fail = append(d.Fail[:i], d.Fail[i+1:]...)
		out = append(out, d)
	}
	// an earlier write of the same key fails instead
	for i, x := range c.Fail {
		if x.Ord > 1 {
			taken := false
			for _, y := range c.Fail {
				if y.Key == x.Key && y.Ord == x.Ord-1 {
					taken = true
				}
			}
			if !taken {
				d := c.clone()
				d.Fail[i].Ord--
				out = append(out, d)
			}
		}
	}
	// a simpler file of the same endpoint
	for j := 0; j < c.F; j++ {
		if fFiles[j].Endpoint == f.Endpoint {
			d := c.clone()
			d.F = j
			out = append(out, valid(d))
		}
	}
	if c.Shards > 1 {
		d := c.clone()
		d.Shards = 1
		out = append(out, d)
	}
	if c.Shards <= 1 {
		has := false
		for _, k := range c.Others {
			if k == canonicalOther {
				has = true
			}
		}
		for i, k := range c.Others {
			if !has && k != canonicalOther {
				d := c.clone()
				d.Others[i] = canonicalOther
				for j := range d.Fail {
					if d.Fail[j].Key == k {
						d.Fail[j].Key = canonicalOther
					}
				}
				out = append(out, d)
				break
			}
		}
	}
	return out
}

// ---- enumeration -----------------------------------------------------------------------------

type faultPlan struct {
	Shapes   []string   // time shapes per endpoint
	Cfgs     []shardCfg // buffer layouts
	Describe string
}

func quickFaultPlan() faultPlan {
	one := shardCfg{Shards: 1, Pool: otherCandidates()[:2], MaxOthers: 2}
	multi := placeMulti(8, 2, 2)
	multi.MaxOthers = 3
	return faultPlan{Shapes: []string{"1row", "3rows-2h"}, Cfgs: []shardCfg{one, multi}}
}

func thoroughFaultPlan() faultPlan {
	one := shardCfg{Shards: 1, Pool: otherCandidates()[:4], MaxOthers: 3}
	m1 := placeMulti(8, 3, 3)
	m1.MaxOthers = 3
	m2 := placeMulti(m1.Shards+1, 2, 2)
	m2.MaxOthers = 3
	return faultPlan{Shapes: []string{"1row", "2rows-1h", "3rows-2h"}, Cfgs: []shardCfg{one, m1, m2}}
}

func buildFaultFiles(p faultPlan) {
	fFiles = nil
	tleShape := map[string]string{"1row": "1row", "2rows-1h": "2rows-1h", "3rows-2h": "2rows-2h"}
	for _, sh := range p.Shapes {
		fFiles = append(fFiles, fCSV(sh))
	}
	for _, sh := range p.Shapes {
		fFiles = append(fFiles, fParquet(sh))
	}
	for _, sh := range p.Shapes {
		fFiles = append(fFiles, fLP(sh, false))
	}
	fFiles = append(fFiles, fLP("1row", true))
	for _, sh := range p.Shapes {
		fFiles = append(fFiles, fTLE(tleShape[sh]))
	}
}

func subsetsUpTo(pool []string, max int, f func([]string)) {
	n := len(pool)
	for size := 0; size <= max && size <= n; size++ {
		for mask := 0; mask < 1<<n; mask++ {
			var sub []string
			for i := 0; i < n; i++ {
				if mask&(1<<i) != 0 {
					sub = append(sub, pool[i])
				}
			}
			if len(sub) == size {
				f(sub)
			}
		}
	}
}

// enumFault emits the full product file x layout x pending-key subset x failing-slot subset.
func enumFault(p faultPlan, emit func(tcase)) (contexts, cases int) {
	for fi, f := range fFiles {
		for _, cfg := range p.Cfgs {
			subsetsUpTo(cfg.Pool, cfg.MaxOthers, func(others []string) {
				contexts++
				var slots []slot
				for i, k := range f.Keys {
					for j := 1; j <= f.Slots[i]; j++ {
						slots = append(slots, slot{k, j})
					}
				}
				for _, k := range others {
					slots = append(slots, slot{k, 1})
				}
				for mask := 0; mask < 1<<len(slots); mask++ {
					var fail []slot
					for i := range slots {
						if mask&(1<<i) != 0 {
							fail = append(fail, slots[i])
						}
					}
					cases++
					emit(faultCase{F: fi, Shards: cfg.Shards, Others: append([]string{}, others...), Fail: fail})
				}
			})
		}
	}
	return
}

func (p faultPlan) describe() string {
	var parts []string
	for _, c := range p.Cfgs {
		if c.Shards == 1 {
			parts = append(parts, fmt.Sprintf("1 shard: every subset of <=%d of %v", c.MaxOthers, c.Pool))
		} else {
			parts = append(parts, fmt.Sprintf("%d shards (each key its own shard): every subset of <=%d of %v, the first %d visited before db1/m1, the rest after", c.Shards, c.MaxOthers, c.Pool, c.Before))
		}
	}
	var ids []string
	for _, f := range fFiles {
		ids = append(ids, f.ID)
	}
	return "files " + strings.Join(ids, ", ") + "; layouts x pending keys: " + strings.Join(parts, "; ")
}
