package main

import (
	"bytes"
	"context"
	"fmt"
	"math"
	"math/big"
	"net/url"
	"strconv"
	"strings"

	"github.com/apache/arrow-go/v18/arrow"
	"github.com/apache/arrow-go/v18/arrow/array"
	"github.com/apache/arrow-go/v18/arrow/decimal128"
	"github.com/apache/arrow-go/v18/arrow/memory"
	"github.com/apache/arrow-go/v18/parquet"
	"github.com/apache/arrow-go/v18/parquet/file"
	"github.com/apache/arrow-go/v18/parquet/pqarrow"
	"github.com/basekick-labs/arc/zzverif/engine/ev"
)

// ---- values and types ------------------------------------------------------------------------

type pqVal struct {
	Null bool
	I    int64
	U    uint64
	F    float64
	S    string
	B    bool
}

func vi(xs ...int64) []pqVal {
	var o []pqVal
	for _, x := range xs {
		o = append(o, pqVal{I: x})
	}
	return o
}
func vu(xs ...uint64) []pqVal {
	var o []pqVal
	for _, x := range xs {
		o = append(o, pqVal{U: x})
	}
	return o
}
func vf(xs ...float64) []pqVal {
	var o []pqVal
	for _, x := range xs {
		o = append(o, pqVal{F: x})
	}
	return o
}
func vs(xs ...string) []pqVal {
	var o []pqVal
	for _, x := range xs {
		o = append(o, pqVal{S: x})
	}
	return o
}

var vnull = pqVal{Null: true}

func withNull(v []pqVal) []pqVal { return append(v, vnull) }

type pqType struct {
	Name   string
	DT     arrow.DataType
	Alpha  []pqVal // data-column alphabet; Alpha[0] is the plainest
	Exotic bool    // not a type the importer claims to support: only "rejected, or present" is demanded
}

func tsType(u arrow.TimeUnit, tz string) *arrow.TimestampType {
	return &arrow.TimestampType{Unit: u, TimeZone: tz}
}

const baseSec = 1609459200

var pqDataTypes = []pqType{
	{Name: "int8", DT: arrow.PrimitiveTypes.Int8, Alpha: withNull(vi(1, 0, math.MinInt8, math.MaxInt8))},
	{Name: "int16", DT: arrow.PrimitiveTypes.Int16, Alpha: withNull(vi(1, math.MinInt16, math.MaxInt16))},
	{Name: "int32", DT: arrow.PrimitiveTypes.Int32, Alpha: withNull(vi(1, math.MinInt32, math.MaxInt32))},
	{Name: "int64", DT: arrow.PrimitiveTypes.Int64, Alpha: withNull(vi(1, math.MinInt64, math.MaxInt64, 9007199254740993))},
	{Name: "uint8", DT: arrow.PrimitiveTypes.Uint8, Alpha: withNull(vu(1, 0, math.MaxUint8))},
	{Name: "uint16", DT: arrow.PrimitiveTypes.Uint16, Alpha: withNull(vu(1, math.MaxUint16))},
	{Name: "uint32", DT: arrow.PrimitiveTypes.Uint32, Alpha: withNull(vu(1, math.MaxUint32))},
	{Name: "uint64", DT: arrow.PrimitiveTypes.Uint64, Alpha: withNull(vu(1, math.MaxInt64, math.MaxUint64))},
	{Name: "float32", DT: arrow.PrimitiveTypes.Float32, Alpha: withNull(vf(1.5, 0, math.MaxFloat32, math.Inf(1)))},
	{Name: "float64", DT: arrow.PrimitiveTypes.Float64, Alpha: withNull(vf(1.5, 1e300, 9007199254740992, math.Inf(-1), math.NaN()))},
	{Name: "utf8", DT: arrow.BinaryTypes.String, Alpha: withNull(vs("abc", "", "a,b", "1"))},
	{Name: "binary", DT: arrow.BinaryTypes.Binary, Alpha: withNull(vs("abc", "", "1"))},
	{Name: "fixed_size_binary[3]", DT: &arrow.FixedSizeBinaryType{ByteWidth: 3}, Alpha: withNull(vs("abc", "\x00\x01\x02", "1.5"))},
	{Name: "bool", DT: arrow.FixedWidthTypes.Boolean, Alpha: []pqVal{{B: true}, {B: false}, vnull}},
	{Name: "decimal(10,2)", DT: &arrow.Decimal128Type{Precision: 10, Scale: 2}, Alpha: withNull(vi(150, 0, -12345, 9999999999))},
	{Name: "timestamp[s]", DT: tsType(arrow.Second, "UTC"), Alpha: withNull(vi(baseSec, 0, -1))},
	{Name: "timestamp[ms]", DT: tsType(arrow.Millisecond, "UTC"), Alpha: withNull(vi(baseSec*1e3, 0, -1))},
	{Name: "timestamp[us]", DT: tsType(arrow.Microsecond, "UTC"), Alpha: withNull(vi(baseSec*1e6, 0, -1, math.MaxInt64))},
	{Name: "timestamp[ns]", DT: tsType(arrow.Nanosecond, ""), Alpha: withNull(vi(baseSec*1e9, 0, -1, math.MaxInt64))},
	// types the importer does not list: must be rejected (nothing stored) or imported with the value present
	{Name: "date32", DT: arrow.FixedWidthTypes.Date32, Alpha: withNull(vi(18628)), Exotic: true},
	{Name: "time64[us]", DT: arrow.FixedWidthTypes.Time64us, Alpha: withNull(vi(1)), Exotic: true},
	{Name: "float16", DT: arrow.FixedWidthTypes.Float16, Alpha: withNull(vf(1.5)), Exotic: true},
	{Name: "large_utf8", DT: arrow.BinaryTypes.LargeString, Alpha: withNull(vs("abc")), Exotic: true},
	{Name: "list<int64>", DT: arrow.ListOf(arrow.PrimitiveTypes.Int64), Alpha: withNull(vi(1)), Exotic: true},
}

// pqTimeVariant: one (time column type, time_format) with its value alphabet
type pqTimeVariant struct {
	Type  pqType
	Fmt   string
	Alpha []pqVal
}

func epochI(unitsPerSecond int64, extra ...int64) []pqVal {
	return withNull(vi(append([]int64{baseSec * unitsPerSecond, (baseSec + 3600) * unitsPerSecond, -1}, extra...)...))
}

var pqTimeVariants = func() []pqTimeVariant {
	T := func(name string, dt arrow.DataType) pqType { return pqType{Name: name, DT: dt} }
	var v []pqTimeVariant
	for _, tz := range []string{"UTC", ""} {
		sfx := ""
		if tz == "" {
			sfx = ",naive"
		}
		v = append(v,
			pqTimeVariant{T("timestamp[s"+sfx+"]", tsType(arrow.Second, tz)), "", epochI(1)},
			pqTimeVariant{T("timestamp[ms"+sfx+"]", tsType(arrow.Millisecond, tz)), "", epochI(1e3, math.MaxInt64)},
			pqTimeVariant{T("timestamp[us"+sfx+"]", tsType(arrow.Microsecond, tz)), "", epochI(1e6, math.MaxInt64)},
			pqTimeVariant{T("timestamp[ns"+sfx+"]", tsType(arrow.Nanosecond, tz)), "", epochI(1e9, math.MaxInt64)})
	}
	i64 := T("int64", arrow.PrimitiveTypes.Int64)
	v = append(v,
		pqTimeVariant{i64, "epoch_s", epochI(1, 9007199254740993)},
		pqTimeVariant{i64, "epoch_ms", epochI(1e3, 9007199254740993)},
		pqTimeVariant{i64, "epoch_us", epochI(1e6, 9007199254740993)},
		pqTimeVariant{i64, "epoch_ns", epochI(1e9, 9007199254740993)},
		pqTimeVariant{i64, "", withNull(vi(baseSec, (baseSec+3600)*1e3, baseSec*1e6, baseSec*1e9))},
		pqTimeVariant{T("int32", arrow.PrimitiveTypes.Int32), "epoch_s", withNull(vi(baseSec, baseSec+3600, -1))},
		pqTimeVariant{T("int32", arrow.PrimitiveTypes.Int32), "", withNull(vi(baseSec, baseSec+3600, -1))},
		pqTimeVariant{T("int16", arrow.PrimitiveTypes.Int16), "epoch_s", withNull(vi(0, 3600, -1, math.MaxInt16))},
		pqTimeVariant{T("int8", arrow.PrimitiveTypes.Int8), "epoch_s", vi(0, 1)},
		pqTimeVariant{T("uint8", arrow.PrimitiveTypes.Uint8), "epoch_s", vu(0, 1)},
		pqTimeVariant{T("uint16", arrow.PrimitiveTypes.Uint16), "epoch_s", vu(0, 3600)},
		pqTimeVariant{T("uint32", arrow.PrimitiveTypes.Uint32), "epoch_s", withNull(vu(baseSec, baseSec+3600, math.MaxUint32))},
		pqTimeVariant{T("uint64", arrow.PrimitiveTypes.Uint64), "epoch_us", withNull(vu(baseSec*1e6, (baseSec+3600)*1e6, math.MaxUint64))},
		pqTimeVariant{T("uint64", arrow.PrimitiveTypes.Uint64), "epoch_ns", withNull(vu(baseSec*1e9, (baseSec+3600)*1e9, math.MaxUint64))},
		pqTimeVariant{T("float64", arrow.PrimitiveTypes.Float64), "epoch_s", withNull(vf(baseSec, baseSec+0.5, math.NaN(), math.Inf(1), 1e300))},
		pqTimeVariant{T("float64", arrow.PrimitiveTypes.Float64), "epoch_ms", withNull(vf(baseSec*1e3, baseSec*1e3+0.5))},
		pqTimeVariant{T("float64", arrow.PrimitiveTypes.Float64), "", withNull(vf(baseSec, baseSec+0.5, (baseSec+3600)*1e3, math.Inf(-1)))},
		pqTimeVariant{T("float32", arrow.PrimitiveTypes.Float32), "epoch_s", vf(baseSec, 0.5, math.Inf(1))},
		pqTimeVariant{T("utf8", arrow.BinaryTypes.String), "epoch_s", withNull(vs("1609459200", "1609462800", " 1609459200", "abc", ""))},
		pqTimeVariant{T("utf8", arrow.BinaryTypes.String), "", withNull(vs("1609459200", "2021-01-01T00:00:00Z", "2021-01-01", "abc"))},
		pqTimeVariant{T("utf8", arrow.BinaryTypes.String), customLayout, vs("2021-01-01 00:00:00", "abc")},
		pqTimeVariant{T("binary", arrow.BinaryTypes.Binary), "epoch_s", withNull(vs("1609459200", "abc"))},
		pqTimeVariant{T("binary", arrow.BinaryTypes.Binary), "", vs("2021-01-01T00:00:00Z", "1609462800000")},
		pqTimeVariant{T("fixed_size_binary[10]", &arrow.FixedSizeBinaryType{ByteWidth: 10}), "epoch_s", vs("1609459200", "1609462800", "abcdefghij")},
		pqTimeVariant{T("bool", arrow.FixedWidthTypes.Boolean), "epoch_s", []pqVal{{B: true}}},
	)
	return v
}()

func buildArray(dt arrow.DataType, vals []pqVal) arrow.Array {
	mem := memory.DefaultAllocator
	b := array.NewBuilder(mem, dt)
	defer b.Release()
	for _, v := range vals {
		if v.Null {
			b.AppendNull()
			continue
		}
		switch bb := b.(type) {
		case *array.Int8Builder:
			bb.Append(int8(v.I))
		case *array.Int16Builder:
			bb.Append(int16(v.I))
		case *array.Int32Builder:
			bb.Append(int32(v.I))
		case *array.Int64Builder:
			bb.Append(v.I)
		case *array.Uint8Builder:
			bb.Append(uint8(v.U))
		case *array.Uint16Builder:
			bb.Append(uint16(v.U))
		case *array.Uint32Builder:
			bb.Append(uint32(v.U))
		case *array.Uint64Builder:
			bb.Append(v.U)
		case *array.Float32Builder:
			bb.Append(float32(v.F))
		case *array.Float64Builder:
			bb.Append(v.F)
		case *array.Float16Builder:
			if err := bb.AppendValueFromString(strconv.FormatFloat(v.F, 'g', -1, 64)); err != nil {
				ev.Unbound("C31 harness: float16: " + err.Error())
			}
		case *array.StringBuilder:
			bb.Append(v.S)
		case *array.LargeStringBuilder:
			bb.Append(v.S)
		case *array.BinaryBuilder:
			bb.Append([]byte(v.S))
		case *array.FixedSizeBinaryBuilder:
			bb.Append([]byte(v.S))
		case *array.BooleanBuilder:
			bb.Append(v.B)
		case *array.Decimal128Builder:
			bb.Append(decimal128.FromI64(v.I))
		case *array.TimestampBuilder:
			bb.Append(arrow.Timestamp(v.I))
		case *array.Date32Builder:
			bb.Append(arrow.Date32(v.I))
		case *array.Time64Builder:
			bb.Append(arrow.Time64(v.I))
		case *array.ListBuilder:
			bb.Append(true)
			bb.ValueBuilder().(*array.Int64Builder).Append(v.I)
		default:
			ev.Unbound(fmt.Sprintf("C31 harness: no builder case for %T", b))
		}
	}
	return b.NewArray()
}

// ---- one Parquet case ------------------------------------------------------------------------

type pqCase struct {
	TV      int   // index into pqTimeVariants
	Times   []int // per row -> variant alphabet index; nil in the data sub-space (fixed valid times)
	DT      int   // index into pqDataTypes, -1 = the row-id column only
	Data    []int // per row -> type alphabet index
	PerRow  bool  // one row group per row
}

// fixed valid times of the data sub-space (seconds): two rows in one hour, the third in the next
var pqFixedSec = []int64{baseSec, baseSec + 1, baseSec + 3600}

func (c pqCase) rows() int {
	if c.Times != nil {
		return len(c.Times)
	}
	return len(c.Data)
}

func (c pqCase) timeVals() []pqVal {
	tv := pqTimeVariants[c.TV]
	var out []pqVal
	if c.Times != nil {
		for _, x := range c.Times {
			out = append(out, tv.Alpha[x])
		}
		return out
	}
	per := map[arrow.TimeUnit]int64{arrow.Second: 1, arrow.Millisecond: 1e3, arrow.Microsecond: 1e6, arrow.Nanosecond: 1e9}[tv.Type.DT.(*arrow.TimestampType).Unit]
	for r := 0; r < c.rows(); r++ {
		out = append(out, pqVal{I: pqFixedSec[r] * per})
	}
	return out
}

func (c pqCase) file() []byte {
	tv := pqTimeVariants[c.TV]
	n := c.rows()
	fields := []arrow.Field{{Name: "time", Type: tv.Type.DT, Nullable: true}}
	arrs := []arrow.Array{buildArray(tv.Type.DT, c.timeVals())}
	if c.DT >= 0 {
		t := pqDataTypes[c.DT]
		var vals []pqVal
		for _, x := range c.Data {
			vals = append(vals, t.Alpha[x])
		}
		fields = append(fields, arrow.Field{Name: "c1", Type: t.DT, Nullable: true})
		arrs = append(arrs, buildArray(t.DT, vals))
	} else {
		fields = append(fields, arrow.Field{Name: "id", Type: arrow.PrimitiveTypes.Int64, Nullable: true})
		arrs = append(arrs, buildArray(arrow.PrimitiveTypes.Int64, vi(1, 2, 3)[:n]))
	}
	sc := arrow.NewSchema(fields, nil)
	rec := array.NewRecord(sc, arrs, int64(n))
	defer rec.Release()
	for _, a := range arrs {
		a.Release()
	}
	tbl := array.NewTableFromRecords(sc, []arrow.Record{rec})
	defer tbl.Release()
	var buf bytes.Buffer
	chunk := int64(1024)
	if c.PerRow {
		chunk = 1
	}
	ap := pqarrow.DefaultWriterProps()
	if c.DT >= 0 && pqDataTypes[c.DT].Name == "large_utf8" {
		ap = pqarrow.NewArrowWriterProperties(pqarrow.WithStoreSchema())
	}
	if err := pqarrow.WriteTable(tbl, &buf, chunk, parquet.NewWriterProperties(), ap); err != nil {
		ev.Unbound("C31 harness: cannot write input parquet for " + c.sig0() + ": " + err.Error())
	}
	return buf.Bytes()
}

func (c pqCase) query() url.Values {
	q := url.Values{"measurement": {measName}}
	if f := pqTimeVariants[c.TV].Fmt; f != "" {
		q.Set("time_format", f)
	}
	return q
}

// readInput: the INDEPENDENT reading of the uploaded bytes (arrow-go reader, exact arithmetic).
func readInput(data []byte) (map[string][]arrow.Array, *arrow.Schema, func(), error) {
	pf, err := file.NewParquetReader(bytes.NewReader(data))
	if err != nil {
		return nil, nil, nil, err
	}
	fr, err := pqarrow.NewFileReader(pf, pqarrow.ArrowReadProperties{}, memory.DefaultAllocator)
	if err != nil {
		pf.Close()
		return nil, nil, nil, err
	}
	tbl, err := fr.ReadTable(context.Background())
	if err != nil {
		pf.Close()
		return nil, nil, nil, err
	}
	cols := map[string][]arrow.Array{}
	for i := 0; i < int(tbl.NumCols()); i++ {
		cols[tbl.Schema().Field(i).Name] = tbl.Column(i).Data().Chunks()
	}
	return cols, tbl.Schema(), func() { tbl.Release(); pf.Close() }, nil
}

func unitMicros(u arrow.TimeUnit) *big.Rat {
	switch u {
	case arrow.Second:
		return big.NewRat(1000000, 1)
	case arrow.Millisecond:
		return big.NewRat(1000, 1)
	case arrow.Microsecond:
		return big.NewRat(1, 1)
	}
	return big.NewRat(1, 1000)
}

// intOf: the integer an integer-typed arrow cell holds
func intOf(a arrow.Array, i int) (*big.Int, bool) {
	switch x := a.(type) {
	case *array.Int8:
		return big.NewInt(int64(x.Value(i))), true
	case *array.Int16:
		return big.NewInt(int64(x.Value(i))), true
	case *array.Int32:
		return big.NewInt(int64(x.Value(i))), true
	case *array.Int64:
		return big.NewInt(x.Value(i)), true
	case *array.Uint8:
		return big.NewInt(int64(x.Value(i))), true
	case *array.Uint16:
		return big.NewInt(int64(x.Value(i))), true
	case *array.Uint32:
		return big.NewInt(int64(x.Value(i))), true
	case *array.Uint64:
		return new(big.Int).SetUint64(x.Value(i)), true
	}
	return nil, false
}

func dataCellOf(a arrow.Array, i int, exotic bool) expCell {
	if a.IsNull(i) {
		return expCell{K: kNull}
	}
	if exotic {
		return expCell{K: kAny}
	}
	if n, ok := intOf(a, i); ok {
		return expCell{K: kInt, Int: n}
	}
	switch x := a.(type) {
	case *array.Float32:
		return expCell{K: kFloat, F: float64(x.Value(i))}
	case *array.Float64:
		return expCell{K: kFloat, F: x.Value(i)}
	case *array.String:
		return expCell{K: kStr, S: x.Value(i)}
	case *array.Binary:
		return expCell{K: kStr, S: string(x.Value(i))}
	case *array.FixedSizeBinary:
		return expCell{K: kStr, S: string(x.Value(i))}
	case *array.Boolean:
		return expCell{K: kBool, B: x.Value(i)}
	case *array.Decimal128:
		sc := x.DataType().(*arrow.Decimal128Type).Scale
		return expCell{K: kDec, S: x.Value(i).ToString(sc), Scale: sc}
	case *array.Timestamp:
		r := new(big.Rat).SetInt64(int64(x.Value(i)))
		r.Mul(r, unitMicros(x.DataType().(*arrow.TimestampType).Unit))
		return expCell{K: kTimeVal, T: mkTimeExp(true, r)}
	}
	return expCell{K: kAny}
}

func timeCellOf(a arrow.Array, i int, format string) timeExp {
	if a.IsNull(i) {
		return timeExp{}
	}
	if n, ok := intOf(a, i); ok {
		if isCustomLayout(format) {
			return timeExp{}
		}
		return mkTimeExp(true, refTimeNumber(format, new(big.Rat).SetInt(n)))
	}
	flt := func(f float64) timeExp {
		if math.IsNaN(f) || math.IsInf(f, 0) || isCustomLayout(format) {
			return timeExp{}
		}
		return mkTimeExp(true, refTimeNumber(format, new(big.Rat).SetFloat64(f)))
	}
	switch x := a.(type) {
	case *array.Timestamp:
		r := new(big.Rat).SetInt64(int64(x.Value(i)))
		return mkTimeExp(true, r.Mul(r, unitMicros(x.DataType().(*arrow.TimestampType).Unit)))
	case *array.Float32:
		return flt(float64(x.Value(i)))
	case *array.Float64:
		return flt(x.Value(i))
	case *array.String:
		return mkTimeExp(refTimeText(format, x.Value(i)))
	case *array.Binary:
		return mkTimeExp(refTimeText(format, string(x.Value(i))))
	case *array.FixedSizeBinary:
		return mkTimeExp(refTimeText(format, string(x.Value(i))))
	}
	return timeExp{} // not a type that can denote an instant
}

func (c pqCase) expectFrom(data []byte) expectation {
	cols, _, release, err := readInput(data)
	if err != nil {
		ev.Unbound("C31 harness: independent reader cannot read a generated parquet file: " + err.Error())
	}
	defer release()
	n := c.rows()
	e := expectation{KeyCol: "time"}
	dname := "c1"
	exotic := false
	if c.DT < 0 {
		dname, e.KeyCol = "id", "id"
	} else {
		exotic = pqDataTypes[c.DT].Exotic
	}
	e.DataCols = []string{dname}
	e.Cols = []string{"time", dname}
	flat := func(name string) (arrow.Array, func(int) (arrow.Array, int)) {
		chunks := cols[name]
		return nil, func(r int) (arrow.Array, int) {
			for _, ch := range chunks {
				if r < ch.Len() {
					return ch, r
				}
				r -= ch.Len()
			}
			ev.Unbound("C31 harness: row index beyond input column " + name)
			return nil, 0
		}
	}
	_, tAt := flat("time")
	_, dAt := flat(dname)
	format := pqTimeVariants[c.TV].Fmt
	for r := 0; r < n; r++ {
		a, i := tAt(r)
		e.Times = append(e.Times, timeCellOf(a, i, format))
		a, i = dAt(r)
		e.Cells = append(e.Cells, []expCell{dataCellOf(a, i, exotic)})
	}
	for _, te := range e.Times {
		if !te.Valid {
			e.MustReject = "bad-time-accepted"
			break
		}
	}
	if e.MustReject == "" {
		for _, te := range e.Times {
			if !te.Fits {
				e.MustReject = "time-overflow"
			}
		}
	}
	return e
}

func (c pqCase) run(s *sut) verdict {
	data := c.file()
	return judge(s.do("parquet", c.query(), "f.parquet", data), c.expectFrom(data))
}

func showVal(dt arrow.DataType, v pqVal) string {
	if v.Null {
		return "NULL"
	}
	switch dt.ID() {
	case arrow.UINT8, arrow.UINT16, arrow.UINT32, arrow.UINT64:
		return strconv.FormatUint(v.U, 10)
	case arrow.FLOAT16, arrow.FLOAT32, arrow.FLOAT64:
		return strconv.FormatFloat(v.F, 'g', -1, 64)
	case arrow.STRING, arrow.LARGE_STRING, arrow.BINARY, arrow.FIXED_SIZE_BINARY:
		return strconv.Quote(v.S)
	case arrow.BOOL:
		return strconv.FormatBool(v.B)
	case arrow.LIST:
		return fmt.Sprintf("[%d]", v.I)
	}
	return strconv.FormatInt(v.I, 10)
}

func (c pqCase) sig0() string {
	tv := pqTimeVariants[c.TV]
	var ts, ds []string
	for _, v := range c.timeVals() {
		ts = append(ts, showVal(tv.Type.DT, v))
	}
	f := tv.Fmt
	if f == "" {
		f = "-"
	}
	s := "parquet|time_format=" + f + "|time:" + tv.Type.Name + "=[" + strings.Join(ts, " ") + "]"
	if c.DT >= 0 {
		t := pqDataTypes[c.DT]
		for _, x := range c.Data {
			ds = append(ds, showVal(t.DT, t.Alpha[x]))
		}
		s += "|c1:" + t.Name + "=[" + strings.Join(ds, " ") + "]"
	} else {
		s += "|id:int64=1.." + strconv.Itoa(c.rows())
	}
	if c.PerRow {
		s += "|row-group-per-row"
	}
	return s
}

func (c pqCase) sig() string { return c.sig0() }

func (c pqCase) replay() any {
	return map[string]any{"endpoint": "/api/v1/import/parquet", "query": c.query().Encode(), "x-arc-database": dbName,
		"file_columns": c.sig0(), "file_bytes": c.file()}
}

func (c pqCase) size() int {
	n := c.rows() * 4
	for _, x := range c.Times {
		if x != 0 {
			n++
		}
	}
	for _, x := range c.Data {
		if x != 0 {
			n++
		}
	}
	if c.PerRow {
		n++
	}
	return n
}

func (c pqCase) clone() pqCase {
	d := c
	if c.Times != nil {
		d.Times = append([]int{}, c.Times...)
	}
	if c.Data != nil {
		d.Data = append([]int{}, c.Data...)
	}
	return d
}

func (c pqCase) shrinks() []tcase {
	var out []tcase
	n := c.rows()
	if n > 1 {
		for r := n - 1; r >= 0; r-- {
			d := c.clone()
			if d.Times != nil {
				d.Times = append(d.Times[:r], d.Times[r+1:]...)
			}
			if d.Data != nil {
				d.Data = append(d.Data[:r], d.Data[r+1:]...)
			}
			out = append(out, d)
		}
	}
	if c.PerRow {
		d := c.clone()
		d.PerRow = false
		out = append(out, d)
	}
	if c.Times == nil && c.TV != 2 { // data sub-space: the native unit (us) is the plainest time column
		d := c.clone()
		d.TV = 2
		out = append(out, d)
	}
	if c.TV >= 4 && c.TV < 8 { // zone-less timestamp -> the UTC variant of the same unit (same alphabet)
		d := c.clone()
		d.TV = c.TV - 4
		out = append(out, d)
	}
	for r, x := range c.Data {
		if x != 0 {
			d := c.clone()
			d.Data[r] = 0
			out = append(out, d)
		}
	}
	for r, x := range c.Times {
		if x != 0 {
			d := c.clone()
			d.Times[r] = 0
			out = append(out, d)
		}
	}
	// canonical row order
	if n > 1 {
		v := c.Data
		if c.Times != nil {
			v = c.Times
		}
		d := c.clone()
		w := d.Data
		if c.Times != nil {
			w = d.Times
		}
		changed := false
		for i := 1; i < n; i++ {
			for j := i; j > 0 && w[j] < w[j-1]; j-- {
				w[j], w[j-1] = w[j-1], w[j]
				changed = true
			}
		}
		_ = v
		if changed {
			out = append(out, d)
		}
	}
	return out
}

// ---- enumeration -----------------------------------------------------------------------------

type pqPlan struct{ MaxRows int }

func enumPQ(p pqPlan, emit func(tcase)) {
	// the four timestamp units (UTC) are the first four variants
	// D: every data column of <=MaxRows rows over its type alphabet x time unit; row-group layout varied with unit us
	for dt, t := range pqDataTypes {
		for R := 1; R <= p.MaxRows; R++ {
			allVectors(R, len(t.Alpha), func(v []int) {
				for tvi := 0; tvi < 4; tvi++ {
					emit(pqCase{TV: tvi, DT: dt, Data: append([]int{}, v...)})
					if tvi == 2 && R > 1 {
						emit(pqCase{TV: tvi, DT: dt, Data: append([]int{}, v...), PerRow: true})
					}
				}
			})
		}
	}
	// T: every time column of <=MaxRows rows over the variant alphabet; data = row id
	for tvi, tv := range pqTimeVariants {
		for R := 1; R <= p.MaxRows; R++ {
			allVectors(R, len(tv.Alpha), func(v []int) {
				emit(pqCase{TV: tvi, DT: -1, Times: append([]int{}, v...)})
				if R > 1 {
					emit(pqCase{TV: tvi, DT: -1, Times: append([]int{}, v...), PerRow: true})
				}
			})
		}
	}
}
