package main

import (
	"bytes"
	"encoding/csv"
	"fmt"
	"net/url"
	"strconv"
	"strings"
	"sync"

	"github.com/basekick-labs/arc/zzverif/engine/ev"
)

// ---- alphabets -------------------------------------------------------------------------------

// the 12-token cell alphabet of the design, followed by helper tokens that are never enumerated
// (row ids and the surplus cell of a ragged row)
var cellAlpha = []cellTok{
	mkCellTok("1", "1"), mkCellTok("", ""), mkCellTok("0", "0"), mkCellTok("-1", "-1"), mkCellTok("1.5", "1.5"),
	mkCellTok("9007199254740993", "9007199254740993"), mkCellTok("1e400", "1e400"), mkCellTok("true", "true"),
	mkCellTok("TRUE", "TRUE"), mkCellTok("abc", "abc"), mkCellTok(`"a,b"`, "a,b"), mkCellTok(" 1", " 1"),
	mkCellTok("2", "2"), mkCellTok("3", "3"), mkCellTok("7", "7"),
}

const (
	nCellAlpha = 12
	tokOne     = 0
	tokTwo     = 12
	tokThree   = 13
	tokSurplus = 14
)

type csvFmt struct {
	Name  string
	Param string   // time_format query parameter ("" = absent = auto)
	Toks  []string // time-cell alphabet; Toks[0] is the plainest valid one
}

func epochToks(unitsPerSecond string) []string {
	b := "1609459200" + unitsPerSecond // 2021-01-01T00:00:00Z
	h := "1609462800" + unitsPerSecond // +1h
	return []string{b, h, b + ".5", "-1", "9007199254740993", " " + b, "", "abc"}
}

const customLayout = "2006-01-02 15:04:05"

var csvFormats = []csvFmt{
	{"epoch_s", "epoch_s", epochToks("")},
	{"epoch_ms", "epoch_ms", epochToks("000")},
	{"epoch_us", "epoch_us", epochToks("000000")},
	{"epoch_ns", "epoch_ns", epochToks("000000000")},
	// auto: epoch of each magnitude, RFC3339 (UTC, offset, fraction), date-only, space-separated
	{"auto", "", []string{"1609459200", "1609462800000", "1609459200000000", "1609459200000000000", "2021-01-01T00:00:00Z",
		"2021-01-01T02:00:00+02:00", "2021-01-01T00:00:00.5Z", "2021-01-01", "2021-01-01 01:00:00", "", "abc"}},
	{"custom", customLayout, []string{"2021-01-01 00:00:00", "2021-01-01 01:00:00", "", "abc"}},
}

// times used by the data sub-space: two rows in one hour, the third in the next hour
var fixedTimes = []string{"1609459200", "1609459201", "1609462800"}

// ---- one CSV case ----------------------------------------------------------------------------

type csvCase struct {
	Delim   byte
	Skip    int
	Fmt     int
	TimeCol string
	TimePos int      // 0 first column, 1 last column, -1 the file has no time column
	Times   []string // per row
	HasID   bool     // Cols[0] is the row-id column "id"
	Cols    [][]int  // [col][row] -> cellAlpha index
	Extra   []bool   // row carries one surplus trailing cell
}

func (c csvCase) rows() int {
	if c.TimePos >= 0 {
		return len(c.Times)
	}
	if len(c.Cols) > 0 {
		return len(c.Cols[0])
	}
	return 0
}

func (c csvCase) dataNames() []string {
	var n []string
	for i := range c.Cols {
		if c.HasID && i == 0 {
			n = append(n, "id")
		} else if c.HasID {
			n = append(n, fmt.Sprintf("c%d", i))
		} else {
			n = append(n, fmt.Sprintf("c%d", i+1))
		}
	}
	return n
}

func (c csvCase) grid() (header []string, recs [][]string, raw [][]string) {
	names := c.dataNames()
	place := func(t string, d []string) []string {
		switch c.TimePos {
		case 0:
			return append([]string{t}, d...)
		case 1:
			return append(append([]string{}, d...), t)
		}
		return d
	}
	header = place(c.TimeCol, names)
	for r := 0; r < c.rows(); r++ {
		var dv, dr []string
		for _, col := range c.Cols {
			dv = append(dv, cellAlpha[col[r]].Val)
			dr = append(dr, cellAlpha[col[r]].Raw)
		}
		t := ""
		if c.TimePos >= 0 {
			t = c.Times[r]
		}
		v, w := place(t, dv), place(t, dr)
		if c.Extra != nil && c.Extra[r] {
			v, w = append(v, cellAlpha[tokSurplus].Val), append(w, cellAlpha[tokSurplus].Raw)
		}
		recs, raw = append(recs, v), append(raw, w)
	}
	return
}

const junkLine = "# exported by a tool"

func (c csvCase) file() []byte {
	header, _, raw := c.grid()
	var b bytes.Buffer
	if c.Skip == 1 {
		b.WriteString(junkLine + "\n")
	}
	d := string([]byte{c.Delim})
	b.WriteString(strings.Join(header, d) + "\n")
	for _, r := range raw {
		if len(r) == 1 && r[0] == "" {
			b.WriteString(`""` + "\n") // a lone empty field must be quoted, a blank line is not a record
		} else {
			b.WriteString(strings.Join(r, d) + "\n")
		}
	}
	return b.Bytes()
}

func (c csvCase) query() url.Values {
	q := url.Values{"measurement": {measName}}
	if p := csvFormats[c.Fmt].Param; p != "" {
		q.Set("time_format", p)
	}
	if c.Delim != ',' {
		q.Set("delimiter", string([]byte{c.Delim}))
	}
	if c.Skip != 0 {
		q.Set("skip_rows", strconv.Itoa(c.Skip))
	}
	if c.TimeCol != "time" {
		q.Set("time_column", c.TimeCol)
	}
	return q
}

var refTimeCache sync.Map

func cachedTimeExp(format, text string) timeExp {
	k := format + "\x00" + text
	if v, ok := refTimeCache.Load(k); ok {
		return v.(timeExp)
	}
	te := mkTimeExp(refTimeText(format, text))
	refTimeCache.Store(k, te)
	return te
}

// expect: the INDEPENDENT reading of the file. encoding/csv in strict mode parses the bytes that are
// uploaded; the result must equal the grid the generator rendered (else the harness is wrong).
func (c csvCase) expect() expectation {
	header, recs, _ := c.grid()
	data := c.file()
	if c.Skip == 1 {
		data = data[len(junkLine)+1:]
	}
	rd := csv.NewReader(bytes.NewReader(data))
	rd.Comma = rune(c.Delim)
	parsed, err := rd.ReadAll()
	ragged := false
	for _, x := range c.Extra {
		ragged = ragged || x
	}
	if ragged {
		if err == nil {
			ev.Unbound("C31 harness: strict CSV parse accepted a ragged file")
		}
	} else {
		if err != nil {
			ev.Unbound("C31 harness: strict CSV parse failed on a generated file: " + err.Error() + " :: " + strconv.Quote(string(data)))
		}
		want := append([][]string{header}, recs...)
		if fmt.Sprint(parsed) != fmt.Sprint(want) || len(parsed) != len(want) {
			ev.Unbound(fmt.Sprintf("C31 harness: strict CSV parse %q != generated grid %q", parsed, want))
		}
	}
	e := expectation{DataCols: c.dataNames(), KeyCol: "time"}
	if c.HasID {
		e.KeyCol = "id"
	}
	e.Cols = append([]string{"time"}, e.DataCols...)
	param := csvFormats[c.Fmt].Param
	n := c.rows()
	for r := 0; r < n; r++ {
		te := timeExp{}
		if c.TimePos >= 0 {
			te = cachedTimeExp(param, c.Times[r])
		}
		e.Times = append(e.Times, te)
		cells := make([]expCell, len(c.Cols))
		for i, col := range c.Cols {
			cells[i] = expCell{K: kCSV, Tok: &cellAlpha[col[r]]}
		}
		e.Cells = append(e.Cells, cells)
	}
	switch {
	case c.TimePos < 0:
		e.MustReject = "no-time-column-accepted"
	case ragged:
		e.MustReject = "surplus-cell-dropped"
	default:
		for _, te := range e.Times {
			if !te.Valid {
				e.MustReject = "bad-time-accepted"
				break
			}
		}
		if e.MustReject == "" {
			for _, te := range e.Times {
				if !te.Fits {
					e.MustReject = "time-overflow"
				}
			}
		}
	}
	return e
}

func (c csvCase) run(s *sut) verdict {
	return judge(s.do("csv", c.query(), "f.csv", c.file()), c.expect())
}

func (c csvCase) sig() string {
	q := c.query()
	q.Del("measurement")
	opts := q.Encode()
	if opts == "" {
		opts = "-"
	}
	return "csv|" + opts + "|" + strconv.Quote(string(c.file()))
}

func (c csvCase) replay() any {
	return map[string]any{"endpoint": "/api/v1/import/csv", "query": c.query().Encode(), "x-arc-database": dbName, "file": string(c.file())}
}

func (c csvCase) size() int {
	n := c.rows()*(len(c.Cols)+1)*4 + c.Skip + c.TimePos
	if c.Delim != ',' {
		n++
	}
	if c.TimeCol != "time" {
		n++
	}
	for _, col := range c.Cols {
		for _, t := range col {
			if t != tokOne {
				n++
			}
		}
	}
	return n
}

func (c csvCase) clone() csvCase {
	d := c
	d.Times = append([]string{}, c.Times...)
	d.Cols = make([][]int, len(c.Cols))
	for i := range c.Cols {
		d.Cols[i] = append([]int{}, c.Cols[i]...)
	}
	if c.Extra != nil {
		d.Extra = append([]bool{}, c.Extra...)
	}
	return d
}

// shrinks: strictly simpler neighbours, most aggressive first.
func (c csvCase) shrinks() []tcase {
	var out []tcase
	n := c.rows()
	// drop a row
	if n > 1 {
		for r := n - 1; r >= 0; r-- {
			d := c.clone()
			if c.TimePos >= 0 {
				d.Times = append(d.Times[:r], d.Times[r+1:]...)
				if !c.HasID { // data sub-space: times are fixed by row position
					d.Times = append([]string{}, fixedTimes[:n-1]...)
				}
			}
			for i := range d.Cols {
				d.Cols[i] = append(d.Cols[i][:r], d.Cols[i][r+1:]...)
			}
			if d.Extra != nil {
				d.Extra = append(d.Extra[:r], d.Extra[r+1:]...)
			}
			if d.HasID { // ids stay 1..n
				for k := range d.Cols[0] {
					d.Cols[0][k] = []int{tokOne, tokTwo, tokThree}[k]
				}
			}
			out = append(out, d)
		}
	}
	// drop a data column (never the id column)
	for i := len(c.Cols) - 1; i >= 0; i-- {
		if c.HasID && i == 0 {
			continue
		}
		d := c.clone()
		d.Cols = append(d.Cols[:i], d.Cols[i+1:]...)
		out = append(out, d)
	}
	for r, x := range c.Extra {
		if x {
			d := c.clone()
			d.Extra[r] = false
			out = append(out, d)
		}
	}
	if c.Skip != 0 {
		d := c.clone()
		d.Skip = 0
		out = append(out, d)
	}
	if c.Delim != ',' {
		d := c.clone()
		d.Delim = ','
		out = append(out, d)
	}
	if c.TimeCol != "time" {
		d := c.clone()
		d.TimeCol = "time"
		out = append(out, d)
	}
	if c.TimePos == 1 {
		d := c.clone()
		d.TimePos = 0
		out = append(out, d)
	}
	// plainer cells
	for i, col := range c.Cols {
		if c.HasID && i == 0 {
			continue
		}
		for r, t := range col {
			if t != tokOne {
				d := c.clone()
				d.Cols[i][r] = tokOne
				out = append(out, d)
			}
		}
	}
	// plainer times: the plainest valid token of the format
	if c.TimePos >= 0 {
		plain := csvFormats[c.Fmt].Toks[0]
		for r, t := range c.Times {
			if t != plain && !c.fixedTime(t) {
				d := c.clone()
				d.Times[r] = plain
				out = append(out, d)
			}
		}
	}
	// canonical row order (collapses permutations of one counterexample)
	if n > 1 {
		d := c.clone()
		idx := make([]int, n)
		for i := range idx {
			idx[i] = i
		}
		key := func(r int) string {
			var b strings.Builder
			for i, col := range c.Cols {
				if c.HasID && i == 0 {
					continue
				}
				fmt.Fprintf(&b, "%02d,", col[r])
			}
			if c.HasID && c.TimePos >= 0 {
				b.WriteString(c.Times[r])
			}
			return b.String()
		}
		// insertion sort by key (stable)
		for i := 1; i < n; i++ {
			for j := i; j > 0 && key(idx[j]) < key(idx[j-1]); j-- {
				idx[j], idx[j-1] = idx[j-1], idx[j]
			}
		}
		changed := false
		for i, r := range idx {
			if r != i {
				changed = true
			}
			for k, col := range c.Cols {
				if c.HasID && k == 0 {
					continue
				}
				d.Cols[k][i] = col[r]
			}
			if c.HasID && c.TimePos >= 0 {
				d.Times[i] = c.Times[r]
			}
			if c.Extra != nil {
				d.Extra[i] = c.Extra[r]
			}
		}
		if changed {
			out = append(out, d)
		}
	}
	return out
}

func (c csvCase) fixedTime(t string) bool {
	if c.HasID {
		return false
	}
	for _, f := range fixedTimes {
		if f == t {
			return true
		}
	}
	return false
}

// ---- enumeration -----------------------------------------------------------------------------

// allVectors calls f with every vector of length n over [0,k).
func allVectors(n, k int, f func([]int)) {
	v := make([]int, n)
	var rec func(i int)
	rec = func(i int) {
		if i == n {
			f(v)
			return
		}
		for x := 0; x < k; x++ {
			v[i] = x
			rec(i + 1)
		}
	}
	rec(0)
}

type csvPlan struct {
	CrossPairs    bool // 2-data-column grids are crossed with every delimiter x skip_rows (else only R=1)
	MaxRowsTime   int  // time sub-space: rows
	Big           bool // data sub-space includes the 3 rows x 2 data columns block
	NoTimeColumns int  // "no time column" files: max data columns
}

func enumCSV(p csvPlan, emit func(tcase)) {
	delims := []byte{',', ';', '\t'}
	// D: data sub-space — every grid of cells; time column = fixed valid epoch seconds, first column
	grid := func(delim byte, skip, R, C int, withTime bool) {
		allVectors(R*C, nCellAlpha, func(v []int) {
			c := csvCase{Delim: delim, Skip: skip, Fmt: 0, TimeCol: "time", TimePos: 0}
			if withTime {
				c.Times = append([]string{}, fixedTimes[:R]...)
			} else {
				c.TimePos = -1
			}
			c.Cols = make([][]int, C)
			for i := 0; i < C; i++ {
				c.Cols[i] = append([]int{}, v[i*R:(i+1)*R]...)
			}
			emit(c)
		})
	}
	for _, d := range delims {
		for skip := 0; skip <= 1; skip++ {
			for R := 1; R <= 3; R++ {
				grid(d, skip, R, 0, true)
				grid(d, skip, R, 1, true)
				if R == 1 || (R == 2 && (p.CrossPairs || (d == ',' && skip == 0))) {
					grid(d, skip, R, 2, true)
				}
			}
		}
	}
	// T: time sub-space — every time column over the format's alphabet; data = row id
	ids := []int{tokOne, tokTwo, tokThree}
	for fi, f := range csvFormats {
		for R := 1; R <= p.MaxRowsTime; R++ {
			allVectors(R, len(f.Toks), func(v []int) {
				for _, d := range delims {
					for skip := 0; skip <= 1; skip++ {
						for pos := 0; pos <= 1; pos++ {
							for _, name := range []string{"time", "ts"} {
								c := csvCase{Delim: d, Skip: skip, Fmt: fi, TimeCol: name, TimePos: pos, HasID: true}
								for _, x := range v {
									c.Times = append(c.Times, f.Toks[x])
								}
								c.Cols = [][]int{append([]int{}, ids[:R]...)}
								emit(c)
							}
						}
					}
				}
			})
		}
	}
	// N: files without a time column
	for R := 1; R <= 2; R++ {
		for C := 1; C <= p.NoTimeColumns; C++ {
			grid(',', 0, R, C, false)
		}
	}
	// G: ragged rows — a row with one cell more than the header has columns
	for R := 1; R <= 2; R++ {
		allVectors(R, 2, func(v []int) {
			any := false
			c := csvCase{Delim: ',', TimeCol: "time", TimePos: 0, Times: append([]string{}, fixedTimes[:R]...)}
			c.Cols = [][]int{make([]int, R)}
			for r, x := range v {
				c.Extra = append(c.Extra, x == 1)
				any = any || x == 1
				c.Cols[0][r] = tokOne
			}
			if any {
				emit(c)
			}
		})
	}
}

// enumCSVBig: the full 3 rows x 2 data columns block (12^6 files), enumerated LAST so that a time cap
// can only cut into this block.
func enumCSVBig(emit func(tcase)) {
	allVectors(6, nCellAlpha, func(v []int) {
		c := csvCase{Delim: ',', TimeCol: "time", Times: append([]string{}, fixedTimes...)}
		c.Cols = [][]int{append([]int{}, v[:3]...), append([]int{}, v[3:]...)}
		emit(c)
	})
}
