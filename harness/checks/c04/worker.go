package main

// Worker side: one fresh in-process server (the production fiber app of api.NewServer, the real
// msgpack / line-protocol / TLE / import handlers, ONE real ingest.ArrowBuffer over hx.MemBackend) per
// request sequence. A panic outside a fiber handler kills this process; the parent sees which job
// was running (BEGIN line without a result) and reads the Go trace from the stderr file.

import (
	"bufio"
	"bytes"
	"context"
	"encoding/json"
	"fmt"
	"io"
	"net/http/httptest"
	"os"
	"regexp"
	"runtime"
	"runtime/debug"
	"runtime/pprof"
	"sort"
	"strings"
	"time"

	"github.com/basekick-labs/arc/internal/api"
	"github.com/basekick-labs/arc/internal/config"
	"github.com/basekick-labs/arc/internal/ingest"
	"github.com/basekick-labs/arc/zzverif/hx"
	"github.com/rs/zerolog"
)

type job struct {
	ID   int    `json:"id"`
	Mode string `json:"mode"` // size3 | size5 | final
	Seq  []int  `json:"seq"`  // atom indexes
}

type finding struct {
	Kind    string `json:"kind"`    // oracle kind
	Subject string `json:"subject"` // atom name concerned ("" = whole sequence)
	Detail  string `json:"detail"`
	Info    string `json:"info,omitempty"` // numbers / names for the description; not part of the class key
}

func (f finding) key() string { return f.Kind + "|" + f.Subject + "|" + f.Detail }

type jobResult struct {
	ID        int       `json:"id"`
	Status    []int     `json:"status"`
	RespErr   []string  `json:"resp_err,omitempty"`
	Recovered []string  `json:"recovered,omitempty"` // "<panic kind>|<site>" of panics recovered by the fiber middleware
	Findings  []finding `json:"findings,omitempty"`
	Outcome   string    `json:"outcome"`
	Merged    bool      `json:"merged"` // some stored file holds rows of >= 2 different requests
	Files     int       `json:"files"`
	Rows      int       `json:"rows"`
	Accepted  int       `json:"accepted"`
	Micros    int64     `json:"us"` // wall time of the job inside the worker (diagnostics only, never judged)
	// FlushPanic: the explicit end-of-sequence flush (stand-in for the background age flush / shutdown)
	// panicked on the harness goroutine and the panic was caught there instead of letting it kill this
	// worker ("<kind>|<site>"). Production has no recover on that path, so this IS a process death;
	// every class found this way is re-run by the parent with VERIF_C04_NORECOVER=1 (real death).
	FlushPanic string `json:"flush_panic,omitempty"`
	FlushTrace string `json:"flush_trace,omitempty"`
}

func bufSize(mode string) int {
	switch mode {
	case "size3":
		return 3
	case "size5":
		return 5
	}
	return 1_000_000
}

var reAddr = regexp.MustCompile(`0x[0-9a-f]+`)

// parseTrace extracts (panic kind, first frame inside the arc module) from a Go panic / fatal trace.
func parseTrace(tr string) (kind, site string) {
	lines := strings.Split(tr, "\n")
	start := -1
	for i, l := range lines {
		if strings.HasPrefix(l, "panic: ") || strings.HasPrefix(l, "fatal error: ") {
			kind = strings.TrimSpace(l)
			kind = strings.TrimPrefix(kind, "panic: ")
			kind = strings.TrimSuffix(kind, " [recovered]")
			kind = reAddr.ReplaceAllString(kind, "0x?")
			start = i
			break
		}
	}
	if start < 0 {
		return "", ""
	}
	rest := lines[start+1:]
	for i, l := range rest {
		if strings.HasPrefix(l, "goroutine ") && i > 2 {
			break
		}
		if strings.HasPrefix(l, "panic(") { // debug.Stack() of a recovered panic: the site follows the panic frame
			rest = rest[i+1:]
			break
		}
	}
	for _, l := range rest {
		if strings.HasPrefix(l, "\t") || l == "" {
			continue
		}
		if strings.HasPrefix(l, "goroutine ") && site != "" {
			break
		}
		if strings.HasPrefix(l, "github.com/basekick-labs/arc/") && !strings.Contains(l, "/zzverif/") {
			fn := strings.TrimPrefix(l, "github.com/basekick-labs/arc/")
			if i := strings.LastIndex(fn, "("); i > 0 {
				fn = fn[:i]
			}
			fn = strings.TrimPrefix(fn, "internal/")
			site = fn
			break
		}
	}
	if site == "" {
		site = "?"
	}
	return kind, site
}

type sys struct {
	mem *hx.MemBackend
	buf *ingest.ArrowBuffer
	srv *api.Server
}

func newSys(mode string) *sys {
	s := &sys{mem: hx.NewMemBackend()}
	cfg := &config.IngestConfig{MaxBufferSize: bufSize(mode), MaxBufferAgeMS: 3_600_000, Compression: "snappy", FlushWorkers: 1,
		FlushQueueSize: 16, ShardCount: 1, FlushTimeoutSeconds: 60, WriteStatistics: true}
	s.buf = ingest.NewArrowBuffer(cfg, s.mem, zerolog.Nop())
	sc := api.DefaultServerConfig()
	sc.MaxPayloadSize = payloadCap
	s.srv = api.NewServer(sc, zerolog.Nop()) // production app: recover, cors, security headers, request logger
	app := s.srv.GetApp()
	// same wiring as cmd/arc/main.go
	api.NewMsgPackHandler(zerolog.Nop(), s.buf, s.srv.GetMaxPayloadSize()).RegisterRoutes(app)
	api.NewLineProtocolHandler(s.buf, zerolog.Nop()).RegisterRoutes(app)
	api.NewTLEHandler(s.buf, zerolog.Nop()).RegisterRoutes(app)
	ih := api.NewImportHandler(zerolog.Nop())
	ih.SetArrowBuffer(s.buf)
	ih.RegisterRoutes(app)
	return s
}

func (s *sys) send(a *atom, p int) (int, string, string) {
	hr := httptest.NewRequest("POST", a.Path, bytes.NewReader(a.Body(p)))
	for _, h := range a.Hdr {
		hr.Header.Set(h[0], h[1])
	}
	resp, err := s.srv.GetApp().Test(hr, -1)
	if err != nil {
		if err.Error() == "body size exceeds the given limit" {
			// fasthttp answers 413 through fiber's server error handler and closes the connection;
			// App.Test surfaces ServeConn's error instead of that response
			return 413, "", ""
		}
		return -1, err.Error(), ""
	}
	b, _ := io.ReadAll(io.LimitReader(resp.Body, 400))
	resp.Body.Close()
	return resp.StatusCode, "", string(b)
}

// stderr of this process is a file (set up by the parent); recovered-panic traces printed by the
// fiber recover middleware are read back from it after each request.
type errTail struct {
	path string
	off  int64
}

func (e *errTail) read() string {
	f, err := os.Open(e.path)
	if err != nil {
		return ""
	}
	defer f.Close()
	f.Seek(e.off, 0)
	b, _ := io.ReadAll(f)
	e.off += int64(len(b))
	return string(b)
}

func posOf(tmicro int64, n int) int {
	sec := tmicro / 1_000_000
	if sec < t0sec {
		return -1
	}
	p := int((sec - t0sec) / winSec)
	if p >= n {
		return -1
	}
	return p
}

func rowDiff(want, got hx.Row) []string {
	var d []string
	for k, wv := range want {
		gv, ok := got[k]
		if !ok {
			d = append(d, "dropped:"+fmt.Sprintf("%q", k))
		} else if fmt.Sprintf("%T=%v", wv, wv) != fmt.Sprintf("%T=%v", gv, gv) {
			d = append(d, fmt.Sprintf("changed:%q(%T->%T)", k, wv, gv))
		}
	}
	for k := range got {
		if _, ok := want[k]; !ok {
			d = append(d, "extra:"+fmt.Sprintf("%q", k))
		}
	}
	return d
}

func runJob(A []atom, j job, tail *errTail) jobResult {
	res := jobResult{ID: j.ID}
	s := newSys(j.Mode)
	n := len(j.Seq)
	tail.read()
	recSeen := map[string]bool{}
	for p, ai := range j.Seq {
		st, e, body := s.send(&A[ai], p)
		res.Status = append(res.Status, st)
		if e != "" {
			res.RespErr = append(res.RespErr, fmt.Sprintf("%d:%s", p, e))
		}
		_ = body
		if tr := tail.read(); strings.Contains(tr, "panic: ") {
			for _, part := range strings.Split(tr, "panic: ")[1:] {
				k, site := parseTrace("panic: " + part)
				if !recSeen[k+"|"+site] {
					recSeen[k+"|"+site] = true
					res.Recovered = append(res.Recovered, k+"|"+site)
				}
			}
		}
	}
	// Stand-in for the age-triggered background flush (periodicFlush -> flushAgedBuffers ->
	// flushBufferLocked, no recover there either) and the shutdown flush.
	guarded := func(f func()) {
		if os.Getenv("VERIF_C04_NORECOVER") == "1" {
			f()
			return
		}
		defer func() {
			if r := recover(); r != nil && res.FlushPanic == "" {
				tr := fmt.Sprintf("panic: %v\n\ngoroutine 1 [running]:\n%s", r, debug.Stack())
				k, site := parseTrace(tr)
				res.FlushPanic, res.FlushTrace = k+"|"+site, tr
			}
		}()
		f()
	}
	guarded(func() { s.buf.FlushAll(context.Background()) })
	guarded(func() { s.buf.Close() })
	// Barrier: a flush goroutine that panicked has already run its deferred wg.Done(), so Close() can
	// return while the runtime is still busy killing the process. A stop-the-world request cannot
	// complete once the dying goroutine froze the world, so this goroutine parks here until exit(2).
	stk := make([]byte, 1<<20)
	for {
		n := runtime.Stack(stk, true)
		if !bytes.Contains(stk[:n], []byte("github.com/basekick-labs/arc/internal/")) {
			break
		}
		// A goroutine of the system under test is still alive after Close(): either a request
		// goroutine finishing its middleware epilogue (gone in a moment) or a flush goroutine on its
		// way down (then this loop ends with the process; a goroutine that stays forever ends in the
		// watchdog's hang report).
		time.Sleep(time.Millisecond)
	}

	if res.FlushPanic != "" {
		if len(res.FlushTrace) > 3000 {
			res.FlushTrace = res.FlushTrace[:3000]
		}
		res.Outcome = "flush-panic:" + res.FlushPanic
		return res
	}
	// ---- oracle over the store ----
	byPos := make([][]hx.Row, n)
	unknown := 0
	paths, files := s.mem.Snapshot()
	res.Files = len(paths)
	var fl []finding
	for _, p := range paths {
		rows, _, _, err := hx.ReadParquet(files[p])
		if err != nil {
			fl = append(fl, finding{Kind: "stored-file-unreadable", Subject: "", Detail: err.Error()})
			continue
		}
		seen := map[int]bool{}
		for _, r := range rows {
			res.Rows++
			for k, v := range r {
				if v == nil {
					delete(r, k)
				}
			}
			t, ok := r["time"].(int64)
			pos := -1
			if ok {
				pos = posOf(t, n)
			}
			if pos >= 0 && !A[j.Seq[pos]].Known {
				pos = -1
			}
			if pos < 0 {
				unknown++
				seen[-1] = true
				continue
			}
			seen[pos] = true
			byPos[pos] = append(byPos[pos], r)
		}
		if len(seen) >= 2 {
			res.Merged = true
		}
	}
	wantUnknown, judgeUnknown := 0, true
	var unkSubjects []string
	for p, ai := range j.Seq {
		a := &A[ai]
		st := res.Status[p]
		ok2xx := st >= 200 && st < 300
		if st < 0 {
			fl = append(fl, finding{Kind: "no-response", Subject: a.Name, Detail: ""})
		}
		if ok2xx {
			res.Accepted++
		}
		if !a.Known {
			if ok2xx {
				if a.NRows < 0 {
					judgeUnknown = false
				} else {
					wantUnknown += a.NRows
					unkSubjects = append(unkSubjects, a.Name)
				}
			}
			continue
		}
		got := byPos[p]
		if !ok2xx {
			if len(got) > 0 {
				fl = append(fl, finding{Kind: "rejected-request-stored-rows", Subject: a.Name, Detail: fmt.Sprintf("status=%d rows=%d", st, len(got))})
			}
			continue
		}
		if a.NRows < 0 {
			continue
		}
		if len(got) < a.NRows {
			fl = append(fl, finding{Kind: "acked-rows-missing", Subject: a.Name, Detail: fmt.Sprintf("stored %d of %d", len(got), a.NRows)})
			continue
		}
		if len(got) > a.NRows {
			fl = append(fl, finding{Kind: "acked-rows-duplicated", Subject: a.Name, Detail: fmt.Sprintf("stored %d of %d", len(got), a.NRows)})
			continue
		}
		if a.Exact != nil {
			want := a.Exact(p)
			sort.Slice(got, func(x, y int) bool { return got[x]["time"].(int64) < got[y]["time"].(int64) })
			dset := map[string]bool{}
			for i := range want {
				for _, d := range rowDiff(want[i], got[i]) {
					dset[d] = true
				}
			}
			if len(dset) > 0 {
				var ds []string
				for d := range dset {
					ds = append(ds, d)
				}
				sort.Strings(ds)
				fl = append(fl, finding{Kind: "stored-row-differs", Subject: a.Name, Detail: strings.Join(ds, ",")})
			}
		}
	}
	if judgeUnknown && unknown != wantUnknown {
		f := finding{Kind: "acked-rows-missing", Detail: "fewer rows with server-generated/format-derived time stored than acknowledged"}
		if unknown > wantUnknown {
			f = finding{Kind: "unattributed-rows-stored", Detail: "more rows stored than the accepted requests carry"}
			// rows of a request that was answered with an error status?
			var rej []string
			for p, ai := range j.Seq {
				if a := &A[ai]; !a.Known && a.NRows > 0 && !(res.Status[p] >= 200 && res.Status[p] < 300) {
					rej = append(rej, fmt.Sprintf("%s(status=%d)", a.Name, res.Status[p]))
				}
			}
			if len(rej) > 0 && len(unkSubjects) == 0 { // unambiguous only when no accepted request could own those rows
				sort.Strings(rej)
				f = finding{Kind: "rejected-request-stored-rows", Subject: strings.Join(rej, "+"), Detail: "rows outside every time window"}
			}
		}
		sort.Strings(unkSubjects)
		f.Info = fmt.Sprintf("rows outside every request's time window: stored %d, acknowledged %d (by %s)", unknown, wantUnknown, strings.Join(unkSubjects, " + "))
		fl = append(fl, f)
	}
	// attach the recovered panic (if any) to row-loss findings so that the class names its cause
	if len(res.Recovered) > 0 {
		sort.Strings(res.Recovered)
		for i := range fl {
			switch fl[i].Kind {
			case "acked-rows-missing", "rejected-request-stored-rows", "unattributed-rows-stored":
				fl[i].Detail = "after-recovered-panic:" + res.Recovered[0]
			}
		}
	}
	res.Findings = fl
	var ob strings.Builder
	fmt.Fprintf(&ob, "st=%v files=%d rows=%d unk=%d", res.Status, res.Files, res.Rows, unknown)
	for p := range byPos {
		fmt.Fprintf(&ob, " p%d=%d", p, len(byPos[p]))
	}
	for _, f := range fl {
		ob.WriteString(" !" + f.Kind)
	}
	for _, r := range res.Recovered {
		ob.WriteString(" R:" + r)
	}
	res.Outcome = ob.String()
	return res
}

// workerMain: VERIF_C04_JOBS = json file with []job; VERIF_C04_OUT = result lines; stderr is a file whose
// path is VERIF_C04_ERRF.
func workerMain() {
	A := buildAlphabet()
	jb, err := os.ReadFile(os.Getenv("VERIF_C04_JOBS"))
	if err != nil {
		fmt.Println("HARNESS-UNBOUND: worker cannot read jobs:", err)
		os.Exit(2)
	}
	var jobs []job
	if err := json.Unmarshal(jb, &jobs); err != nil {
		fmt.Println("HARNESS-UNBOUND: worker jobs:", err)
		os.Exit(2)
	}
	out, err := os.OpenFile(os.Getenv("VERIF_C04_OUT"), os.O_CREATE|os.O_WRONLY|os.O_APPEND, 0o644)
	if err != nil {
		fmt.Println("HARNESS-UNBOUND: worker out:", err)
		os.Exit(2)
	}
	w := bufio.NewWriter(out)
	tail := &errTail{path: os.Getenv("VERIF_C04_ERRF")}
	for _, j := range jobs {
		fmt.Fprintf(w, "B %d\n", j.ID)
		w.Flush()
		wdSec := 900
		if v := os.Getenv("VERIF_C04_WATCHDOG_S"); v != "" { // debugging aid
			fmt.Sscanf(v, "%d", &wdSec)
		}
		wd := time.AfterFunc(time.Duration(wdSec)*time.Second, func() {
			fmt.Fprintf(os.Stderr, "C04-HANG job %d\n", j.ID)
			pprof.Lookup("goroutine").WriteTo(os.Stderr, 2)
			os.Exit(3)
		})
		t0 := time.Now()
		r := runJob(A, j, tail)
		r.Micros = time.Since(t0).Microseconds()
		wd.Stop()
		b, _ := json.Marshal(r)
		fmt.Fprintf(w, "R %s\n", b)
		w.Flush()
	}
	out.Close()
	os.Exit(0)
}
