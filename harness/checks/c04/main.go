// C04 — No request payload can crash the server.
//
// Bounded-exhaustive enumeration of request SEQUENCES over an alphabet of request atoms (valid and
// malformed MessagePack / line-protocol / CSV / Parquet / TLE bodies, compressed or not, unusual
// column names, type changes of one column name between requests). Every sequence runs against a
// fresh in-process server built from the real handlers and one real ArrowBuffer, inside a WORKER
// SUBPROCESS: a panic in the flush worker goroutine (or in the flush that stands in for the
// age-triggered background flush) kills that process, which is exactly what the parent observes.
//
// Debugging aids (environment): VERIF_C04_SEQ="atom ; atom" [VERIF_C04_MODE=final|size3|size5] runs one
// sequence and prints its outcome; VERIF_C04_KEEP=1 prints the workers' stderr; VERIF_C04_DUMP=1|all
// prints per-sequence outcomes; VERIF_C04_MAXLEN=1 restricts the enumeration to single requests;
// VERIF_C04_WATCHDOG_S overrides the per-sequence hang watchdog (900 s).
package main

import (
	"encoding/base64"
	"encoding/json"
	"fmt"
	"os"
	"os/exec"
	"path/filepath"
	"runtime"
	"sort"
	"strings"
	"sync"
	"sync/atomic"

	"github.com/basekick-labs/arc/zzverif/engine/ev"
)

type crashInfo struct {
	Kind  string `json:"kind"`
	Site  string `json:"site"`
	Exit  string `json:"exit"`
	Trace string `json:"trace"`
}

type outcome struct {
	Job   job
	Res   *jobResult
	Crash *crashInfo
}

func (o *outcome) findings() []finding {
	if o.Crash != nil {
		switch {
		case o.Crash.Kind == "hang":
			return []finding{{Kind: "hang"}}
		case o.Crash.Kind == "":
			return []finding{{Kind: "process-died", Detail: o.Crash.Exit}}
		}
		return []finding{{Kind: "process-crash", Detail: o.Crash.Kind + "|" + o.Crash.Site}}
	}
	if o.Res.FlushPanic != "" { // caught on the harness goroutine; same class key as a real death
		return []finding{{Kind: "process-crash", Detail: o.Res.FlushPanic}}
	}
	return o.Res.Findings
}

var scratch string
var spawnSeq atomic.Int64

// runChunk executes jobs in worker subprocesses, restarting after the job that killed a worker.
func runChunk(jobs []job, extraEnv ...string) []outcome {
	exe, err := os.Executable()
	if err != nil {
		ev.Unbound(err.Error())
	}
	var outs []outcome
	rest := jobs
	for len(rest) > 0 {
		n := spawnSeq.Add(1)
		base := filepath.Join(scratch, fmt.Sprintf("w%d", n))
		jb, _ := json.Marshal(rest)
		os.WriteFile(base+".jobs", jb, 0o644)
		ef, err := os.Create(base + ".err")
		if err != nil {
			ev.Unbound(err.Error())
		}
		cmd := exec.Command(exe)
		cmd.Env = append(os.Environ(), "VERIF_C04_WORKER=1", "VERIF_C04_JOBS="+base+".jobs", "VERIF_C04_OUT="+base+".out",
			"VERIF_C04_ERRF="+base+".err", "GOTRACEBACK=all", "GOMAXPROCS=2")
		cmd.Env = append(cmd.Env, extraEnv...)
		cmd.Stderr = ef
		cmd.Stdout = ef
		werr := cmd.Run()
		ef.Close()
		ob, _ := os.ReadFile(base + ".out")
		done := map[int]*jobResult{}
		begun := -1
		for _, l := range strings.Split(string(ob), "\n") {
			switch {
			case strings.HasPrefix(l, "B "):
				fmt.Sscanf(l, "B %d", &begun)
			case strings.HasPrefix(l, "R "):
				var r jobResult
				if err := json.Unmarshal([]byte(l[2:]), &r); err == nil {
					done[r.ID] = &r
				}
			}
		}
		next := len(rest)
		if werr != nil {
			// whatever the dying worker still managed to write about the job it was running is void
			delete(done, begun)
		}
		for i, j := range rest {
			if r, ok := done[j.ID]; ok {
				outs = append(outs, outcome{Job: j, Res: r})
				continue
			}
			// first job without a result: the one that was running when the worker died
			eb, _ := os.ReadFile(base + ".err")
			tr := string(eb)
			if werr == nil || j.ID != begun {
				if strings.Contains(tr, "HARNESS-UNBOUND") {
					fmt.Print(tr)
					os.RemoveAll(scratch)
					os.Exit(2)
				}
				os.RemoveAll(scratch)
				ev.Unbound(fmt.Sprintf("worker protocol error (exit=%v begun=%d job=%d): %s", werr, begun, j.ID, tailStr(tr, 600)))
			}
			ci := &crashInfo{Exit: werr.Error()}
			if strings.Contains(tr, "C04-HANG") {
				ci.Kind = "hang"
			} else if i := lastFatal(tr); i >= 0 {
				ci.Kind, ci.Site = parseTrace(tr[i:])
				ci.Trace = headStr(tr[i:], 3000)
			} else {
				ci.Trace = tailStr(tr, 1500)
			}
			outs = append(outs, outcome{Job: j, Crash: ci})
			next = i + 1
			break
		}
		rest = rest[next:]
		if os.Getenv("VERIF_C04_KEEP") != "" {
			eb, _ := os.ReadFile(base + ".err")
			fmt.Printf("--- stderr of worker %d ---\n%s\n---\n", n, tailStr(string(eb), 6000))
		}
		os.Remove(base + ".jobs")
		os.Remove(base + ".out")
		os.Remove(base + ".err")
	}
	return outs
}

// lastFatal finds the trace that killed the process: the last "panic: " / "fatal error: " block that is
// not followed by further request processing (recovered panics are printed earlier in the file).
func lastFatal(tr string) int {
	i := strings.LastIndex(tr, "\nfatal error: ")
	j := strings.LastIndex(tr, "\npanic: ")
	if strings.HasPrefix(tr, "panic: ") && j < 0 {
		j = -1
		return 0
	}
	if i > j {
		return i + 1
	}
	if j >= 0 {
		return j + 1
	}
	if strings.HasPrefix(tr, "fatal error: ") {
		return 0
	}
	return -1
}

// die removes the scratch directory before a fatal harness exit (os.Exit skips defers).
func die(f func()) {
	os.RemoveAll(scratch)
	f()
}

func tailStr(s string, n int) string {
	if len(s) > n {
		return s[len(s)-n:]
	}
	return s
}
func headStr(s string, n int) string {
	if len(s) > n {
		return s[:n]
	}
	return s
}

// rootOf names the panic behind a finding: a process death and "rows of an earlier request lost after a
// panic that the HTTP middleware recovered" are the same defect when kind and site of the panic agree.
func rootOf(f finding) string {
	switch {
	case f.Kind == "process-crash":
		return f.Detail
	case strings.HasPrefix(f.Detail, "after-recovered-panic:"):
		return strings.TrimPrefix(f.Detail, "after-recovered-panic:")
	}
	return ""
}

func seqKey(mode string, seq []int) string { return fmt.Sprintf("%s%v", mode, seq) }

func seqNames(A []atom, seq []int) string {
	var n []string
	for _, i := range seq {
		n = append(n, A[i].Name)
	}
	return strings.Join(n, " ; ")
}

// sequences returns every sequence of length 1..max over alpha, shortest first.
func sequences(alpha []int, max int) [][]int {
	var out [][]int
	level := [][]int{{}}
	for l := 1; l <= max; l++ {
		var next [][]int
		for _, pre := range level {
			for _, a := range alpha {
				next = append(next, append(append([]int{}, pre...), a))
			}
		}
		out = append(out, next...)
		level = next
	}
	return out
}

type explorer struct {
	A      []atom
	run    *ev.Run
	mu     sync.Mutex
	byKey  map[string]*outcome
	order  []*outcome
	nextID int
	cut    bool // deadline hit: not exhaustive
	nw     int
	total  int
}

// execute runs (mode, seq) for every seq not yet evaluated in that mode.
func (x *explorer) execute(mode string, seqs [][]int) {
	var jobs []job
	for _, q := range seqs {
		k := seqKey(mode, q)
		if _, ok := x.byKey[k]; ok {
			continue
		}
		x.byKey[k] = nil
		jobs = append(jobs, job{ID: x.nextID, Mode: mode, Seq: q})
		x.nextID++
	}
	x.total += len(jobs)
	if fn := os.Getenv("VERIF_C04_RUNCHUNK"); fn != "" { // debugging aid: re-run one saved chunk several times
		var js []job
		b, _ := os.ReadFile(fn)
		json.Unmarshal(b, &js)
		for r := 0; r < 10; r++ {
			for _, o := range runChunk(js) {
				for _, f := range o.findings() {
					if f.Kind == "acked-rows-missing" {
						fmt.Printf("RUNCHUNK run=%d job=%d %v %s\n", r, o.Job.ID, o.Job.Seq, f.key())
					}
				}
			}
		}
		os.Exit(0)
	}
	const chunk = 128
	var chunks [][]job
	for i := 0; i < len(jobs); i += chunk {
		chunks = append(chunks, jobs[i:min(i+chunk, len(jobs))])
	}
	if x.run.Seed != 0 && len(chunks) > 1 { // the seed only permutes the order of exploration
		r := ((x.run.Seed % len(chunks)) + len(chunks)) % len(chunks)
		chunks = append(chunks[r:], chunks[:r]...)
	}
	var next atomic.Int64
	var wg sync.WaitGroup
	for w := 0; w < x.nw; w++ {
		wg.Add(1)
		go func() {
			defer wg.Done()
			for {
				i := int(next.Add(1)) - 1
				if i >= len(chunks) {
					return
				}
				if x.run.TimeUp() {
					x.mu.Lock()
					x.cut = true
					x.mu.Unlock()
					return
				}
				outs := runChunk(chunks[i])
				if os.Getenv("VERIF_C04_DEBUGCHUNK") != "" { // debugging aid: keep the chunk of a bulk observation
					for k := range outs {
						for _, f := range outs[k].findings() {
							if f.Kind == "acked-rows-missing" {
								b, _ := json.Marshal(chunks[i])
								os.WriteFile(fmt.Sprintf("/dev/shm/c04_chunk_%d.json", i), b, 0o644)
								fmt.Printf("DEBUGCHUNK %d job=%d %v %s\n", i, outs[k].Job.ID, outs[k].Job.Seq, f.key())
							}
						}
					}
				}
				x.mu.Lock()
				for k := range outs {
					o := &outs[k]
					x.byKey[seqKey(o.Job.Mode, o.Job.Seq)] = o
					x.order = append(x.order, o)
				}
				x.mu.Unlock()
			}
		}()
	}
	wg.Wait()
	for k, o := range x.byKey { // cut off: forget the placeholders
		if o == nil {
			delete(x.byKey, k)
		}
	}
}

// sizeReachable: can the size trigger of `mode` fire for this sequence? Decided from the final-mode
// run of the same sequence: the rows of the requests that were accepted there must reach the
// threshold (atoms whose row count is not declared count as enough; a sequence whose final-mode run
// died is always kept).
func (x *explorer) sizeReachable(mode string, seq []int) bool {
	o := x.byKey[seqKey("final", seq)]
	if o == nil || o.Crash != nil {
		return true
	}
	rows := 0
	for p, ai := range seq {
		if st := o.Res.Status[p]; st >= 200 && st < 300 {
			if x.A[ai].NRows < 0 {
				return true
			}
			rows += x.A[ai].NRows
		}
	}
	return rows >= bufSize(mode)
}

type replayAtom struct {
	Name    string      `json:"name"`
	Path    string      `json:"path"`
	Headers [][2]string `json:"headers"`
	BodyB64 string      `json:"body_base64"`
}
type replayObj struct {
	Mode    string       `json:"mode"`
	MaxBuf  int          `json:"max_buffer_size"`
	Atoms   []string     `json:"atoms"`
	Reqs    []replayAtom `json:"requests"`
	Finding finding      `json:"finding"`
	Modes   []string     `json:"also_in_modes"`
	Trace   string       `json:"trace,omitempty"`
	Status  []int        `json:"status,omitempty"`
}

func main() {
	if os.Getenv("VERIF_C04_WORKER") == "1" {
		workerMain()
		return
	}
	run := ev.Start("C04", "exploration")
	A := buildAlphabet()
	byName := map[string]int{}
	for i, a := range A {
		if _, dup := byName[a.Name]; dup {
			ev.Unbound("duplicate atom name " + a.Name)
		}
		byName[a.Name] = i
	}
	nq := 0
	for _, a := range A {
		if a.Quick {
			nq++
		}
	}
	if nq != len(quickAtoms) {
		ev.Unbound(fmt.Sprintf("quick alphabet names %d atoms, %d exist", len(quickAtoms), nq))
	}
	scratch = fmt.Sprintf("/dev/shm/verif.c04.%d", os.Getpid())
	os.MkdirAll(scratch, 0o755)
	defer os.RemoveAll(scratch)

	if run.Replay != "" {
		replayMain(run, A, byName)
		return
	}

	var all, merge []int
	for i := range A {
		if !run.Quick() || A[i].Quick {
			all = append(all, i)
		}
		if A[i].Merge {
			merge = append(merge, i)
		}
	}
	nw := min(runtime.NumCPU(), 16)
	x := &explorer{A: A, run: run, byKey: map[string]*outcome{}, nw: nw}
	if s := os.Getenv("VERIF_C04_SEQ"); s != "" { // debugging aid: run one sequence ("name ; name")
		jb := job{Mode: os.Getenv("VERIF_C04_MODE")}
		if jb.Mode == "" {
			jb.Mode = "final"
		}
		for _, n := range strings.Split(s, " ; ") {
			i, ok := byName[n]
			if !ok {
				die(func() { ev.Unbound("unknown atom " + n) })
			}
			jb.Seq = append(jb.Seq, i)
		}
		o := runChunk([]job{jb})[0]
		fmt.Printf("[%s] mode=%s\n", seqNames(A, jb.Seq), jb.Mode)
		if o.Crash != nil {
			fmt.Printf("CRASH %s @ %s (%s)\n%s\n", o.Crash.Kind, o.Crash.Site, o.Crash.Exit, o.Crash.Trace)
		} else {
			fmt.Printf("%s\nfindings=%v resp_err=%v recovered=%v\n", o.Res.Outcome, o.Res.Findings, o.Res.RespErr, o.Res.Recovered)
		}
		os.RemoveAll(scratch)
		return
	}
	maxLen := 2
	if os.Getenv("VERIF_C04_MAXLEN") == "1" { // debugging aid
		maxLen = 1
	}
	// phase 1: every sequence, only the explicit flush at the end ("final")
	seqs := sequences(all, maxLen)
	x.execute("final", seqs)
	// phase 2: the same sequences with max_buffer_size=3 wherever that size trigger is reachable
	skipped := 0
	filter := func(mode string, in [][]int) [][]int {
		var out [][]int
		for _, q := range in {
			if _, done := x.byKey[seqKey("final", q)]; !done && x.cut {
				continue
			}
			if x.sizeReachable(mode, q) {
				out = append(out, q)
			} else {
				skipped++
			}
		}
		return out
	}
	x.execute("size3", filter("size3", seqs))
	if !run.Quick() {
		// phase 3 (thorough): length <= 3 over the merge alphabet, triggers at 3 and at 5 rows
		m3 := sequences(merge, 3)
		x.execute("final", m3)
		x.execute("size3", filter("size3", m3))
		x.execute("size5", filter("size5", m3))
	}
	results := x.order
	enumerated := x.total
	exhaustive := !x.cut

	// ---- collect, classify, minimise by lookup in the exhaustive result table ----
	byKey := x.byKey
	evaluated, crashed, recoveredJobs, mergedJobs, flushPanics := 0, 0, 0, 0, 0
	statusHist := map[string]int{}
	outcomes := map[string]bool{}
	nontrivial := 0
	perFmt := map[string]int{}
	for _, i := range all {
		perFmt[A[i].Name[:strings.Index(A[i].Name, ":")]]++
	}
	samples := ev.NewSamples(8)
	for _, o := range results {
		if o == nil {
			continue
		}
		evaluated++
		if o.Crash != nil {
			crashed++
			nontrivial++
			outcomes["crash:"+o.Crash.Kind+"|"+o.Crash.Site] = true
			continue
		}
		outcomes[o.Res.Outcome] = true
		if o.Res.FlushPanic != "" {
			flushPanics++
			nontrivial++
		}
		for p, st := range o.Res.Status {
			statusHist[fmt.Sprintf("%s:%d", strings.SplitN(A[o.Job.Seq[p]].Name, ":", 2)[0], st)]++
		}
		if len(o.Res.Recovered) > 0 {
			recoveredJobs++
		}
		if o.Res.Merged {
			mergedJobs++
			nontrivial++
			if len(o.Job.Seq) >= 2 {
				samples.Add(map[string]any{"mode": o.Job.Mode, "sequence": seqNames(A, o.Job.Seq), "outcome": o.Res.Outcome})
			}
		}
	}
	if os.Getenv("VERIF_C04_DUMP") != "" {
		for _, o := range results {
			if o == nil || len(o.Job.Seq) > 1 && os.Getenv("VERIF_C04_DUMP") != "all" {
				continue
			}
			if o.Crash != nil {
				fmt.Printf("DUMP %-6s [%s] CRASH %s @ %s\n", o.Job.Mode, seqNames(A, o.Job.Seq), o.Crash.Kind, o.Crash.Site)
			} else {
				fmt.Printf("DUMP %-6s [%s] %s\n", o.Job.Mode, seqNames(A, o.Job.Seq), o.Res.Outcome)
			}
		}
	}
	type class struct {
		sig       string
		f         finding
		rep       *outcome
		modes     map[string]bool
		n         int
		realDeath *crashInfo
	}
	classes := map[string]*class{}
	raw := 0
	for _, o := range results {
		if o == nil {
			continue
		}
		for _, f := range o.findings() {
			raw++
			minimal := true
			n := len(o.Job.Seq)
			for mask := 1; mask < (1<<n)-1 && minimal; mask++ { // every proper, non-empty subsequence
				var sub []int
				for d := 0; d < n; d++ {
					if mask&(1<<d) != 0 {
						sub = append(sub, o.Job.Seq[d])
					}
				}
				so := byKey[seqKey(o.Job.Mode, sub)]
				if so == nil { // size trigger unreachable for the sub-sequence: its final-mode run is the same run
					so = byKey[seqKey("final", sub)]
				}
				if so == nil {
					continue
				}
				for _, sf := range so.findings() {
					if sf.key() == f.key() || (rootOf(f) != "" && rootOf(sf) == rootOf(f)) {
						minimal = false
					}
				}
			}
			if !minimal {
				continue
			}
			sig := f.Kind + "|"
			if f.Subject != "" {
				sig += f.Subject + "|"
			}
			if f.Detail != "" {
				sig += f.Detail + "|"
			}
			sig += seqNames(A, o.Job.Seq)
			c := classes[sig]
			if c == nil {
				c = &class{sig: sig, f: f, rep: o, modes: map[string]bool{}}
				classes[sig] = c
			}
			c.modes[o.Job.Mode] = true
			c.n++
		}
	}
	// instances per class = raw findings that contain the class' minimal sequence as a subsequence
	// (counted cheaply: same finding key anywhere)
	instances := map[string]int{}
	for _, o := range results {
		if o == nil {
			continue
		}
		for _, f := range o.findings() {
			instances[f.key()]++
		}
	}

	// ---- replay every class twice in fresh subprocesses ----
	sigs := make([]string, 0, len(classes))
	for s := range classes {
		sigs = append(sigs, s)
	}
	sort.Strings(sigs)
	var cwg sync.WaitGroup
	sem := make(chan struct{}, nw)
	var nondet atomic.Value
	unrep := map[string]string{}
	var unrepMu sync.Mutex
	for _, s := range sigs {
		c := classes[s]
		cwg.Add(1)
		go func() {
			defer cwg.Done()
			sem <- struct{}{}
			defer func() { <-sem }()
			for k := 0; k < 2; k++ {
				// isolated, and without the harness-side recover: a process-crash class must be a real death
				o := runChunk([]job{{ID: 0, Mode: c.rep.Job.Mode, Seq: c.rep.Job.Seq}}, "VERIF_C04_NORECOVER=1")[0]
				if c.f.Kind == "process-crash" && o.Crash == nil {
					nondet.Store(fmt.Sprintf("class %q: the worker process did not die in isolated replay %d", c.sig, k+1))
				}
				if o.Crash != nil && c.rep.Crash == nil {
					c.realDeath = o.Crash
				}
				ok := false
				for _, f := range o.findings() {
					if f.key() == c.f.key() {
						ok = true
					}
				}
				if !ok {
					// seen once in the bulk run (128 sequences per worker process) but not when the sequence runs alone
					// in a fresh process: not reportable as a violation (no replayable artefact), and not a reason to
					// abort the whole run either - recorded in the evidence and dropped
					unrepMu.Lock()
					unrep[c.sig] = fmt.Sprintf("isolated replay %d gave %v", k+1, o.findings())
					unrepMu.Unlock()
				}
			}
		}()
	}
	cwg.Wait()
	if v := nondet.Load(); v != nil {
		die(func() { ev.Nondeterminism(v.(string)) })
	}
	if len(unrep) > 0 {
		var kept []string
		for _, s := range sigs {
			if why, bad := unrep[s]; bad {
				fmt.Printf("NOTE: bulk observation not reproduced in isolation, dropped: %s (%s)\n", s, why)
				delete(classes, s)
				continue
			}
			kept = append(kept, s)
		}
		sigs = kept
		run.Coverage["bulk_observations_not_reproduced_in_isolation"] = unrep
	}

	for _, s := range sigs {
		c := classes[s]
		var modes []string
		for m := range c.modes {
			modes = append(modes, m)
		}
		sort.Strings(modes)
		ro := replayObj{Mode: c.rep.Job.Mode, MaxBuf: bufSize(c.rep.Job.Mode), Finding: c.f, Modes: modes}
		for p, ai := range c.rep.Job.Seq {
			ro.Atoms = append(ro.Atoms, A[ai].Name)
			ro.Reqs = append(ro.Reqs, replayAtom{Name: A[ai].Name, Path: A[ai].Path, Headers: A[ai].Hdr, BodyB64: b64cap(A[ai].Body(p))})
		}
		desc := ""
		crash := c.rep.Crash
		if crash == nil {
			crash = c.realDeath
		}
		if crash != nil {
			ro.Trace = crash.Trace
			desc = fmt.Sprintf("worker process died (%s) with `%s` at %s after the request sequence [%s] (max_buffer_size=%d, modes %v)",
				crash.Exit, crash.Kind, crash.Site, seqNames(A, c.rep.Job.Seq), ro.MaxBuf, modes)
		} else {
			ro.Status = c.rep.Res.Status
			desc = fmt.Sprintf("%s for request %q %s %s in sequence [%s] statuses %v (modes %v)", c.f.Kind, c.f.Subject, c.f.Detail, c.f.Info,
				seqNames(A, c.rep.Job.Seq), c.rep.Res.Status, modes)
		}
		for i := 0; i < max(1, instances[c.f.key()]); i++ {
			run.Violate(s, desc, ro)
		}
	}

	// merge-alphabet validation: [mp:a=int, x] (final mode) must put rows of both requests into one file or die
	mergeValidated, mergeFlagged := 0, 0
	base := byName["mp:a=int"]
	for i, a := range A {
		if !a.Merge {
			continue
		}
		mergeFlagged++
		if o := byKey[seqKey("final", []int{base, i})]; o != nil && (o.Crash != nil || o.Res.Merged || len(o.Res.Recovered) > 0) {
			mergeValidated++
		}
	}

	var names, mnames []string
	for _, i := range all {
		names = append(names, A[i].Name)
	}
	for _, i := range merge {
		mnames = append(mnames, A[i].Name)
	}
	run.Coverage["merge_alphabet"] = mnames
	run.Coverage["evaluations"] = evaluated
	run.Coverage["enumerated"] = enumerated
	run.Coverage["size_mode_sequences_skipped_trigger_unreachable"] = skipped
	run.Coverage["exhaustive"] = exhaustive && evaluated == enumerated
	run.Coverage["distinct_nontrivial"] = nontrivial
	run.Coverage["distinct_outcomes"] = len(outcomes)
	run.Coverage["rule"] = "every request sequence of length <=2 over the atom alphabet is run with only the explicit flush at the end (mode final: both batches merge in that flush) and again with max_buffer_size=3 (mode size3: the 2nd request's rows trigger the asynchronous flush worker, which merges the batches of both requests) wherever that trigger is reachable, i.e. the requests accepted in the final-mode run carry >=3 rows (otherwise the two runs are the same run and it is not repeated; counted in size_mode_sequences_skipped_trigger_unreachable); thorough uses the full alphabet and adds every sequence of length <=3 over the merge alphabet x {final,size3,size5}. One fresh server in a worker-process slot per case. A case is non-trivial when a stored Parquet file holds rows of >=2 different requests (a cross-request merge reached storage) or the worker process died; distinct_outcomes counts distinct (status vector, per-request stored rows, files, findings) tuples"
	run.Coverage["alphabet"] = names
	run.Coverage["alphabet_size"] = len(all)
	run.Coverage["alphabet_per_format"] = perFmt
	run.Coverage["merge_alphabet_size"] = mergeFlagged
	run.Coverage["merge_alphabet_validated"] = mergeValidated
	run.Coverage["max_len"] = map[bool]int{true: 2, false: 3}[run.Quick()]
	run.Coverage["worker_process_deaths"] = crashed
	run.Coverage["end_of_sequence_flush_panics_caught_on_harness_goroutine"] = flushPanics
	run.Coverage["sequences_with_recovered_handler_panic"] = recoveredJobs
	run.Coverage["sequences_with_cross_request_merge"] = mergedJobs
	run.Coverage["status_histogram"] = statusHist
	run.Coverage["raw_findings"] = raw
	run.Coverage["classes_replayed_twice"] = len(sigs)
	sm := samples.List()
	if len(sm) == 0 {
		sm = append(sm, map[string]any{"sequence": A[all[0]].Name, "mode": "final"})
	}
	run.Coverage["samples"] = sm
	run.Assume("storage is hx.MemBackend (never fails); the explicit FlushAll+Close after each sequence stands in for the age-triggered background flush (periodicFlush -> flushAgedBuffers, same flushBufferLocked, no recover) and for shutdown; during the bulk enumeration a panic of that explicit flush is caught on the harness goroutine and counted as a process death (the asynchronous flush worker's panics do kill the worker process), and every resulting class is then re-run twice in isolation WITHOUT that catch and must really kill the worker process with the same panic and site")
	run.Assume("a panic recovered by the production fiber recover middleware (HTTP 500) is counted but is a violation only through its consequences (acknowledged rows of earlier requests lost)")
	run.Assume("auth/RBAC off, no WAL, no cluster router; request atoms are the listed alphabet, bodies <= 4 MiB (+1), payload cap of the in-process server 4 MiB; the fixed 100 MB / 500 MB caps of line-protocol, TLE and import decompression are not driven to their limit")
	run.Assume("only time-attributable rows are compared value by value; rows with server-generated or format-derived times (TLE epoch) are judged by count")
	fmt.Printf("C04 %s: alphabet=%d sequences=%d evaluated=%d process_deaths=%d flush_panics=%d recovered_handler_panics=%d merged=%d distinct_outcomes=%d raw_findings=%d classes=%d\n",
		run.Tier, len(all), enumerated, evaluated, crashed, flushPanics, recoveredJobs, mergedJobs, len(outcomes), raw, len(sigs))
	os.RemoveAll(scratch)
	run.Finish()
}

func b64cap(b []byte) string {
	if len(b) > 4096 {
		return fmt.Sprintf("(%d bytes, first 256:) %s", len(b), base64.StdEncoding.EncodeToString(b[:256]))
	}
	return base64.StdEncoding.EncodeToString(b)
}

func replayMain(run *ev.Run, A []atom, byName map[string]int) {
	b, err := os.ReadFile(run.Replay)
	if err != nil {
		ev.Unbound("replay file: " + err.Error())
	}
	var rf struct {
		Signature string    `json:"signature"`
		Replay    replayObj `json:"replay"`
	}
	if err := json.Unmarshal(b, &rf); err != nil {
		ev.Unbound("replay file: " + err.Error())
	}
	var seq []int
	for _, n := range rf.Replay.Atoms {
		i, ok := byName[n]
		if !ok {
			ev.Unbound("replay names unknown atom " + n)
		}
		seq = append(seq, i)
	}
	o := runChunk([]job{{ID: 0, Mode: rf.Replay.Mode, Seq: seq}}, "VERIF_C04_NORECOVER=1")[0]
	fmt.Printf("replay [%s] mode=%s\n", seqNames(A, seq), rf.Replay.Mode)
	if o.Crash != nil {
		fmt.Printf("worker died: %s\n%s\n", o.Crash.Exit, o.Crash.Trace)
	} else {
		fmt.Printf("outcome: %s\n", o.Res.Outcome)
	}
	for _, f := range o.findings() {
		if f.key() == rf.Replay.Finding.key() {
			run.Violate(rf.Signature, "reproduced by --replay", rf.Replay)
		}
	}
	os.RemoveAll(scratch)
	run.Finish()
}
