package main

// Byte-level builders used by the request-atom grammar: a tiny ordered MessagePack encoder (the
// harness owns key order), gzip / zstd framing, multipart bodies and Parquet files (arrow-go).

import (
	"bytes"
	"compress/gzip"
	"encoding/binary"
	"math"

	"github.com/apache/arrow-go/v18/arrow"
	"github.com/apache/arrow-go/v18/arrow/array"
	"github.com/apache/arrow-go/v18/arrow/memory"
	"github.com/apache/arrow-go/v18/parquet"
	"github.com/apache/arrow-go/v18/parquet/pqarrow"
	"github.com/klauspost/compress/zstd"
)

type kv struct {
	K string
	V any
}
type omap []kv    // ordered map
type rawmp []byte // pre-encoded msgpack bytes
type mpbin []byte // bin8 value

func mpEnc(b []byte, v any) []byte {
	switch x := v.(type) {
	case nil:
		return append(b, 0xc0)
	case bool:
		if x {
			return append(b, 0xc3)
		}
		return append(b, 0xc2)
	case int:
		return mpEnc(b, int64(x))
	case int64:
		b = append(b, 0xd3)
		return binary.BigEndian.AppendUint64(b, uint64(x))
	case uint64:
		b = append(b, 0xcf)
		return binary.BigEndian.AppendUint64(b, x)
	case float64:
		b = append(b, 0xcb)
		return binary.BigEndian.AppendUint64(b, math.Float64bits(x))
	case string:
		if len(x) < 32 {
			b = append(b, 0xa0|byte(len(x)))
		} else {
			b = append(b, 0xda)
			b = binary.BigEndian.AppendUint16(b, uint16(len(x)))
		}
		return append(b, x...)
	case mpbin:
		b = append(b, 0xc4, byte(len(x)))
		return append(b, x...)
	case rawmp:
		return append(b, x...)
	case []any:
		if len(x) < 16 {
			b = append(b, 0x90|byte(len(x)))
		} else {
			b = append(b, 0xdc)
			b = binary.BigEndian.AppendUint16(b, uint16(len(x)))
		}
		for _, e := range x {
			b = mpEnc(b, e)
		}
		return b
	case omap:
		if len(x) < 16 {
			b = append(b, 0x80|byte(len(x)))
		} else {
			b = append(b, 0xde)
			b = binary.BigEndian.AppendUint16(b, uint16(len(x)))
		}
		for _, e := range x {
			b = mpEnc(b, e.K)
			b = mpEnc(b, e.V)
		}
		return b
	}
	panic("mpEnc: unsupported value")
}

func mp(v any) []byte { return mpEnc(nil, v) }

func gz(b []byte) []byte {
	var buf bytes.Buffer
	w, _ := gzip.NewWriterLevel(&buf, gzip.BestCompression)
	w.Write(b)
	w.Close()
	return buf.Bytes()
}

var zenc, _ = zstd.NewWriter(nil, zstd.WithEncoderLevel(zstd.SpeedDefault), zstd.WithEncoderConcurrency(1))

func zs(b []byte) []byte { return zenc.EncodeAll(b, nil) }

func half(b []byte) []byte { return append([]byte{}, b[:len(b)/2]...) }

const boundary = "c04boundaryXYZ"

func multipartFile(content []byte) []byte {
	var b bytes.Buffer
	b.WriteString("--" + boundary + "\r\n")
	b.WriteString("Content-Disposition: form-data; name=\"file\"; filename=\"f.dat\"\r\n")
	b.WriteString("Content-Type: application/octet-stream\r\n\r\n")
	b.Write(content)
	b.WriteString("\r\n--" + boundary + "--\r\n")
	return b.Bytes()
}

// pqCol describes one Parquet column: Go slice of int64 / float64 / string / bool, optional validity,
// or a special kind ("ts" = timestamp[us] from int64, "list" = list<int64>).
type pqCol struct {
	Name  string
	Vals  any
	Valid []bool
	Kind  string
}

func buildParquet(cols []pqCol, nrows int) []byte {
	mem := memory.DefaultAllocator
	var fields []arrow.Field
	var arrs []arrow.Array
	for _, c := range cols {
		switch v := c.Vals.(type) {
		case []int64:
			if c.Kind == "ts" {
				bld := array.NewTimestampBuilder(mem, &arrow.TimestampType{Unit: arrow.Microsecond, TimeZone: "UTC"})
				ts := make([]arrow.Timestamp, len(v))
				for i := range v {
					ts[i] = arrow.Timestamp(v[i])
				}
				bld.AppendValues(ts, c.Valid)
				arrs = append(arrs, bld.NewArray())
				fields = append(fields, arrow.Field{Name: c.Name, Type: &arrow.TimestampType{Unit: arrow.Microsecond, TimeZone: "UTC"}, Nullable: true})
			} else if c.Kind == "list" {
				bld := array.NewListBuilder(mem, arrow.PrimitiveTypes.Int64)
				vb := bld.ValueBuilder().(*array.Int64Builder)
				for _, x := range v {
					bld.Append(true)
					vb.Append(x)
				}
				arrs = append(arrs, bld.NewArray())
				fields = append(fields, arrow.Field{Name: c.Name, Type: arrow.ListOf(arrow.PrimitiveTypes.Int64), Nullable: true})
			} else {
				bld := array.NewInt64Builder(mem)
				bld.AppendValues(v, c.Valid)
				arrs = append(arrs, bld.NewArray())
				fields = append(fields, arrow.Field{Name: c.Name, Type: arrow.PrimitiveTypes.Int64, Nullable: true})
			}
		case []float64:
			bld := array.NewFloat64Builder(mem)
			bld.AppendValues(v, c.Valid)
			arrs = append(arrs, bld.NewArray())
			fields = append(fields, arrow.Field{Name: c.Name, Type: arrow.PrimitiveTypes.Float64, Nullable: true})
		case []string:
			bld := array.NewStringBuilder(mem)
			bld.AppendValues(v, c.Valid)
			arrs = append(arrs, bld.NewArray())
			fields = append(fields, arrow.Field{Name: c.Name, Type: arrow.BinaryTypes.String, Nullable: true})
		case []bool:
			bld := array.NewBooleanBuilder(mem)
			bld.AppendValues(v, c.Valid)
			arrs = append(arrs, bld.NewArray())
			fields = append(fields, arrow.Field{Name: c.Name, Type: arrow.FixedWidthTypes.Boolean, Nullable: true})
		default:
			panic("buildParquet: bad column")
		}
	}
	schema := arrow.NewSchema(fields, nil)
	rec := array.NewRecord(schema, arrs, int64(nrows))
	tbl := array.NewTableFromRecords(schema, []arrow.Record{rec})
	var buf bytes.Buffer
	if err := pqarrow.WriteTable(tbl, &buf, 1024, parquet.NewWriterProperties(), pqarrow.DefaultWriterProps()); err != nil {
		panic("buildParquet: " + err.Error())
	}
	return buf.Bytes()
}
