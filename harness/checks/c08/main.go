// C08 — Storage keys stay inside the root and files appear atomically.
// (A) keys: every string up to N tokens over {a,/,..,.,NUL,\,ä,space,*} (+ absolute and trailing-slash
//     forms) through the real LocalBackend (Write/GetFullPath/Exists/StatFile/Delete), the manifest
//     path validator and the edge-sync validators; after every accepted Write the whole scratch tree
//     is walked: nothing may exist outside the root.
// (B) atomicity: Write / WriteReader / AppendReader over contents x reader chunkings x pre-existing
//     states, the process "killed" at EVERY mutating file-system call (and with every torn length of a
//     write); the final path must be absent or hold exactly the old or exactly the new content.
// (C) histories (history.go): every sequence of 1..3 (thorough: also 4) backend calls on one key over
//     {Write, WriteReader, WriteReader that fails after j bytes, AppendReader of the tail from an assumed
//     offset k, AppendReader that fails after j bytes, Delete(path), Delete(path+".part") as the staging
//     sweep does, StatFile, Exists} x two content versions, the LAST call also killed at every mutating
//     file-system call / torn write length; after it the final path must be unchanged, or hold the
//     complete content its caller intended, or (Delete only) be absent. Runs in 16 worker processes
//     (the crash shim is process-global) concurrently with (A) and (B).
package main

import (
	"bytes"
	"context"
	"fmt"
	"io"
	"io/fs"
	"os"
	"path/filepath"
	"sort"
	"strings"
	"time"

	"github.com/basekick-labs/arc/internal/cluster/raft"
	"github.com/basekick-labs/arc/internal/edgesync"
	"github.com/basekick-labs/arc/internal/storage"
	"github.com/basekick-labs/arc/zzverif/engine/ev"
	"github.com/basekick-labs/arc/zzverif/shim/vos"
	"github.com/rs/zerolog"
)

var scratch = fmt.Sprintf("/dev/shm/verif.c08.%d", os.Getpid())

// vio buffers the violations of the passes that run in the parent process while SpawnShards merges
// the workers' results into run (the engine's merge is not synchronised with Violate).
type bufViol struct {
	sig, desc string
	replay    any
}

var vioBuf []bufViol

func vio(sig, desc string, replay any) { vioBuf = append(vioBuf, bufViol{sig, desc, replay}) }

func inside(root, p string) bool {
	rel, err := filepath.Rel(root, p)
	return err == nil && rel != ".." && !strings.HasPrefix(rel, "../")
}

// outsideFiles lists everything under top that is not under root.
func outsideFiles(top, root string) []string {
	var out []string
	filepath.WalkDir(top, func(p string, d fs.DirEntry, err error) error {
		if err != nil {
			return nil
		}
		if p == top || p == root || inside(root, p) {
			return nil
		}
		if p == filepath.Join(top, "canary") || p == filepath.Join(top, "canary", "keep") || p == filepath.Join(top, "root2") || p == filepath.Join(top, "root2", "keep") {
			return nil
		}
		out = append(out, p)
		return nil
	})
	return out
}

func keysPass(run *ev.Run, maxLen int) (cases, nontrivial int, samples []any) {
	// "root2" names a SIBLING of the storage root whose name extends the root's name (a string-prefix
	// containment test would accept it); ".\x00." becomes ".." once NUL bytes are stripped
	atoms := []string{"a", "/", "..", ".", "\x00", "\\", "ä", " ", "*", ".\x00.", "root2"}
	var keys []string
	var rec func(cur string, n int)
	rec = func(cur string, n int) {
		if n > 0 {
			keys = append(keys, cur, "/"+cur, cur+"/")
		}
		if n == maxLen {
			return
		}
		for _, a := range atoms {
			rec(cur+a, n+1)
		}
	}
	rec("", 0)
	keys = append(keys, "", "/", "//", "/etc/passwd", "C:\\x", "a/../../b", "a/..\x00/../b", "....//....//x", ".\x00./.\x00./x", "a/.\x00./.\x00./.\x00./x")
	top := filepath.Join(scratch, "keys")
	root := filepath.Join(top, "root")
	seen := map[string]bool{}
	for i, k := range keys {
		if seen[k] {
			continue
		}
		seen[k] = true
		if i%500 == 0 {
			os.RemoveAll(top)
			os.MkdirAll(filepath.Join(top, "canary"), 0o700)
			os.WriteFile(filepath.Join(top, "canary", "keep"), []byte("canary"), 0o600)
			os.MkdirAll(filepath.Join(top, "root2"), 0o700)
			os.WriteFile(filepath.Join(top, "root2", "keep"), []byte("canary"), 0o600)
		}
		if i%2000 == 0 && run.TimeUp() {
			run.Coverage["exhaustive"] = false
			break
		}
		be, err := storage.NewLocalBackend(root, zerolog.Nop())
		if err != nil {
			ev.Unbound("NewLocalBackend: " + err.Error())
		}
		cases++
		tricky := strings.Contains(k, "..") || strings.Contains(k, "\x00") || strings.HasPrefix(k, "/") || strings.Contains(k, "\\")
		if tricky {
			nontrivial++
		}
		sig := func(kind string) string { return kind + "|" + fmt.Sprintf("%q", k) }
		if fp := be.GetFullPath(k); fp != "" && !inside(root, fp) {
			vio(sig("GetFullPath-outside-root"), "LocalBackend resolved a key outside its root", map[string]any{"key": k, "resolved": fp})
		}
		werr := be.Write(context.Background(), k, []byte("x"))
		be.Exists(context.Background(), k)
		be.StatFile(context.Background(), k)
		if out := outsideFiles(top, root); len(out) > 0 {
			vio(sig("file-outside-root"), "a file or directory appeared outside the storage root", map[string]any{"key": k, "outside": out, "write_err": fmt.Sprint(werr)})
			os.RemoveAll(top)
			os.MkdirAll(filepath.Join(top, "canary"), 0o700)
			os.WriteFile(filepath.Join(top, "canary", "keep"), []byte("canary"), 0o600)
			os.MkdirAll(filepath.Join(top, "root2"), 0o700)
			os.WriteFile(filepath.Join(top, "root2", "keep"), []byte("canary"), 0o600)
		}
		if b, err := os.ReadFile(filepath.Join(top, "root2", "keep")); err != nil || string(b) != "canary" {
			vio(sig("sibling-touched"), "a sibling directory whose name extends the root's name was modified", map[string]any{"key": k})
			os.MkdirAll(filepath.Join(top, "root2"), 0o700)
			os.WriteFile(filepath.Join(top, "root2", "keep"), []byte("canary"), 0o600)
		}
		if b, err := os.ReadFile(filepath.Join(top, "canary", "keep")); err != nil || string(b) != "canary" {
			vio(sig("canary-touched"), "a sibling of the storage root was modified", map[string]any{"key": k})
			os.MkdirAll(filepath.Join(top, "canary"), 0o700)
			os.WriteFile(filepath.Join(top, "canary", "keep"), []byte("canary"), 0o600)
		}
		be.Delete(context.Background(), k)
		if _, err := os.Stat(filepath.Join(top, "canary", "keep")); err != nil {
			vio(sig("canary-deleted"), "Delete removed a file outside the storage root", map[string]any{"key": k})
			os.MkdirAll(filepath.Join(top, "canary"), 0o700)
			os.WriteFile(filepath.Join(top, "canary", "keep"), []byte("canary"), 0o600)
		}
		// validators: an accepted path must stay inside a root even when joined WITHOUT the backend's sanitiser
		if raft.ValidateManifestPath(k) == nil {
			for _, j := range []string{filepath.Join(root, k), filepath.Join(root, strings.ReplaceAll(k, "\\", "/"))} {
				if !inside(root, j) {
					vio(sig("manifest-path-accepted-but-escapes"), "ValidateManifestPath accepted a path that leaves the root when joined", map[string]any{"key": k, "joined": j})
				}
			}
		}
		if edgesync.VerifValidateSyncPath(k) == nil {
			if j := filepath.Join(root, k); !inside(root, j) {
				vio(sig("sync-path-accepted-but-escapes"), "validateSyncPath accepted a path that leaves the root", map[string]any{"key": k, "joined": j})
			}
			for _, spoke := range []string{"s1", "a b", "ä"} {
				if edgesync.VerifValidateSpokeID(spoke) == nil {
					np := edgesync.NamespacedPath(spoke, k)
					if j := filepath.Join(root, np); !inside(filepath.Join(root, spoke), j) {
						vio(sig("namespaced-path-leaves-spoke-namespace"), "an accepted edge-sync path leaves its spoke's namespace", map[string]any{"key": k, "spoke": spoke, "joined": j})
					}
				}
			}
		}
		if edgesync.VerifValidateSpokeID(k) == nil {
			if j := filepath.Join(root, edgesync.NamespacedPath(k, "f.parquet")); !inside(root, j) || filepath.Dir(j) == root {
				vio(sig("spoke-id-accepted-but-escapes"), "validateSpokeID accepted an id that does not name a sub-directory of the root", map[string]any{"spoke": k, "joined": j})
			}
		}
		if len(samples) < 6 && tricky && i%97 == 0 {
			samples = append(samples, fmt.Sprintf("%q", k))
		}
	}
	os.RemoveAll(top)
	return
}

type chunkReader struct {
	data []byte
	n    int
}

func (c *chunkReader) Read(p []byte) (int, error) {
	if len(c.data) == 0 {
		return 0, io.EOF
	}
	n := c.n
	if n > len(c.data) {
		n = len(c.data)
	}
	if n > len(p) {
		n = len(p)
	}
	copy(p, c.data[:n])
	c.data = c.data[n:]
	return n, nil
}

func content(n int, seed byte) []byte {
	b := make([]byte, n)
	for i := range b {
		b[i] = seed + byte(i%251)
	}
	return b
}

type atomCase struct {
	op    string // Write | WriteReader | AppendReader
	size  int
	chunk int
	pre   string // absent | old-final | stale-part | good-part(AppendReader)
}

func atomicityPass(run *ev.Run) (cases, nontrivial int, samples []any) {
	var cs []atomCase
	for _, size := range []int{0, 1, 5, 70000} {
		for _, pre := range []string{"absent", "old-final", "stale-part"} {
			cs = append(cs, atomCase{"Write", size, 0, pre})
			chunks := []int{1, 3, 1 << 20}
			if size > 100 {
				chunks = []int{30000, 1 << 20}
			}
			for _, ch := range chunks {
				cs = append(cs, atomCase{"WriteReader", size, ch, pre})
			}
		}
		if size >= 5 {
			chunks := []int{1, 3, 1 << 20}
			if size > 100 {
				chunks = []int{30000, 1 << 20}
			}
			for _, ch := range chunks {
				cs = append(cs, atomCase{"AppendReader", size, ch, "good-part"}, atomCase{"AppendReader", size, ch, "good-part+old-final"})
			}
		}
	}
	const key = "db/m/2026/01/01/00/f.parquet"
	for ci, c := range cs {
		newC := content(c.size, 7)
		oldC := content(9, 100)
		prefix := c.size / 2
		runOnce := func(crash, torn int) (ops []vos.Op, died bool, final []byte, finalExists bool, err error) {
			root := filepath.Join(scratch, "atom", fmt.Sprint(ci))
			os.RemoveAll(root)
			be, e := storage.NewLocalBackend(root, zerolog.Nop())
			if e != nil {
				ev.Unbound(e.Error())
			}
			full := filepath.Join(root, key)
			os.MkdirAll(filepath.Dir(full), 0o700)
			if strings.Contains(c.pre, "old-final") {
				os.WriteFile(full, oldC, 0o600)
			}
			if c.pre == "stale-part" {
				os.WriteFile(full+".part", []byte("stale-garbage"), 0o600)
			}
			if strings.HasPrefix(c.pre, "good-part") {
				os.WriteFile(full+".part", newC[:prefix], 0o600)
			}
			vos.Start(crash, torn)
			switch c.op {
			case "Write":
				err = be.Write(context.Background(), key, newC)
			case "WriteReader":
				err = be.WriteReader(context.Background(), key, &chunkReader{append([]byte{}, newC...), c.chunk}, int64(len(newC)))
			case "AppendReader":
				rest := newC[prefix:]
				err = be.AppendReader(context.Background(), key, &chunkReader{append([]byte{}, rest...), c.chunk}, int64(len(rest)))
			}
			ops, died = vos.Stop()
			final, e = os.ReadFile(full)
			finalExists = e == nil
			os.RemoveAll(root)
			return
		}
		ops, _, final, exists, err := runOnce(-1, -1)
		if err != nil || !exists || !bytes.Equal(final, newC) {
			vio(fmt.Sprintf("crash-free-%s-does-not-store-content|size=%d,chunk=%d,pre=%s", c.op, c.size, c.chunk, c.pre), "the operation without any crash did not leave the intended content", map[string]any{"case": c, "err": fmt.Sprint(err)})
			continue
		}
		if len(samples) < 4 {
			samples = append(samples, map[string]any{"case": c, "fs_ops": ops})
		}
		for k, op := range ops {
			torns := []int{-1}
			if op.Kind == "write" && op.Len > 1 {
				if op.Len <= 64 {
					for t := 1; t < op.Len; t++ {
						torns = append(torns, t)
					}
				} else {
					torns = append(torns, 1, op.Len/2, op.Len-1)
				}
			}
			for _, torn := range torns {
				cases++
				_, died, fin, ex, _ := runOnce(k, torn)
				if !died {
					vio("crash-point-not-reached", "replaying the same operation did not reach the recorded file-system call", map[string]any{"case": c, "k": k})
					continue
				}
				nontrivial++
				okOld := strings.Contains(c.pre, "old-final") && ex && bytes.Equal(fin, oldC)
				okAbsent := !strings.Contains(c.pre, "old-final") && !ex
				okNew := ex && bytes.Equal(fin, newC)
				if !(okOld || okAbsent || okNew) {
					state := "absent although an old complete file existed"
					if ex {
						state = fmt.Sprintf("%d bytes that are neither the old nor the new content", len(fin))
					}
					vio(fmt.Sprintf("partial-file-at-final-path|%s,pre=%s,crash-before=%s", c.op, c.pre, op.Kind), "after a crash the final path holds "+state,
						map[string]any{"case": c, "crash_before_op": op, "torn": torn, "final_len": len(fin)})
				}
			}
		}
	}
	return
}

func main() {
	run := ev.Start("C08", "fault_enumeration")
	if shard, shards, isWorker := ev.Shard(); isWorker {
		historyWorker(run, shard, shards) // exits
	}
	defer os.RemoveAll(scratch)
	run.Coverage["exhaustive"] = true
	maxLen := 4
	if !run.Quick() {
		maxLen = 5
	}
	// (C) histories: worker processes (the crash shim is process-global), concurrently with (A) and (B)
	type shardOut struct {
		cnt      map[string]int64
		samples  []any
		complete bool
	}
	hch := make(chan shardOut, 1)
	var histWall time.Duration
	go func() {
		t0 := time.Now()
		c, s, ok := run.SpawnShards(16)
		histWall = time.Since(t0)
		hch <- shardOut{c, s, ok}
	}()
	kc, kn, ks := keysPass(run, maxLen)
	fmt.Printf("keys: %d keys (%d containing a traversal/NUL/absolute/backslash token)\n", kc, kn)
	ac, an, as := atomicityPass(run)
	fmt.Printf("atomicity: %d crash states\n", ac)
	ho := <-hch
	for _, v := range vioBuf {
		run.Violate(v.sig, v.desc, v.replay)
	}
	if !ho.complete {
		run.Coverage["exhaustive"] = false
	}
	plans := histPlans(run.Quick())
	planText, alNames := describePlans(plans)
	outcomes := 0
	var outcomeList []string
	for k := range ho.cnt {
		if strings.HasPrefix(k, "outcome|") {
			outcomes++
			outcomeList = append(outcomeList, strings.TrimPrefix(k, "outcome|"))
		}
	}
	sort.Strings(outcomeList)
	hh, hc := int(ho.cnt["hist_histories"]), int(ho.cnt["hist_crash_states"])
	fmt.Printf("histories: %d histories (%s), %d crash states of their last operation, %d executions; %d distinct (last operation as met, final before->after) outcomes; resumed appends that completed a file: %d, refused/failed: %d; raw failures: %d (%.1fs in 16 worker processes)\n",
		hh, planText, hc, ho.cnt["hist_runs"], outcomes, ho.cnt["hist_append_promoted_complete_file"], ho.cnt["hist_append_refused_or_failed"], ho.cnt["hist_raw_failures"], histWall.Seconds())
	run.Coverage["evaluations"] = kc + ac + hh + hc
	run.Coverage["distinct_nontrivial"] = kn + an + hc
	run.Coverage["rule"] = fmt.Sprintf("keys: every string of <=%d tokens over {a,/,..,.,NUL,backslash,ä,space,*,dot-NUL-dot,the name of a sibling directory that extends the root's name} plus its absolute and trailing-slash forms and 10 hand-written traversal shapes; non-trivial = contains a traversal, NUL, absolute or backslash token. atomicity: Write/WriteReader/AppendReader x sizes {0,1,5,70000} x reader chunkings x pre-states {absent, old final, stale .part, resumable .part}; one crash state per mutating file-system call of the operation and per torn length of each write (all lengths <=64 bytes, else 1, half, len-1); each crash state is distinct and non-trivial (the process died mid-operation). histories: %s, all on one key, alphabets listed under history_alphabets (two content versions P=8 bytes, Q=6 bytes; reader pieces of 3 bytes), complete run of each history plus one crash state per mutating file-system call and per torn write length of its LAST operation; evaluations counts each history once plus each crash state, non-trivial = the crash states (a history x a crash point of its last operation; distinct because the history or the crash point differs)", maxLen, planText)
	run.Coverage["samples"] = append(append(ks, as...), ho.samples...)
	run.Coverage["keys"] = kc
	run.Coverage["crash_states"] = ac
	run.Coverage["history_alphabets"] = alNames
	run.Coverage["history_plan"] = planText
	run.Coverage["histories"] = hh
	run.Coverage["history_crash_states"] = hc
	run.Coverage["history_executions"] = ho.cnt["hist_runs"]
	run.Coverage["history_distinct_outcomes"] = outcomes
	run.Coverage["history_outcomes"] = outcomeList
	run.Coverage["history_resumed_appends_completing_the_file"] = ho.cnt["hist_append_promoted_complete_file"]
	run.Coverage["history_appends_refused_or_failed"] = ho.cnt["hist_append_refused_or_failed"]
	run.Coverage["history_last_op_changed_final"] = ho.cnt["hist_last_op_changed_final"]
	run.Coverage["history_raw_failures"] = ho.cnt["hist_raw_failures"]
	run.Coverage["history_appends_onto_unexpected_staging_that_promoted"] = ho.cnt["hist_append_onto_unexpected_staging_promoted"]
	run.Coverage["history_beyond_a_reported_violation"] = ho.cnt["hist_beyond_a_reported_violation"]
	os.RemoveAll(scratch)
	run.Assume("crash model: process crash (every completed system call is visible, nothing after the crash point reaches the disk); power-loss reordering is not modelled because LocalBackend never fsyncs and the property speaks of crash points between file-system operations")
	run.Assume("histories are sequential (one backend call at a time); a concurrent writer of the same key is represented by the state it leaves between two calls of the history, not by interleaving inside one call")
	run.Finish()
}
