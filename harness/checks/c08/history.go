// C08 (C) — operation HISTORIES on one key.
//
// The single-operation pass (B) starts every Write / WriteReader / AppendReader from a hand-made
// pre-state. A resumed append, however, is the LAST step of a history: an earlier transfer staged a
// prefix, the resumer looked at it, and in between something else may have happened to the staging
// file or to the final file (swept as abandoned, deleted by another attempt, rewritten by a newer
// transfer, extended or already promoted by a concurrent resumer). This pass enumerates every history
// of 1..N backend operations on one key over the alphabet below, executes it on the real LocalBackend
// (fresh root per run) and, for the LAST operation of every history, additionally kills the process at
// every mutating file-system call and at every torn length of every write (shim/vos).
//
// Oracle (the property, nothing more): compare the final path before and after the last operation
// (complete run and every crash state). It must be unchanged, or hold the COMPLETE content the
// operation's caller intended (Write/WriteReader: the data; AppendReader: the whole declared file =
// prefix+tail, never a tail alone), or — for Delete only — be absent. Anything else (a tail, a prefix,
// a prefix of one transfer glued to the tail of another, a complete file that vanished) is a
// partially written / foreign file under the final name.
package main

import (
	"bytes"
	"context"
	"errors"
	"fmt"
	"io"
	"os"
	"path/filepath"
	"strings"

	"github.com/basekick-labs/arc/internal/storage"
	"github.com/basekick-labs/arc/zzverif/engine/ev"
	"github.com/basekick-labs/arc/zzverif/shim/vos"
	"github.com/rs/zerolog"
)

const histKey = "db/m/f.parquet"

// two versions of the key's content; every byte value occurs once over both, so any file content can
// be decomposed into slices of P and Q unambiguously
var histContents = [][]byte{[]byte("ABCDEFGH"), []byte("uvwxyz")}
var histNames = []string{"P", "Q"}

var errTransport = errors.New("verif: transport dropped (injected reader error)")

// hop is one backend call of a history.
type hop struct {
	Kind string `json:"op"`          // Write | WriteReader | WriteReaderFails | AppendReader | AppendReaderFails | Delete | DeleteStaging | StatFile | Exists
	C    int    `json:"content"`     // index into histContents, -1 = n/a
	K    int    `json:"k,omitempty"` // AppendReader*: offset the resumer assumed (it sends content[K:], appendSize = len-K)
	J    int    `json:"j,omitempty"` // *Fails: the reader returns a transport error after J bytes
}

func (o hop) String() string {
	switch o.Kind {
	case "Write", "WriteReader":
		return fmt.Sprintf("%s(%s)", o.Kind, histNames[o.C])
	case "WriteReaderFails":
		return fmt.Sprintf("WriteReader(%s)-fails-after-%d", histNames[o.C], o.J)
	case "AppendReader":
		return fmt.Sprintf("AppendReader(%s[%d:])", histNames[o.C], o.K)
	case "AppendReaderFails":
		return fmt.Sprintf("AppendReader(%s[%d:])-fails-after-%d", histNames[o.C], o.K, o.J)
	}
	return o.Kind
}

// scriptReader delivers data in pieces of n bytes and then ends with end (io.EOF or a transport error).
type scriptReader struct {
	data []byte
	n    int
	end  error
}

func (c *scriptReader) Read(p []byte) (int, error) {
	if len(c.data) == 0 {
		return 0, c.end
	}
	n := min(c.n, len(c.data), len(p))
	copy(p, c.data[:n])
	c.data = c.data[n:]
	return n, nil
}

func dedupInts(xs ...int) []int {
	var out []int
	seen := map[int]bool{}
	for _, x := range xs {
		if !seen[x] {
			seen[x] = true
			out = append(out, x)
		}
	}
	return out
}

// histAlphabet. level 2: every parameter for both contents. level 1: every parameter for P, and Q with
// one representative parameter (half) per parametrised operation. level 0: as level 1, but failing
// appends only for k in {1,half} x j in {0,1,all-but-one}.
//
//	Write(c), WriteReader(c)                      complete writes
//	WriteReader(c)-fails-after-j                  transport error after j in {0,1,half,n-1} bytes: leaves "<path>.part"
//	AppendReader(c[k:])                           resumer that assumed k in {0,1,half,n-1} staged bytes sends the rest
//	AppendReader(c[k:])-fails-after-j             ... and its transport drops after j in {0,1,half,all-but-one} tail bytes
//	Delete, DeleteStaging, StatFile, Exists       Backend.Delete(path), Backend.Delete(path+".part"), probes
func histAlphabet(level int) []hop {
	var al []hop
	for c, data := range histContents {
		n := len(data)
		al = append(al, hop{Kind: "Write", C: c}, hop{Kind: "WriteReader", C: c})
		offs := []int{0, 1, n / 2, n - 1}
		if level < 2 && c > 0 {
			offs = []int{n / 2}
		}
		for _, j := range offs {
			al = append(al, hop{Kind: "WriteReaderFails", C: c, J: j})
		}
		for _, k := range offs {
			al = append(al, hop{Kind: "AppendReader", C: c, K: k})
		}
		ks := offs
		if level < 2 && c > 0 {
			ks = nil
		} else if level == 0 {
			ks = []int{1, n / 2}
		}
		for _, k := range ks {
			t := n - k
			js := dedupInts(0, 1, t/2, t-1)
			if level == 0 {
				js = dedupInts(0, 1, t-1)
			}
			for _, j := range js {
				if j >= 0 && j < t {
					al = append(al, hop{Kind: "AppendReaderFails", C: c, K: k, J: j})
				}
			}
		}
	}
	al = append(al, hop{Kind: "Delete", C: -1}, hop{Kind: "DeleteStaging", C: -1}, hop{Kind: "StatFile", C: -1}, hop{Kind: "Exists", C: -1})
	return al
}

type fileObs struct {
	Exists bool
	Data   []byte
}

func readObs(p string) fileObs {
	b, err := os.ReadFile(p)
	return fileObs{Exists: err == nil, Data: b}
}

func (f fileObs) equal(g fileObs) bool {
	return f.Exists == g.Exists && (!f.Exists || bytes.Equal(f.Data, g.Data))
}

// compose describes file bytes as slices of the two contents: full(P), prefix(P), tail(P), mid(P), ?.
// name maps a content index to the letter used (class signatures name the content of the last
// operation P and the other one Q).
func compose(b []byte, exact bool, name func(int) string) string {
	if len(b) == 0 {
		return "empty"
	}
	var segs []string
	for i := 0; i < len(b); {
		c, at := -1, -1
		for ci, data := range histContents {
			if x := bytes.IndexByte(data, b[i]); x >= 0 {
				c, at = ci, x
			}
		}
		if c < 0 {
			segs = append(segs, "?")
			i++
			continue
		}
		j := i
		for j+1 < len(b) && at+(j+1-i) < len(histContents[c]) && b[j+1] == histContents[c][at+(j+1-i)] {
			j++
		}
		lo, hi, n := at, at+(j-i)+1, len(histContents[c])
		switch {
		case exact:
			segs = append(segs, fmt.Sprintf("%s[%d:%d]", name(c), lo, hi))
		case lo == 0 && hi == n:
			segs = append(segs, "full("+name(c)+")")
		case lo == 0:
			segs = append(segs, "prefix("+name(c)+")")
		case hi == n:
			segs = append(segs, "tail("+name(c)+")")
		default:
			segs = append(segs, "mid("+name(c)+")")
		}
		i = j + 1
	}
	return strings.Join(segs, "+")
}

func plainName(c int) string { return histNames[c] }

// relName names the content of operation o "P" and the other content "Q".
func relName(o hop) func(int) string {
	return func(c int) string {
		if o.C < 0 || c == o.C {
			return histNames[0]
		}
		return histNames[1]
	}
}

func (f fileObs) describe(exact bool, name func(int) string) string {
	if !f.Exists {
		return "absent"
	}
	return compose(f.Data, exact, name)
}

// stepCtx is what one operation of a history met and left.
type stepCtx struct {
	FinalBefore, StagingBefore, FinalAfter, StagingAfter fileObs
	Err                                                  error
}

type histRun struct {
	steps []stepCtx
	ops   []vos.Op // mutating file-system calls of the LAST operation
	died  bool
}

func applyOp(be *storage.LocalBackend, o hop, chunk int) error {
	ctx := context.Background()
	var data []byte
	if o.C >= 0 {
		data = histContents[o.C]
	}
	cp := func(b []byte) []byte { return append([]byte{}, b...) }
	switch o.Kind {
	case "Write":
		return be.Write(ctx, histKey, cp(data))
	case "WriteReader":
		return be.WriteReader(ctx, histKey, &scriptReader{cp(data), chunk, io.EOF}, int64(len(data)))
	case "WriteReaderFails":
		return be.WriteReader(ctx, histKey, &scriptReader{cp(data[:o.J]), chunk, errTransport}, int64(len(data)))
	case "AppendReader":
		return be.AppendReader(ctx, histKey, &scriptReader{cp(data[o.K:]), chunk, io.EOF}, int64(len(data)-o.K))
	case "AppendReaderFails":
		return be.AppendReader(ctx, histKey, &scriptReader{cp(data[o.K : o.K+o.J]), chunk, errTransport}, int64(len(data)-o.K))
	case "Delete":
		// the puller's deleteFile and edge-sync's cleanup: Backend.Delete(path)
		return be.Delete(ctx, histKey)
	case "DeleteStaging":
		// how staging files really disappear: Receiver.SweepStaging deletes every listed object (the
		// "<path>.part" files included) with Backend.Delete(obj.Path); Receiver.promote / Receive call
		// Backend.Delete(partSuffix(path))
		return be.Delete(ctx, histKey+".part")
	case "StatFile":
		_, err := be.StatFile(ctx, histKey)
		return err
	case "Exists":
		_, err := be.Exists(ctx, histKey)
		return err
	}
	panic("unknown op " + o.Kind)
}

// runHistory executes h on an empty root with a fresh backend object; the last operation runs under
// the vos recorder with the given crash point (-1 = none). The store is observed around the last
// operation only, unless trace is set (replay objects, class tokens of earlier operations).
func runHistory(root string, h []hop, crash, torn int, trace bool) histRun {
	full := filepath.Join(root, histKey)
	dir := filepath.Dir(full)
	// the partition directory exists (it is shared by every file of the hour) and is empty
	if ents, err := os.ReadDir(dir); err == nil {
		for _, e := range ents {
			os.RemoveAll(filepath.Join(dir, e.Name()))
		}
	} else {
		os.RemoveAll(root)
		os.MkdirAll(dir, 0o700)
	}
	be, err := storage.NewLocalBackend(root, zerolog.Nop())
	if err != nil {
		ev.Unbound(err.Error())
	}
	var r histRun
	r.steps = make([]stepCtx, len(h))
	for i, o := range h {
		st := &r.steps[i]
		last := i == len(h)-1
		if last || trace {
			st.FinalBefore, st.StagingBefore = readObs(full), readObs(full+".part")
		}
		if last {
			vos.Start(crash, torn)
		}
		st.Err = applyOp(be, o, 3)
		if last {
			r.ops, r.died = vos.Stop()
		}
		if last || trace {
			st.FinalAfter, st.StagingAfter = readObs(full), readObs(full+".part")
		}
	}
	return r
}

// stagingMismatchIsViolation: an AppendReader that finds a staging file which is NOT the prefix its
// caller assumed (shorter, longer, other bytes) cannot produce the intended file and must not promote.
// LocalBackend.AppendReader promotes anyway (it is given no offset to compare with); that is reported
// as a finding. Setting this to false treats "the staged bytes are the assumed prefix" as a caller
// precondition instead: such histories are still executed and counted
// (history_appends_onto_unexpected_staging_that_promoted) but not reported.
const stagingMismatchIsViolation = true

func unexpectedStaging(o hop, st stepCtx) bool {
	return o.Kind == "AppendReader" && st.StagingBefore.Exists && !bytes.Equal(st.StagingBefore.Data, histContents[o.C][:o.K])
}

// verdict applies the oracle to the last operation. kind=="" means the property holds.
func verdict(o hop, st stepCtx) (kind string) {
	if st.FinalAfter.equal(st.FinalBefore) {
		return ""
	}
	if !stagingMismatchIsViolation && unexpectedStaging(o, st) {
		return ""
	}
	if st.FinalBefore.Exists && completeness(st.FinalBefore) != "complete-file" {
		// the history is already past a violation (reported for the shorter history that caused it)
		return ""
	}
	switch o.Kind {
	case "Write", "WriteReader", "AppendReader":
		if st.FinalAfter.Exists && bytes.Equal(st.FinalAfter.Data, histContents[o.C]) {
			return ""
		}
	case "Delete":
		if !st.FinalAfter.Exists {
			return ""
		}
	}
	before := "final-was-absent"
	if st.FinalBefore.Exists {
		before = "replacing-" + completeness(st.FinalBefore)
	}
	if !st.FinalAfter.Exists {
		return "final-file-lost(" + completeness(st.FinalBefore) + ")"
	}
	return "non-intended-content-under-final-name(" + before + ")"
}

func completeness(f fileObs) string {
	for _, d := range histContents {
		if bytes.Equal(f.Data, d) {
			return "complete-file"
		}
	}
	return "damaged-file"
}

// token abstracts an operation AS IT MET THE STORE for the class signature: its own content is called
// P, offsets become the relation between the staging file it found and the prefix its caller assumed.
func token(o hop, st stepCtx) string {
	pos := func(v int) string {
		if v == 0 {
			return "0"
		}
		return ">0"
	}
	switch o.Kind {
	case "Write", "WriteReader":
		return o.Kind + "(P)"
	case "WriteReaderFails":
		return "WriteReader(P)-fails-after-j" + pos(o.J)
	case "AppendReader", "AppendReaderFails":
		data := histContents[o.C]
		s := st.StagingBefore
		rel := "absent"
		switch {
		case !s.Exists:
		case bytes.Equal(s.Data, data[:o.K]):
			rel = "is-the-assumed-prefix"
		case len(s.Data) < o.K && bytes.HasPrefix(data, s.Data):
			rel = "shorter-than-assumed"
		case len(s.Data) > o.K && bytes.HasPrefix(data, s.Data):
			rel = "longer-than-assumed"
		default:
			rel = "other-bytes"
		}
		t := "AppendReader(P-tail,staging-" + rel + ")"
		if o.Kind == "AppendReaderFails" {
			t += "-fails-after-j" + pos(o.J)
		}
		return t
	}
	return o.Kind
}

type histFailure struct {
	kind  string
	h     []hop
	crash int // -1: the complete (crash-free) run violates
	torn  int
	op    vos.Op
	st    stepCtx
}

// checkHistory runs h crash-free and, unless that already violates, at every crash point of its last
// operation. It returns the first failure (crash-free first), the number of crash states executed and
// the crash-free run.
func checkHistory(root string, h []hop, wantKind string, cnt map[string]int64, trace bool) (*histFailure, histRun) {
	last := h[len(h)-1]
	r0 := runHistory(root, h, -1, -1, trace)
	if cnt != nil {
		cnt["hist_runs"]++
	}
	st0 := r0.steps[len(h)-1]
	if k := verdict(last, st0); k != "" && (wantKind == "" || k == wantKind) {
		return &histFailure{kind: k, h: h, crash: -1, torn: -1, st: st0}, r0
	}
	for k, op := range r0.ops {
		torns := []int{-1}
		if op.Kind == "write" && op.Len > 1 {
			if op.Len <= 64 {
				for t := 1; t < op.Len; t++ {
					torns = append(torns, t)
				}
			} else {
				torns = append(torns, 1, op.Len/2, op.Len-1)
			}
		}
		for _, torn := range torns {
			r := runHistory(root, h, k, torn, false)
			if cnt != nil {
				cnt["hist_runs"]++
				cnt["hist_crash_states"]++
			}
			if !r.died {
				return &histFailure{kind: "crash-point-not-reached", h: h, crash: k, torn: torn, op: op, st: r.steps[len(h)-1]}, r0
			}
			st := r.steps[len(h)-1]
			if kd := verdict(last, st); kd != "" && (wantKind == "" || kd == wantKind) {
				return &histFailure{kind: kd, h: h, crash: k, torn: torn, op: op, st: st}, r0
			}
		}
	}
	return nil, r0
}

// sig is the class signature of a failure: kind of damage (incl. what the final path held before),
// the last operation as it met the store, what the final path holds now, and where the run stopped.
func (f *histFailure) sig() string {
	if f.kind == "crash-point-not-reached" {
		return "history|crash-point-not-reached"
	}
	last := f.h[len(f.h)-1]
	at := "complete-run"
	if f.crash >= 0 {
		at = "crash-before-" + f.op.Kind
		if f.torn > 0 {
			at = "crash-inside-write"
		}
	}
	// coarse shape of what the final path holds: one slice of one content (tail(P), prefix(Q), ...) or
	// slices of several transfers spliced together; the exact slices are in the replay object
	shape := f.st.FinalAfter.describe(false, relName(last))
	if strings.Contains(shape, "+") {
		shape = "spliced"
	}
	return fmt.Sprintf("history|%s|%s|final=%s|at=%s", f.kind, token(last, f.st), shape, at)
}

// reportHistory minimises the failing history (the last operation stays, earlier ones are dropped
// while a failure of the same class remains) and records one class.
func reportHistory(run *ev.Run, root string, f *histFailure) {
	want := f.sig()
	if f.kind == "crash-point-not-reached" {
		run.Violate(want, "replaying the same history did not reach the recorded file-system call", map[string]any{"history": fmt.Sprint(f.h), "k": f.crash})
		return
	}
	idx := make([]int, len(f.h)-1)
	for i := range idx {
		idx[i] = i
	}
	build := func(keep []int) []hop {
		var h []hop
		for _, i := range keep {
			h = append(h, f.h[i])
		}
		return append(h, f.h[len(f.h)-1])
	}
	same := func(h []hop) (*histFailure, histRun) {
		g, r0 := checkHistory(root, h, f.kind, nil, true)
		if g != nil && g.sig() != want {
			g = nil
		}
		return g, r0
	}
	keep := ev.Minimize(idx, func(c []int) bool {
		g, _ := same(build(c))
		return g != nil
	})
	mh := build(keep)
	g, r0 := same(mh)
	if g == nil { // Minimize only accepts failing candidates, so this is the un-minimised history
		mh = f.h
		if g, r0 = same(mh); g == nil {
			ev.Nondeterminism("history " + fmt.Sprint(f.h) + " violated once (" + want + ") and not again")
		}
	}
	desc := "after the last operation of the history the final path holds neither what it held before nor the complete content that operation's caller intended"
	if strings.HasPrefix(g.kind, "final-file-lost") {
		desc = "the last operation of the history (not a Delete) removed the file at the final path"
	}
	var steps []map[string]any
	var concrete []string
	for i, o := range mh {
		st := r0.steps[i]
		if i == len(mh)-1 {
			st = g.st
		}
		concrete = append(concrete, o.String())
		steps = append(steps, map[string]any{"op": o.String(), "err": fmt.Sprint(st.Err),
			"final_before": st.FinalBefore.describe(true, plainName), "staging_before": st.StagingBefore.describe(true, plainName),
			"final_after": st.FinalAfter.describe(true, plainName), "staging_after": st.StagingAfter.describe(true, plainName)})
	}
	run.Violate(want, desc, map[string]any{
		"contents": map[string]string{"P": string(histContents[0]), "Q": string(histContents[1])}, "key": histKey,
		"minimal_history": concrete, "found_in_history": fmt.Sprint(f.h), "steps": steps,
		"crash_at_fs_call_of_last_op": g.crash, "torn_bytes": g.torn, "crash_before": g.op,
		"final_path_bytes": string(g.st.FinalAfter.Data), "last_operation": mh[len(mh)-1].String()})
}

// histPlan: which histories a tier enumerates. quick: every history of 1..3 operations over the
// level-1 alphabet. thorough: every history of 1..3 operations over the level-2 (full) alphabet, then
// every history of exactly 4 operations over the level-0 alphabet.
type histPlan struct {
	Alphabet       []hop
	MinLen, MaxLen int
}

func histPlans(quick bool) []histPlan {
	if quick {
		return []histPlan{{histAlphabet(1), 1, 3}}
	}
	return []histPlan{{histAlphabet(2), 1, 3}, {histAlphabet(0), 4, 4}}
}

func describePlans(ps []histPlan) (text string, alphabets [][]string) {
	var parts []string
	for _, p := range ps {
		var names []string
		for _, o := range p.Alphabet {
			names = append(names, o.String())
		}
		alphabets = append(alphabets, names)
		parts = append(parts, fmt.Sprintf("every sequence of %d..%d operations over a %d-symbol alphabet", p.MinLen, p.MaxLen, len(p.Alphabet)))
	}
	return strings.Join(parts, " + "), alphabets
}

// forEachHistory enumerates the plan's histories shortest first, in a fixed order; idx continues from start.
func forEachHistory(p histPlan, start int, f func(idx int, h []hop) bool) (next int, completed bool) {
	idx := start
	for n := p.MinLen; n <= p.MaxLen; n++ {
		cur := make([]hop, n)
		var rec func(pos int) bool
		rec = func(pos int) bool {
			if pos == n {
				ok := f(idx, cur)
				idx++
				return ok
			}
			for _, o := range p.Alphabet {
				cur[pos] = o
				if !rec(pos + 1) {
					return false
				}
			}
			return true
		}
		if !rec(0) {
			return idx, false
		}
	}
	return idx, true
}

// historyWorker is the body of one shard process (vos is process-global).
func historyWorker(run *ev.Run, shard, shards int) {
	root := filepath.Join(scratch, "hist")
	cnt := map[string]int64{}
	samples := ev.NewSamples(1)
	complete := true
	preMin := map[string]bool{}
	visit := func(idx int, h []hop) bool {
		if idx%shards != shard {
			return true
		}
		if cnt["hist_histories"]%256 == 0 && run.TimeUp() {
			complete = false
			return false
		}
		cnt["hist_histories"]++
		f, r0 := checkHistory(root, h, "", cnt, false)
		last := h[len(h)-1]
		st := r0.steps[len(h)-1]
		if len(r0.ops) > 0 {
			cnt["hist_with_crash_points"]++
		}
		// vacuity counters: what the complete run of the last operation did
		switch {
		case strings.HasPrefix(last.Kind, "AppendReader") && st.Err != nil:
			cnt["hist_append_refused_or_failed"]++
		case last.Kind == "AppendReader" && !st.FinalAfter.equal(st.FinalBefore) && bytes.Equal(st.FinalAfter.Data, histContents[last.C]):
			cnt["hist_append_promoted_complete_file"]++
		}
		if !st.FinalAfter.equal(st.FinalBefore) {
			cnt["hist_last_op_changed_final"]++
			if unexpectedStaging(last, st) && !bytes.Equal(st.FinalAfter.Data, histContents[last.C]) {
				cnt["hist_append_onto_unexpected_staging_promoted"]++
			}
		}
		if st.FinalBefore.Exists && completeness(st.FinalBefore) != "complete-file" {
			cnt["hist_beyond_a_reported_violation"]++
		}
		cnt["outcome|"+token(last, st)+"|"+st.FinalBefore.describe(false, relName(last))+"->"+st.FinalAfter.describe(false, relName(last))+"|err="+fmt.Sprint(st.Err != nil)]++
		if shard == 0 && len(h) == 3 && h[0].Kind == "WriteReaderFails" && last.Kind == "AppendReader" && st.Err == nil && !st.FinalAfter.equal(st.FinalBefore) && bytes.Equal(st.FinalAfter.Data, histContents[last.C]) {
			samples.Add(map[string]any{"history": fmt.Sprint(h), "fs_ops_of_last_operation": r0.ops, "final": st.FinalAfter.describe(true, plainName)})
		}
		if f != nil {
			cnt["hist_raw_failures"]++
			// minimise the first instance of each class; further instances are only counted
			key := f.sig()
			if !preMin[key] {
				preMin[key] = true
				reportHistory(run, root, f)
			} else {
				run.Violate(key, "", nil)
			}
		}
		return true
	}
	next := 0
	for _, p := range histPlans(run.Quick()) {
		var ok bool
		if next, ok = forEachHistory(p, next, visit); !ok {
			break
		}
	}
	os.RemoveAll(scratch)
	run.FinishShard(cnt, samples.List(), complete)
}
