// C13 — Backup then restore reproduces the data or reports failure.
//
// The REAL backup.Manager (CreateBackup / RestoreBackup) is driven over small storage trees through a
// fault-injecting storage.Backend wrapper (faultBackend, below) placed around both the data store and
// the backup store. For every tree, EVERY set of faults over files x {read-fail at backup, write-fail
// at backup, read-fail at restore, write-fail at restore} (within the stated size bound) is executed:
// backup from the faulted data store, then — when the backup completed — restore into EMPTY storage.
//
// Oracle (exactly the property statement):
//   - a restore that reports success (nil error or progress status "completed") has reproduced every
//     file the backup holds, byte-for-byte, at its original path;
//   - a restore without any injected restore fault reports success (and so, with no fault at all, the
//     whole tree is reproduced);
//   - a completed backup that lacks a file of the tree records that in its manifest (SkippedFiles > 0),
//     and the bytes it does hold equal the source bytes.
package main

import (
	"bytes"
	"context"
	"errors"
	"fmt"
	"io"
	"os"
	"os/signal"
	"path/filepath"
	"runtime/pprof"
	"sort"
	"strings"
	"sync"
	"sync/atomic"
	"syscall"
	"time"

	"github.com/basekick-labs/arc/internal/backup"
	"github.com/basekick-labs/arc/internal/storage"
	"github.com/basekick-labs/arc/zzverif/engine/ev"
	"github.com/rs/zerolog"
)

// ---------------------------------------------------------------- fault alphabet

const (
	kBR = iota // data-store read of file f fails during backup
	kBW        // backup-store write of <id>/data/f fails during backup
	kRR        // backup-store read of <id>/data/f fails during restore
	kRW        // data-store write of f fails during restore
)

var kindName = [4]string{"backup-read-fail", "backup-write-fail", "restore-read-fail", "restore-write-fail"}

type fault struct {
	Kind int
	File int
	Once bool // transient: only the FIRST read/write of that file fails; a retry of the same operation succeeds
}

func isBackupPhase(k int) bool { return k == kBR || k == kBW }

var errInjected = errors.New("verif: injected storage fault")

// faultBackend wraps a real storage.Backend. Read/ReadTo/ReadToAt and Write/WriteReader of the chosen
// files fail with errInjected — either before touching anything ("early") or after half of the bytes
// moved ("partial": the real backend sees a reader that breaks mid-stream / the writer received a prefix).
// Everything else (List, ListObjects, Delete, Exists, StatFile, …) is forwarded untouched.
type faultBackend struct {
	storage.Backend
	key       func(path string) (int, bool) // storage path -> file index of the tree
	readFail  map[int]bool
	writeFail map[int]bool
	readOnce  map[int]bool // subset of readFail / writeFail that fails only once
	writeOnce map[int]bool
	mu        sync.Mutex
	done      map[[2]int]bool // (0 read | 1 write, file) -> the one-shot fault has fired
	partial   bool
	fired     *int64
	rKind     int // which fault kind a read / write hit of this wrapper is (for the per-kind vacuity counters)
	wKind     int
}

// spent reports (and records) whether a one-shot fault of this file has already fired.
func (b *faultBackend) spent(rw, i int, once bool) bool {
	if !once {
		return false
	}
	b.mu.Lock()
	defer b.mu.Unlock()
	if b.done == nil {
		b.done = map[[2]int]bool{}
	}
	if b.done[[2]int{rw, i}] {
		return true
	}
	b.done[[2]int{rw, i}] = true
	return false
}

var firedByKind [4]int64

func (b *faultBackend) hitR(path string) bool {
	if i, ok := b.key(path); ok && b.readFail[i] && !b.spent(0, i, b.readOnce[i]) {
		atomic.AddInt64(b.fired, 1)
		atomic.AddInt64(&firedByKind[b.rKind], 1)
		return true
	}
	return false
}
func (b *faultBackend) hitW(path string) bool {
	if i, ok := b.key(path); ok && b.writeFail[i] && !b.spent(1, i, b.writeOnce[i]) {
		atomic.AddInt64(b.fired, 1)
		atomic.AddInt64(&firedByKind[b.wKind], 1)
		return true
	}
	return false
}

func (b *faultBackend) Read(ctx context.Context, path string) ([]byte, error) {
	if b.hitR(path) {
		return nil, fmt.Errorf("read %s: %w", path, errInjected)
	}
	return b.Backend.Read(ctx, path)
}

func (b *faultBackend) ReadTo(ctx context.Context, path string, w io.Writer) error {
	if b.hitR(path) {
		if b.partial {
			if data, err := b.Backend.Read(ctx, path); err == nil {
				w.Write(data[:len(data)/2])
			}
		}
		return fmt.Errorf("read %s: %w", path, errInjected)
	}
	return b.Backend.ReadTo(ctx, path, w)
}

func (b *faultBackend) ReadToAt(ctx context.Context, path string, w io.Writer, off int64) error {
	if b.hitR(path) {
		return fmt.Errorf("read %s: %w", path, errInjected)
	}
	return b.Backend.ReadToAt(ctx, path, w, off)
}

func (b *faultBackend) Write(ctx context.Context, path string, data []byte) error {
	if b.hitW(path) {
		return fmt.Errorf("write %s: %w", path, errInjected)
	}
	return b.Backend.Write(ctx, path, data)
}

type breakingReader struct {
	r io.Reader
}

func (r *breakingReader) Read(p []byte) (int, error) {
	n, err := r.r.Read(p)
	if err == io.EOF {
		return n, errInjected
	}
	return n, err
}

func (b *faultBackend) WriteReader(ctx context.Context, path string, rd io.Reader, size int64) error {
	if b.hitW(path) {
		if b.partial {
			// the real backend receives half of the bytes and then a transport error
			err := b.Backend.WriteReader(ctx, path, &breakingReader{io.LimitReader(rd, size/2)}, size)
			if err == nil {
				err = errInjected
			}
			return fmt.Errorf("write %s: %w", path, err)
		}
		return fmt.Errorf("write %s: %w", path, errInjected)
	}
	return b.Backend.WriteReader(ctx, path, rd, size)
}

// ListObjects keeps the wrapped data store usable as a storage.ObjectLister (CreateBackup needs it).
func (b *faultBackend) ListObjects(ctx context.Context, prefix string) ([]storage.ObjectInfo, error) {
	l, ok := b.Backend.(storage.ObjectLister)
	if !ok {
		return nil, errors.New("wrapped backend is not an ObjectLister")
	}
	return l.ListObjects(ctx, prefix)
}

// ---------------------------------------------------------------- storage trees (generator ground truth)

type fileSpec struct {
	Path string `json:"path"`
	Role string `json:"role"`
	Data []byte `json:"-"`
}

type tree struct {
	Name  string
	Files []fileSpec
}

func pq(seed byte, n int) []byte {
	b := []byte("PAR1")
	for i := 0; i < n; i++ {
		b = append(b, byte(i*7)+seed, 0x00, 0xff, '\n')
	}
	return append(b, "PAR1"...)
}

func canonicalFile(i int) fileSpec {
	return fileSpec{fmt.Sprintf("db1/cpu/2024/01/15/1%d/f%d.parquet", i%10, i), "parquet", pq(byte(i), 20)}
}

func buildTrees(thorough bool) []*tree {
	meta := []byte(`{"format-version":2,"table-uuid":"7e5c","location":"ice_db1.db/cpu","current-snapshot-id":1}` + "\n")
	t5 := &tree{"T5", []fileSpec{
		{"db1/cpu/2024/01/15/10/a.parquet", "parquet", pq(1, 20)},
		{"db1/cpu/2024/01/15/11/b.parquet", "parquet-large", pq(2, 17500)}, // 70 008 bytes: > 2 io.Copy buffers
		{"db2/mem/2024/02/01/00/c.parquet", "parquet", pq(3, 33)},
		{"db2/mem/2024/02/01/00/empty.parquet", "empty-parquet", []byte{}},
		{"ice_db1.db/cpu/metadata/v1.metadata.json", "iceberg-json", meta},
	}}
	t4 := &tree{"T4", []fileSpec{
		{"db1/cpu/2024/01/15/10/a.parquet", "parquet", pq(4, 9)},
		{"db1/disk/2023/12/31/23/z.parquet", "parquet", pq(5, 11)},
		{"ice_db1.db/cpu/metadata/snap-1.avro", "iceberg-avro", []byte("Obj\x01\x04\x00avro\xff\xfe")},
		{"ice_db1.db/cpu/metadata/version-hint.text", "iceberg-hint", []byte("1")},
	}}
	t1 := &tree{"T1", []fileSpec{{"db1/cpu/2024/01/15/10/a.parquet", "parquet", pq(6, 5)}}}
	t0 := &tree{"T0", nil}
	wide := func(name string, n int) *tree {
		t := &tree{Name: name}
		// 2 databases x 2 measurements x hours, then one 0-byte file and one Iceberg metadata file
		for i := 0; len(t.Files) < n-2; i++ {
			db := []string{"db1", "db2"}[i%2]
			ms := []string{"cpu", "mem"}[(i/2)%2]
			t.Files = append(t.Files, fileSpec{fmt.Sprintf("%s/%s/2024/03/0%d/%02d/w%d.parquet", db, ms, 1+i%3, i%24, i), "parquet", pq(byte(10+i), 6+i)})
		}
		t.Files = append(t.Files, fileSpec{"db2/mem/2024/03/01/05/empty.parquet", "empty-parquet", []byte{}})
		t.Files = append(t.Files, fileSpec{"ice_db2.db/mem/metadata/v3.metadata.json", "iceberg-json", meta})
		return t
	}
	ts := []*tree{t0, t1, t4, t5, wide("T10", 10)}
	if thorough {
		ts = append(ts, wide("T7", 7), wide("T20", 20))
	}
	return ts
}

// ---------------------------------------------------------------- executing one backup / one restore

var nop = zerolog.Nop()

func faultMaps(fs []fault, rk, wk int) (map[int]bool, map[int]bool) {
	r, w := map[int]bool{}, map[int]bool{}
	for _, f := range fs {
		if f.Kind == rk {
			r[f.File] = true
		}
		if f.Kind == wk {
			w[f.File] = true
		}
	}
	return r, w
}

func dataKey(t *tree) func(string) (int, bool) {
	m := map[string]int{}
	for i, f := range t.Files {
		m[f.Path] = i
	}
	return func(p string) (int, bool) {
		i, ok := m[filepath.ToSlash(p)]
		return i, ok
	}
}

// backup-store paths are <backupID>/data/<original path>
func backupKey(t *tree) func(string) (int, bool) {
	dk := dataKey(t)
	return func(p string) (int, bool) {
		p = filepath.ToSlash(p)
		k := strings.Index(p, "/data/")
		if k < 0 || strings.Contains(p[:k], "/") {
			return 0, false
		}
		return dk(p[k+len("/data/"):])
	}
}

func onceMaps(fs []fault, rk, wk int) (map[int]bool, map[int]bool) {
	r, w := map[int]bool{}, map[int]bool{}
	for _, f := range fs {
		if f.Once && f.Kind == rk {
			r[f.File] = true
		}
		if f.Once && f.Kind == wk {
			w[f.File] = true
		}
	}
	return r, w
}

func newManager(t *tree, dataDir, backupDir string, fs []fault, dataR, dataW, bkR, bkW map[int]bool, partial bool, fired *int64) *backup.Manager {
	dataRO, dataWO := onceMaps(fs, kBR, kRW)
	bkRO, bkWO := onceMaps(fs, kRR, kBW)
	local, err := storage.NewLocalBackend(dataDir, nop)
	if err != nil {
		ev.Unbound("NewLocalBackend: " + err.Error())
	}
	ds := &faultBackend{Backend: local, key: dataKey(t), readFail: dataR, writeFail: dataW, readOnce: dataRO, writeOnce: dataWO, partial: partial, fired: fired, rKind: kBR, wKind: kRW}
	m, err := backup.NewManager(&backup.ManagerConfig{DataStorage: ds, BackupPath: backupDir, Logger: nop})
	if err != nil {
		ev.Unbound("backup.NewManager: " + err.Error())
	}
	m.VerifWrapBackupStorage(func(inner storage.Backend) storage.Backend {
		return &faultBackend{Backend: inner, key: backupKey(t), readFail: bkR, writeFail: bkW, readOnce: bkRO, writeOnce: bkWO, partial: partial, fired: fired, rKind: kRR, wKind: kBW}
	})
	return m
}

type backupObs struct {
	Err             string `json:"err"`
	Status          string `json:"status"`
	Completed       bool   `json:"completed"`
	ID              string `json:"-"`
	ManifestOnDisk  bool   `json:"manifest_on_disk"`
	ManifestSkipped int64  `json:"manifest_skipped_files"`
	Held            []int  `json:"held"` // per file: 0 absent from the backup, 1 present and identical, 2 present but different bytes
	Fired           int64  `json:"faults_fired"`
}

func fileState(path string, want []byte) int {
	got, err := os.ReadFile(path)
	if err != nil {
		return 0
	}
	if bytes.Equal(got, want) {
		return 1
	}
	return 2
}

// runBackup materialises the tree under dir/data and runs the real CreateBackup into dir/backup.
func runBackup(t *tree, fs []fault, partial bool, dir string) backupObs {
	dataDir, backupDir := filepath.Join(dir, "data"), filepath.Join(dir, "backup")
	for _, f := range t.Files {
		p := filepath.Join(dataDir, filepath.FromSlash(f.Path))
		if err := os.MkdirAll(filepath.Dir(p), 0o755); err != nil {
			ev.Unbound("scratch: " + err.Error())
		}
		if err := os.WriteFile(p, f.Data, 0o644); err != nil {
			ev.Unbound("scratch: " + err.Error())
		}
	}
	var o backupObs
	dr, _ := faultMaps(fs, kBR, -1)
	_, bw := faultMaps(fs, -1, kBW)
	m := newManager(t, dataDir, backupDir, fs, dr, nil, nil, bw, partial, &o.Fired)
	res, err := m.CreateBackup(context.Background(), backup.BackupOptions{})
	if err != nil {
		o.Err = err.Error()
	}
	if p := m.GetProgress(); p != nil {
		o.Status = p.Status
		o.ID = p.BackupID
	}
	o.Completed = err == nil && res != nil && res.Manifest != nil
	if o.Completed {
		o.ID = res.Manifest.BackupID
	}
	o.Held = make([]int, len(t.Files))
	if o.ID != "" {
		if b, err := os.ReadFile(filepath.Join(backupDir, o.ID, "manifest.json")); err == nil {
			if mf, err := backup.UnmarshalManifest(b); err == nil {
				o.ManifestOnDisk = true
				o.ManifestSkipped = mf.SkippedFiles
			}
		}
		for i, f := range t.Files {
			o.Held[i] = fileState(filepath.Join(backupDir, o.ID, "data", filepath.FromSlash(f.Path)), f.Data)
		}
	}
	return o
}

type restoreObs struct {
	Err      string `json:"err"`
	Status   string `json:"status"`
	Success  bool   `json:"reported_success"`
	Restored []int  `json:"restored"` // per file: 0 absent, 1 identical to the original, 2 different bytes
	Fired    int64  `json:"faults_fired"`
}

// runRestore restores backup id (held in backupDir) into the EMPTY directory restoreDir.
func runRestore(t *tree, fs []fault, partial bool, backupDir, id, restoreDir string) restoreObs {
	var o restoreObs
	br, _ := faultMaps(fs, kRR, -1)
	_, dw := faultMaps(fs, -1, kRW)
	m := newManager(t, restoreDir, backupDir, fs, nil, dw, br, nil, partial, &o.Fired)
	_, err := m.RestoreBackup(context.Background(), backup.RestoreOptions{BackupID: id, RestoreData: true})
	if err != nil {
		o.Err = err.Error()
	}
	if p := m.GetProgress(); p != nil {
		o.Status = p.Status
	}
	// what an operator sees: the API logs the error and serves the progress status
	o.Success = err == nil || o.Status == "completed"
	o.Restored = make([]int, len(t.Files))
	for i, f := range t.Files {
		o.Restored[i] = fileState(filepath.Join(restoreDir, filepath.FromSlash(f.Path)), f.Data)
	}
	return o
}

// ---------------------------------------------------------------- oracle

func countKind(fs []fault, backupPhase bool) int {
	n := 0
	for _, f := range fs {
		if isBackupPhase(f.Kind) == backupPhase {
			n++
		}
	}
	return n
}

func judgeBackup(fs []fault, o backupObs) []string {
	var v []string
	if countKind(fs, true) == 0 && !o.Completed {
		v = append(v, "backup-failed-without-fault")
	}
	if o.Completed {
		missing, altered := 0, 0
		for _, h := range o.Held {
			if h == 0 {
				missing++
			}
			if h == 2 {
				altered++
			}
		}
		if missing > 0 && o.ManifestSkipped == 0 {
			v = append(v, "backup-incomplete-not-recorded")
		}
		if altered > 0 {
			v = append(v, "backup-file-altered")
		}
	}
	return v
}

func judgeRestore(fs []fault, b backupObs, o restoreObs) []string {
	var v []string
	if countKind(fs, false) == 0 && !o.Success {
		v = append(v, "restore-failed-without-fault")
	}
	if o.Success {
		missing, altered := 0, 0
		for i, h := range b.Held {
			if h == 0 {
				continue // not a backed-up file
			}
			switch o.Restored[i] {
			case 0:
				missing++
			case 2:
				if h == 1 { // a file the backup itself altered is reported by judgeBackup
					altered++
				}
			}
		}
		if missing > 0 {
			v = append(v, "restore-success-file-not-restored")
		}
		if altered > 0 {
			v = append(v, "restore-success-file-altered")
		}
	}
	return v
}

// ---------------------------------------------------------------- a complete case (used for minimisation / replay)

type kase struct {
	T        *tree
	F        []fault
	PartialB bool
	PartialR bool
}

var (
	scratch string
	dirSeq  int64
)

func newDir() string {
	d := filepath.Join(scratch, fmt.Sprintf("c%d", atomic.AddInt64(&dirSeq, 1)))
	if err := os.MkdirAll(d, 0o755); err != nil {
		ev.Unbound("scratch: " + err.Error())
	}
	return d
}

func split(fs []fault) (b, r []fault) {
	for _, f := range fs {
		if isBackupPhase(f.Kind) {
			b = append(b, f)
		} else {
			r = append(r, f)
		}
	}
	return
}

func execCase(c kase) (kinds []string, bo backupObs, ro *restoreObs) {
	dir := newDir()
	defer os.RemoveAll(dir)
	bf, rf := split(c.F)
	bo = runBackup(c.T, bf, c.PartialB, dir)
	kinds = judgeBackup(bf, bo)
	if bo.Completed {
		r := runRestore(c.T, rf, c.PartialR, filepath.Join(dir, "backup"), bo.ID, filepath.Join(dir, "restore"))
		ro = &r
		kinds = append(kinds, judgeRestore(rf, bo, r)...)
	}
	return
}

func has(kinds []string, k string) bool {
	for _, x := range kinds {
		if x == k {
			return true
		}
	}
	return false
}

func atom(c kase, f fault) string {
	n := kindName[f.Kind]
	if (isBackupPhase(f.Kind) && c.PartialB) || (!isBackupPhase(f.Kind) && c.PartialR) {
		n += "-partial"
	}
	if f.Once {
		n += "-once"
	}
	return n + "(" + c.T.Files[f.File].Role + ")"
}

func atoms(c kase) []string {
	var a []string
	for _, f := range c.F {
		a = append(a, atom(c, f))
	}
	sort.Strings(a)
	return a
}

// ddmin = ev.Minimize plus the empty set (ev.Minimize leaves a 1-element list alone).
func ddmin(idx []int, fails func([]int) bool) []int {
	if len(idx) == 0 || fails(nil) {
		return nil
	}
	return ev.Minimize(idx, fails)
}

// minimise: ddmin over the fault list, drop unfaulted files, prefer "early" faults, replace each remaining
// file by the plainest one (small parquet) — every step keeps the same oracle kind failing on the real code.
func minimise(c kase, kind string, execs *int64) kase {
	fails := func(x kase) bool {
		atomic.AddInt64(execs, 1)
		k, _, _ := execCase(x)
		return has(k, kind)
	}
	idx := make([]int, len(c.F))
	for i := range idx {
		idx[i] = i
	}
	keep := ddmin(idx, func(sub []int) bool {
		x := c
		x.F = nil
		for _, i := range sub {
			x.F = append(x.F, c.F[i])
		}
		return fails(x)
	})
	cur := c
	cur.F = nil
	for _, i := range keep {
		cur.F = append(cur.F, c.F[i])
	}
	// drop files that carry no fault
	for i := len(cur.T.Files) - 1; i >= 0; i-- {
		used := false
		for _, f := range cur.F {
			if f.File == i {
				used = true
			}
		}
		if used {
			continue
		}
		nt := &tree{Name: cur.T.Name + "'"}
		nt.Files = append(append([]fileSpec{}, cur.T.Files[:i]...), cur.T.Files[i+1:]...)
		x := cur
		x.T = nt
		x.F = nil
		for _, f := range cur.F {
			if f.File > i {
				f.File--
			}
			x.F = append(x.F, f)
		}
		if fails(x) {
			cur = x
		}
	}
	for i := range cur.F {
		if cur.F[i].Once { // prefer the persistent form of a fault when the failure does not need a successful retry
			x := cur
			x.F = append([]fault{}, cur.F...)
			x.F[i].Once = false
			if fails(x) {
				cur = x
			}
		}
	}
	if cur.PartialB {
		x := cur
		x.PartialB = false
		if countKind(cur.F, true) == 0 || fails(x) {
			cur = x
		}
	}
	if cur.PartialR {
		x := cur
		x.PartialR = false
		if countKind(cur.F, false) == 0 || fails(x) {
			cur = x
		}
	}
	for i := range cur.T.Files {
		if cur.T.Files[i].Role == "parquet" {
			continue
		}
		nt := &tree{Name: cur.T.Name + "'", Files: append([]fileSpec{}, cur.T.Files...)}
		nt.Files[i] = canonicalFile(i)
		x := cur
		x.T = nt
		if fails(x) {
			cur = x
			continue
		}
		// an Iceberg metadata file that cannot become a data file: at least make it the plainest Iceberg one
		if strings.HasPrefix(cur.T.Files[i].Role, "iceberg-") && cur.T.Files[i].Role != "iceberg-json" {
			nt = &tree{Name: cur.T.Name + "'", Files: append([]fileSpec{}, cur.T.Files...)}
			nt.Files[i] = fileSpec{fmt.Sprintf("ice_db1.db/cpu/metadata/v%d.metadata.json", i), "iceberg-json", []byte(`{"format-version":2}`)}
			x.T = nt
			if fails(x) {
				cur = x
			}
		}
	}
	return cur
}

func describe(c kase, bo backupObs, ro *restoreObs) map[string]any {
	type fo struct {
		Path string `json:"path"`
		Role string `json:"role"`
		Size int    `json:"size"`
	}
	var files []fo
	for _, f := range c.T.Files {
		files = append(files, fo{f.Path, f.Role, len(f.Data)})
	}
	var fl []string
	for _, f := range c.F {
		fl = append(fl, kindName[f.Kind]+":"+c.T.Files[f.File].Path)
	}
	m := map[string]any{"tree": files, "faults": fl, "fault_mode_backup": mode(c.PartialB), "fault_mode_restore": mode(c.PartialR), "backup": bo}
	if ro != nil {
		m["restore"] = *ro
	}
	return m
}

func mode(p bool) string {
	if p {
		return "partial"
	}
	return "early"
}

// ---------------------------------------------------------------- violation classes

type classifier struct {
	mu    sync.Mutex
	run   *ev.Run
	memo  []memoEnt // (oracle kind, atoms of a fault-minimal raw case) -> signature
	execs int64
	mins  int64
}

type memoEnt struct {
	kind  string
	atoms []string
	sig   string
}

func subset(small, big []string) bool {
	set := map[string]int{}
	for _, b := range big {
		set[b]++
	}
	for _, s := range small {
		if set[s] == 0 {
			return false
		}
		set[s]--
	}
	return true
}

func (cl *classifier) report(c kase, kind string) {
	cl.mu.Lock()
	defer cl.mu.Unlock()
	raw := atoms(c)
	for _, e := range cl.memo {
		// a raw case that contains an already minimised trigger of the same oracle kind belongs to that class
		// (the other faults alone are separate elements of the enumerated space and are classified there)
		if e.kind == kind && subset(e.atoms, raw) {
			cl.run.Violate(e.sig, "", nil)
			return
		}
	}
	cl.mins++
	// first: fault-minimal form of the raw case (its atoms key the memo), then the fully canonical form
	fm := c
	idx := make([]int, len(c.F))
	for i := range idx {
		idx[i] = i
	}
	keep := ddmin(idx, func(sub []int) bool {
		x := c
		x.F = nil
		for _, i := range sub {
			x.F = append(x.F, c.F[i])
		}
		atomic.AddInt64(&cl.execs, 1)
		k, _, _ := execCase(x)
		return has(k, kind)
	})
	fm.F = nil
	for _, i := range keep {
		fm.F = append(fm.F, c.F[i])
	}
	min := minimise(fm, kind, &cl.execs)
	// replay twice: identical observations or the harness is not in control
	k1, bo, ro := execCase(min)
	k2, bo2, ro2 := execCase(min)
	if !has(k1, kind) || !has(k2, kind) || fmt.Sprint(bo.Held, bo.Completed, bo.ManifestSkipped) != fmt.Sprint(bo2.Held, bo2.Completed, bo2.ManifestSkipped) ||
		(ro == nil) != (ro2 == nil) || (ro != nil && fmt.Sprint(ro.Restored, ro.Success) != fmt.Sprint(ro2.Restored, ro2.Success)) {
		cleanup()
		ev.Nondeterminism(fmt.Sprintf("minimal case for %s %v does not replay identically", kind, atoms(min)))
	}
	sig := kind + "|" + signatureOf(min)
	cl.memo = append(cl.memo, memoEnt{kind, atoms(fm), sig})
	cl.run.Violate(sig, explain(kind, min, bo, ro), describe(min, bo, ro))
}

// signatureOf: the minimal fault list by kind(+mode) and file role; files that carry no fault but could not be
// dropped (the failure needs them) are named too.
func signatureOf(c kase) string {
	s := strings.Join(atoms(c), "+")
	if s == "" {
		s = "no-fault"
	}
	var needs []string
	for i, f := range c.T.Files {
		used := false
		for _, x := range c.F {
			if x.File == i {
				used = true
			}
		}
		if !used {
			needs = append(needs, f.Role)
		}
	}
	if len(needs) > 0 {
		sort.Strings(needs)
		s += "|with:" + strings.Join(needs, ",")
	}
	return s
}

func explain(kind string, c kase, bo backupObs, ro *restoreObs) string {
	switch kind {
	case "restore-success-file-not-restored":
		return fmt.Sprintf("RestoreBackup returned err=%q progress.Status=%q although a file held by the backup was not written to the restored storage (faults %v)", ro.Err, ro.Status, atoms(c))
	case "restore-success-file-altered":
		return fmt.Sprintf("RestoreBackup reported success but a restored file differs from the backed-up bytes (faults %v)", atoms(c))
	case "restore-failed-without-fault":
		return fmt.Sprintf("RestoreBackup of a completed backup into empty storage failed with no restore-side fault: err=%q status=%q", ro.Err, ro.Status)
	case "backup-failed-without-fault":
		return fmt.Sprintf("CreateBackup failed with no fault injected: err=%q", bo.Err)
	case "backup-incomplete-not-recorded":
		return fmt.Sprintf("CreateBackup completed, the backup lacks a file of the tree, and manifest.SkippedFiles=0 (faults %v)", atoms(c))
	case "backup-file-altered":
		return fmt.Sprintf("CreateBackup completed but a stored file differs from its source bytes (faults %v)", atoms(c))
	}
	return kind
}

// ---------------------------------------------------------------- enumeration

// subsets of points {0..n-1} of size <= k (k<0: all), simplest (smallest) first.
func subsets(n, k int, emit func([]int)) {
	if k < 0 || k > n {
		k = n
	}
	var rec func(start, left int, cur []int)
	rec = func(start, left int, cur []int) {
		if left == 0 {
			emit(append([]int{}, cur...))
			return
		}
		for i := start; i <= n-left; i++ {
			rec(i+1, left-1, append(cur, i))
		}
	}
	for size := 0; size <= k; size++ {
		rec(0, size, nil)
	}
}

func onceOf(fs []fault) []fault {
	o := append([]fault{}, fs...)
	for i := range o {
		o[i].Once = true
	}
	return o
}

func toFaults(pts []int, readKind, writeKind int) []fault {
	var fs []fault
	for _, p := range pts {
		k := readKind
		if p%2 == 1 {
			k = writeKind
		}
		fs = append(fs, fault{Kind: k, File: p / 2})
	}
	return fs
}

type state struct { // a completed backup, kept on disk for the restore enumeration
	T        *tree
	B        []fault
	PartialB bool
	Dir      string
	Obs      backupObs
}

type bounds struct{ kB, kR0, kRskip int } // max fault-set size: backup; restore after a fault-free backup; restore after a backup with faults (-1 = all)

func cleanup() {
	if scratch != "" {
		os.RemoveAll(scratch)
	}
}

func main() {
	run := ev.Start("C13", "fault_enumeration")
	scratch = fmt.Sprintf("/dev/shm/verif.c13.%d", os.Getpid())
	os.RemoveAll(scratch)
	if err := os.MkdirAll(filepath.Join(scratch, "tmp"), 0o755); err != nil {
		ev.Unbound("scratch: " + err.Error())
	}
	// streamBackupFile / streamRestoreFile stage through os.CreateTemp(""): keep that off /tmp
	os.Setenv("TMPDIR", filepath.Join(scratch, "tmp"))
	sigc := make(chan os.Signal, 1)
	signal.Notify(sigc, syscall.SIGINT, syscall.SIGTERM)
	go func() { <-sigc; cleanup(); os.Exit(2) }()

	if pf := os.Getenv("VERIF_CPUPROFILE"); pf != "" {
		f, _ := os.Create(pf)
		pprof.StartCPUProfile(f)
		defer pprof.StopCPUProfile()
	}
	// stay inside the wall budgets of BUILDERS.md (a capped run reports exhaustive=false)
	if os.Getenv("VERIF_DEADLINE_S") == "" {
		d := 50 * time.Second
		if !run.Quick() {
			d = 13 * time.Minute
		}
		if dl := time.Now().Add(d); dl.Before(run.Deadline) {
			run.Deadline = dl
		}
	}
	trees := buildTrees(!run.Quick())
	bound := func(t *tree) bounds {
		n := len(t.Files)
		switch {
		case n <= 7: // T0 T1 T4 T5 (and T7 in thorough): every subset, both phases
			return bounds{-1, -1, -1}
		case n <= 10:
			if run.Quick() {
				return bounds{2, 2, 1}
			}
			return bounds{4, 4, 2}
		default:
			return bounds{2, 2, 1}
		}
	}
	if run.Seed != 0 { // the seed may only permute order
		s := run.Seed % len(trees)
		trees = append(trees[s:], trees[:s]...)
	}

	cl := &classifier{run: run}
	samples := ev.NewSamples(8)
	var sampleCat sync.Map // at most 2 samples per category
	sample := func(cat string, x map[string]any) {
		n, _ := sampleCat.LoadOrStore(cat, new(int64))
		if atomic.AddInt64(n.(*int64), 1) <= 2 {
			x["category"] = cat
			samples.Add(x)
		}
	}
	var evals, nontrivial, fired, backups, restores, capped int64
	outcomes := map[string]int{}
	var omu sync.Mutex
	outcome := func(s string) { omu.Lock(); outcomes[s]++; omu.Unlock() }
	workers := 16

	// ---- stage 1: every backup-side fault set
	type btask struct {
		t       *tree
		fs      []fault
		partial bool
	}
	bch := make(chan btask, 256)
	var states []*state
	var smu sync.Mutex
	var wg sync.WaitGroup
	for w := 0; w < workers; w++ {
		wg.Add(1)
		go func() {
			defer wg.Done()
			for tk := range bch {
				if run.TimeUp() {
					atomic.StoreInt64(&capped, 1)
					continue
				}
				dir := newDir()
				o := runBackup(tk.t, tk.fs, tk.partial, dir)
				atomic.AddInt64(&evals, 1)
				atomic.AddInt64(&backups, 1)
				atomic.AddInt64(&fired, o.Fired)
				if o.Fired > 0 {
					atomic.AddInt64(&nontrivial, 1)
				}
				held := 0
				for _, h := range o.Held {
					if h == 1 {
						held++
					}
				}
				if o.Completed {
					outcome(fmt.Sprintf("backup:completed held=%d/%d manifest_skipped=%d", held, len(tk.t.Files), o.ManifestSkipped))
				} else {
					outcome("backup:failed status=" + o.Status)
				}
				for _, k := range judgeBackup(tk.fs, o) {
					cl.report(kase{T: tk.t, F: tk.fs, PartialB: tk.partial}, k)
				}
				if o.Completed && len(tk.fs) > 0 && tk.fs[0].Once {
					// a backup under transient faults is judged, but not kept as a start state of the restore stage
					// (the persistent form of the same fault set is)
					os.RemoveAll(dir)
				} else if o.Completed {
					os.RemoveAll(filepath.Join(dir, "data"))
					smu.Lock()
					states = append(states, &state{tk.t, tk.fs, tk.partial, dir, o})
					smu.Unlock()
					if len(tk.fs) > 0 {
						sample("backup-completed-with-faults", map[string]any{"tree": tk.t.Name, "backup_faults": atoms(kase{T: tk.t, F: tk.fs, PartialB: tk.partial}), "backup": o})
					}
				} else {
					os.RemoveAll(dir)
				}
			}
		}()
	}
	bsets := map[string]int{}
	for _, t := range trees {
		subsets(2*len(t.Files), bound(t).kB, func(p []int) {
			fs := toFaults(p, kBR, kBW)
			bch <- btask{t, fs, false}
			bsets[t.Name]++
			if len(fs) > 0 {
				bch <- btask{t, fs, true}
				bsets[t.Name]++
				// transient form of the same fault set (each fault fires once; a retry inside the code would succeed)
				bch <- btask{t, onceOf(fs), false}
				bch <- btask{t, onceOf(fs), true}
				bsets[t.Name] += 2
			}
		})
	}
	close(bch)
	wg.Wait()
	// deterministic order of the restore stage
	sort.Slice(states, func(i, j int) bool {
		a, b := states[i], states[j]
		ka := fmt.Sprint(a.T.Name, len(a.B), a.B, a.PartialB)
		kb := fmt.Sprint(b.T.Name, len(b.B), b.B, b.PartialB)
		return ka < kb
	})

	// ---- stage 2: every restore-side fault set, on every completed backup, into empty storage
	type rtask struct {
		s       *state
		sets    [][]fault
		partial bool
	}
	rch := make(chan rtask, 64)
	for w := 0; w < workers; w++ {
		wg.Add(1)
		go func() {
			defer wg.Done()
			for tk := range rch {
				for _, fs := range tk.sets {
					if run.TimeUp() {
						atomic.StoreInt64(&capped, 1)
						break
					}
					dir := newDir()
					o := runRestore(tk.s.T, fs, tk.partial, filepath.Join(tk.s.Dir, "backup"), tk.s.Obs.ID, dir)
					os.RemoveAll(dir)
					atomic.AddInt64(&evals, 1)
					atomic.AddInt64(&restores, 1)
					atomic.AddInt64(&fired, o.Fired)
					if o.Fired > 0 {
						atomic.AddInt64(&nontrivial, 1)
					}
					ok := 0
					for _, r := range o.Restored {
						if r == 1 {
							ok++
						}
					}
					outcome(fmt.Sprintf("restore:success=%v status=%s restored=%d/%d", o.Success, o.Status, ok, len(tk.s.T.Files)))
					all := append(append([]fault{}, tk.s.B...), fs...)
					c := kase{T: tk.s.T, F: all, PartialB: tk.s.PartialB, PartialR: tk.partial}
					for _, k := range judgeRestore(fs, tk.s.Obs, o) {
						cl.report(c, k)
					}
					switch {
					case len(all) == 0 && len(tk.s.T.Files) >= 4:
						sample("fault-free-round-trip", map[string]any{"tree": tk.s.T.Name, "faults": atoms(c), "restore": o})
					case len(all) == 1:
						sample("single-restore-fault", map[string]any{"tree": tk.s.T.Name, "faults": atoms(c), "restore": o})
					case len(fs) == 2 && len(tk.s.B) == 1:
						sample("restore-faults-after-skipping-backup", map[string]any{"tree": tk.s.T.Name, "faults": atoms(c), "restore": o})
					}
				}
			}
		}()
	}
	rsets := map[string]int{}
	for _, s := range states {
		k := bound(s.T).kR0
		if len(s.B) > 0 {
			k = bound(s.T).kRskip
		}
		for _, partial := range []bool{false, true} {
			var chunk [][]fault
			subsets(2*len(s.T.Files), k, func(p []int) {
				if partial && len(p) == 0 {
					return // the fault mode is meaningless without a fault
				}
				chunk = append(chunk, toFaults(p, kRR, kRW))
				rsets[s.T.Name]++
				if len(p) > 0 { // transient form: the first read/write of each chosen file fails, a retry succeeds
					chunk = append(chunk, onceOf(toFaults(p, kRR, kRW)))
					rsets[s.T.Name]++
				}
				if len(chunk) >= 128 {
					rch <- rtask{s, chunk, partial}
					chunk = nil
				}
			})
			if len(chunk) > 0 {
				rch <- rtask{s, chunk, partial}
			}
		}
	}
	close(rch)
	wg.Wait()

	// vacuity guards: every fault kind must actually have fired somewhere, a fault-free round trip must exist
	fk := map[string]int64{}
	for k := range firedByKind {
		fk[kindName[k]] = atomic.LoadInt64(&firedByKind[k])
	}
	completedWithSkip := 0
	for _, s := range states {
		if s.Obs.ManifestSkipped > 0 {
			completedWithSkip++
		}
	}
	var treeDesc []string
	for _, t := range trees {
		b := bound(t)
		f := func(k int) string {
			if k < 0 {
				return "all"
			}
			return fmt.Sprintf("<=%d", k)
		}
		treeDesc = append(treeDesc, fmt.Sprintf("%s(%d files; backup fault sets %s, restore fault sets %s after a fault-free backup / %s after a faulted one)", t.Name, len(t.Files), f(b.kB), f(b.kR0), f(b.kRskip)))
	}
	run.Coverage["evaluations"] = evals
	run.Coverage["distinct_nontrivial"] = nontrivial
	run.Coverage["backup_executions"] = backups
	run.Coverage["restore_executions"] = restores
	run.Coverage["completed_backup_states"] = len(states)
	run.Coverage["completed_backups_recording_skips"] = completedWithSkip
	run.Coverage["faults_fired"] = fired
	run.Coverage["faults_fired_by_kind"] = fk
	run.Coverage["backup_fault_sets_per_tree"] = bsets
	run.Coverage["restore_cases_per_tree"] = rsets
	run.Coverage["outcomes"] = outcomes
	run.Coverage["distinct_outcomes"] = len(outcomes)
	run.Coverage["minimisations"] = cl.mins
	run.Coverage["minimisation_executions"] = cl.execs
	run.Coverage["trees"] = treeDesc
	run.Coverage["rule"] = "fault points = files x {backup-read-fail, backup-write-fail, restore-read-fail, restore-write-fail}, each in mode early (error before any byte moves) or partial (error after half the bytes), and each fault set both persistent (every attempt on that file fails) and transient (only the first attempt fails, a retry inside the code under test would succeed); " +
		"for each tree every set B of backup-side points (within the bound listed under trees) is run through the real CreateBackup; for every B whose backup completed, every set R of restore-side points is run through the real RestoreBackup into empty storage " +
		"(a failed backup leaves nothing to restore, so B x R is covered without running R after a failed B); each (tree,B,modeB,R,modeR) is a distinct case; non-trivial = at least one injected fault was actually hit by the code under test"
	run.Coverage["samples"] = samples.List()
	run.Coverage["exhaustive"] = capped == 0
	run.Assume("faults are per-file failures of Read/ReadTo/ReadToAt and Write/WriteReader on the storage.Backend interface (LocalBackend on tmpfs underneath); listing, Exists, Delete, manifest.json I/O and the OS temp directory are never faulted")
	run.Assume("SQLite metadata and arc.toml (IncludeMetadata/IncludeConfig) are outside the statement and not exercised; one backup per backup directory")
	run.Assume("reported success = RestoreBackup returned nil OR GetProgress().Status == \"completed\" (the HTTP API drops the error and serves the progress status)")
	run.Assume("files the property quantifies over are .parquet files and files under an Iceberg metadata/ directory; other file types are not generated")
	fmt.Printf("C13: trees=%d backups=%d (completed %d, recording skips %d) restores=%d nontrivial=%d faults_fired=%d distinct_outcomes=%d minimisations=%d\n",
		len(trees), backups, len(states), completedWithSkip, restores, nontrivial, fired, len(outcomes), cl.mins)
	if len(outcomes) < 3 {
		fmt.Println("C13: VACUITY WARNING: fewer than 3 distinct outcomes")
	}
	pprof.StopCPUProfile()
	cleanup()
	run.Finish()
}
