package main

// The enumerated space. Every (type, value class) below is crossed with every n, every row limit and
// every wire format. quick and thorough use the same types, values and base n (so that class signatures are
// identical in both tiers: the size part of a signature is a bucket, not a number); thorough adds more
// batch-boundary sizes and row limits.

import (
	"fmt"
	"strings"
)

type valSpec struct {
	class string
	sql   string // typed expression; may refer to the row index i
}

type typeSpec struct {
	name    string // label used in signatures
	sqlType string
	kind    string // "date" / "time": how a time.Time from the driver is to be read
	vals    []valSpec
}

// lit: a value written as a string literal cast to the type (DuckDB parses its own text form).
func lit(class, text string) valSpec {
	return valSpec{class, "'" + strings.ReplaceAll(text, "'", "''") + "'"}
}

// raw: an SQL expression that is cast to the type.
func raw(class, expr string) valSpec { return valSpec{class, expr} }

func (t *typeSpec) typed(v valSpec) string {
	if t.sqlType == "" {
		return v.sql
	}
	return "(" + v.sql + ")::" + t.sqlType
}

func (t *typeSpec) null() valSpec { return valSpec{"NULL", "NULL"} }

// cycleVals: the order in which a cycle column walks through the values: first value, NULL, the rest.
func (t *typeSpec) cycleVals() []valSpec {
	if len(t.vals) == 0 {
		return nil
	}
	out := []valSpec{t.vals[0], t.null()}
	return append(out, t.vals[1:]...)
}

func (t *typeSpec) cycleClass(row int) string {
	c := t.cycleVals()
	return c[row%len(c)].class
}

// allVals: every value class of the type: the listed values, NULL, and (when there is more than one
// non-NULL value) the cycle column.
func (t *typeSpec) allVals() []valSpec {
	out := append([]valSpec{}, t.vals...)
	out = append(out, t.null())
	if len(t.vals) > 0 {
		out = append(out, valSpec{"cycle", ""})
	}
	return out
}

func (t *typeSpec) classes() []string {
	var out []string
	for _, v := range t.allVals() {
		out = append(out, v.class)
	}
	return out
}

func (t *typeSpec) expr(v valSpec) string {
	if v.class != "cycle" {
		return t.typed(v)
	}
	c := t.cycleVals()
	var b strings.Builder
	fmt.Fprintf(&b, "CASE i %% %d", len(c))
	for k, x := range c {
		fmt.Fprintf(&b, " WHEN %d THEN %s", k, t.typed(x))
	}
	b.WriteString(" END")
	return b.String()
}

type grid struct {
	types  []*typeSpec
	ns     []int
	limits []int
	names  []string
	// quick only: at the multi-batch sizes (n > 2048) the base grid evaluates the value classes that differ from row to
	// row (the cycle column, row-dependent expressions) and the types without a cycle column; a column that repeats one
	// value over several batches is what the result-shape dimension enumerates (placements D..D and A..A), in every tier.
	bigNOnlyVarying bool
	// the result-shape dimension (shape.go)
	shapeNs                   []int // row counts
	shapeLimits               []int // governance row limits (applied to a shape when limit < n)
	shapeSpecialMinBatches    int   // mark index 1 (special values) is enumerated for results of at least this many ...
	shapeSpecialMaxBatches    int   // ... and at most this many batches
	shapeAllMarksMaxBatches   int   // mark indexes 2.. (all other value classes) likewise (0: never)
	shapeFullStatesMaxBatches int   // results of at most this many batches: every assignment of {D,S,A}; larger ones: of {D,S}
}

// shapeStates: the per-batch state alphabet for an n-row result.
func (g *grid) shapeStates(n int) string {
	if batchesOf(n) <= g.shapeFullStatesMaxBatches {
		return "DSA"
	}
	return "DS"
}

// inBase: is the (value class, n) point part of the base grid of this tier?
func (g *grid) inBase(t *typeSpec, v valSpec, n int) bool {
	if !g.bigNOnlyVarying || n <= batchRows {
		return true
	}
	return v.class == "cycle" || strings.Contains(v.sql, "i %") || len(t.vals) == 0
}

func (g *grid) typeByName(n string) *typeSpec {
	for _, t := range g.types {
		if t.name == n {
			return t
		}
	}
	return nil
}

func (g *grid) typeIndex(n string) int {
	for i, t := range g.types {
		if t.name == n {
			return i
		}
	}
	return len(g.types)
}

func signed(name, typ, min, max string) *typeSpec {
	return &typeSpec{name: name, sqlType: typ, vals: []valSpec{raw("typical", "42"), raw("min", min), raw("max", max), raw("zero", "0"), raw("minus-one", "-1")}}
}

func unsigned(name, typ, max string) *typeSpec {
	return &typeSpec{name: name, sqlType: typ, vals: []valSpec{raw("typical", "42"), raw("max", max), raw("zero", "0")}}
}

func decimal(w, s int, typical, smallNeg string) *typeSpec {
	digits := strings.Repeat("9", w)
	max := digits
	if s > 0 {
		max = digits[:w-s] + "." + digits[w-s:]
	}
	return &typeSpec{name: fmt.Sprintf("decimal(%d,%d)", w, s), sqlType: fmt.Sprintf("DECIMAL(%d,%d)", w, s), vals: []valSpec{
		lit("typical", typical), lit("min", "-"+max), lit("max", max), lit("zero", "0"), lit("small-negative", smallNeg)}}
}

func timestamp(name, typ, min, max, typical, preEpoch string) *typeSpec {
	return &typeSpec{name: name, sqlType: typ, vals: []valSpec{lit("typical", typical), lit("min", min), lit("max", max),
		lit("zero", "1970-01-01 00:00:00"), lit("pre-epoch", preEpoch)}}
}

func newGrid(quick bool) *grid {
	g := &grid{}
	// n: empty, one row, two rows (row separators), one row more than DuckDB's 2048-row vector (second Arrow batch).
	// thorough adds the exactly-full batch, three batches, the JSON writer's 1000-row flush interval, and
	// the Arrow endpoint's batch-size constant (10000) with their neighbours.
	g.ns = []int{0, 1, 2, 2049}
	g.limits = []int{0, 1, 2048}
	if !quick {
		g.ns = []int{0, 1, 2, 3, 999, 1000, 1001, 2047, 2048, 2049, 4096, 4097, 5000, 10000, 10001}
		g.limits = []int{0, 1, 2, 1000, 2047, 2048, 2049, 4096}
	}
	// result shapes: 1, 2 and 3 Arrow batches (DuckDB's vector = 2048 rows) with the boundary sizes; row limits that
	// cut inside the first and inside the second batch. quick: NULL as the mark everywhere, the special values for
	// results of at most two batches; {D,S,A} per batch up to two batches, {D,S} for three. thorough adds two exactly
	// full batches, a fourth batch, the boundary limits, the special values everywhere, every other value class as a
	// mark for results of at most two batches, and {D,S,A} for three batches.
	g.bigNOnlyVarying = quick
	g.shapeNs = []int{1, 2047, 2048, 2049, 4097}
	g.shapeLimits = []int{1000, 2100}
	g.shapeSpecialMinBatches, g.shapeSpecialMaxBatches = 1, 2
	g.shapeFullStatesMaxBatches = 2
	if !quick {
		g.shapeNs = []int{1, 2, 2047, 2048, 2049, 4096, 4097, 6145}
		g.shapeLimits = []int{1, 1000, 2048, 2049, 3000, 4096, 5000}
		g.shapeSpecialMinBatches, g.shapeSpecialMaxBatches = 1, 4
		g.shapeAllMarksMaxBatches = 2
		g.shapeFullStatesMaxBatches = 3
	}
	g.names = []string{"c", `a"b`, `a\b`, "tab\there", "nl\nx", "ü€𝄞", `A`, "sp ace", "ctl\x01\x1f", `'q'`}

	g.types = []*typeSpec{
		signed("tinyint", "TINYINT", "-128", "127"),
		signed("smallint", "SMALLINT", "-32768", "32767"),
		signed("integer", "INTEGER", "-2147483648", "2147483647"),
		signed("bigint", "BIGINT", "-9223372036854775808", "9223372036854775807"),
		unsigned("utinyint", "UTINYINT", "255"),
		unsigned("usmallint", "USMALLINT", "65535"),
		unsigned("uinteger", "UINTEGER", "4294967295"),
		{name: "ubigint", sqlType: "UBIGINT", vals: []valSpec{raw("typical", "42"), raw("max", "18446744073709551615"), raw("zero", "0"),
			raw("int64max+1", "9223372036854775808")}},
		{name: "hugeint", sqlType: "HUGEINT", vals: []valSpec{raw("typical", "42"), raw("min", "-170141183460469231731687303715884105728"),
			raw("max", "170141183460469231731687303715884105727"), raw("zero", "0"), raw("minus-one", "-1"),
			raw("int64max+1", "9223372036854775808"), raw("int64min-1", "-9223372036854775809")}},
		{name: "uhugeint", sqlType: "UHUGEINT", vals: []valSpec{raw("typical", "42"), raw("max", "340282366920938463463374607431768211455"),
			raw("zero", "0"), raw("2^127", "170141183460469231731687303715884105728"), raw("int64max+1", "9223372036854775808")}},
		decimal(4, 2, "12.34", "-0.05"),
		decimal(9, 4, "123.4567", "-0.0005"),
		decimal(18, 3, "1234.567", "-0.005"),
		decimal(38, 10, "1234.5678901234", "-0.0000000005"),
		decimal(18, 0, "42", "-1"),
		decimal(38, 0, "42", "-1"),
		{name: "float", sqlType: "FLOAT", vals: []valSpec{lit("typical", "1.5"), lit("min", "-3.4028235e38"), lit("max", "3.4028235e38"),
			lit("zero", "0"), lit("negative-zero", "-0.0"), lit("tenth", "0.1"), lit("denormal", "1e-45"),
			lit("nan", "nan"), lit("+inf", "inf"), lit("-inf", "-inf")}},
		{name: "double", sqlType: "DOUBLE", vals: []valSpec{lit("typical", "1.5"), lit("min", "-1.7976931348623157e308"), lit("max", "1.7976931348623157e308"),
			lit("zero", "0"), lit("negative-zero", "-0.0"), lit("tenth", "0.1"), lit("denormal", "5e-324"), lit("1e21", "1e21"),
			lit("2^53+2", "9007199254740994"), lit("nan", "nan"), lit("+inf", "inf"), lit("-inf", "-inf")}},
		{name: "boolean", sqlType: "BOOLEAN", vals: []valSpec{raw("true", "true"), raw("false", "false")}},
		{name: "varchar", sqlType: "VARCHAR", vals: []valSpec{
			lit("typical", "hello"),
			lit("empty", ""),
			lit("quotes", `a"b'c\d/e`),
			raw("control", "'x' || chr(1) || chr(8) || chr(9) || chr(10) || chr(11) || chr(12) || chr(13) || chr(27) || chr(31) || chr(127) || 'y'"),
			raw("nul", "'a' || chr(0) || 'b'"),
			raw("non-ascii", "'h' || chr(233) || 'llo ' || chr(8364) || chr(119070) || ' ' || chr(26085) || chr(26412) || chr(8232) || chr(8233) || chr(65533) || chr(1114111)"),
			lit("escape-lookalikes", `\u00zz \x \ud800 \" \n \\ %s {0}`),
			lit("json-lookalike", `{"a":[1,null,"x"]}`),
			lit("null-word", "null"),
			raw("long", "repeat('a' || chr(233), CASE WHEN i % 1024 = 0 THEN 33000 ELSE 130 END)"),
		}},
		{name: "blob", sqlType: "BLOB", vals: []valSpec{
			lit("typical", `\xDE\xAD\xBE\xEF`), lit("empty", ""), lit("printable", "abc"), lit("zero-byte", `\x00`),
			lit("high-bytes", `\xFF\xFE\x80`), lit("utf8-bytes", `\xC3\xA9`), lit("quote-backslash", `\x22\x5C`),
			lit("apostrophe", `\x27`), lit("punctuation", " !#$%&()*+,-./:;<=>?@[]^_`{|}~"), lit("del-and-controls", `\x7F\x1F\x0A\x09`)}},
		{name: "date", sqlType: "DATE", kind: "date", vals: []valSpec{lit("typical", "2024-02-29"), lit("min", "5877642-06-25 (BC)"), lit("max", "5881580-07-10"),
			lit("zero", "1970-01-01"), lit("pre-epoch", "1969-12-31"), lit("year-1", "0001-01-01")}},
		{name: "time", sqlType: "TIME", kind: "time", vals: []valSpec{lit("typical", "12:34:56.789"), lit("zero", "00:00:00"), lit("max", "23:59:59.999999"),
			lit("one-microsecond", "00:00:00.000001")}},
		timestamp("timestamp_s", "TIMESTAMP_S", "290309-12-22 (BC) 00:00:00", "294247-01-10 04:00:54", "2024-01-02 03:04:05", "1969-12-31 23:59:59"),
		timestamp("timestamp_ms", "TIMESTAMP_MS", "290309-12-22 (BC) 00:00:00", "294247-01-10 04:00:54.775", "2024-01-02 03:04:05.123", "1969-12-31 23:59:59.999"),
		timestamp("timestamp", "TIMESTAMP", "290309-12-22 (BC) 00:00:00", "294247-01-10 04:00:54.775806", "2024-01-02 03:04:05.123456", "1969-12-31 23:59:59.999999"),
		timestamp("timestamp_ns", "TIMESTAMP_NS", "1677-09-22 00:00:00", "2262-04-11 23:47:16.854775806", "2024-01-02 03:04:05.123456789", "1969-12-31 23:59:59.999999999"),
		{name: "timestamptz", sqlType: "TIMESTAMPTZ", vals: []valSpec{lit("typical", "2024-01-02 03:04:05.123456+02"), lit("min", "290309-12-22 (BC) 00:00:00+00"),
			lit("max", "294247-01-10 04:00:54.775806+00"), lit("zero", "1970-01-01 00:00:00+00"), lit("pre-epoch", "1969-12-31 23:59:59.999999+00"),
			lit("negative-offset", "2024-06-30 23:30:00-05:30")}},
		{name: "interval", sqlType: "INTERVAL", vals: []valSpec{
			lit("typical", "1 year 2 months 3 days 04:00:00.000005"), lit("zero", "0 seconds"), lit("negative", "-1 month -2 days -3 microseconds"),
			raw("max", "to_months(2147483647) + to_days(2147483647) + to_microseconds(9223372036854775807)"),
			raw("min", "to_months(-2147483647) + to_days(-2147483647) + to_microseconds(-9223372036854775807)"),
			raw("largest-ns-representable", "to_microseconds(9223372036854775)")}},
		{name: "integer[]", sqlType: "INTEGER[]", vals: []valSpec{raw("typical", "[1, NULL, 3]"), raw("empty", "[]"), raw("null-element", "[NULL]"),
			raw("long", "range(300)")}},
		{name: "varchar[]", sqlType: "VARCHAR[]", vals: []valSpec{raw("typical", `['a"b', NULL, 'h' || chr(233), '', 'x, y', 'NULL']`), raw("empty", "[]")}},
		{name: "integer[][]", sqlType: "INTEGER[][]", vals: []valSpec{raw("typical", "[[1], [], NULL, [2, NULL]]"), raw("empty", "[]")}},
		{name: "struct(a integer, b varchar)", sqlType: "STRUCT(a INTEGER, b VARCHAR)", vals: []valSpec{
			raw("typical", `{'a': 1, 'b': 'x"y'}`), raw("null-fields", "{'a': NULL, 'b': NULL}"), raw("quote-in-field", `{'a': -1, 'b': 'it''s, {b}: 2'}`)}},
		{name: "struct(k varchar, v integer[])", sqlType: "STRUCT(k VARCHAR, v INTEGER[])", vals: []valSpec{
			raw("typical", "{'k': 'key', 'v': [1, NULL]}"), raw("null-fields", "{'k': NULL, 'v': NULL}")}},
		{name: "null", sqlType: "", vals: nil},
	}
	return g
}
