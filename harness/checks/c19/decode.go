package main

// Independent decoders for the three wire formats. Nothing here comes from /repo:
//   - JSON: encoding/json with UseNumber (numbers stay text, so 64-bit and 128-bit integers are exact);
//   - MessagePack: a from-the-specification decoder written here (not the Basekick-Labs fork Arc encodes with);
//   - Arrow IPC: the arrow-go stream reader, then a per-type walk over the arrays.
// Every decoder produces the same small "observed value" vocabulary (o* types below).

import (
	"bytes"
	"encoding/binary"
	"encoding/json"
	"errors"
	"fmt"
	"io"
	"math"
	"math/big"
	"unicode/utf8"

	"github.com/apache/arrow-go/v18/arrow"
	"github.com/apache/arrow-go/v18/arrow/array"
	"github.com/apache/arrow-go/v18/arrow/ipc"
)

// ---- observed values -------------------------------------------------------------------------

type oInt struct{ v *big.Int }            // any integer encoding
type oFloat struct{ f float64; w int }    // IEEE value, w = 32 or 64
type oNum string                          // JSON number, verbatim text
type oDec struct{ u *big.Int; scale int } // exact decimal: u * 10^-scale
type oStr string
type oBytes []byte
type oBool bool
type oTime struct{ sec, nsec int64 } // instant: seconds since the epoch (floor) + nanoseconds 0..999999999
type oDate int64                     // days since 1970-01-01
type oTOD int64                      // time of day, microseconds since midnight
type oInterval struct {
	months, days int64
	nanos        *big.Int
}
type oList []any
type oField struct {
	name string
	v    any
}
type oStruct []oField
type oOther string // something the harness cannot interpret (described)

// decoded is one decoded response.
type decoded struct {
	columns  []string
	cols     [][]any // column-major cells; nil = SQL NULL
	rows     int     // rows actually present in the body
	rowCount int64   // the envelope's row_count field (-1 when the format has none)
	types    []string
	batches  []int // Arrow IPC: rows per record batch
}

// ---- JSON ------------------------------------------------------------------------------------

type malformed struct{ what string }

func (m *malformed) Error() string { return m.what }

// decodeJSON: one pass over a response that has the expected envelope; anything else (a key missing, success not
// true, a parse error, trailing bytes) is classified by the two-pass reader below, which is the definition.
func decodeJSON(body []byte) (*decoded, error) {
	if !utf8.Valid(body) {
		return nil, &malformed{"invalid-utf8"}
	}
	var env struct {
		Success  *bool       `json:"success"`
		Columns  []string    `json:"columns"`
		Data     [][]any     `json:"data"`
		RowCount json.Number `json:"row_count"`
	}
	dec := json.NewDecoder(bytes.NewReader(body))
	dec.UseNumber()
	// encoding/json matches struct fields case-insensitively; the envelope keys must be spelled exactly (a quote inside
	// a JSON string is always escaped, so these byte sequences can only be keys)
	exactKeys := bytes.Contains(body, []byte(`"success":`)) && bytes.Contains(body, []byte(`"columns":`)) &&
		bytes.Contains(body, []byte(`"data":`)) && bytes.Contains(body, []byte(`"row_count":`))
	if err := dec.Decode(&env); exactKeys && err == nil && env.Success != nil && *env.Success && env.Columns != nil && env.Data != nil && env.RowCount != "" {
		var extra any
		if n, err := env.RowCount.Int64(); err == nil && dec.Decode(&extra) == io.EOF {
			d := &decoded{rowCount: n, columns: env.Columns, rows: len(env.Data)}
			d.cols = make([][]any, len(d.columns))
			for c := range d.cols {
				d.cols[c] = make([]any, len(env.Data))
			}
			ok := true
			for r, row := range env.Data {
				if len(row) != len(d.columns) {
					ok = false
					break
				}
				for c, v := range row {
					d.cols[c][r] = jsonObs(v)
				}
			}
			if ok {
				return d, nil
			}
		}
	}
	return decodeJSONTwoPass(body)
}

func decodeJSONTwoPass(body []byte) (*decoded, error) {
	dec := json.NewDecoder(bytes.NewReader(body))
	dec.UseNumber()
	var env map[string]json.RawMessage
	if err := dec.Decode(&env); err != nil {
		return nil, &malformed{"not-json"}
	}
	var extra any
	if err := dec.Decode(&extra); err != io.EOF {
		return nil, &malformed{"trailing-bytes"}
	}
	var success bool
	if json.Unmarshal(env["success"], &success) != nil || !success {
		return nil, &malformed{"success-not-true"}
	}
	d := &decoded{rowCount: -1}
	if err := json.Unmarshal(env["columns"], &d.columns); err != nil {
		return nil, &malformed{"columns-not-string-array"}
	}
	var rc json.Number
	if err := json.Unmarshal(env["row_count"], &rc); err != nil {
		return nil, &malformed{"row_count-missing"}
	}
	n, err := rc.Int64()
	if err != nil {
		return nil, &malformed{"row_count-not-integer"}
	}
	d.rowCount = n
	dd := json.NewDecoder(bytes.NewReader(env["data"]))
	dd.UseNumber()
	var data [][]any
	if err := dd.Decode(&data); err != nil {
		return nil, &malformed{"data-not-array-of-arrays"}
	}
	d.rows = len(data)
	d.cols = make([][]any, len(d.columns))
	for c := range d.cols {
		d.cols[c] = make([]any, len(data))
	}
	for r, row := range data {
		if len(row) != len(d.columns) {
			return nil, &malformed{"row-width"}
		}
		for c, v := range row {
			d.cols[c][r] = jsonObs(v)
		}
	}
	return d, nil
}

func jsonObs(v any) any {
	switch x := v.(type) {
	case nil:
		return nil
	case json.Number:
		return oNum(x)
	case string:
		return oStr(x)
	case bool:
		return oBool(x)
	case []any:
		l := make(oList, len(x))
		for i := range x {
			l[i] = jsonObs(x[i])
		}
		return l
	default:
		return oOther(fmt.Sprintf("json %T", v))
	}
}

// ---- MessagePack (from the specification) -----------------------------------------------------

type mpExt struct {
	typ  int8
	data []byte
}
type mpKV struct{ k, v any }
type mpMap []mpKV

var errMPShort = errors.New("msgpack: truncated")

type mpReader struct {
	b []byte
	p int
}

func (r *mpReader) need(n int) ([]byte, error) {
	if n < 0 || r.p+n > len(r.b) {
		return nil, errMPShort
	}
	s := r.b[r.p : r.p+n]
	r.p += n
	return s, nil
}

func (r *mpReader) value(depth int) (any, error) {
	if depth > 64 {
		return nil, errors.New("msgpack: too deep")
	}
	h, err := r.need(1)
	if err != nil {
		return nil, err
	}
	c := h[0]
	switch {
	case c <= 0x7f:
		return oInt{big.NewInt(int64(c))}, nil
	case c >= 0xe0:
		return oInt{big.NewInt(int64(int8(c)))}, nil
	case c >= 0x80 && c <= 0x8f:
		return r.mapN(int(c&0x0f), depth)
	case c >= 0x90 && c <= 0x9f:
		return r.arrN(int(c&0x0f), depth)
	case c >= 0xa0 && c <= 0xbf:
		return r.str(int(c & 0x1f))
	}
	uintN := func(n int) (uint64, error) {
		s, err := r.need(n)
		if err != nil {
			return 0, err
		}
		var u uint64
		for _, x := range s {
			u = u<<8 | uint64(x)
		}
		return u, nil
	}
	switch c {
	case 0xc0:
		return nil, nil
	case 0xc1:
		return nil, errors.New("msgpack: reserved byte 0xc1")
	case 0xc2:
		return oBool(false), nil
	case 0xc3:
		return oBool(true), nil
	case 0xc4, 0xc5, 0xc6:
		n, err := uintN(1 << (c - 0xc4))
		if err != nil {
			return nil, err
		}
		s, err := r.need(int(n))
		if err != nil {
			return nil, err
		}
		return oBytes(append([]byte{}, s...)), nil
	case 0xc7, 0xc8, 0xc9:
		n, err := uintN(1 << (c - 0xc7))
		if err != nil {
			return nil, err
		}
		return r.ext(int(n))
	case 0xca:
		u, err := uintN(4)
		if err != nil {
			return nil, err
		}
		return oFloat{float64(math.Float32frombits(uint32(u))), 32}, nil
	case 0xcb:
		u, err := uintN(8)
		if err != nil {
			return nil, err
		}
		return oFloat{math.Float64frombits(u), 64}, nil
	case 0xcc, 0xcd, 0xce, 0xcf:
		u, err := uintN(1 << (c - 0xcc))
		if err != nil {
			return nil, err
		}
		return oInt{new(big.Int).SetUint64(u)}, nil
	case 0xd0, 0xd1, 0xd2, 0xd3:
		w := 1 << (c - 0xd0)
		u, err := uintN(w)
		if err != nil {
			return nil, err
		}
		sh := uint(64 - 8*w)
		return oInt{big.NewInt(int64(u<<sh) >> sh)}, nil
	case 0xd4, 0xd5, 0xd6, 0xd7, 0xd8:
		return r.ext(1 << (c - 0xd4))
	case 0xd9, 0xda, 0xdb:
		n, err := uintN(1 << (c - 0xd9))
		if err != nil {
			return nil, err
		}
		return r.str(int(n))
	case 0xdc, 0xdd:
		n, err := uintN(2 << (c - 0xdc))
		if err != nil {
			return nil, err
		}
		return r.arrN(int(n), depth)
	case 0xde, 0xdf:
		n, err := uintN(2 << (c - 0xde))
		if err != nil {
			return nil, err
		}
		return r.mapN(int(n), depth)
	}
	return nil, fmt.Errorf("msgpack: unknown byte 0x%02x", c)
}

func (r *mpReader) str(n int) (any, error) {
	s, err := r.need(n)
	if err != nil {
		return nil, err
	}
	if !utf8.Valid(s) {
		return nil, errors.New("msgpack: str is not UTF-8")
	}
	return oStr(string(s)), nil
}

func (r *mpReader) ext(n int) (any, error) {
	t, err := r.need(1)
	if err != nil {
		return nil, err
	}
	s, err := r.need(n)
	if err != nil {
		return nil, err
	}
	if int8(t[0]) == -1 { // timestamp extension
		switch n {
		case 4:
			return oTime{int64(binary.BigEndian.Uint32(s)), 0}, nil
		case 8:
			v := binary.BigEndian.Uint64(s)
			ns := int64(v >> 34)
			if ns > 999999999 {
				return nil, errors.New("msgpack: timestamp64 nanoseconds out of range")
			}
			return oTime{int64(v & 0x3ffffffff), ns}, nil
		case 12:
			ns := int64(binary.BigEndian.Uint32(s[:4]))
			if ns > 999999999 {
				return nil, errors.New("msgpack: timestamp96 nanoseconds out of range")
			}
			return oTime{int64(binary.BigEndian.Uint64(s[4:])), ns}, nil
		}
		return nil, fmt.Errorf("msgpack: timestamp ext of %d bytes", n)
	}
	return mpExt{int8(t[0]), append([]byte{}, s...)}, nil
}

func (r *mpReader) arrN(n, depth int) (any, error) {
	if n > len(r.b)-r.p {
		return nil, errMPShort
	}
	l := make(oList, n)
	for i := 0; i < n; i++ {
		v, err := r.value(depth + 1)
		if err != nil {
			return nil, err
		}
		l[i] = v
	}
	return l, nil
}

func (r *mpReader) mapN(n, depth int) (any, error) {
	if n > len(r.b)-r.p {
		return nil, errMPShort
	}
	m := make(mpMap, n)
	for i := 0; i < n; i++ {
		k, err := r.value(depth + 1)
		if err != nil {
			return nil, err
		}
		v, err := r.value(depth + 1)
		if err != nil {
			return nil, err
		}
		m[i] = mpKV{k, v}
	}
	return m, nil
}

func decodeMsgPack(body []byte) (*decoded, error) {
	r := &mpReader{b: body}
	v, err := r.value(0)
	if err != nil {
		return nil, &malformed{"not-msgpack"}
	}
	if r.p != len(body) {
		return nil, &malformed{"trailing-bytes"}
	}
	m, ok := v.(mpMap)
	if !ok {
		return nil, &malformed{"top-level-not-map"}
	}
	get := map[string]any{}
	for _, kv := range m {
		k, ok := kv.k.(oStr)
		if !ok {
			return nil, &malformed{"non-string-key"}
		}
		if _, dup := get[string(k)]; dup {
			return nil, &malformed{"duplicate-key"}
		}
		get[string(k)] = kv.v
	}
	if b, ok := get["success"].(oBool); !ok || !bool(b) {
		return nil, &malformed{"success-not-true"}
	}
	d := &decoded{rowCount: -1}
	strs := func(key string) ([]string, bool) {
		l, ok := get[key].(oList)
		if !ok {
			return nil, false
		}
		out := make([]string, len(l))
		for i, x := range l {
			s, ok := x.(oStr)
			if !ok {
				return nil, false
			}
			out[i] = string(s)
		}
		return out, true
	}
	if d.columns, ok = strs("columns"); !ok {
		return nil, &malformed{"columns-not-string-array"}
	}
	if d.types, ok = strs("types"); !ok || len(d.types) != len(d.columns) {
		return nil, &malformed{"types-not-parallel-to-columns"}
	}
	rc, ok := get["row_count"].(oInt)
	if !ok || !rc.v.IsInt64() {
		return nil, &malformed{"row_count-not-integer"}
	}
	d.rowCount = rc.v.Int64()
	data, ok := get["data"].(oList)
	if !ok || len(data) != len(d.columns) {
		return nil, &malformed{"data-not-one-array-per-column"}
	}
	d.cols = make([][]any, len(data))
	d.rows = -1
	for c, x := range data {
		l, ok := x.(oList)
		if !ok {
			return nil, &malformed{"data-column-not-array"}
		}
		if d.rows >= 0 && len(l) != d.rows {
			return nil, &malformed{"ragged-columns"}
		}
		d.rows = len(l)
		d.cols[c] = []any(l)
	}
	if d.rows < 0 {
		d.rows = 0
	}
	return d, nil
}

// ---- Arrow IPC -------------------------------------------------------------------------------

var arrowEOS = []byte{0xff, 0xff, 0xff, 0xff, 0, 0, 0, 0}

func decodeArrow(body []byte) (d *decoded, err error) {
	defer func() {
		if r := recover(); r != nil {
			d, err = nil, &malformed{"ipc-reader-panic"}
		}
	}()
	if !bytes.HasSuffix(body, arrowEOS) {
		return nil, &malformed{"no-end-of-stream-marker"}
	}
	rd, e := ipc.NewReader(bytes.NewReader(body))
	if e != nil {
		return nil, &malformed{"ipc-schema-unreadable"}
	}
	defer rd.Release()
	d = &decoded{rowCount: -1}
	fields := rd.Schema().Fields()
	d.cols = make([][]any, len(fields))
	for _, f := range fields {
		d.columns = append(d.columns, f.Name)
		d.types = append(d.types, f.Type.String())
	}
	for rd.Next() {
		rec := rd.Record()
		d.batches = append(d.batches, int(rec.NumRows()))
		d.rows += int(rec.NumRows())
		for c := range fields {
			col := rec.Column(c)
			if col.Len() != int(rec.NumRows()) {
				return nil, &malformed{"ipc-column-length"}
			}
			for i := 0; i < col.Len(); i++ {
				d.cols[c] = append(d.cols[c], arrowObs(col, i))
			}
		}
	}
	if rd.Err() != nil {
		return nil, &malformed{"ipc-batch-unreadable"}
	}
	return d, nil
}

func arrowObs(a arrow.Array, i int) any {
	if a.IsNull(i) {
		return nil
	}
	switch c := a.(type) {
	case *array.Null:
		return nil
	case *array.Int8:
		return oInt{big.NewInt(int64(c.Value(i)))}
	case *array.Int16:
		return oInt{big.NewInt(int64(c.Value(i)))}
	case *array.Int32:
		return oInt{big.NewInt(int64(c.Value(i)))}
	case *array.Int64:
		return oInt{big.NewInt(c.Value(i))}
	case *array.Uint8:
		return oInt{big.NewInt(int64(c.Value(i)))}
	case *array.Uint16:
		return oInt{big.NewInt(int64(c.Value(i)))}
	case *array.Uint32:
		return oInt{big.NewInt(int64(c.Value(i)))}
	case *array.Uint64:
		return oInt{new(big.Int).SetUint64(c.Value(i))}
	case *array.Float32:
		return oFloat{float64(c.Value(i)), 32}
	case *array.Float64:
		return oFloat{c.Value(i), 64}
	case *array.Boolean:
		return oBool(c.Value(i))
	case *array.String:
		return oStr(c.Value(i))
	case *array.LargeString:
		return oStr(c.Value(i))
	case *array.Binary:
		return oBytes(append([]byte{}, c.Value(i)...))
	case *array.LargeBinary:
		return oBytes(append([]byte{}, c.Value(i)...))
	case *array.Date32:
		return oDate(int64(c.Value(i)))
	case *array.Timestamp:
		v := int64(c.Value(i))
		var per int64
		switch c.DataType().(*arrow.TimestampType).Unit {
		case arrow.Second:
			per = 1
		case arrow.Millisecond:
			per = 1e3
		case arrow.Microsecond:
			per = 1e6
		default:
			per = 1e9
		}
		sec, rem := v/per, v%per
		if rem < 0 {
			sec, rem = sec-1, rem+per
		}
		return oTime{sec, rem * (1e9 / per)}
	case *array.Time64:
		v := int64(c.Value(i))
		if c.DataType().(*arrow.Time64Type).Unit == arrow.Nanosecond {
			if v%1000 != 0 {
				return oOther("time64[ns] with sub-microsecond part")
			}
			v /= 1000
		}
		return oTOD(v)
	case *array.Time32:
		v := int64(c.Value(i))
		if c.DataType().(*arrow.Time32Type).Unit == arrow.Second {
			return oTOD(v * 1e6)
		}
		return oTOD(v * 1e3)
	case *array.Decimal128:
		return oDec{c.Value(i).BigInt(), int(c.DataType().(*arrow.Decimal128Type).Scale)}
	case *array.Decimal256:
		return oDec{c.Value(i).BigInt(), int(c.DataType().(*arrow.Decimal256Type).Scale)}
	case *array.MonthDayNanoInterval:
		v := c.Value(i)
		return oInterval{int64(v.Months), int64(v.Days), big.NewInt(v.Nanoseconds)}
	case *array.List:
		s, e := c.ValueOffsets(i)
		vals := c.ListValues()
		l := make(oList, 0, e-s)
		for j := s; j < e; j++ {
			l = append(l, arrowObs(vals, int(j)))
		}
		return l
	case *array.LargeList:
		s, e := c.ValueOffsets(i)
		vals := c.ListValues()
		l := make(oList, 0, e-s)
		for j := s; j < e; j++ {
			l = append(l, arrowObs(vals, int(j)))
		}
		return l
	case *array.Struct:
		st := c.DataType().(*arrow.StructType)
		out := make(oStruct, c.NumField())
		for f := 0; f < c.NumField(); f++ {
			// struct children are addressed by the parent's logical index (Field() already applies the offset)
			out[f] = oField{st.Field(f).Name, arrowObs(c.Field(f), i)}
		}
		return out
	}
	return oOther("arrow " + a.DataType().String())
}
