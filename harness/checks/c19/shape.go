package main

// The RESULT-SHAPE dimension.
//
// The base grid (grid.go) puts ONE value class (or a cycle of all of them) into every row, so where the NULLs /
// special values sit relative to the Arrow batch boundaries never varies: every batch looks like the first one.
// An encoder that decides something per column from one batch (the first retained batch has no NULLs -> skip the
// validity bitmap for the whole column) is invisible there. This file enumerates the placement. A shape statement is
//
//	SELECT i AS i, CASE WHEN m THEN <X of type 1> ELSE <typical of type 1> END AS c01, ... one column per type ...
//	FROM (SELECT i, (<marked(i)>) AS m FROM range(n) t(i)) AS s
//
// i.e. ONE result carries a column for EVERY type of the grid (so a 4097-row case costs one request per format, not
// one per type, and results are as wide as the grid - the base grid's are always two columns wide). Enumerated, as
// a full product:
//
//   - the mark X: index 0 = NULL in every column; index 1 = the designated special value of each type (non-finite
//     float, non-ASCII text, negative number, pre-epoch instant, ...); thorough, for results of at most two batches:
//     index 2.. = the remaining value classes of each type in grid order (types with fewer classes wrap around);
//   - the row count n (g.shapeNs): 1, 2 and 3 (thorough: 4) Arrow batches of DuckDB's 2048-row vectors, with the
//     boundary sizes 2047 / 2048 / 2049 / 4096 / 4097;
//   - EVERY assignment of a state to each batch of the result:
//     D  dense   no row of the batch is marked (all rows carry the type's typical value)
//     S  sparse  the first row, the last row and every row p with p % 7 == 3 of the batch are marked
//     A  all     every row of the batch is marked (with X = NULL: a whole batch NULL)
//     3^batches placements ({no NULLs, NULLs only in the first batch, only in a later batch, in every batch, a whole
//     batch NULL, ...} are all among them); placements that coincide because the batch is one or two rows long
//     (S == A) are evaluated once. Results of more than g.shapeFullStatesMaxBatches batches (quick: 2, thorough: 3):
//     every assignment of {D, S} (2^batches; the one-row last batch of n = 4097 / 6145 is then D or A);
//   - the governance row limit: none, and every limit L of g.shapeLimits with L < n. A limit that cuts inside batch k
//     never delivers a row of a later batch, so with a limit the later batches are held dense (the placements of
//     batches 0..k are still the full product);
//   - the three wire formats.
//
// Oracle: unchanged in substance - every cell, NULL or value, is DuckDB's own for the text Arc hands to DuckDB - but
// read in compressed form, so that a 4097 x 37 result costs one small query instead of 150 000 scanned cells:
// DuckDB itself groups its result by the values of all c columns and reports, per group, the values, their text forms
// and the list of result positions (row_number() over the result) of the group, plus whether i equals the position
// in every row. The harness only expands that back to one expected cell per row and column; the response is then
// compared positionally, cell by cell, by the same comparator (compare.go) as the base grid. For one placement per
// mark index the compressed reading is cross-checked against a row-by-row reading of the same statement.
//
// A value class whose single-value result is not even delivered in the base grid (HTTP error, malformed body, rows
// missing: a known finding of its own) would take the whole wide response with it, so such a class is not used as a
// mark (the column falls back to NULL) and a type whose typical value is one has no column; both are reported in the
// evidence (shape_marks_excluded / shape_types_excluded). On the unchanged tree that concerns no typical and no
// special value.

import (
	"context"
	"database/sql"
	"errors"
	"fmt"
	"math"
	"sort"
	"strconv"
	"strings"
	"sync/atomic"
)

const batchRows = 2048 // DuckDB's STANDARD_VECTOR_SIZE = rows per Arrow record batch (measured: coverage["shape_arrow_ipc_batch_rows_by_n"])

func batchesOf(n int) int { return (n + batchRows - 1) / batchRows }

// bounds of batch b within a result of n rows: rows lo..hi inclusive
func batchBounds(n, b int) (lo, hi int) {
	lo = b * batchRows
	hi = lo + batchRows - 1
	if hi > n-1 {
		hi = n - 1
	}
	return
}

func sparseMarked(lo, hi, i int) bool { return i == lo || i == hi || (i-lo)%7 == 3 }

// canonical state of batch b for the requested state st
func canonState(n, b int, st byte) byte {
	if st != 'S' {
		return st
	}
	lo, hi := batchBounds(n, b)
	for i := lo; i <= hi; i++ {
		if !sparseMarked(lo, hi, i) {
			return 'S'
		}
	}
	return 'A'
}

// placementsOf: every assignment of a state of the alphabet to the batches of an n-row result, canonical and without duplicates.
func placementsOf(n int, alphabet string) []string {
	nb := batchesOf(n)
	total := 1
	for b := 0; b < nb; b++ {
		total *= len(alphabet)
	}
	seen := map[string]bool{}
	var out []string
	for k := 0; k < total; k++ {
		st := make([]byte, nb)
		x := k
		for b := nb - 1; b >= 0; b-- {
			st[b] = canonState(n, b, alphabet[x%len(alphabet)])
			x /= len(alphabet)
		}
		if !seen[string(st)] {
			seen[string(st)] = true
			out = append(out, string(st))
		}
	}
	return out
}

// markCond: the SQL predicate "row i is marked".
func markCond(n int, states string) string {
	var parts []string
	for b := 0; b < len(states); b++ {
		lo, hi := batchBounds(n, b)
		switch states[b] {
		case 'A':
			parts = append(parts, fmt.Sprintf("(i BETWEEN %d AND %d)", lo, hi))
		case 'S':
			parts = append(parts, fmt.Sprintf("(i BETWEEN %d AND %d AND (i = %d OR i = %d OR (i - %d) %% 7 = 3))", lo, hi, lo, hi, lo))
		}
	}
	if len(parts) == 0 {
		return "false"
	}
	return strings.Join(parts, " OR ")
}

// stateWords renders the per-batch states for signatures ("dense,sparse,all").
func stateWords(states string) string {
	w := map[byte]string{'D': "dense", 'S': "sparse", 'A': "all"}
	var p []string
	for i := 0; i < len(states); i++ {
		p = append(p, w[states[i]])
	}
	return strings.Join(p, ",")
}

// ---- marks -------------------------------------------------------------------------------------

// special: the designated special value of the type (the value class whose encoding differs most from the typical
// one: non-finite float, non-ASCII text, negative number, pre-epoch instant, ...).
var specialPriority = []string{"nan", "non-ascii", "high-bytes", "small-negative", "minus-one", "pre-epoch", "negative", "false",
	"empty", "null-fields", "zero"}

func (t *typeSpec) special() valSpec {
	for _, c := range specialPriority {
		for _, v := range t.vals[1:] {
			if v.class == c {
				return v
			}
		}
	}
	return t.vals[1]
}

// otherMarks: the value classes of the type that are neither the typical nor the special one. A value whose
// expression depends on the row index is not a mark (the mark is one value).
func (t *typeSpec) otherMarks() []valSpec {
	sp := t.special()
	var others []valSpec
	for _, v := range t.vals[1:] {
		if v.class != sp.class && !strings.Contains(v.sql, "i %") {
			others = append(others, v)
		}
	}
	return others
}

// markOf: the mark of the type's column for mark index k (see the file comment).
func (t *typeSpec) markOf(k int) valSpec {
	switch k {
	case 0:
		return t.null()
	case 1:
		return t.special()
	}
	others := t.otherMarks()
	if len(others) == 0 {
		return t.special()
	}
	return others[(k-2)%len(others)]
}

// markIndexes: how many mark indexes the tier enumerates for an n-row result.
func markIndexes(g *grid, n int) int {
	if batchesOf(n) > g.shapeSpecialMaxBatches || batchesOf(n) < g.shapeSpecialMinBatches {
		return 1
	}
	if batchesOf(n) > g.shapeAllMarksMaxBatches {
		return 2
	}
	max := 2
	for _, t := range g.types {
		if len(t.vals) >= 2 && 2+len(t.otherMarks()) > max {
			max = 2 + len(t.otherMarks())
		}
	}
	return max
}

func markLabel(k int) string {
	switch k {
	case 0:
		return "mark#0(NULL)"
	case 1:
		return "mark#1(special)"
	}
	return fmt.Sprintf("mark#%d", k)
}

// ---- items ---------------------------------------------------------------------------------------

type shapeCol struct {
	t    *typeSpec
	x    valSpec
	name string // column alias
}

// shapeItem: one statement (mark index, n, placement) and the row limits it is requested with.
type shapeItem struct {
	mark   int
	n      int
	states string
	limits []int
	cols   []shapeCol
}

func (it *shapeItem) String() string {
	return fmt.Sprintf("%s n=%d %s", markLabel(it.mark), it.n, it.states)
}

func (it *shapeItem) sql() string {
	var b strings.Builder
	b.WriteString("SELECT i AS i")
	for _, c := range it.cols {
		fmt.Fprintf(&b, ", CASE WHEN m THEN %s ELSE %s END AS %s", c.t.typed(c.x), c.t.typed(c.t.vals[0]), c.name)
	}
	fmt.Fprintf(&b, " FROM (SELECT i, (%s) AS m FROM range(%d) t(i)) AS s", markCond(it.n, it.states), it.n)
	return b.String()
}

// crosscheck: the placement of every mark index whose compressed oracle reading is compared with the row-by-row reading.
func (it *shapeItem) crosscheck() bool { return it.n == 2049 && it.states == "SA" }

// shapeColumns: the columns of mark index k. killers: "type\x00class" of value classes that are not delivered on their own.
func shapeColumns(g *grid, k int, killers map[string]bool, excludedMarks, excludedTypes map[string]bool) []shapeCol {
	var cols []shapeCol
	for _, t := range g.types {
		if len(t.vals) < 2 {
			continue // the untyped NULL column has no non-NULL value to contrast with
		}
		if killers[t.name+"\x00"+t.vals[0].class] {
			excludedTypes[t.name] = true
			continue
		}
		x := t.markOf(k)
		if killers[t.name+"\x00"+x.class] {
			excludedMarks[t.name+"/"+x.class] = true
			x = t.null()
		}
		cols = append(cols, shapeCol{t, x, fmt.Sprintf("c%02d", len(cols)+1)})
	}
	return cols
}

// shapeItems: the full product, largest results first (so that the workers finish together).
func shapeItems(g *grid, killers map[string]bool, excludedMarks, excludedTypes map[string]bool) []*shapeItem {
	var out []*shapeItem
	ns := append([]int{}, g.shapeNs...)
	sort.Sort(sort.Reverse(sort.IntSlice(ns)))
	colsOf := map[int][]shapeCol{}
	for _, n := range ns {
		for k := 0; k < markIndexes(g, n); k++ {
			if colsOf[k] == nil {
				colsOf[k] = shapeColumns(g, k, killers, excludedMarks, excludedTypes)
			}
			for _, st := range placementsOf(n, g.shapeStates(n)) {
				it := &shapeItem{mark: k, n: n, states: st, limits: []int{0}, cols: colsOf[k]}
				for _, l := range g.shapeLimits {
					if l >= n {
						continue
					}
					cut := (l - 1) / batchRows // the batch the limit cuts in (or ends)
					if strings.Trim(st[cut+1:], "D") == "" {
						it.limits = append(it.limits, l)
					}
				}
				out = append(out, it)
			}
		}
	}
	return out
}

// ---- compressed oracle -----------------------------------------------------------------------------

var idxCells []ocell // expected cells of column i for rows 0..: int r (shared, read-only)

func initIdxCells(max int) {
	idxCells = make([]ocell, max)
	for r := range idxCells {
		e, _ := expectedOf(int64(r), "")
		idxCells[r] = ocell{e, strconv.Itoa(r)}
	}
}

// wideExpected: DuckDB's result of a shape statement. Row r carries groups[cls[r]].cells[k] in data column k.
type wideExpected struct {
	columns  []string
	n        int
	idx      []ocell // column i, one per row
	idxIsPos bool    // DuckDB's i equals the result position in every row (stated by DuckDB itself)
	groups   []wideGroup
	cls      []uint8
}

type wideGroup struct {
	cells []ocell
	names []string // value class of the group's value in each column ("NULL", the typical or the mark class)
}

// single-row reference values per (type, value class): DuckDB's value and text form (filled by main before the run)
var refCells = map[string]ocell{} // "type\x00class"

var shapeOracleFallbacks, shapeOracleCrosschecked int64

var errShapeFallback = errors.New("compressed oracle not applicable")

var ctxBackground = context.Background()

func labelOf(c shapeCol, cell ocell) string {
	if cell.v == nil {
		return "NULL"
	}
	for _, cand := range []valSpec{c.t.vals[0], c.x} {
		if r, ok := refCells[c.t.name+"\x00"+cand.class]; ok && r.v != nil && r.text == cell.text {
			return cand.class
		}
	}
	return "?"
}

func (o *oracle) columnsOf(transformed string) ([]string, error) {
	rs, err := o.db.Query("SELECT * FROM (" + transformed + ") AS q LIMIT 0") // DuckDB's column names
	if err != nil {
		return nil, err
	}
	defer rs.Close()
	return rs.Columns()
}

// runWide: DuckDB's result of the statement, read group-wise (see the file comment).
func (o *oracle) runWide(transformed string, it *shapeItem) (*wideExpected, error) {
	cols, err := o.columnsOf(transformed)
	if err != nil {
		return nil, err
	}
	if len(cols) != 1+len(it.cols) {
		return nil, fmt.Errorf("oracle: %d columns", len(cols))
	}
	var sel, grp []string
	for _, c := range cols[1:] {
		qc := "w." + quoteIdent(c)
		sel = append(sel, fmt.Sprintf("%[1]s, CAST(%[1]s AS VARCHAR)", qc))
		grp = append(grp, qc)
	}
	q := fmt.Sprintf(`SELECT bool_and(w.%s = w.verif_r), count(*), string_agg(CAST(w.verif_r AS VARCHAR), ',' ORDER BY w.verif_r), %s `+
		`FROM (SELECT row_number() OVER () - 1 AS verif_r, q.* FROM (%s) AS q) AS w GROUP BY %s`,
		quoteIdent(cols[0]), strings.Join(sel, ", "), transformed, strings.Join(grp, ", "))
	rs, err := o.db.Query(q)
	if err != nil {
		return nil, err
	}
	defer rs.Close()
	e := &wideExpected{columns: cols, n: it.n, idxIsPos: true, idx: idxCells[:it.n], cls: make([]uint8, it.n)}
	filled := 0
	nc := len(it.cols)
	for rs.Next() {
		var iok sql.NullBool
		var cnt int64
		var pos sql.NullString
		vals := make([]any, nc)
		texts := make([]sql.NullString, nc)
		dest := []any{&iok, &cnt, &pos}
		for k := 0; k < nc; k++ {
			dest = append(dest, &vals[k], &texts[k])
		}
		if err := rs.Scan(dest...); err != nil {
			return nil, err
		}
		if !iok.Valid || !iok.Bool {
			return nil, errShapeFallback // DuckDB's i is not the result position
		}
		g := wideGroup{cells: make([]ocell, nc), names: make([]string, nc)}
		for k := 0; k < nc; k++ {
			ce, err := expectedOf(vals[k], it.cols[k].t.kind)
			if err != nil {
				return nil, err
			}
			g.cells[k] = ocell{ce, texts[k].String}
			if g.names[k] = labelOf(it.cols[k], g.cells[k]); g.names[k] == "?" {
				return nil, fmt.Errorf("oracle: column %s carries a value that is neither NULL, the typical value nor the mark: %q", cols[1+k], texts[k].String)
			}
		}
		if len(e.groups) >= 250 {
			return nil, errShapeFallback
		}
		e.groups = append(e.groups, g)
		gi := uint8(len(e.groups)) // 1-based while filling (0 = not yet filled)
		ps := strings.Split(pos.String, ",")
		if int(cnt) != len(ps) {
			return nil, fmt.Errorf("oracle: group count %d but %d positions", cnt, len(ps))
		}
		for _, p := range ps {
			r, err := strconv.Atoi(p)
			if err != nil || r < 0 || r >= it.n || e.cls[r] != 0 {
				return nil, fmt.Errorf("oracle: bad position list entry %q", p)
			}
			e.cls[r] = gi
			filled++
		}
	}
	if err := rs.Err(); err != nil {
		return nil, err
	}
	if filled != it.n {
		return nil, fmt.Errorf("oracle: %d of %d result positions reported", filled, it.n)
	}
	for r := range e.cls {
		e.cls[r]--
	}
	return e, nil
}

// runWideRows: the same statement read row by row (every cell scanned, as the base grid's oracle does).
func (o *oracle) runWideRows(transformed string, it *shapeItem) (*wideExpected, error) {
	cols, err := o.columnsOf(transformed)
	if err != nil {
		return nil, err
	}
	if len(cols) != 1+len(it.cols) {
		return nil, fmt.Errorf("oracle: %d columns", len(cols))
	}
	var sel []string
	for _, c := range cols {
		sel = append(sel, "CAST(q."+quoteIdent(c)+" AS VARCHAR)")
	}
	rs, err := o.db.Query(fmt.Sprintf("SELECT q.*, %s FROM (%s) AS q", strings.Join(sel, ", "), transformed))
	if err != nil {
		return nil, err
	}
	defer rs.Close()
	nc := len(it.cols)
	e := &wideExpected{columns: cols, n: it.n}
	byKey := map[string]uint8{}
	for rs.Next() {
		vals := make([]any, nc+1)
		texts := make([]sql.NullString, nc+1)
		var dest []any
		for k := range vals {
			dest = append(dest, &vals[k])
		}
		for k := range texts {
			dest = append(dest, &texts[k])
		}
		if err := rs.Scan(dest...); err != nil {
			return nil, err
		}
		ie, err := expectedOf(vals[0], "")
		if err != nil {
			return nil, err
		}
		e.idx = append(e.idx, ocell{ie, texts[0].String})
		g := wideGroup{cells: make([]ocell, nc), names: make([]string, nc)}
		var key strings.Builder
		for k := 0; k < nc; k++ {
			ce, err := expectedOf(vals[1+k], it.cols[k].t.kind)
			if err != nil {
				return nil, err
			}
			g.cells[k] = ocell{ce, texts[1+k].String}
			g.names[k] = labelOf(it.cols[k], g.cells[k])
			fmt.Fprintf(&key, "%v\x00%s\x00%s\x01", ce == nil, describe1(ce), texts[1+k].String)
		}
		gi, ok := byKey[key.String()]
		if !ok {
			if len(e.groups) >= 250 {
				return nil, fmt.Errorf("oracle: more than 250 distinct rows")
			}
			gi = uint8(len(e.groups))
			byKey[key.String()] = gi
			e.groups = append(e.groups, g)
		}
		e.cls = append(e.cls, gi)
	}
	if err := rs.Err(); err != nil {
		return nil, err
	}
	if len(e.cls) != it.n {
		return nil, fmt.Errorf("oracle: %d rows for n=%d", len(e.cls), it.n)
	}
	return e, nil
}

// shapeExpected: the expected rows of a shape statement; falls back to the row-by-row reading when the compressed one
// is not applicable, and cross-checks the two on request.
func (o *oracle) shapeExpected(transformed string, it *shapeItem, crosscheck bool) (*wideExpected, error) {
	e, err := o.runWide(transformed, it)
	if err == errShapeFallback {
		atomic.AddInt64(&shapeOracleFallbacks, 1)
		return o.runWideRows(transformed, it)
	}
	if err != nil {
		return nil, err
	}
	if crosscheck {
		full, err := o.runWideRows(transformed, it)
		if err != nil {
			return nil, err
		}
		for r := 0; r < it.n; r++ {
			if full.idx[r].text != e.idx[r].text {
				return nil, fmt.Errorf("oracle cross-check: row %d: i is %s row-by-row, %s group-wise", r, full.idx[r].text, e.idx[r].text)
			}
			a, b := full.groups[full.cls[r]], e.groups[e.cls[r]]
			for k := range a.cells {
				if a.cells[k].text != b.cells[k].text || (a.cells[k].v == nil) != (b.cells[k].v == nil) || describe1(a.cells[k].v) != describe1(b.cells[k].v) {
					return nil, fmt.Errorf("oracle cross-check: row %d column %s differs: row-by-row %s / %q, group-wise %s / %q", r, e.columns[1+k],
						describe(a.cells[k].v), a.cells[k].text, describe(b.cells[k].v), b.cells[k].text)
				}
			}
		}
		atomic.AddInt64(&shapeOracleCrosschecked, 1)
	}
	return e, nil
}

// ---- cheap equality of observed values (memoises the comparator within one response) ---------------

// sameObs: a and b are the same observed value. false only means "not known to be the same".
func sameObs(a, b any) bool {
	switch x := a.(type) {
	case nil:
		return b == nil
	case oInt:
		y, ok := b.(oInt)
		return ok && x.v.Cmp(y.v) == 0
	case oFloat:
		y, ok := b.(oFloat)
		return ok && x.w == y.w && math.Float64bits(x.f) == math.Float64bits(y.f)
	case oNum:
		y, ok := b.(oNum)
		return ok && x == y
	case oStr:
		y, ok := b.(oStr)
		return ok && x == y
	case oBytes:
		y, ok := b.(oBytes)
		return ok && string(x) == string(y)
	case oBool:
		y, ok := b.(oBool)
		return ok && x == y
	case oTime:
		y, ok := b.(oTime)
		return ok && x == y
	case oDate:
		y, ok := b.(oDate)
		return ok && x == y
	case oTOD:
		y, ok := b.(oTOD)
		return ok && x == y
	case oDec:
		y, ok := b.(oDec)
		return ok && x.scale == y.scale && x.u.Cmp(y.u) == 0
	case oInterval:
		y, ok := b.(oInterval)
		return ok && x.months == y.months && x.days == y.days && x.nanos.Cmp(y.nanos) == 0
	}
	return false
}

// idxMatches: the observed cell is exactly the integer r (fast path of the column-i comparison).
func idxMatches(obs any, r int) bool {
	switch x := obs.(type) {
	case oInt:
		return x.v.IsInt64() && x.v.Int64() == int64(r)
	case oNum:
		return string(x) == idxCells[r].text
	}
	return false
}

// ---- judging one wide response ---------------------------------------------------------------------

var shapeNontrivial = map[string]bool{} // "format|type|X|n|states" with >=1 cell compared (guarded by failMu)
var shapeColumnEvaluations int64

// judgeWide compares one response of a shape statement with the oracle and records every distinct failure kind
// once per column and value class of the failing row.
func judgeWide(format string, it *shapeItem, limit int, q string, exp *wideExpected, status int, body []byte) []string {
	var kinds []string
	type seenKey struct {
		kind string
		col  int
		comp string
	}
	seen := map[seenKey]bool{}
	fail := func(kind string, col int, comp string, detailf func() string) {
		if seen[seenKey{kind, col, comp}] {
			return
		}
		seen[seenKey{kind, col, comp}] = true
		kinds = append(kinds, kind)
		detail := detailf()
		f := failure{Format: format, Type: "*", Value: markLabel(it.mark), Comp: comp, Shape: it.states, N: it.n, Limit: limit, Kind: kind, Detail: detail, SQL: q, item: it}
		if col >= 0 {
			f.Type, f.Value = it.cols[col].t.name, it.cols[col].x.class
			f.Detail = fmt.Sprintf("column %s (%s): %s", it.cols[col].name, it.cols[col].t.name, detail)
		}
		record(f)
	}
	if status != 200 {
		fail(fmt.Sprintf("http-%d", status), -1, "", func() string {
			return "DuckDB answers the statement, Arc responds " + strconv.Itoa(status) + ": " + errorText(format, body)
		})
		return kinds
	}
	var d *decoded
	var err error
	switch format {
	case "json":
		d, err = decodeJSON(body)
	case "msgpack":
		d, err = decodeMsgPack(body)
	default:
		d, err = decodeArrow(body)
	}
	if err != nil {
		m, ok := err.(*malformed)
		if !ok {
			unbound("decoder: " + err.Error())
		}
		fail("malformed("+m.what+")", -1, "", func() string { return fmt.Sprintf("the body is not a well-formed %s response: %s", format, m.what) })
		return kinds
	}
	if format == "arrow" && limit == 0 {
		if old, loaded := shapeBatchSizes.LoadOrStore(it.n, fmt.Sprint(d.batches)); loaded && old.(string) != fmt.Sprint(d.batches) {
			shapeBatchSizes.Store(-it.n, fmt.Sprint(d.batches)) // a second batching of the same row count: visible in the evidence
		}
	}
	if strings.Join(d.columns, "\x00") != strings.Join(exp.columns, "\x00") {
		fail("columns-differ", -1, "", func() string { return fmt.Sprintf("columns %q, DuckDB %q", d.columns, exp.columns) })
		return kinds
	}
	if d.rowCount >= 0 && d.rowCount != int64(d.rows) {
		fail("row_count-field-differs", -1, "", func() string { return fmt.Sprintf("row_count=%d but %d rows in data", d.rowCount, d.rows) })
	}
	want := it.n
	if limit > 0 && limit < want {
		want = limit
	}
	limitIgnored := false
	switch {
	case d.rows == want:
	case limit > 0 && d.rows == it.n:
		limitIgnored = true // every row was delivered: its cells are those of the request without a limit, judged there
		fail("row-limit-not-applied", -1, "", func() string {
			return fmt.Sprintf("governance max_rows_per_query=%d, response carries all %d rows", limit, d.rows)
		})
	case d.rows < want:
		fail("rows-missing", -1, "", func() string { return fmt.Sprintf("%d rows, expected %d", d.rows, want) })
	default:
		fail("rows-extra", -1, "", func() string { return fmt.Sprintf("%d rows, expected %d", d.rows, want) })
	}
	rows := d.rows
	if rows > it.n {
		rows = it.n
	}
	if limitIgnored {
		rows = 0
	}
	for r := 0; r < rows; r++ {
		if !exp.idxIsPos || !idxMatches(d.cols[0][r], r) {
			if k := cmpCell(format, exp.idx[r], d.cols[0][r]); k != "" {
				fail("row-order-or-index:"+k, -1, "", func() string {
					return fmt.Sprintf("row %d column i: DuckDB %s, response %s", r, describe(exp.idx[r].v), describe(d.cols[0][r]))
				})
			}
		}
	}
	// the comparator is a pure function of (format, expected, observed) and the expected cell of a row is one of a few
	// shared values, so its verdict is memoised per (column, group) against the last observed value
	type memoEnt struct {
		obs   any
		res   string
		valid bool
	}
	memo := make([]memoEnt, len(exp.groups))
	for k := range it.cols {
		for i := range memo {
			memo[i] = memoEnt{}
		}
		col := d.cols[1+k]
		for r := 0; r < rows; r++ {
			gi := exp.cls[r]
			obs := col[r]
			m := &memo[gi]
			var res string
			if m.valid && sameObs(m.obs, obs) {
				res = m.res
			} else {
				res = cmpCell(format, exp.groups[gi].cells[k], obs)
				*m = memoEnt{obs, res, true}
			}
			if res != "" {
				e := exp.groups[gi].cells[k]
				fail(res, k, exp.groups[gi].names[k], func() string {
					return fmt.Sprintf("row %d: DuckDB %s (text form %s), response %s", r, describe(e.v), trimQ(strconv.QuoteToASCII(e.text)), describe(obs))
				})
			}
		}
	}
	atomic.AddInt64(&cnt.cells, int64(rows*(1+len(it.cols))))
	atomic.AddInt64(&cnt.shapeCells, int64(rows*(1+len(it.cols))))
	if rows > 0 {
		atomic.AddInt64(&shapeColumnEvaluations, int64(len(it.cols)))
		failMu.Lock()
		for _, c := range it.cols {
			shapeNontrivial[fmt.Sprintf("%s|%s|%s|%d|%s", format, c.t.name, c.x.class, it.n, it.states)] = true
		}
		failMu.Unlock()
	}
	return kinds
}

// runShapeItem: one oracle evaluation, limits x formats responses.
func runShapeItem(s *sut, o *oracle, it *shapeItem) {
	q := it.sql()
	if len(q) > 10000 {
		unbound(fmt.Sprintf("shape statement of %d characters exceeds Arc's 10000-character limit (split the columns): %s", len(q), it))
	}
	tj, ta := s.h.VerifC19Transformed(ctxBackground, q)
	if tj != q || ta != q {
		atomic.AddInt64(&cnt.transformChanged, 1)
	}
	expJ, err := o.shapeExpected(tj, it, it.crosscheck())
	atomic.AddInt64(&cnt.oracleQueries, 1)
	if err != nil {
		unbound("shape oracle (fix shape.go): " + it.String() + ": " + err.Error() + ": " + q)
	}
	expA := expJ
	if ta != tj {
		expA, err = o.shapeExpected(ta, it, false)
		atomic.AddInt64(&cnt.oracleQueries, 1)
		if err != nil {
			unbound("shape oracle (fix shape.go): " + it.String() + ": " + err.Error() + ": " + ta)
		}
	}
	for _, limit := range it.limits {
		for _, ep := range endpoints {
			exp := expJ
			if ep.format == "arrow" {
				exp = expA
			}
			status, body, err := s.postRetry(ep.format, ep.path, q, limit)
			atomic.AddInt64(&cnt.requests, 1)
			if err != nil {
				unbound("app.Test: " + err.Error())
			}
			kinds := judgeWide(ep.format, it, limit, q, exp, status, body)
			atomic.AddInt64(&cnt.evaluations, 1)
			atomic.AddInt64(&cnt.shapeEvaluations, 1)
			if len(kinds) == 0 {
				countOutcome("ok")
			}
			for _, k := range kinds {
				countOutcome(k)
			}
			if it.mark == 0 && it.n == 2049 && ep.format == "msgpack" {
				shapeSamples.Add(map[string]any{"sql": q, "format": ep.format, "row_limit": limit, "states": stateWords(it.states), "status": status, "body_bytes": len(body), "outcome": append([]string{}, kinds...)})
			}
		}
	}
}

// ---- classification of shape failures ------------------------------------------------------------------

type shapeKey struct{ format, typ, x, kind string }

// undelivered: the base-grid failure kinds that mean "the single-value result is not delivered".
func undelivered(kind string) bool {
	return strings.HasPrefix(kind, "http-") || strings.HasPrefix(kind, "malformed(") || kind == "rows-missing" || kind == "columns-differ"
}

// killersOf: value classes that are not delivered on their own in some format (base grid failures).
func killersOf(base []failure) map[string]bool {
	out := map[string]bool{}
	for _, f := range base {
		if f.Type != "column-name" && f.Value != "cycle" && undelivered(f.Kind) {
			out[f.Type+"\x00"+f.Value] = true
		}
	}
	return out
}

// classifyShapes turns the raw shape failures into classes. A failure that the base grid already explains is dropped:
// a cell failure when the value class of the failing row fails on its own with the same kind in the same format; a
// whole-response failure when some value class present in some column of the statement fails on its own with the same
// kind in the same format. What is left is specific to the placement. Signature:
//
//	shape|<format>|<type>|<mark X>|<kind>|<minimal placement: per-batch states>[@limit-cuts]
//
// (type and mark are * and the mark index for a whole-response failure). minimal = fewest batches, then (dense <
// all < sparse) lexicographic states, then without a row limit before with one; the row count is not part of the
// signature, so that quick and thorough name a class identically.
func classifyShapes(fs []failure, base []failure, g *grid, explored map[[2]string]bool) (out []*class, explainedByBase int) {
	standalone := map[[4]string]bool{}
	for _, f := range base {
		if f.Type == "column-name" || f.Value == "cycle" {
			continue
		}
		standalone[[4]string{f.Format, f.Kind, f.Type, f.Value}] = true
	}
	groups := map[shapeKey][]failure{}
	for _, f := range fs {
		explained := false
		if f.Type != "*" {
			explained = f.Comp != "" && standalone[[4]string{f.Format, f.Kind, f.Type, f.Comp}]
		} else if f.item != nil {
			for _, c := range f.item.cols {
				for _, v := range []string{c.t.vals[0].class, c.x.class, "NULL"} {
					if standalone[[4]string{f.Format, f.Kind, c.t.name, v}] {
						explained = true
					}
				}
			}
		}
		if explained {
			explainedByBase++
			continue
		}
		k := shapeKey{f.Format, f.Type, f.Value, f.Kind}
		groups[k] = append(groups[k], f)
	}
	// dense < all < sparse: "all" placements exist at every multi-batch size (a short last batch), so the minimal
	// placement of a class is the same in both tiers
	rank := func(states string) string { return strings.NewReplacer("D", "0", "A", "1", "S", "2").Replace(states) }
	less := func(a, b failure) bool {
		if len(a.Shape) != len(b.Shape) {
			return len(a.Shape) < len(b.Shape)
		}
		if ra, rb := rank(a.Shape), rank(b.Shape); ra != rb {
			return ra < rb
		}
		if (a.Limit > 0) != (b.Limit > 0) {
			return a.Limit == 0
		}
		if a.N != b.N {
			return a.N < b.N
		}
		return a.Limit < b.Limit
	}
	// classes are formed per (format, kind); the placement suffix of a class is that of its minimal example, chosen
	// after merging (different columns of one defect class may need different minimal placements)
	type skey struct{ format, kind string }
	byKind := map[skey]map[string]map[string]*class{}
	for k, l := range groups {
		sort.SliceStable(l, func(i, j int) bool { return less(l[i], l[j]) })
		c := &class{format: k.format, typ: k.typ, value: k.x, kind: k.kind, count: len(l), example: l[0], shape: true}
		sk := skey{k.format, k.kind}
		if byKind[sk] == nil {
			byKind[sk] = map[string]map[string]*class{}
		}
		if byKind[sk][k.typ] == nil {
			byKind[sk][k.typ] = map[string]*class{}
		}
		byKind[sk][k.typ][k.x] = c
	}
	merge := func(cs []*class) *class {
		sort.SliceStable(cs, func(i, j int) bool {
			a, b := cs[i].example, cs[j].example
			if less(a, b) || less(b, a) {
				return less(a, b)
			}
			if g.typeIndex(a.Type) != g.typeIndex(b.Type) {
				return g.typeIndex(a.Type) < g.typeIndex(b.Type)
			}
			if (a.Value == "NULL") != (b.Value == "NULL") {
				return a.Value == "NULL"
			}
			return a.Value < b.Value
		})
		m := *cs[0]
		m.count = 0
		for _, c := range cs {
			m.count += c.count
		}
		return &m
	}
	var merged []*class
	for _, types := range byKind {
		// whole-response classes stand on their own
		for _, c := range types["*"] {
			merged = append(merged, c)
		}
		// mark collapse: every explored mark of the type fails -> "*"; type collapse: every explored (type, mark) fails -> "*|*"
		perType := map[string][]*class{}
		allStar, nTypes, any := true, 0, false
		for _, t := range g.types {
			var uni []string
			for x := range explored {
				if x[0] == t.name {
					uni = append(uni, x[1])
				}
			}
			if len(uni) == 0 {
				continue
			}
			nTypes++
			vals := types[t.name]
			full := len(vals) > 0
			for _, x := range uni {
				if vals[x] == nil {
					full = false
				}
			}
			if !full {
				allStar = false
			}
			if len(vals) == 0 {
				continue
			}
			any = true
			var cs []*class
			for _, c := range vals {
				cs = append(cs, c)
			}
			perType[t.name] = cs
		}
		if !any {
			continue
		}
		if allStar && nTypes > 1 {
			var cs []*class
			for _, l := range perType {
				cs = append(cs, l...)
			}
			m := merge(cs)
			m.typ, m.value = "*", "*"
			merged = append(merged, m)
			continue
		}
		// slot collapse: every type fails with its NULL mark (or with its special mark) -> "*|NULL" ("*|special")
		for _, slot := range []string{"NULL", "special"} {
			var cs []*class
			all, n := true, 0
			for _, t := range g.types {
				if len(t.vals) < 2 {
					continue
				}
				x := "NULL"
				if slot == "special" {
					x = t.special().class
				}
				if !explored[[2]string{t.name, x}] {
					continue
				}
				n++
				var hit *class
				for _, c := range perType[t.name] {
					if c.value == x {
						hit = c
					}
				}
				if hit == nil {
					all = false
					break
				}
				cs = append(cs, hit)
			}
			if !all || n < 2 {
				continue
			}
			for _, c := range cs {
				l := perType[c.typ]
				for i := range l {
					if l[i] == c {
						perType[c.typ] = append(l[:i:i], l[i+1:]...)
						break
					}
				}
			}
			m := merge(cs)
			m.typ, m.value = "*", slot
			merged = append(merged, m)
		}
		for _, t := range g.types {
			l := perType[t.name]
			if len(l) == 0 {
				continue
			}
			nUni := 0
			for x := range explored {
				if x[0] == t.name {
					nUni++
				}
			}
			if len(l) == nUni && nUni > 1 { // every explored mark of the type fails
				m := merge(l)
				m.value = "*"
				merged = append(merged, m)
			} else {
				merged = append(merged, l...)
			}
		}
	}
	for _, c := range merged {
		suffix := stateWords(c.example.Shape)
		if c.example.Limit > 0 {
			suffix += "@limit-cuts"
		}
		c.kind += "|" + suffix
		out = append(out, c)
	}
	sort.Slice(out, func(i, j int) bool { return out[i].sig() < out[j].sig() })
	return out, explainedByBase
}
