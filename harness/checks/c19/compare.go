package main

// Expected values (DuckDB's own, read through database/sql on a plain connection) and the cell comparator.
//
// A cell is faithful when the decoded wire value IS the DuckDB value in the format's native encoding, or is
// one of the two documented conversions of the property statement:
//   - JSON: a non-finite float may be null;
//   - a type without a native encoding in the format may be the string CAST(value AS VARCHAR) of DuckDB.
// Anything else is classified (stable kind strings, they become part of the class signature):
//   null-for-value / value-for-null      null bitmap differs
//   wrong-value                          decodes to a different value
//   precision-lost                       numerically close but the DuckDB value cannot be recovered from it
//   text-form-not-duckdb(lossless)       a string rendering that is not DuckDB's text form although the value
//                                        can be recovered from it by a format-specific parse

import (
	"encoding/json"
	"fmt"
	"math"
	"math/big"
	"regexp"
	"sort"
	"strconv"
	"strings"
	"time"

	duckdb "github.com/duckdb/duckdb-go/v2"
)

// ---- expected values ---------------------------------------------------------------------------

type eInt struct{ v *big.Int }
type eDec struct {
	u     *big.Int
	scale int
}
type eFloat struct {
	f float64
	w int
}
type eStr string
type eBytes []byte
type eBool bool
type eInstant struct{ sec, nsec int64 }
type eDate int64
type eTOD int64
type eInterval struct{ months, days, micros int64 }
type eList []any
type eStruct map[string]any

type ocell struct {
	v    any    // nil = SQL NULL, else one of the e* types
	text string // DuckDB's CAST(value AS VARCHAR) (meaningless when v == nil)
}

func floorDiv(a, b int64) (q, r int64) {
	q, r = a/b, a%b
	if r < 0 {
		q, r = q-1, r+b
	}
	return
}

// expectedOf normalises a value scanned from the duckdb-go driver. kind is the harness' category of the
// column type (needed to tell DATE / TIME / TIMESTAMP apart, all of which arrive as time.Time).
func expectedOf(v any, kind string) (any, error) {
	switch x := v.(type) {
	case nil:
		return nil, nil
	case bool:
		return eBool(x), nil
	case int8:
		return eInt{big.NewInt(int64(x))}, nil
	case int16:
		return eInt{big.NewInt(int64(x))}, nil
	case int32:
		return eInt{big.NewInt(int64(x))}, nil
	case int64:
		return eInt{big.NewInt(x)}, nil
	case int:
		return eInt{big.NewInt(int64(x))}, nil
	case uint8:
		return eInt{big.NewInt(int64(x))}, nil
	case uint16:
		return eInt{big.NewInt(int64(x))}, nil
	case uint32:
		return eInt{big.NewInt(int64(x))}, nil
	case uint64:
		return eInt{new(big.Int).SetUint64(x)}, nil
	case *big.Int:
		return eInt{new(big.Int).Set(x)}, nil
	case float32:
		return eFloat{float64(x), 32}, nil
	case float64:
		return eFloat{x, 64}, nil
	case string:
		return eStr(x), nil
	case []byte:
		return eBytes(append([]byte{}, x...)), nil
	case duckdb.Decimal:
		return eDec{new(big.Int).Set(x.Value), int(x.Scale)}, nil
	case duckdb.Interval:
		return eInterval{int64(x.Months), int64(x.Days), x.Micros}, nil
	case time.Time:
		switch kind {
		case "date":
			d, r := floorDiv(x.Unix(), 86400)
			if r != 0 || x.Nanosecond() != 0 {
				return nil, fmt.Errorf("DATE with a time part: %v", x)
			}
			return eDate(d), nil
		case "time":
			_, r := floorDiv(x.Unix(), 86400)
			return eTOD(r*1e6 + int64(x.Nanosecond())/1000), nil
		default:
			return eInstant{x.Unix(), int64(x.Nanosecond())}, nil
		}
	case []any:
		out := make(eList, len(x))
		for i := range x {
			e, err := expectedOf(x[i], "")
			if err != nil {
				return nil, err
			}
			out[i] = e
		}
		return out, nil
	case map[string]any:
		out := eStruct{}
		for k, e := range x {
			ev, err := expectedOf(e, "")
			if err != nil {
				return nil, err
			}
			out[k] = ev
		}
		return out, nil
	}
	return nil, fmt.Errorf("driver value of type %T", v)
}

// ---- helpers ---------------------------------------------------------------------------------

func pow10(n int) *big.Int {
	return new(big.Int).Exp(big.NewInt(10), big.NewInt(int64(n)), nil)
}

func ratOfDec(u *big.Int, scale int) *big.Rat {
	if scale >= 0 {
		return new(big.Rat).SetFrac(u, pow10(scale))
	}
	return new(big.Rat).SetInt(new(big.Int).Mul(u, pow10(-scale)))
}

var numRe = regexp.MustCompile(`^[+-]?(\d+(\.\d*)?|\.\d+)([eE][+-]?\d+)?$`)

// ratOfText parses a plain or scientific decimal numeral exactly.
func ratOfText(s string) (*big.Rat, bool) {
	if !numRe.MatchString(s) {
		return nil, false
	}
	mant, exp := s, 0
	if i := strings.IndexAny(s, "eE"); i >= 0 {
		e, err := strconv.Atoi(s[i+1:])
		if err != nil || e > 5000 || e < -5000 {
			return nil, false
		}
		mant, exp = s[:i], e
	}
	r, ok := new(big.Rat).SetString(mant)
	if !ok {
		return nil, false
	}
	if exp > 0 {
		r.Mul(r, new(big.Rat).SetInt(pow10(exp)))
	} else if exp < 0 {
		r.Quo(r, new(big.Rat).SetInt(pow10(-exp)))
	}
	return r, true
}

// closeTo: |a-b| <= 1e-9 * max(|a|,|b|,1)  (only used to tell "precision-lost" from "wrong-value")
func closeTo(a, b *big.Rat) bool {
	d := new(big.Rat).Sub(a, b)
	d.Abs(d)
	m := new(big.Rat).Abs(a)
	if bb := new(big.Rat).Abs(b); bb.Cmp(m) > 0 {
		m = bb
	}
	if one := big.NewRat(1, 1); one.Cmp(m) > 0 {
		m = one
	}
	return d.Cmp(m.Mul(m, big.NewRat(1, 1_000_000_000))) <= 0
}

func numKind(exp, got *big.Rat) string {
	if exp.Cmp(got) == 0 {
		return ""
	}
	if closeTo(exp, got) {
		return "precision-lost"
	}
	return "wrong-value"
}

var isoRe = regexp.MustCompile(`^(-?\d{4,})-(\d\d)-(\d\d)[T ](\d\d):(\d\d):(\d\d)(?:\.(\d{1,9}))?(Z|[+-]\d\d(?::?\d\d)?)$`)

// daysFromCivil: proleptic Gregorian, astronomical year numbering (year 0 = 1 BC), days since 1970-01-01.
func daysFromCivil(y, m, d int64) int64 {
	if m <= 2 {
		y--
	}
	era, _ := floorDiv(y, 400)
	yoe := y - era*400
	mp := (m + 9) % 12
	doy := (153*mp+2)/5 + d - 1
	doe := yoe*365 + yoe/4 - yoe/100 + doy
	return era*146097 + doe - 719468
}

// parseISO is a lenient ISO-8601 / RFC 3339 instant parser (any number of year digits, optional sign).
func parseISO(s string) (sec, nsec int64, ok bool) {
	m := isoRe.FindStringSubmatch(s)
	if m == nil {
		return 0, 0, false
	}
	at := func(i int) int64 { v, _ := strconv.ParseInt(m[i], 10, 64); return v }
	y, mo, d, h, mi, se := at(1), at(2), at(3), at(4), at(5), at(6)
	if mo < 1 || mo > 12 || d < 1 || d > 31 || h > 24 || mi > 59 || se > 60 {
		return 0, 0, false
	}
	if m[7] != "" {
		f := m[7] + strings.Repeat("0", 9-len(m[7]))
		nsec, _ = strconv.ParseInt(f, 10, 64)
	}
	sec = daysFromCivil(y, mo, d)*86400 + h*3600 + mi*60 + se
	if z := m[8]; z != "Z" {
		sign := int64(1)
		if z[0] == '-' {
			sign = -1
		}
		z = strings.ReplaceAll(z[1:], ":", "")
		oh, _ := strconv.ParseInt(z[:2], 10, 64)
		om := int64(0)
		if len(z) == 4 {
			om, _ = strconv.ParseInt(z[2:], 10, 64)
		}
		sec -= sign * (oh*3600 + om*60)
	}
	return sec, nsec, true
}

var todRe = regexp.MustCompile(`^(\d\d):(\d\d):(\d\d)(?:\.(\d{1,9}))?$`)

func parseTOD(s string) (int64, bool) {
	m := todRe.FindStringSubmatch(s)
	if m == nil {
		return 0, false
	}
	at := func(i int) int64 { v, _ := strconv.ParseInt(m[i], 10, 64); return v }
	us := (at(1)*3600 + at(2)*60 + at(3)) * 1e6
	if m[4] != "" {
		f := m[4] + strings.Repeat("0", 9-len(m[4]))
		ns, _ := strconv.ParseInt(f, 10, 64)
		if ns%1000 != 0 {
			return 0, false
		}
		us += ns / 1000
	}
	return us, true
}

// ---- the comparator --------------------------------------------------------------------------

// cmpCell returns "" when obs faithfully encodes exp in the given format ("json", "msgpack", "arrow").
func cmpCell(format string, exp ocell, obs any) string {
	if exp.v == nil {
		if obs == nil {
			return ""
		}
		return "value-for-null"
	}
	if obs == nil {
		if f, ok := exp.v.(eFloat); ok && format == "json" && (math.IsNaN(f.f) || math.IsInf(f.f, 0)) {
			return "" // documented conversion
		}
		return "null-for-value"
	}
	if o, ok := obs.(oOther); ok {
		return "undecodable(" + string(o) + ")"
	}
	// documented conversion: DuckDB's text form, for types the format cannot carry natively
	if s, ok := obs.(oStr); ok && string(s) == exp.text && !hasNative(format, exp.v) {
		return ""
	}
	switch e := exp.v.(type) {
	case eInt:
		return cmpNumber(new(big.Rat).SetInt(e.v), 0, exp.text, obs)
	case eDec:
		return cmpNumber(ratOfDec(e.u, e.scale), e.scale, exp.text, obs)
	case eFloat:
		var got float64
		switch o := obs.(type) {
		case oNum:
			f, err := strconv.ParseFloat(string(o), 64)
			if err != nil {
				return "wrong-value"
			}
			got = f
		case oFloat:
			got = o.f
		default:
			return "wrong-value"
		}
		if math.IsNaN(e.f) {
			if math.IsNaN(got) {
				return ""
			}
			return "wrong-value"
		}
		if math.Float64bits(got) == math.Float64bits(e.f) {
			return ""
		}
		if got == e.f {
			return "sign-of-zero-lost"
		}
		return "wrong-value"
	case eBool:
		if o, ok := obs.(oBool); ok && bool(o) == bool(e) {
			return ""
		}
		return "wrong-value"
	case eStr:
		if o, ok := obs.(oStr); ok && string(o) == string(e) {
			return ""
		}
		return "wrong-value"
	case eBytes:
		switch o := obs.(type) {
		case oBytes:
			if string(o) == string(e) {
				return ""
			}
		case oStr:
			if string(o) == string(e) { // the raw bytes happened to be valid UTF-8 and survived
				return "text-form-not-duckdb(lossless)"
			}
		}
		return "wrong-value"
	case eInstant:
		switch o := obs.(type) {
		case oTime:
			if o.sec == e.sec && o.nsec == e.nsec {
				return ""
			}
		case oStr:
			if s, ns, ok := parseISO(string(o)); ok && s == e.sec && ns == e.nsec {
				return ""
			}
		}
		return "wrong-value"
	case eDate:
		switch o := obs.(type) {
		case oDate:
			if int64(o) == int64(e) {
				return ""
			}
		case oTime:
			if o.sec == int64(e)*86400 && o.nsec == 0 {
				return ""
			}
		case oStr:
			if s, ns, ok := parseISO(string(o)); ok && s == int64(e)*86400 && ns == 0 {
				return ""
			}
		}
		return "wrong-value"
	case eTOD:
		switch o := obs.(type) {
		case oTOD:
			if int64(o) == int64(e) {
				return ""
			}
		case oStr:
			if us, ok := parseTOD(string(o)); ok && us == int64(e) {
				return "text-form-not-duckdb(lossless)"
			}
		}
		return "wrong-value"
	case eInterval:
		wantNanos := new(big.Int).Mul(big.NewInt(e.micros), big.NewInt(1000))
		switch o := obs.(type) {
		case oInterval:
			if o.months == e.months && o.days == e.days && o.nanos.Cmp(wantNanos) == 0 {
				return ""
			}
		case oStr:
			var j struct {
				Months      *json.Number `json:"months"`
				Days        *json.Number `json:"days"`
				Nanoseconds *json.Number `json:"nanoseconds"`
			}
			if json.Unmarshal([]byte(o), &j) == nil && j.Months != nil && j.Days != nil && j.Nanoseconds != nil {
				ns, ok := new(big.Int).SetString(j.Nanoseconds.String(), 10)
				if ok && j.Months.String() == strconv.FormatInt(e.months, 10) && j.Days.String() == strconv.FormatInt(e.days, 10) && ns.Cmp(wantNanos) == 0 {
					return "text-form-not-duckdb(lossless)"
				}
			}
		}
		return "wrong-value"
	case eList, eStruct:
		switch o := obs.(type) {
		case oList, oStruct:
			return cmpNested(exp.v, o)
		case oStr:
			dec := json.NewDecoder(strings.NewReader(string(o)))
			dec.UseNumber()
			var j any
			if dec.Decode(&j) == nil && !dec.More() && cmpNestedJSON(exp.v, j) {
				return "text-form-not-duckdb(lossless)"
			}
		}
		return "wrong-value"
	}
	return "undecodable(expected " + fmt.Sprintf("%T", exp.v) + ")"
}

// hasNative: does the wire format have an encoding of its own for this value's type?
func hasNative(format string, v any) bool {
	if format == "arrow" {
		return true
	}
	switch v.(type) {
	case eBool, eStr, eFloat:
		return true
	case eInt, eDec:
		// JSON numbers are arbitrary precision, MessagePack integers stop at 64 bits; a text rendering of a
		// wider integer or a decimal is the documented conversion. Narrow integers sent as text are accepted
		// too (nothing is lost) - the property does not regulate that choice.
		return false
	case eBytes:
		return format == "msgpack"
	case eInstant, eDate:
		return format == "msgpack" // timestamp extension type
	}
	return false
}

func cmpNumber(want *big.Rat, scale int, text string, obs any) string {
	switch o := obs.(type) {
	case oInt:
		return numKind(want, new(big.Rat).SetInt(o.v))
	case oDec:
		return numKind(want, ratOfDec(o.u, o.scale))
	case oNum:
		r, ok := ratOfText(string(o))
		if !ok {
			return "wrong-value"
		}
		return numKind(want, r)
	case oFloat:
		if math.IsNaN(o.f) || math.IsInf(o.f, 0) {
			return "wrong-value"
		}
		// a binary float carries a decimal faithfully when rounding it to the column's scale gives the value back
		r, ok := ratOfText(strconv.FormatFloat(o.f, 'f', scale, 64))
		if ok && r.Cmp(want) == 0 {
			return ""
		}
		return numKind2(want, new(big.Rat).SetFloat64(o.f))
	case oStr:
		r, ok := ratOfText(string(o))
		if !ok {
			return "wrong-value"
		}
		if k := numKind(want, r); k != "" {
			return k
		}
		return "text-form-not-duckdb(lossless)"
	}
	return "wrong-value"
}

// numKind2: like numKind, but an unequal value that is merely close is still a loss.
func numKind2(want, got *big.Rat) string {
	if got == nil {
		return "wrong-value"
	}
	if closeTo(want, got) {
		return "precision-lost"
	}
	return "wrong-value"
}

// cmpNested: Arrow list/struct against the expected nested value.
func cmpNested(exp any, obs any) string {
	switch e := exp.(type) {
	case nil:
		if obs == nil {
			return ""
		}
		return "wrong-value"
	case eList:
		o, ok := obs.(oList)
		if !ok || len(o) != len(e) {
			return "wrong-value"
		}
		for i := range e {
			if k := cmpNested(e[i], o[i]); k != "" {
				return k
			}
		}
		return ""
	case eStruct:
		o, ok := obs.(oStruct)
		if !ok || len(o) != len(e) {
			return "wrong-value"
		}
		for _, f := range o {
			ev, ok := e[f.name]
			if !ok {
				return "wrong-value"
			}
			if k := cmpNested(ev, f.v); k != "" {
				return k
			}
		}
		return ""
	default:
		if k := cmpCell("arrow", ocell{v: exp, text: "\x00"}, obs); k != "" {
			return "wrong-value"
		}
		return ""
	}
}

// cmpNestedJSON: a JSON rendering (inside a string cell) against the expected nested value.
func cmpNestedJSON(exp any, j any) bool {
	switch e := exp.(type) {
	case nil:
		return j == nil
	case eList:
		l, ok := j.([]any)
		if !ok || len(l) != len(e) {
			return false
		}
		for i := range e {
			if !cmpNestedJSON(e[i], l[i]) {
				return false
			}
		}
		return true
	case eStruct:
		m, ok := j.(map[string]any)
		if !ok || len(m) != len(e) {
			return false
		}
		for k, ev := range e {
			jv, ok := m[k]
			if !ok || !cmpNestedJSON(ev, jv) {
				return false
			}
		}
		return true
	case eInt:
		n, ok := j.(json.Number)
		if !ok {
			return false
		}
		r, ok := ratOfText(n.String())
		return ok && r.Cmp(new(big.Rat).SetInt(e.v)) == 0
	case eStr:
		s, ok := j.(string)
		return ok && s == string(e)
	case eBool:
		b, ok := j.(bool)
		return ok && b == bool(e)
	}
	return false
}

// describe renders an expected / observed value for descriptions and replay files.
func describe(v any) string {
	s := describe1(v)
	if len(s) > 260 {
		s = s[:260] + "...(" + strconv.Itoa(len(s)) + " chars)"
	}
	return s
}

func describe1(v any) string {
	switch x := v.(type) {
	case nil:
		return "NULL"
	case eInt:
		return "int " + x.v.String()
	case oInt:
		return "int " + x.v.String()
	case eDec:
		return fmt.Sprintf("decimal %s e-%d", x.u, x.scale)
	case oDec:
		return fmt.Sprintf("decimal %s e-%d", x.u, x.scale)
	case eFloat:
		return fmt.Sprintf("float%d %s", x.w, strconv.FormatFloat(x.f, 'g', -1, 64))
	case oFloat:
		return fmt.Sprintf("float%d %s", x.w, strconv.FormatFloat(x.f, 'g', -1, 64))
	case oNum:
		return "number " + string(x)
	case eStr:
		return "string " + trimQ(strconv.QuoteToASCII(string(x)))
	case oStr:
		return "string " + trimQ(strconv.QuoteToASCII(string(x)))
	case eBytes:
		return fmt.Sprintf("bytes %x", trimB([]byte(x)))
	case oBytes:
		return fmt.Sprintf("bytes %x", trimB([]byte(x)))
	case eBool, oBool:
		return fmt.Sprintf("bool %v", x)
	case eInstant:
		return fmt.Sprintf("instant %d.%09d", x.sec, x.nsec)
	case oTime:
		return fmt.Sprintf("instant %d.%09d", x.sec, x.nsec)
	case eDate:
		return fmt.Sprintf("date day %d", int64(x))
	case oDate:
		return fmt.Sprintf("date day %d", int64(x))
	case eTOD:
		return fmt.Sprintf("time-of-day %d us", int64(x))
	case oTOD:
		return fmt.Sprintf("time-of-day %d us", int64(x))
	case eInterval:
		return fmt.Sprintf("interval %d months %d days %d us", x.months, x.days, x.micros)
	case oInterval:
		return fmt.Sprintf("interval %d months %d days %s ns", x.months, x.days, x.nanos)
	case eList:
		p := []string{}
		for _, e := range x {
			p = append(p, describe1(e))
		}
		return "[" + strings.Join(p, ", ") + "]"
	case oList:
		p := []string{}
		for _, e := range x {
			p = append(p, describe1(e))
		}
		return "[" + strings.Join(p, ", ") + "]"
	case eStruct:
		keys := []string{}
		for k := range x {
			keys = append(keys, k)
		}
		sort.Strings(keys)
		p := []string{}
		for _, k := range keys {
			p = append(p, k+": "+describe1(x[k]))
		}
		return "{" + strings.Join(p, ", ") + "}"
	case oStruct:
		p := []string{}
		for _, f := range x {
			p = append(p, f.name+": "+describe1(f.v))
		}
		return "{" + strings.Join(p, ", ") + "}"
	case oOther:
		return "undecodable " + string(x)
	case mpExt:
		return fmt.Sprintf("msgpack ext %d %x", x.typ, x.data)
	}
	return fmt.Sprintf("%T", v)
}

func trimQ(s string) string {
	if len(s) > 120 {
		return s[:120] + "...(" + strconv.Itoa(len(s)) + " chars)"
	}
	return s
}
func trimB(b []byte) []byte {
	if len(b) > 48 {
		return b[:48]
	}
	return b
}
