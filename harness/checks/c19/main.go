// C19 — Query responses faithfully encode DuckDB's results.
//
// Exhaustive grid  type x value-class x n x governance-row-limit x wire-format  (a full product, never a
// sample; see grid.go). Every case is a complete statement
//
//	SELECT i AS i, <expr> AS c FROM range(n) t(i)
//
// POSTed to the real query handlers (JSON /api/v1/query, MessagePack /api/v1/query/msgpack, Arrow IPC
// /api/v1/query/arrow; fiber app.Test, -tags duckdb_arrow, a real database.DuckDB, a real
// governance.Manager whose per-token policy injects the row limit). The body is decoded by decoders that
// share nothing with Arc (decode.go) and compared cell by cell - column names, row count, values, null
// positions - with what DuckDB itself returns for the text Arc handed to it, read through database/sql on
// a separate plain connection (compare.go). A second, orthogonal dimension - the RESULT SHAPE: where the NULLs /
// special values sit relative to the Arrow batch boundaries of results spanning 1, 2 and 3 batches, in results as
// wide as the grid - is enumerated by shape.go. Files: main.go (driver, classification), grid.go, shape.go,
// decode.go, compare.go.
package main

import (
	"bytes"
	"context"
	"database/sql"
	"encoding/json"
	"fmt"
	"io"
	"math/rand"
	"net/http/httptest"
	"os"
	"runtime"
	"runtime/pprof"
	"sort"
	"strconv"
	"strings"
	"sync"
	"sync/atomic"

	"github.com/basekick-labs/arc/internal/api"
	"github.com/basekick-labs/arc/internal/auth"
	"github.com/basekick-labs/arc/internal/config"
	"github.com/basekick-labs/arc/internal/database"
	"github.com/basekick-labs/arc/internal/governance"
	"github.com/basekick-labs/arc/internal/license"
	"github.com/basekick-labs/arc/internal/storage"
	"github.com/basekick-labs/arc/zzverif/engine/ev"
	_ "github.com/duckdb/duckdb-go/v2"
	"github.com/gofiber/fiber/v2"
	_ "github.com/mattn/go-sqlite3"
	"github.com/rs/zerolog"
)

var stopProfile = func() {}

// scratch directory of this process; removed on every exit path (ev.Unbound exits without running defers)
var scratchDir string

func unbound(what string) {
	if scratchDir != "" {
		os.RemoveAll(scratchDir)
	}
	ev.Unbound(what)
}

// ---- system under test ---------------------------------------------------------------------------

type sut struct {
	app *fiber.App
	h   *api.QueryHandler
	db  *database.DuckDB
}

var endpoints = []struct{ format, path string }{
	{"json", "/api/v1/query"},
	{"msgpack", "/api/v1/query/msgpack"},
	{"arrow", "/api/v1/query/arrow"},
}

func newSUT(dir string, conns int, limits []int) *sut {
	db, err := database.New(&database.Config{MaxConnections: conns, ThreadCount: 1, MemoryLimit: "4GB",
		PreserveInsertionOrder: true, TempDirectory: dir + "/tmp"}, zerolog.Nop())
	if err != nil {
		unbound("database.New: " + err.Error())
	}
	lb, err := storage.NewLocalBackend(dir+"/store", zerolog.Nop())
	if err != nil {
		unbound("storage.NewLocalBackend: " + err.Error())
	}
	h := api.NewQueryHandler(db, lb, zerolog.Nop(), 0, 0)
	sq, err := sql.Open("sqlite3", "file:"+dir+"/gov.db")
	if err != nil {
		unbound("sqlite: " + err.Error())
	}
	gm, err := governance.NewManager(&governance.ManagerConfig{DB: sq, Config: &config.GovernanceConfig{Enabled: true}, Logger: zerolog.Nop()})
	if err != nil {
		unbound("governance.NewManager: " + err.Error())
	}
	// one token per row limit; the token id IS the limit. A request without the header carries no token
	// and is therefore not governed at all ("limit none").
	for _, l := range limits {
		if l <= 0 {
			continue
		}
		if _, err := gm.CreatePolicy(context.Background(), &governance.Policy{TokenID: int64(l), TokenName: "limit" + strconv.Itoa(l), MaxRowsPerQuery: l}); err != nil {
			unbound("governance.CreatePolicy: " + err.Error())
		}
	}
	lc := license.VerifClient(license.FeatureQueryGovernance)
	if !lc.CanUseQueryGovernance() {
		unbound("overlay licence does not enable query governance")
	}
	h.SetGovernance(gm, lc)
	app := fiber.New(fiber.Config{DisableStartupMessage: true, BodyLimit: 64 << 20})
	app.Use(func(c *fiber.Ctx) error {
		if t := c.Get("x-verif-row-limit"); t != "" {
			n, _ := strconv.Atoi(t)
			c.Locals("token_info", &auth.TokenInfo{ID: int64(n), Name: "limit" + t, Enabled: true, Permissions: []string{"read"}})
		}
		return c.Next()
	})
	h.RegisterRoutes(app)
	return &sut{app: app, h: h, db: db}
}

func (s *sut) post(path, sqlText string, limit int) (int, []byte, error) {
	b, _ := json.Marshal(map[string]string{"sql": sqlText})
	r := httptest.NewRequest("POST", path, bytes.NewReader(b))
	r.Header.Set("Content-Type", "application/json")
	if limit > 0 {
		r.Header.Set("x-verif-row-limit", strconv.Itoa(limit))
	}
	resp, err := s.app.Test(r, -1)
	if err != nil {
		return 0, nil, err
	}
	defer resp.Body.Close()
	body, err := io.ReadAll(resp.Body)
	return resp.StatusCode, body, err
}

// The Arrow IPC handler sets its execution-time trailer on the fasthttp response header from the
// stream-writer goroutine (query_arrow.go: respHeader.Set inside SetBodyStreamWriter) while the serving
// goroutine may be serialising that same header: ResponseHeader.Set and ResponseHeader.Header() share one
// scratch buffer, so now and then the status line goes out as e.g. "3TTP/1.1 200 OK". That is a genuine,
// schedule-dependent defect (reported by this check's builder, counted in the evidence) but it is not an
// input-determined one, so it must not decide an input-enumeration check: such a response is re-requested.
var httpCorrupt int64
var httpCorruptExample atomic.Value

func (s *sut) postRetry(format, path, sqlText string, limit int) (int, []byte, error) {
	for attempt := 0; ; attempt++ {
		st, b, err := s.post(path, sqlText, limit)
		if err != nil && format == "arrow" && attempt < 20 && strings.Contains(err.Error(), "failed to read response") {
			atomic.AddInt64(&httpCorrupt, 1)
			httpCorruptExample.CompareAndSwap(nil, err.Error())
			continue
		}
		return st, b, err
	}
}

// ---- oracle ------------------------------------------------------------------------------------

type oracle struct{ db *sql.DB }

// One in-memory DuckDB instance (threads=1: every statement runs on its caller's thread), one connection per worker.
var (
	oracleOnce   sync.Once
	sharedOracle *oracle
	oracleConns  = 16
)

func newOracle() *oracle {
	oracleOnce.Do(func() {
		db, err := sql.Open("duckdb", "")
		if err != nil {
			unbound("oracle DuckDB: " + err.Error())
		}
		db.SetMaxOpenConns(oracleConns)
		for _, s := range []string{"SET threads=1", "SET preserve_insertion_order=true"} {
			if _, err := db.Exec(s); err != nil {
				unbound("oracle setup: " + err.Error())
			}
		}
		sharedOracle = &oracle{db}
	})
	return sharedOracle
}

type expected struct {
	columns []string
	idx     []ocell // column i
	val     []ocell // column c
}

var refValidated int64

// run evaluates the text Arc handed to DuckDB and returns DuckDB's own columns and cells.
func (o *oracle) run(transformed, kind string) (*expected, error) {
	rs, err := o.db.Query(transformed)
	if err != nil {
		return nil, err
	}
	cols, _ := rs.Columns()
	rs.Close()
	if len(cols) != 2 {
		return nil, fmt.Errorf("oracle: %d columns", len(cols))
	}
	q := fmt.Sprintf(`SELECT q.*, CAST(%s AS VARCHAR), CAST(%s AS VARCHAR) FROM (%s) AS q`, quoteIdent(cols[0]), quoteIdent(cols[1]), transformed)
	rs, err = o.db.Query(q)
	if err != nil {
		return nil, err
	}
	defer rs.Close()
	e := &expected{columns: cols}
	for rs.Next() {
		var iv, cv any
		var it, ct sql.NullString
		if err := rs.Scan(&iv, &cv, &it, &ct); err != nil {
			return nil, err
		}
		ie, err := expectedOf(iv, "")
		if err != nil {
			return nil, err
		}
		ce, err := expectedOf(cv, kind)
		if err != nil {
			return nil, err
		}
		// cross-check the driver's exact numerics against DuckDB's own text form
		switch x := ce.(type) {
		case eInt:
			if x.v.String() != ct.String {
				return nil, fmt.Errorf("oracle disagrees with itself: driver %s, text %q", x.v, ct.String)
			}
			atomic.AddInt64(&refValidated, 1)
		case eDec:
			r, ok := ratOfText(ct.String)
			if !ok || r.Cmp(ratOfDec(x.u, x.scale)) != 0 {
				return nil, fmt.Errorf("oracle disagrees with itself: driver %s e-%d, text %q", x.u, x.scale, ct.String)
			}
			atomic.AddInt64(&refValidated, 1)
		}
		e.idx = append(e.idx, ocell{ie, it.String})
		e.val = append(e.val, ocell{ce, ct.String})
	}
	return e, rs.Err()
}

func quoteIdent(s string) string { return `"` + strings.ReplaceAll(s, `"`, `""`) + `"` }

// ---- raw failures and their classification -----------------------------------------------------

type failure struct {
	Format, Type, Value string
	Comp                string     // cycle and shape cases: the value class of the failing row ("" = whole response)
	Shape               string     // shape cases: the per-batch states (D/S/A); Type/Value are then the column's type and mark X
	item                *shapeItem // shape cases: the statement
	N, Limit            int
	Kind, Detail, SQL   string
}

var (
	failMu   sync.Mutex
	failures []failure
	outcomes = map[string]int{}
)

func record(f failure) {
	failMu.Lock()
	failures = append(failures, f)
	failMu.Unlock()
}

func countOutcome(k string) {
	failMu.Lock()
	outcomes[k]++
	failMu.Unlock()
}

// ---- one unit: (type, value class, n) -> 1 oracle evaluation, limits x formats responses -------

type unit struct {
	t *typeSpec
	v valSpec
	n int
}

type counters struct {
	evaluations, cells, requests, oracleQueries, transformChanged int64
	shapeEvaluations, shapeCells                                  int64
}

var cnt counters

// observed[category|format|type|value]: the check of that category was actually evaluated (passed or failed)
// for that grid point at least once. Classes are collapsed to "*" over the observable part of the grid only
// (a response that never decodes cannot refute "the row limit is ignored").
var observed sync.Map

func see(cat, format string, u unit) { observed.Store(cat+"|"+format+"|"+u.t.name+"|"+u.v.class, true) }

func catOf(kind string) string {
	switch {
	case strings.HasPrefix(kind, "http-"):
		return "status"
	case strings.HasPrefix(kind, "malformed("):
		return "wellformed"
	case kind == "columns-differ":
		return "columns"
	case kind == "row_count-field-differs":
		return "rowcount-field"
	case kind == "rows-missing" || kind == "rows-extra":
		return "rows"
	case kind == "row-limit-not-applied":
		return "limit"
	case strings.HasPrefix(kind, "row-order-or-index:"):
		return "index"
	}
	return "cell"
}

// kinds whose cause is chosen per (format, type), not per value: the value classes whose two renderings
// happen to coincide (an empty list is "[]" for Arrow and for DuckDB) must not split the class.
var perTypeKinds = map[string]bool{"text-form-not-duckdb(lossless)": true}
var nontrivial sync.Map // "format|type|value" with >=1 cell compared
var wireTypes sync.Map  // "type -> msgpack wire name / arrow type"
var batchSizes sync.Map // n -> arrow batch sizes
var samples = ev.NewSamples(6)
var shapeSamples = ev.NewSamples(4)
var shapeBatchSizes sync.Map // n -> arrow batch sizes of the shape statements

func (u unit) sql() string {
	return fmt.Sprintf("SELECT i AS i, %s AS c FROM range(%d) t(i)", u.t.expr(u.v), u.n)
}

func runUnit(s *sut, o *oracle, u unit, limits []int) {
	q := u.sql()
	tj, ta := s.h.VerifC19Transformed(context.Background(), q)
	if tj != q || ta != q {
		atomic.AddInt64(&cnt.transformChanged, 1)
	}
	expJ, err := o.run(tj, u.t.kind)
	atomic.AddInt64(&cnt.oracleQueries, 1)
	if err != nil {
		unbound("DuckDB rejects a grid statement (fix grid.go): " + q + ": " + err.Error())
	}
	expA := expJ
	if ta != tj {
		expA, err = o.run(ta, u.t.kind)
		atomic.AddInt64(&cnt.oracleQueries, 1)
		if err != nil {
			unbound("DuckDB rejects a grid statement (fix grid.go): " + ta + ": " + err.Error())
		}
	}
	if len(expJ.val) != u.n {
		unbound(fmt.Sprintf("oracle returned %d rows for n=%d: %s", len(expJ.val), u.n, q))
	}
	for _, limit := range limits {
		for _, ep := range endpoints {
			exp := expJ
			if ep.format == "arrow" {
				exp = expA
			}
			status, body, err := s.postRetry(ep.format, ep.path, q, limit)
			atomic.AddInt64(&cnt.requests, 1)
			if err != nil {
				unbound("app.Test: " + err.Error())
			}
			kinds := judge(ep.format, u, limit, q, exp, status, body)
			atomic.AddInt64(&cnt.evaluations, 1)
			if len(kinds) == 0 {
				countOutcome("ok")
			}
			for _, k := range kinds {
				countOutcome(k)
			}
			if u.n == 2 && limit == 0 {
				samples.Add(map[string]any{"sql": q, "format": ep.format, "status": status, "body_bytes": len(body), "outcome": append([]string{}, kinds...)})
			}
		}
	}
}

// judge compares one response with the oracle and records every distinct failure kind once.
func judge(format string, u unit, limit int, q string, exp *expected, status int, body []byte) []string {
	var kinds []string
	seen := map[string]bool{}
	fail := func(kind, comp, detail string) {
		if seen[kind+"\x00"+comp] {
			return
		}
		seen[kind+"\x00"+comp] = true
		kinds = append(kinds, kind)
		record(failure{Format: format, Type: u.t.name, Value: u.v.class, Comp: comp, N: u.n, Limit: limit, Kind: kind, Detail: detail, SQL: q})
	}
	see("status", format, u)
	if status != 200 {
		fail(fmt.Sprintf("http-%d", status), "", "DuckDB answers the statement, Arc responds "+strconv.Itoa(status)+": "+errorText(format, body))
		return kinds
	}
	var d *decoded
	var err error
	see("wellformed", format, u)
	switch format {
	case "json":
		d, err = decodeJSON(body)
	case "msgpack":
		d, err = decodeMsgPack(body)
	default:
		d, err = decodeArrow(body)
	}
	if err != nil {
		m, ok := err.(*malformed)
		if !ok {
			unbound("decoder: " + err.Error())
		}
		fail("malformed("+m.what+")", "", fmt.Sprintf("the body is not a well-formed %s response: %s", format, m.what))
		if format != "json" || m.what != "invalid-utf8" {
			return kinds
		}
		// keep going with Go's lenient decoder so that row count, nulls and the other cells are still judged
		d, err = decodeJSONLenient(body)
		if err != nil {
			return kinds
		}
	}
	if format == "arrow" {
		batchSizes.LoadOrStore(u.n, fmt.Sprint(d.batches))
	}
	if len(d.types) == 2 {
		wireTypes.LoadOrStore(format+" "+u.t.name, d.types[1])
	}
	see("columns", format, u)
	if strings.Join(d.columns, "\x00") != strings.Join(exp.columns, "\x00") {
		fail("columns-differ", "", fmt.Sprintf("columns %q, DuckDB %q", d.columns, exp.columns))
		return kinds
	}
	if d.rowCount >= 0 {
		see("rowcount-field", format, u)
	}
	see("rows", format, u)
	if d.rowCount >= 0 && d.rowCount != int64(d.rows) {
		fail("row_count-field-differs", "", fmt.Sprintf("row_count=%d but %d rows in data", d.rowCount, d.rows))
	}
	want := u.n
	if limit > 0 && limit < want {
		want = limit
	}
	if limit > 0 && limit < u.n && d.rows >= want {
		see("limit", format, u)
	}
	switch {
	case d.rows == want:
	case limit > 0 && d.rows == u.n:
		fail("row-limit-not-applied", "", fmt.Sprintf("governance max_rows_per_query=%d, response carries all %d rows", limit, d.rows))
	case d.rows < want:
		fail("rows-missing", "", fmt.Sprintf("%d rows, expected %d", d.rows, want))
	default:
		fail("rows-extra", "", fmt.Sprintf("%d rows, expected %d", d.rows, want))
	}
	invalidUTF8 := len(kinds) > 0 && kinds[0] == "malformed(invalid-utf8)"
	rows := d.rows
	if rows > u.n {
		rows = u.n
	}
	compared := 0
	for r := 0; r < rows; r++ {
		if r == 0 {
			see("index", format, u)
		}
		if k := cmpCell(format, exp.idx[r], d.cols[0][r]); k != "" {
			fail("row-order-or-index:"+k, "", fmt.Sprintf("row %d column i: DuckDB %s, response %s", r, describe(exp.idx[r].v), describe(d.cols[0][r])))
		}
		e := exp.val[r]
		if _, isBlob := e.v.(eBytes); isBlob && invalidUTF8 {
			continue // already reported for the whole body; the lenient decoder replaced the bytes
		}
		compared++
		if r == 0 || u.v.class == "cycle" {
			see("cell", format, u)
		}
		if k := cmpCell(format, e, d.cols[1][r]); k != "" {
			comp := ""
			if u.v.class == "cycle" {
				comp = u.t.cycleClass(r)
			}
			fail(k, comp, fmt.Sprintf("row %d: DuckDB %s (text form %s), response %s", r, describe(e.v), trimQ(strconv.QuoteToASCII(e.text)), describe(d.cols[1][r])))
		}
	}
	atomic.AddInt64(&cnt.cells, int64(compared+rows))
	if compared > 0 {
		nontrivial.Store(format+"|"+u.t.name+"|"+u.v.class, true)
	}
	return kinds
}

// errorText extracts the "error" field of an error envelope (the rest of it carries wall-clock noise).
func errorText(format string, body []byte) string {
	if format == "msgpack" {
		r := &mpReader{b: body}
		if v, err := r.value(0); err == nil {
			if m, ok := v.(mpMap); ok {
				for _, kv := range m {
					if k, ok := kv.k.(oStr); ok && k == "error" {
						if e, ok := kv.v.(oStr); ok {
							return trimQ(strconv.QuoteToASCII(string(e)))
						}
					}
				}
			}
		}
	} else {
		var j struct {
			Error string `json:"error"`
		}
		if json.Unmarshal(body, &j) == nil && j.Error != "" {
			return trimQ(strconv.QuoteToASCII(j.Error))
		}
	}
	return "(no error field in the body)"
}

// decodeJSONLenient: Go's decoder replaces invalid UTF-8 by U+FFFD instead of failing.
func decodeJSONLenient(body []byte) (*decoded, error) {
	return decodeJSON([]byte(strings.ToValidUTF8(string(body), "�")))
}

// ---- classification: thousands of raw failures -> a handful of class signatures ------------------

type class struct {
	format, typ, value, kind string
	minN, minLimit           int
	count                    int
	example                  failure
	shape                    bool // a class of the result-shape dimension (own signature family)
}

func classify(fs []failure, g *grid) []*class {
	type key struct{ format, kind, typ, value string }
	groups := map[key][]failure{}
	standalone := map[key]bool{}
	var out []*class
	var rest []failure
	nameSeen := map[string]*class{}
	for _, f := range fs {
		if f.Type == "column-name" { // its own little product: one class per (format, name, kind)
			c := &class{format: f.Format, typ: f.Type, value: f.Value, kind: f.Kind, example: f}
			if old := nameSeen[c.sig()]; old != nil {
				old.count++
				continue
			}
			c.count = 1
			nameSeen[c.sig()] = c
			out = append(out, c)
			continue
		}
		rest = append(rest, f)
	}
	fs = rest
	for _, f := range fs {
		if f.Value != "cycle" {
			standalone[key{f.Format, f.Kind, f.Type, f.Value}] = true
		}
	}
	explained := map[[3]string]bool{} // (format, kind, type): cycle failures dropped because a component explains them
	anyStandalone := map[[3]string]bool{}
	for k := range standalone {
		anyStandalone[[3]string{k.format, k.kind, k.typ}] = true
	}
	for _, f := range fs {
		if f.Value == "cycle" {
			// a cycle column is explained by its components: drop the failure when the value class of the
			// failing row (or, for whole-response failures, any value class of the type) fails on its own
			// with the same kind. What is left is specific to mixing values / null positions.
			if f.Comp != "" && standalone[key{f.Format, f.Kind, f.Type, f.Comp}] {
				explained[[3]string{f.Format, f.Kind, f.Type}] = true
				continue
			}
			if f.Comp == "" && anyStandalone[[3]string{f.Format, f.Kind, f.Type}] {
				explained[[3]string{f.Format, f.Kind, f.Type}] = true
				continue
			}
		}
		k := key{f.Format, f.Kind, f.Type, f.Value}
		groups[k] = append(groups[k], f)
	}
	// suffix: the smallest n / limit that is needed
	type skey struct{ format, kind string }
	byKind := map[skey]map[string]map[string]*class{}
	for k, l := range groups {
		c := &class{format: k.format, typ: k.typ, value: k.value, minN: 1 << 30, minLimit: 1 << 30, count: len(l)}
		sort.Slice(l, func(i, j int) bool {
			if l[i].N != l[j].N {
				return l[i].N < l[j].N
			}
			return l[i].Limit < l[j].Limit
		})
		c.example = l[0]
		for _, f := range l {
			if f.N < c.minN {
				c.minN = f.N
			}
			lim := f.Limit
			if lim == 0 {
				lim = -1
			}
			if lim < c.minLimit {
				c.minLimit = lim
			}
		}
		kind := k.kind
		if k.kind != "row-limit-not-applied" { // (its minimal n and limit are what the kind says)
			// size bucket, not a number, so that quick and thorough name the class identically
			if c.minN > 2048 {
				kind += "@batches>=2"
			} else if c.minN > 1 {
				kind += "@rows>=2"
			}
			if c.minLimit > 0 {
				kind += fmt.Sprintf("@limit=%d", c.minLimit)
			}
		}
		c.kind = kind
		sk := skey{k.format, kind}
		if byKind[sk] == nil {
			byKind[sk] = map[string]map[string]*class{}
		}
		if byKind[sk][k.typ] == nil {
			byKind[sk][k.typ] = map[string]*class{}
		}
		byKind[sk][k.typ][k.value] = c
	}
	merge := func(cs []*class) *class {
		sort.Slice(cs, func(i, j int) bool {
			a, b := cs[i].example, cs[j].example
			if a.N != b.N {
				return a.N < b.N
			}
			if a.Limit != b.Limit {
				return a.Limit < b.Limit
			}
			if a.Type != b.Type {
				return g.typeIndex(a.Type) < g.typeIndex(b.Type)
			}
			return a.Value < b.Value
		})
		m := *cs[0]
		m.count = 0
		for _, c := range cs {
			m.count += c.count
		}
		return &m
	}
	for sk, types := range byKind {
		base := sk.kind
		if i := strings.Index(base, "@"); i >= 0 {
			base = base[:i]
		}
		cat := catOf(base)
		universe := func(t *typeSpec) []string {
			var out []string
			for _, vc := range t.classes() {
				if _, ok := observed.Load(cat + "|" + sk.format + "|" + t.name + "|" + vc); ok {
					out = append(out, vc)
				}
			}
			return out
		}
		// value collapse: every observable value class of the type fails -> "*"
		perType := map[string][]*class{}
		allStar, typesWithUniverse := true, 0
		for _, t := range g.types {
			uni := universe(t)
			if len(uni) == 0 {
				continue
			}
			typesWithUniverse++
			vals := types[t.name]
			full := len(vals) > 0
			for _, vc := range uni {
				if vc == "cycle" && vals[vc] == nil && explained[[3]string{sk.format, base, t.name}] {
					continue
				}
				if vals[vc] == nil {
					full = false
				}
			}
			if !full {
				allStar = false
			}
			if len(vals) == 0 {
				continue
			}
			var cs []*class
			for _, c := range vals {
				cs = append(cs, c)
			}
			if (full && len(uni) > 1) || perTypeKinds[base] {
				m := merge(cs)
				m.value = "*"
				perType[t.name] = []*class{m}
			} else {
				perType[t.name] = cs
			}
		}
		if allStar && typesWithUniverse > 1 { // type collapse: every observable grid point fails -> "*|*"
			var cs []*class
			for _, l := range perType {
				cs = append(cs, l...)
			}
			m := merge(cs)
			m.typ, m.value = "*", "*"
			out = append(out, m)
			continue
		}
		for _, l := range perType {
			out = append(out, l...)
		}
	}
	sort.Slice(out, func(i, j int) bool { return out[i].sig() < out[j].sig() })
	return out
}

func (c *class) sig() string {
	if c.shape {
		return "shape|" + c.format + "|" + c.typ + "|" + c.value + "|" + c.kind
	}
	return c.format + "|" + c.typ + "|" + c.value + "|" + c.kind
}

// ---- main ----------------------------------------------------------------------------------------

func main() {
	os.Setenv("TZ", "UTC")
	if p := os.Getenv("VERIF_C19_CPUPROFILE"); p != "" { // development aid only
		if f, err := os.Create(p); err == nil {
			pprof.StartCPUProfile(f)
			stopProfile = pprof.StopCPUProfile
		}
	}
	run := ev.Start("C19", "exploration")
	dir := fmt.Sprintf("/dev/shm/verif.c19.%d", os.Getpid())
	scratchDir = dir
	for _, d := range []string{"/store", "/tmp"} {
		if err := os.MkdirAll(dir+d, 0o755); err != nil {
			unbound(err.Error())
		}
	}
	cleanup := func() { os.RemoveAll(dir) }
	defer cleanup()

	g := newGrid(run.Quick())
	// Few workers on purpose: every request allocates and clears megabytes (Arc's 256 KiB stream buffers, response
	// bodies, decoded cells) and runs DuckDB statements through cgo; measured on the 16-core box under load, 4 workers
	// with GOMAXPROCS 6 finish the quick tier in about half the CPU time AND half the wall time of 14 workers.
	workers := runtime.NumCPU() - 2
	if workers > 4 {
		workers = 4
	}
	if workers < 2 {
		workers = 2
	}
	if w, _ := strconv.Atoi(os.Getenv("VERIF_C19_WORKERS")); w > 0 { // development aid
		workers = w
	}
	if os.Getenv("GOMAXPROCS") == "" {
		runtime.GOMAXPROCS(workers + 2)
	}
	oracleConns = workers + 2
	limitSet := map[int]bool{}
	var allLimits []int
	for _, l := range append(append([]int{}, g.limits...), g.shapeLimits...) {
		if !limitSet[l] {
			limitSet[l] = true
			allLimits = append(allLimits, l)
		}
	}
	s := newSUT(dir, workers+2, allLimits)

	// the grid's statements must be valid DuckDB: every (type, value) is evaluated once by the oracle first
	o0 := newOracle()
	for _, t := range g.types {
		for _, v := range t.allVals() {
			e, err := o0.run(unit{t, v, 1}.sql(), t.kind)
			if err != nil {
				unbound("DuckDB rejects a grid value (fix grid.go): " + t.name + "/" + v.class + ": " + err.Error())
			}
			refCells[t.name+"\x00"+v.class] = e.val[0]
		}
	}
	// a mark must contrast with the typical value for DuckDB's GROUP BY (the compressed oracle reading groups by value)
	noContrast := map[string]bool{}
	for _, t := range g.types {
		if len(t.vals) < 2 {
			continue
		}
		for _, v := range t.vals[1:] {
			if strings.Contains(v.sql, "i %") {
				continue
			}
			var same bool
			if err := o0.db.QueryRow("SELECT " + t.typed(t.vals[0]) + " IS NOT DISTINCT FROM " + t.typed(v)).Scan(&same); err != nil {
				unbound("oracle contrast check: " + t.name + "/" + v.class + ": " + err.Error())
			}
			if same {
				noContrast[t.name+"\x00"+v.class] = true
			}
		}
	}
	maxN := 1
	for _, n := range g.shapeNs {
		if n > maxN {
			maxN = n
		}
	}
	initIdxCells(maxN)

	var units []unit
	basePoints := 0
	for k := len(g.ns) - 1; k >= 0; k-- { // the large results first, so that the workers finish together
		for _, t := range g.types {
			for _, v := range t.allVals() {
				basePoints++
				if g.inBase(t, v, g.ns[k]) {
					units = append(units, unit{t, v, g.ns[k]})
				}
			}
		}
	}
	if run.Seed != 0 { // VERIF_SEED only permutes the order
		rand.New(rand.NewSource(int64(run.Seed))).Shuffle(len(units), func(i, j int) { units[i], units[j] = units[j], units[i] })
	}
	devOnly := os.Getenv("VERIF_C19_ONLY") // development aid: "shape" skips the base grid; such a run is never exhaustive
	exhaustive := int32(1)
	if devOnly != "" {
		exhaustive = 0
	}
	// parallel runs fn(i) for i in [0,n) on the worker pool; returns how many were done before the deadline
	parallel := func(n int, fn func(o *oracle, i int)) int64 {
		var next, done int64
		var wg sync.WaitGroup
		for w := 0; w < workers; w++ {
			wg.Add(1)
			go func() {
				defer wg.Done()
				o := newOracle()
				for {
					i := atomic.AddInt64(&next, 1) - 1
					if int(i) >= n {
						return
					}
					if run.TimeUp() {
						atomic.StoreInt32(&exhaustive, 0)
						return
					}
					fn(o, int(i))
					atomic.AddInt64(&done, 1)
				}
			}()
		}
		wg.Wait()
		return done
	}
	var done int64
	if devOnly != "shape" {
		done = parallel(len(units), func(o *oracle, i int) { runUnit(s, o, units[i], g.limits) })
	}

	// the result-shape dimension (shape.go); value classes that are not delivered on their own cannot be marks
	failMu.Lock()
	killers := killersOf(failures)
	failMu.Unlock()
	for k := range noContrast {
		killers[k] = true
	}
	excludedMarks, excludedTypes := map[string]bool{}, map[string]bool{}
	items := shapeItems(g, killers, excludedMarks, excludedTypes)
	if run.Seed != 0 {
		rand.New(rand.NewSource(int64(run.Seed))).Shuffle(len(items), func(i, j int) { items[i], items[j] = items[j], items[i] })
	}
	explored := map[[2]string]bool{}
	shapeResponsesTotal := 0
	for _, it := range items {
		for _, c := range it.cols {
			explored[[2]string{c.t.name, c.x.class}] = true
		}
		shapeResponsesTotal += 3 * len(it.limits)
	}
	if devOnly == "base" {
		items = nil
	}
	shapeDone := parallel(len(items), func(o *oracle, i int) { runShapeItem(s, o, items[i]) })

	// column names: a small product of its own (names are encoded by other code than cells)
	nameCases := runNames(s, o0, g)

	var baseFailures, shapeFailures []failure
	for _, f := range failures {
		if f.Shape != "" {
			shapeFailures = append(shapeFailures, f)
		} else {
			baseFailures = append(baseFailures, f)
		}
	}
	classes := classify(baseFailures, g)
	shapeClasses, shapeExplained := classifyShapes(shapeFailures, baseFailures, g, explored)
	classes = append(classes, shapeClasses...)
	for _, c := range classes {
		f := c.example
		lim := "none"
		if f.Limit > 0 {
			lim = strconv.Itoa(f.Limit)
		}
		desc := fmt.Sprintf("%s (minimal: type %s, value %s, n=%d, row limit %s; %d raw failures in this class)", f.Detail, f.Type, f.Value, f.N, lim, c.count)
		replay := map[string]any{"endpoint": endpointOf(c.format), "sql": f.SQL, "n": f.N, "row_limit": lim,
			"type": f.Type, "value_class": f.Value, "kind": c.kind, "detail": f.Detail, "raw_failures": c.count}
		if c.shape {
			desc = fmt.Sprintf("%s (minimal placement: column type %s, typical value with mark %s, n=%d = %d Arrow batch(es) of %d rows, per-batch states %s, row limit %s; %d raw failures in this class)",
				f.Detail, f.Type, f.Value, f.N, batchesOf(f.N), batchRows, stateWords(f.Shape), lim, c.count)
			replay["mark"] = f.Value
			replay["batch_states"] = stateWords(f.Shape)
			replay["failing_row_value_class"] = f.Comp
		}
		run.Violate(c.sig(), desc, replay)
	}

	distinct := 0
	nontrivial.Range(func(_, _ any) bool { distinct++; return true })
	wt := map[string]string{}
	wireTypes.Range(func(k, v any) bool { wt[k.(string)] = v.(string); return true })
	bs := map[string]string{}
	batchSizes.Range(func(k, v any) bool { bs[strconv.Itoa(k.(int))] = v.(string); return true })
	nvals := 0
	var tnames []string
	for _, t := range g.types {
		nvals += len(t.allVals())
		tnames = append(tnames, t.name)
	}
	run.Coverage["evaluations"] = cnt.evaluations + int64(nameCases)
	shapeDistinct := len(shapeNontrivial)
	run.Coverage["base_distinct_nontrivial"] = distinct
	distinct += shapeDistinct
	run.Coverage["distinct_nontrivial"] = distinct
	sbs := map[string]string{}
	shapeBatchSizes.Range(func(k, v any) bool { sbs[strconv.Itoa(k.(int))] = v.(string); return true })
	marks := map[string][]string{}
	for x := range explored {
		marks[x[0]] = append(marks[x[0]], x[1])
	}
	for _, l := range marks {
		sort.Strings(l)
	}
	placements, markIdx := map[string]int{}, map[string]int{}
	for _, n := range g.shapeNs {
		placements[strconv.Itoa(n)] = len(placementsOf(n, g.shapeStates(n)))
		markIdx[strconv.Itoa(n)] = markIndexes(g, n)
	}
	keys := func(m map[string]bool) []string {
		out := []string{}
		for k := range m {
			out = append(out, k)
		}
		sort.Strings(out)
		return out
	}
	run.Coverage["shape_rule"] = fmt.Sprintf("result-shape dimension, full product of: mark index (shape_mark_indexes_by_n; 0 = NULL, 1 = the special value class of each type, 2.. = its other value classes: shape_marks) "+
		"x row count n (shape_row_counts; Arrow batches of %d rows) x every assignment of {D dense = no row marked, S sparse = first row, last row and every row p with p%%7==3 of the batch marked, A all = every row marked} "+
		"to the batches of the result (results of at most %d batches; larger results: every assignment of {D, S}; coinciding placements of one- and two-row batches, where S == A, evaluated once: shape_placements_by_n) x {no row limit, every governance row limit L of shape_row_limits with L < n; "+
		"with a limit the batches after the one it cuts are held dense} x 3 wire formats. One statement carries a column per type of the grid (every type except the untyped NULL column): marked rows carry the mark, the others the "+
		"type's first value class. Oracle: DuckDB's own cells for the statement text Arc executes, read group-wise (values, text forms and result positions per distinct row, i == position asserted by DuckDB) and expanded to "+
		"one expected cell per row and column, cross-checked against a row-by-row reading for one placement per mark index; compared positionally cell by cell. One evaluation = one response (all columns); "+
		"a response that ignores the row limit altogether is reported as such and its cells are not compared again (they are those of the request without a limit). "+
		"distinct = distinct (format, type, mark, n, placement) with at least one cell compared", batchRows, g.shapeFullStatesMaxBatches)
	run.Coverage["shape_statements_done"] = shapeDone
	run.Coverage["shape_statements_total"] = len(items)
	run.Coverage["shape_responses_total"] = shapeResponsesTotal
	run.Coverage["shape_responses_judged"] = cnt.shapeEvaluations
	run.Coverage["shape_column_evaluations"] = shapeColumnEvaluations
	run.Coverage["shape_cells_compared"] = cnt.shapeCells
	run.Coverage["shape_distinct_nontrivial"] = shapeDistinct
	run.Coverage["shape_row_counts"] = g.shapeNs
	run.Coverage["shape_row_limits"] = g.shapeLimits
	run.Coverage["shape_marks"] = marks
	run.Coverage["shape_mark_indexes_by_n"] = markIdx
	run.Coverage["shape_marks_excluded"] = keys(excludedMarks)
	run.Coverage["shape_types_excluded"] = keys(excludedTypes)
	run.Coverage["shape_placements_by_n"] = placements
	run.Coverage["shape_arrow_ipc_batch_rows_by_n"] = sbs
	run.Coverage["shape_oracle_crosschecked_against_row_by_row"] = shapeOracleCrosschecked
	run.Coverage["shape_oracle_row_by_row_fallbacks"] = shapeOracleFallbacks
	run.Coverage["shape_raw_failures"] = len(shapeFailures)
	run.Coverage["shape_raw_failures_explained_by_base_grid_classes"] = shapeExplained
	run.Coverage["shape_classes"] = len(shapeClasses)
	run.Coverage["shape_samples"] = shapeSamples.List()
	baseRule := "full product of (type, value class incl. NULL and a cycle column mixing all values of the type, n, row limit, wire format)"
	if g.bigNOnlyVarying {
		baseRule += " - in this tier restricted, at the multi-batch sizes n > 2048, to the value classes that differ from row to row (the cycle column, row-dependent expressions) and the untyped NULL column " +
			"(base_points_in_tier of base_points_full_product; a column repeating one value over several batches is part (b), placements dense..dense and all..all)"
	}
	run.Coverage["base_points_full_product"] = basePoints
	run.Coverage["base_points_in_tier"] = len(units)
	run.Coverage["rule"] = "(a) " + baseRule + "; " +
		"one evaluation = one HTTP response decoded and compared with DuckDB's own rows; a case is non-trivial when at least one cell of column c was compared (n >= 1), " +
		"distinct = distinct (format, type, value class) among those; (b) plus the result-shape dimension, see shape_rule (its distinct cases are added)"
	run.Coverage["exhaustive"] = exhaustive == 1
	run.Coverage["units_done"] = done
	run.Coverage["units_total"] = len(units)
	run.Coverage["types"] = tnames
	run.Coverage["type_value_pairs"] = nvals
	run.Coverage["n"] = g.ns
	run.Coverage["row_limits"] = g.limits
	run.Coverage["formats"] = []string{"json", "msgpack", "arrow"}
	run.Coverage["requests"] = cnt.requests
	run.Coverage["oracle_queries"] = cnt.oracleQueries
	run.Coverage["cells_compared"] = cnt.cells
	run.Coverage["column_name_cases"] = nameCases
	run.Coverage["outcomes"] = outcomes
	run.Coverage["raw_failures"] = len(baseFailures)
	run.Coverage["statements_changed_by_arc_rewrites"] = cnt.transformChanged
	run.Coverage["reference_validated"] = refValidated
	run.Coverage["wire_types_seen"] = wt
	run.Coverage["arrow_ipc_batch_rows_by_n"] = bs
	run.Coverage["samples"] = samples.List()
	run.Coverage["arrow_http_status_line_corrupted_and_rerequested"] = httpCorrupt
	if v := httpCorruptExample.Load(); v != nil {
		run.Coverage["arrow_http_status_line_corruption_example"] = v
	}
	run.Assume("DuckDB's value of a cell is what the duckdb-go database/sql driver scans on a separate plain connection (threads=1) for the statement text Arc hands to DuckDB; integers and decimals are cross-checked against CAST(.. AS VARCHAR)")
	run.Assume("accepted as faithful: the native encoding of the format; JSON null for NaN/Inf; DuckDB's CAST(v AS VARCHAR) for types the format cannot carry; RFC 3339 UTC strings for dates/timestamps in JSON; a binary float for a DECIMAL when rounding it to the column's scale returns the DuckDB value")
	run.Assume("the governance row limit is injected through a real governance.Manager policy (max_rows_per_query) and an overlay-built licence; rate limits and quotas are C28's business")
	run.Assume("out of scope: response compression, x-arc-arrow-dictionary / x-arc-arrow-compression, profile mode, the database/sql fallback JSON path (builds without duckdb_arrow), result sets read from Parquet")
	fmt.Printf("C19: %d/%d units, %d/%d shape statements, %d responses judged (%d of shape statements), %d cells compared, %d raw failures (%d in shapes, %d of those explained by base classes) -> %d classes (%d shape classes), outcomes=%v\n",
		done, len(units), shapeDone, len(items), cnt.evaluations, cnt.shapeEvaluations, cnt.cells, len(failures), len(shapeFailures), shapeExplained, len(classes), len(shapeClasses), sortedOutcomes())
	if os.Getenv("VERIF_C19_SIGS") != "" { // development aid
		for _, c := range classes {
			fmt.Printf("  sig %s (%d)\n", c.sig(), c.count)
		}
	}
	cleanup()
	stopProfile()
	run.Finish()
}

func endpointOf(format string) string {
	for _, e := range endpoints {
		if e.format == format {
			return "POST " + e.path
		}
	}
	return format
}

func sortedOutcomes() string {
	var k []string
	for s := range outcomes {
		k = append(k, s)
	}
	sort.Strings(k)
	var p []string
	for _, s := range k {
		p = append(p, fmt.Sprintf("%s:%d", s, outcomes[s]))
	}
	return strings.Join(p, " ")
}

// runNames: column aliases with quotes, backslashes, control and non-ASCII characters x formats x n in {0,1}.
func runNames(s *sut, o *oracle, g *grid) int {
	cases := 0
	for _, name := range g.names {
		for _, n := range []int{0, 1} {
			q := fmt.Sprintf("SELECT i AS i, 42 AS %s FROM range(%d) t(i)", quoteIdent(name), n)
			tj, ta := s.h.VerifC19Transformed(context.Background(), q)
			for _, ep := range endpoints {
				t := tj
				if ep.format == "arrow" {
					t = ta
				}
				rs, err := o.db.Query(t)
				if err != nil {
					unbound("DuckDB rejects a column-name statement: " + t + ": " + err.Error())
				}
				want, _ := rs.Columns()
				rs.Close()
				status, body, err := s.postRetry(ep.format, ep.path, q, 0)
				if err != nil {
					unbound("app.Test: " + err.Error())
				}
				cases++
				nameClass := "name:" + strings.Trim(strconv.QuoteToASCII(name), `"`)
				rec := func(kind, detail string) {
					countOutcome(kind)
					record(failure{Format: ep.format, Type: "column-name", Value: nameClass, N: 1, Kind: kind, Detail: detail, SQL: q})
				}
				if status != 200 {
					rec(fmt.Sprintf("http-%d", status), trimQ(strconv.QuoteToASCII(string(body))))
					continue
				}
				var d *decoded
				switch ep.format {
				case "json":
					d, err = decodeJSON(body)
				case "msgpack":
					d, err = decodeMsgPack(body)
				default:
					d, err = decodeArrow(body)
				}
				if err != nil {
					rec("malformed("+err.Error()+")", "column alias "+strconv.QuoteToASCII(name))
					continue
				}
				if strings.Join(d.columns, "\x00") != strings.Join(want, "\x00") || d.rows != n {
					rec("columns-differ", fmt.Sprintf("columns %q rows %d, DuckDB %q rows %d", d.columns, d.rows, want, n))
					continue
				}
				countOutcome("ok")
			}
		}
	}
	return cases
}
