// Package c07 is only a marker: the C07 harness is hosted inside /repo/cmd/arc (package main) by overlay
// (it runs the WAL-maintenance tick and the wal-purge shutdown hook lifted mechanically out of main()).
// See /verif/harness/inpkg/arcmain/zz_verif_c07.go.
package main

func main() {}
