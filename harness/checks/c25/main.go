// C25 — Peer file replication never exposes a bad file and converges.
//
// The real filereplication.Puller (Start / RunCatchUp / Enqueue -> worker -> processEntry -> pullOnce ->
// tryResumeFromPartial / writeFileTail) is driven with the real FetchClient over loopback TCP against a
// SCRIPTED peer (this file) that speaks the real cluster protocol (protocol.ReceiveMessage / SendMessage,
// security.ValidateFetchHMAC) and misbehaves exactly as the case's fault sequence says. Bytes land in a real
// storage.LocalBackend on /dev/shm. Every sequence of per-fetch outcomes up to a length bound, followed by
// "ok" forever, is executed for every file size, initial staging-file state and retry budget.
//
// Nothing of the puller / fetch client / backend is copied: the harness only supplies the peer, the peer
// resolver (which is how "dial failure" is produced: a reserved, non-listening port) and a pass-through
// wrapper around LocalBackend that looks at the final path after every mutating backend call.
package main

import (
	"context"
	"crypto/sha256"
	"encoding/hex"
	"encoding/json"
	"fmt"
	"io"
	"net"
	"os"
	"path/filepath"
	"runtime"
	"runtime/pprof"
	"sort"
	"strings"
	"sync"
	"sync/atomic"
	"syscall"
	"time"

	"github.com/basekick-labs/arc/internal/cluster/filereplication"
	"github.com/basekick-labs/arc/internal/cluster/protocol"
	"github.com/basekick-labs/arc/internal/cluster/raft"
	"github.com/basekick-labs/arc/internal/cluster/security"
	"github.com/basekick-labs/arc/internal/storage"
	"github.com/basekick-labs/arc/zzverif/engine/ev"
	"github.com/rs/zerolog"
)

const (
	relPath     = "db1/cpu/2026/01/02/03/f-000001.parquet"
	secret      = "c25-shared-secret"
	clusterName = "c25"
	selfID      = "reader-1"
	originID    = "writer-1"
	bigSize     = 70*1024 + 3
)

var scratchRoot string
var stopProf = func() {}

// unbound removes the scratch directory before reporting that the harness could not bind (exit 2)
func unbound(msg string) {
	if scratchRoot != "" {
		os.RemoveAll(scratchRoot)
	}
	ev.Unbound(msg)
}

// ---------------------------------------------------------------------------------------------
// case space

type outcome struct {
	K string `json:"k"` // dial | errack | notfound | wsize | whash | trunc | corrupt | ctrunc | ok
	P int    `json:"p"` // trunc/corrupt/ctrunc: index inside the tail being sent (clamped to tail-1)
}

func (o outcome) String() string {
	switch o.K {
	case "trunc", "corrupt", "ctrunc":
		return fmt.Sprintf("%s@%d", o.K, o.P)
	}
	return o.K
}

// initial staging state: none | empty | cp (correct prefix of L bytes) | wp (wrong prefix of L bytes) |
// fw (full-size, wrong bytes) | fc (full-size, correct bytes, never promoted)
type initState struct {
	K string `json:"k"`
	L int    `json:"l"`
}

func (s initState) String() string {
	switch s.K {
	case "none":
		return "none"
	case "empty":
		return "part:empty"
	case "cp":
		return fmt.Sprintf("part:correct-prefix:%d", s.L)
	case "wp":
		return fmt.Sprintf("part:wrong-prefix:%d", s.L)
	case "fw":
		return "part:full-wrong"
	case "fc":
		return "part:full-correct"
	}
	return "?"
}

type tcase struct {
	N    int       `json:"file_size"`
	Init initState `json:"init"`
	R    int       `json:"retry_max_attempts"`
	Seq  []outcome `json:"seq"`
}

func seqString(s []outcome) string {
	if len(s) == 0 {
		return "-"
	}
	p := make([]string, len(s))
	for i, o := range s {
		p[i] = o.String()
	}
	return strings.Join(p, ",")
}

func (c tcase) key() string {
	return fmt.Sprintf("n=%d init=%s R=%d seq=%s", c.N, c.Init, c.R, seqString(c.Seq))
}

func fileData(n int) []byte {
	d := make([]byte, n)
	if n <= 26 {
		for i := range d {
			d[i] = byte('A' + i)
		}
		return d
	}
	x := uint32(12345)
	for i := range d {
		x = x*1664525 + 1013904223
		d[i] = byte(x >> 24)
	}
	return d
}

func wrongData(good []byte) []byte {
	w := make([]byte, len(good))
	for i := range good {
		w[i] = good[i] ^ 0x5A
	}
	return w
}

// positions used for trunc/corrupt and prefix lengths: every byte for small files, a boundary cut set for the big one
func positions(n int) []int {
	if n <= 64 {
		p := make([]int, n)
		for i := range p {
			p[i] = i
		}
		return p
	}
	return []int{0, 1, 32767, 32768, 32769, 65536, n - 1} // io.Copy's 32 KiB buffer edges
}

func alphabet(n int, withCT bool) []outcome {
	a := []outcome{{K: "dial"}, {K: "errack"}, {K: "notfound"}, {K: "wsize"}, {K: "whash"}}
	for _, p := range positions(n) {
		a = append(a, outcome{K: "trunc", P: p})
	}
	for _, p := range positions(n) {
		a = append(a, outcome{K: "corrupt", P: p})
	}
	if withCT {
		// corrupted AND truncated transfer: first tail byte flipped, connection cut after P (>=1) bytes
		for _, p := range positions(n) {
			if p >= 1 {
				a = append(a, outcome{K: "ctrunc", P: p})
			}
		}
	}
	a = append(a, outcome{K: "ok"})
	return a
}

func initStates(n int) []initState {
	s := []initState{{K: "none"}, {K: "empty"}}
	for _, p := range positions(n) {
		if p >= 1 && p < n {
			s = append(s, initState{K: "cp", L: p})
		}
	}
	for _, p := range positions(n) {
		if p >= 1 && p < n {
			s = append(s, initState{K: "wp", L: p})
		}
	}
	s = append(s, initState{K: "fw"}, initState{K: "fc"})
	return s
}

// ---------------------------------------------------------------------------------------------
// result of one case

const (
	kBadFinal = 1 << iota
	kCountedPresent
	kNoConverge
)

var kindNames = map[uint8]string{kBadFinal: "bad-final", kCountedPresent: "counted-present", kNoConverge: "no-converge"}

type result struct {
	Kinds      uint8
	Detail     map[uint8]string
	Trace      []string
	Fetches    int
	Resumes    int
	Rounds     int
	Mismatches int64
	Consumed   int // scripted outcomes actually consumed
	NonTrivial bool
	HarnessErr string
}

// ---------------------------------------------------------------------------------------------
// worker: one scratch dir + LocalBackend + scripted peer + FetchClient; runs one case at a time

type fetchRec struct {
	o   outcome
	off int64
}

type caseRun struct {
	c        tcase
	data     []byte
	sha      string
	idx      int  // next script position
	cut      bool // remaining scripted faults dropped (puller stopped fetching)
	pending  *outcome
	fetches  []fetchRec
	res      *result
	roundLog []string
}

type worker struct {
	id       int
	dir      string
	be       *storage.LocalBackend
	obs      *obsBackend
	ln       net.Listener
	liveAddr string
	deadAddr string
	deadFD   int
	fc       *filereplication.FetchClient
	mu       sync.Mutex
	cur      *caseRun
}

// obsBackend delegates everything to the real LocalBackend and looks at the final path after each
// mutating call has returned (the finest observation point available without touching the code).
type obsBackend struct {
	*storage.LocalBackend
	w *worker
}

func (b *obsBackend) WriteReader(ctx context.Context, path string, r io.Reader, size int64) error {
	err := b.LocalBackend.WriteReader(ctx, path, r, size)
	b.w.observe("after WriteReader")
	return err
}
func (b *obsBackend) AppendReader(ctx context.Context, path string, r io.Reader, n int64) error {
	err := b.LocalBackend.AppendReader(ctx, path, r, n)
	b.w.observe("after AppendReader")
	return err
}
func (b *obsBackend) Delete(ctx context.Context, path string) error {
	err := b.LocalBackend.Delete(ctx, path)
	b.w.observe("after Delete")
	return err
}

var _ storage.AppendingBackend = (*obsBackend)(nil)

func newWorker(root string, id int) *worker {
	w := &worker{id: id, dir: filepath.Join(root, fmt.Sprintf("w%02d", id))}
	be, err := storage.NewLocalBackend(w.dir, zerolog.Nop())
	if err != nil {
		unbound("LocalBackend: " + err.Error())
	}
	w.be = be
	w.obs = &obsBackend{LocalBackend: be, w: w}
	ln, err := net.Listen("tcp4", "127.0.0.1:0")
	if err != nil {
		unbound("listen: " + err.Error())
	}
	w.ln = ln
	w.liveAddr = ln.Addr().String()
	// "dial failure": a port that is bound (so nobody else can take it) but never listens -> ECONNREFUSED
	fd, err := syscall.Socket(syscall.AF_INET, syscall.SOCK_STREAM, 0)
	if err != nil {
		unbound("socket: " + err.Error())
	}
	if err := syscall.Bind(fd, &syscall.SockaddrInet4{Port: 0, Addr: [4]byte{127, 0, 0, 1}}); err != nil {
		unbound("bind: " + err.Error())
	}
	sa, err := syscall.Getsockname(fd)
	if err != nil {
		unbound("getsockname: " + err.Error())
	}
	w.deadFD = fd
	w.deadAddr = fmt.Sprintf("127.0.0.1:%d", sa.(*syscall.SockaddrInet4).Port)
	fc, err := filereplication.NewFetchClient(filereplication.FetchClient{
		SelfNodeID: selfID, ClusterName: clusterName, SharedSecret: secret,
		DialTimeout: 10 * time.Second, ResponseHeaderTimeout: 20 * time.Second,
	})
	if err != nil {
		unbound("NewFetchClient: " + err.Error())
	}
	w.fc = fc
	go w.serve()
	return w
}

func (w *worker) close() {
	w.ln.Close()
	syscall.Close(w.deadFD)
}

func (w *worker) finalFull() string { return filepath.Join(w.dir, relPath) }
func (w *worker) partFull() string  { return filepath.Join(w.dir, relPath) + ".part" }

func (w *worker) harnessErr(s string) {
	w.mu.Lock()
	if w.cur != nil && w.cur.res.HarnessErr == "" {
		w.cur.res.HarnessErr = s
	}
	w.mu.Unlock()
}

// finalState: "none" | "ok" | "bad(<len>)"
func (w *worker) finalState(cr *caseRun) string {
	b, err := os.ReadFile(w.finalFull())
	if err != nil {
		if os.IsNotExist(err) {
			return "none"
		}
		w.harnessErr("read final: " + err.Error())
		return "none"
	}
	h := sha256.Sum256(b)
	if hex.EncodeToString(h[:]) == cr.sha {
		return "ok"
	}
	return fmt.Sprintf("bad(%d bytes)", len(b))
}

func (w *worker) partState(cr *caseRun) string {
	b, err := os.ReadFile(w.partFull())
	if err != nil {
		return "none"
	}
	if len(b) <= len(cr.data) && string(b) == string(cr.data[:len(b)]) {
		return fmt.Sprintf("%d/correct", len(b))
	}
	return fmt.Sprintf("%d/wrong", len(b))
}

// observe enforces "whenever the final path exists its SHA-256 equals the manifest's"
func (w *worker) observe(where string) {
	w.mu.Lock()
	cr := w.cur
	w.mu.Unlock()
	if cr == nil {
		return
	}
	if st := w.finalState(cr); st != "none" && st != "ok" {
		w.mu.Lock()
		cr.res.Kinds |= kBadFinal
		if cr.res.Detail[kBadFinal] == "" {
			cr.res.Detail[kBadFinal] = fmt.Sprintf("final path holds %s whose SHA-256 differs from the manifest entry (%s, after %d fetches)", st, where, len(cr.fetches))
		}
		w.mu.Unlock()
	}
}

// ResolvePeers is called by processEntry once per attempt, immediately before the fetch: it consumes
// the next scripted outcome and hands out exactly one candidate address.
func (w *worker) ResolvePeers(origin, path string) []string {
	w.mu.Lock()
	defer w.mu.Unlock()
	cr := w.cur
	if cr == nil {
		return nil
	}
	if cr.pending != nil {
		if cr.res.HarnessErr == "" {
			cr.res.HarnessErr = "scripted outcome " + cr.pending.String() + " was never requested from the peer"
		}
	}
	o := outcome{K: "ok"}
	if !cr.cut && cr.idx < len(cr.c.Seq) {
		o = cr.c.Seq[cr.idx]
		if o.K != "ok" {
			cr.res.NonTrivial = true
		}
	}
	cr.idx++
	if o.K == "dial" {
		cr.fetches = append(cr.fetches, fetchRec{o: o, off: -1})
		cr.roundLog = append(cr.roundLog, "dial")
		return []string{w.deadAddr}
	}
	oc := o
	cr.pending = &oc
	return []string{w.liveAddr}
}

func (w *worker) serve() {
	for {
		c, err := w.ln.Accept()
		if err != nil {
			return
		}
		w.handle(c)
	}
}

func sendAck(c net.Conn, ack *protocol.FetchFileAckHeader) error {
	return protocol.SendMessage(c, &protocol.Message{Type: protocol.MsgFetchFileAck, Payload: ack}, 20*time.Second)
}

func (w *worker) handle(c net.Conn) {
	defer c.Close()
	msg, err := protocol.ReceiveMessage(c, 20*time.Second)
	if err != nil {
		w.harnessErr("peer: receive request: " + err.Error())
		return
	}
	req, ok := msg.Payload.(*protocol.FetchFileRequest)
	if msg.Type != protocol.MsgFetchFile || !ok {
		w.harnessErr(fmt.Sprintf("peer: unexpected message %v", msg.Type))
		return
	}
	w.mu.Lock()
	cr := w.cur
	var o outcome
	if cr == nil || cr.pending == nil {
		w.mu.Unlock()
		w.harnessErr("peer: fetch without a scripted outcome")
		return
	}
	o = *cr.pending
	cr.pending = nil
	off := req.ByteOffset
	cr.fetches = append(cr.fetches, fetchRec{o: o, off: off})
	if off > 0 {
		cr.res.Resumes++
	}
	cr.roundLog = append(cr.roundLog, fmt.Sprintf("%s[off=%d]", o, off))
	data, sha := cr.data, cr.sha
	w.mu.Unlock()

	// what the real origin does first (coordinator.handleFetchFile): authenticate, check the path
	if err := security.ValidateFetchHMAC(secret, req.Nonce, req.NodeID, clusterName, req.Path, req.Timestamp, req.HMAC, security.HMACTimestampTolerance); err != nil {
		w.harnessErr("peer: fetch request failed HMAC validation: " + err.Error())
		return
	}
	if req.Path != relPath {
		w.harnessErr("peer: unexpected path " + req.Path)
		return
	}
	n := int64(len(data))
	if off < 0 || off >= n {
		// honest origin behaviour for an invalid offset
		w.mu.Lock()
		cr.roundLog = append(cr.roundLog, "bad_offset")
		w.mu.Unlock()
		_ = sendAck(c, &protocol.FetchFileAckHeader{Status: "error", Code: protocol.AckCodeBadOffset, Error: "invalid byte offset"})
		return
	}
	tail := data[off:]
	okAck := &protocol.FetchFileAckHeader{Status: "ok", SizeBytes: int64(len(tail)), SHA256: sha, ByteOffset: off}
	clamp := func(p int) int {
		if p > len(tail)-1 {
			return len(tail) - 1
		}
		return p
	}
	waitClose := func() {
		_ = c.SetReadDeadline(time.Now().Add(30 * time.Second))
		var b [1]byte
		_, _ = c.Read(b[:])
	}
	fail := func(what string, err error) {
		if err != nil {
			w.harnessErr("peer: " + what + ": " + err.Error())
		}
	}
	_ = c.SetWriteDeadline(time.Now().Add(30 * time.Second))
	switch o.K {
	case "errack":
		fail("send", sendAck(c, &protocol.FetchFileAckHeader{Status: "error", Code: protocol.AckCodeBackend, Error: "backend error"}))
		waitClose()
	case "notfound":
		fail("send", sendAck(c, &protocol.FetchFileAckHeader{Status: "error", Code: protocol.AckCodeNotFound, Error: protocol.ErrMsgFileNotFound}))
		waitClose()
	case "wsize":
		a := *okAck
		a.SizeBytes++
		fail("send", sendAck(c, &a))
		waitClose()
	case "whash":
		a := *okAck
		h := sha256.Sum256(wrongData(data))
		a.SHA256 = hex.EncodeToString(h[:])
		fail("send", sendAck(c, &a))
		waitClose()
	case "trunc":
		fail("send", sendAck(c, okAck))
		_, err := c.Write(tail[:clamp(o.P)])
		fail("body", err)
		// connection dies here (deferred Close): the puller sees EOF before the announced size
	case "ctrunc":
		fail("send", sendAck(c, okAck))
		k := clamp(o.P)
		b := append([]byte{}, tail[:k]...)
		if len(b) > 0 {
			b[0] ^= 0xFF
		}
		_, err := c.Write(b)
		fail("body", err)
	case "corrupt":
		fail("send", sendAck(c, okAck))
		b := append([]byte{}, tail...)
		b[clamp(o.P)] ^= 0xFF
		_, err := c.Write(b)
		fail("body", err)
		waitClose()
	case "ok":
		fail("send", sendAck(c, okAck))
		_, err := c.Write(tail)
		fail("body", err)
		waitClose()
	default:
		w.harnessErr("peer: unknown outcome " + o.K)
	}
}

func waitIdle(p *filereplication.Puller) bool {
	start := time.Now()
	for i := 0; ; i++ {
		if p.VerifInflight() == 0 { // == Stats()["inflight_count"], read without allocating (in-package accessor)
			return true
		}
		if i < 50 {
			runtime.Gosched()
		} else {
			time.Sleep(20 * time.Microsecond)
		}
		if i%1000 == 999 && time.Since(start) > 120*time.Second {
			return false
		}
	}
}

func (w *worker) newPuller(R int) *filereplication.Puller {
	p, err := filereplication.New(filereplication.Config{
		SelfNodeID: selfID, Backend: w.obs, Fetcher: w.fc, PeerResolver: w,
		Workers: 1, QueueSize: 4, RetryMaxAttempts: R, RetryInitialBackoff: time.Nanosecond,
		FetchTimeout: 60 * time.Second, Logger: zerolog.Nop(),
	})
	if err != nil {
		unbound("filereplication.New: " + err.Error())
	}
	p.Start(context.Background())
	return p
}

// runCase executes one case on the real code and judges it.
func (w *worker) runCase(c tcase) *result {
	res := &result{Detail: map[uint8]string{}}
	data := fileData(c.N)
	h := sha256.Sum256(data)
	cr := &caseRun{c: c, data: data, sha: hex.EncodeToString(h[:]), res: res}
	entry := &raft.FileEntry{Path: relPath, SHA256: cr.sha, SizeBytes: int64(c.N), Database: "db1", Measurement: "cpu", OriginNodeID: originID, Tier: "hot", LSN: 7}

	// initial on-disk state
	os.Remove(w.finalFull())
	os.Remove(w.partFull())
	if c.Init.K != "none" {
		res.NonTrivial = true
		var b []byte
		switch c.Init.K {
		case "empty":
			b = []byte{}
		case "cp":
			b = data[:c.Init.L]
		case "wp":
			b = wrongData(data)[:c.Init.L]
		case "fw":
			b = wrongData(data)
		case "fc":
			b = data
		}
		if err := os.MkdirAll(filepath.Dir(w.partFull()), 0o700); err != nil {
			unbound(err.Error())
		}
		if err := os.WriteFile(w.partFull(), b, 0o600); err != nil {
			unbound(err.Error())
		}
	}
	w.mu.Lock()
	w.cur = cr
	w.mu.Unlock()
	defer func() {
		w.mu.Lock()
		w.cur = nil
		w.mu.Unlock()
	}()

	manifest := func(cursor string, limit int) ([]*raft.FileEntry, string, error) {
		return []*raft.FileEntry{entry}, "", nil
	}

	// one round = one delivery of the manifest entry to the puller (catch-up walk or FSM callback), run to quiescence
	round := func(p *filereplication.Puller, how string) (finalOK bool, fetched int) {
		w.mu.Lock()
		idx0 := len(cr.fetches)
		cr.roundLog = nil
		w.mu.Unlock()
		before := p.Stats()
		if how == "catchup" {
			p.RunCatchUp(context.Background(), manifest)
		} else {
			p.Enqueue(entry)
		}
		if !waitIdle(p) {
			w.harnessErr("round did not quiesce within 120 s")
		}
		if how != "enqueue" {
			// processEntry's deferred inflightRemove decrements inflight_count first and clears the catch-up tag
			// in a second critical section: let that settle before FullyCaughtUp() is read (bounded, so a tag
			// that really leaks is still reported as caught_up=false, deterministically).
			for i := 0; i < 20000 && p.Stats()["catchup_inflight"] != 0; i++ {
				if i < 50 {
					runtime.Gosched()
				} else {
					time.Sleep(20 * time.Microsecond)
				}
			}
		}
		after := p.Stats()
		w.observe("end of round")
		fs, ps := w.finalState(cr), w.partState(cr)
		finalOK = fs == "ok"
		w.mu.Lock()
		if cr.pending != nil && res.HarnessErr == "" {
			res.HarnessErr = "scripted outcome " + cr.pending.String() + " was never requested from the peer"
		}
		fetched = len(cr.fetches) - idx0
		rl := strings.Join(cr.roundLog, " ")
		w.mu.Unlock()
		d := func(k string) int64 { return after[k] - before[k] }
		res.Mismatches += d("checksum_mismatch")
		gate := ""
		if how == "catchup" {
			gate = fmt.Sprintf(" caught_up=%v", p.FullyCaughtUp())
		}
		res.Trace = append(res.Trace, fmt.Sprintf("%s: [%s] -> final=%s part=%s pulled+%d skipped_local+%d failed+%d mismatch+%d%s",
			how, rl, fs, ps, d("pulled"), d("skipped_local"), d("failed"), d("checksum_mismatch"), gate))
		res.Rounds++
		if !finalOK {
			var claims []string
			if d("skipped_local") > 0 {
				claims = append(claims, fmt.Sprintf("skipped_local+%d (\"file fully present locally\")", d("skipped_local")))
			}
			if d("pulled") > 0 {
				claims = append(claims, fmt.Sprintf("pulled+%d", d("pulled")))
			}
			if how == "catchup" && p.FullyCaughtUp() {
				claims = append(claims, "FullyCaughtUp()=true")
			}
			if len(claims) > 0 {
				res.Kinds |= kCountedPresent
				if res.Detail[kCountedPresent] == "" {
					res.Detail[kCountedPresent] = fmt.Sprintf("puller reports %s while the final path is %s (staging .part: %s)", strings.Join(claims, ", "), fs, ps)
				}
			}
		}
		return
	}

	p := w.newPuller(c.R)
	finalOK, fetched := round(p, "catchup")
	faultFree := 0
	for r := 0; r < len(c.Seq)+4 && res.HarnessErr == ""; r++ {
		if finalOK {
			// one more delivery: must be recognised as present, must stay correct
			finalOK, _ = round(p, "enqueue")
			break
		}
		w.mu.Lock()
		if fetched == 0 {
			cr.cut = true // the puller stopped asking: the remaining scripted faults can never happen
		}
		ff := cr.cut || cr.idx >= len(c.Seq)
		w.mu.Unlock()
		if ff {
			if faultFree >= 2 {
				break
			}
			faultFree++
		}
		finalOK, fetched = round(p, "enqueue")
	}
	p.Stop()
	if !finalOK && res.HarnessErr == "" {
		// process restart: fresh puller, start-up catch-up walk over the manifest, peers healthy
		w.mu.Lock()
		cr.cut = true
		w.mu.Unlock()
		p2 := w.newPuller(c.R)
		finalOK, _ = round(p2, "restart+catchup")
		p2.Stop()
	}
	if !finalOK {
		res.Kinds |= kNoConverge
		res.Detail[kNoConverge] = fmt.Sprintf("after the faults stopped (%d further deliveries incl. a restart with catch-up, peer serving correctly) the final path is %s, staging .part is %s",
			faultFree+1, w.finalState(cr), w.partState(cr))
	}
	w.mu.Lock()
	res.Fetches = len(cr.fetches)
	res.Consumed = cr.idx
	if res.Consumed > len(c.Seq) {
		res.Consumed = len(c.Seq)
	}
	w.mu.Unlock()
	return res
}

func (w *worker) runCaseChecked(c tcase) *result {
	var res *result
	for try := 0; try < 3; try++ {
		res = w.runCase(c)
		if res.HarnessErr == "" {
			return res
		}
		time.Sleep(200 * time.Millisecond)
	}
	unbound("C25 harness/peer failure on " + c.key() + ": " + res.HarnessErr)
	return nil
}

// ---------------------------------------------------------------------------------------------
// minimisation (every reduction step stays inside the enumerated space, so most lookups hit the memo)

type memoT struct {
	mu sync.Mutex
	m  map[string]uint8
}

func (m *memoT) get(k string) (uint8, bool) {
	m.mu.Lock()
	defer m.mu.Unlock()
	v, ok := m.m[k]
	return v, ok
}
func (m *memoT) put(k string, v uint8) { m.mu.Lock(); m.m[k] = v; m.mu.Unlock() }

func shrinkTo(c tcase, n int) (tcase, bool) {
	out := tcase{N: n, R: c.R, Init: c.Init}
	if c.Init.K == "cp" || c.Init.K == "wp" {
		if n < 2 {
			return out, false
		}
		if out.Init.L > n-1 {
			out.Init.L = n - 1
		}
	}
	for _, o := range c.Seq {
		if o.K == "trunc" || o.K == "corrupt" || o.K == "ctrunc" {
			if o.P > n-1 {
				o.P = n - 1
			}
			if o.K == "ctrunc" && o.P < 1 {
				return out, false
			}
		}
		out.Seq = append(out.Seq, o)
	}
	return out, true
}

func candidates(c tcase, sizes []int) []tcase {
	var out []tcase
	for i := range c.Seq { // drop one outcome
		cand := c
		cand.Seq = append(append([]outcome{}, c.Seq[:i]...), c.Seq[i+1:]...)
		out = append(out, cand)
	}
	if c.Init.K != "none" { // simpler initial state
		cand := c
		cand.Init = initState{K: "none"}
		out = append(out, cand)
		if (c.Init.K == "cp" || c.Init.K == "wp") && c.Init.L > 1 {
			cand := c
			cand.Init.L = 1
			out = append(out, cand)
		}
	}
	for r := 1; r < c.R; r++ { // smaller retry budget
		cand := c
		cand.R = r
		out = append(out, cand)
	}
	for _, n := range sizes { // smaller file
		if n < c.N {
			if cand, ok := shrinkTo(c, n); ok {
				out = append(out, cand)
			}
		}
	}
	for i, o := range c.Seq { // composite fault -> one of its components
		if o.K == "ctrunc" {
			for _, k := range []string{"corrupt", "trunc"} {
				cand := c
				cand.Seq = append([]outcome{}, c.Seq...)
				cand.Seq[i].K = k
				out = append(out, cand)
			}
		}
	}
	for i, o := range c.Seq { // earlier position
		min := 0
		if o.K == "ctrunc" {
			min = 1
		}
		if (o.K == "trunc" || o.K == "corrupt" || o.K == "ctrunc") && o.P > min {
			cand := c
			cand.Seq = append([]outcome{}, c.Seq...)
			cand.Seq[i].P = min
			out = append(out, cand)
		}
	}
	return out
}

func minimise(c tcase, bit uint8, sizes []int, fails func(tcase, uint8) bool) tcase {
	for {
		progressed := false
		for _, cand := range candidates(c, sizes) {
			if fails(cand, bit) {
				c = cand
				progressed = true
				break
			}
		}
		if !progressed {
			return c
		}
	}
}

// ---------------------------------------------------------------------------------------------

type block struct {
	n      int
	maxLen int
	withCT bool
}

func enumerate(b block, emit func(tcase)) {
	alpha := alphabet(b.n, b.withCT)
	var seqs [][]outcome
	var gen func(cur []outcome)
	gen = func(cur []outcome) {
		seqs = append(seqs, append([]outcome{}, cur...))
		if len(cur) == b.maxLen {
			return
		}
		for _, o := range alpha {
			gen(append(cur, o))
		}
	}
	gen(nil)
	sort.SliceStable(seqs, func(i, j int) bool { return len(seqs[i]) < len(seqs[j]) })
	for _, in := range initStates(b.n) {
		for R := 1; R <= 3; R++ {
			for _, s := range seqs {
				emit(tcase{N: b.n, Init: in, R: R, Seq: s})
			}
		}
	}
}

func main() {
	run := ev.Start("C25", "fault_enumeration")
	if pf := os.Getenv("VERIF_C25_CPUPROFILE"); pf != "" {
		if f, err := os.Create(pf); err == nil {
			pprof.StartCPUProfile(f)
			defer pprof.StopCPUProfile()
			stopProf = pprof.StopCPUProfile
		}
	}
	root := fmt.Sprintf("/dev/shm/verif.c25.%d", os.Getpid())
	os.RemoveAll(root)
	scratchRoot = root
	if err := os.MkdirAll(root, 0o700); err != nil {
		unbound(err.Error())
	}
	cleanup := func() { os.RemoveAll(root) }
	defer cleanup()

	var blocks []block
	if run.Quick() {
		blocks = []block{{n: 1, maxLen: 3, withCT: true}, {n: 2, maxLen: 2, withCT: true}, {n: 4, maxLen: 2, withCT: true}}
	} else {
		blocks = []block{{n: 1, maxLen: 4, withCT: true}, {n: 2, maxLen: 3, withCT: true}, {n: 4, maxLen: 3, withCT: true}, {n: bigSize, maxLen: 2, withCT: true}}
	}
	sizeSet := map[int]bool{}
	for _, b := range blocks {
		sizeSet[b.n] = true
	}
	var sizes []int
	for n := range sizeSet {
		sizes = append(sizes, n)
	}
	sort.Ints(sizes)

	nw := 32
	workers := make([]*worker, nw)
	for i := range workers {
		workers[i] = newWorker(root, i)
		defer workers[i].close()
	}

	// --replay: run one case and print its trace
	if run.Replay != "" {
		b, err := os.ReadFile(run.Replay)
		if err != nil {
			unbound(err.Error())
		}
		var rf struct {
			Replay struct {
				Case tcase `json:"case"`
			} `json:"replay"`
		}
		if err := json.Unmarshal(b, &rf); err != nil {
			unbound(err.Error())
		}
		res := workers[0].runCaseChecked(rf.Replay.Case)
		fmt.Println(rf.Replay.Case.key())
		for _, t := range res.Trace {
			fmt.Println("  " + t)
		}
		for bit, name := range kindNames {
			if res.Kinds&bit != 0 {
				run.Violate(name+"|"+rf.Replay.Case.key(), res.Detail[bit], map[string]any{"case": rf.Replay.Case, "trace": res.Trace})
			}
		}
		cleanup()
		run.Finish()
	}

	// binding self-check (harness assumptions only; a run that already shows a property violation is left to
	// the enumeration to report): the staging file is <final>.part and a cut transfer leaves exactly the received
	// bytes there; with a second attempt the scripted peer is really asked to resume from that offset.
	{
		r := workers[0].runCaseChecked(tcase{N: 4, Init: initState{K: "none"}, R: 1, Seq: []outcome{{K: "trunc", P: 2}}})
		if r.Kinds == 0 && (len(r.Trace) == 0 || !strings.Contains(r.Trace[0], "part=2/correct")) {
			unbound(fmt.Sprintf("staging-file convention changed (expected 2 received bytes in <path>.part after a cut transfer): %v", r.Trace))
		}
		r = workers[0].runCaseChecked(tcase{N: 4, Init: initState{K: "none"}, R: 2, Seq: []outcome{{K: "trunc", P: 2}}})
		if r.Kinds == 0 && r.Resumes != 1 {
			unbound(fmt.Sprintf("resume path not exercised as expected: %v", r.Trace))
		}
	}

	var cases []tcase
	seen := map[string]bool{}
	for _, b := range blocks {
		enumerate(b, func(c tcase) {
			k := c.key()
			if !seen[k] {
				seen[k] = true
				cases = append(cases, c)
			}
		})
	}
	seen = nil

	memo := &memoT{m: make(map[string]uint8, len(cases))}
	samples := ev.NewSamples(6)
	var next int64 = -1
	var evals, nontrivial, fetches, resumes, rounds, mismatches, failing int64
	complete := int32(1)
	var dmu sync.Mutex
	distinct := map[[32]byte]bool{}
	type rawViol struct {
		c      tcase
		kinds  uint8
		detail map[uint8]string
		trace  []string
	}
	var raws []rawViol
	var dumpF *os.File // debugging aid: VERIF_C25_DUMP=<file> writes "case<TAB>trace" for every case
	if df := os.Getenv("VERIF_C25_DUMP"); df != "" {
		dumpF, _ = os.Create(df)
		defer dumpF.Close()
	}
	var wg sync.WaitGroup
	for _, w := range workers {
		wg.Add(1)
		go func(w *worker) {
			defer wg.Done()
			for {
				i := int(atomic.AddInt64(&next, 1))
				if i >= len(cases) {
					return
				}
				if run.TimeUp() {
					atomic.StoreInt32(&complete, 0)
					return
				}
				c := cases[i]
				res := w.runCaseChecked(c)
				memo.put(c.key(), res.Kinds)
				atomic.AddInt64(&evals, 1)
				atomic.AddInt64(&fetches, int64(res.Fetches))
				atomic.AddInt64(&resumes, int64(res.Resumes))
				atomic.AddInt64(&rounds, int64(res.Rounds))
				atomic.AddInt64(&mismatches, res.Mismatches)
				if res.NonTrivial {
					atomic.AddInt64(&nontrivial, 1)
					hh := sha256.Sum256([]byte(fmt.Sprintf("n=%d|%s", c.N, strings.Join(res.Trace, "\n"))))
					dmu.Lock()
					distinct[hh] = true
					dmu.Unlock()
				}
				if dumpF != nil {
					dmu.Lock()
					fmt.Fprintf(dumpF, "%s\t%s\n", c.key(), strings.Join(res.Trace, " ; "))
					dmu.Unlock()
				}
				if res.Kinds != 0 {
					atomic.AddInt64(&failing, 1)
					dmu.Lock()
					raws = append(raws, rawViol{c, res.Kinds, res.Detail, res.Trace})
					dmu.Unlock()
				}
				if res.Resumes > 0 && len(c.Seq) >= 2 && i%97 == 0 || i%20011 == 1 {
					samples.Add(map[string]any{"case": c.key(), "trace": res.Trace})
				}
			}
		}(w)
	}
	wg.Wait()

	// group raw failures into classes: minimise inside the enumerated space, signature = kind|minimal case
	sort.Slice(raws, func(i, j int) bool { return raws[i].c.key() < raws[j].c.key() })
	mw := workers[0]
	minRes := map[string]*result{}
	fails := func(c tcase, bit uint8) bool {
		k := c.key()
		if v, ok := memo.get(k); ok {
			return v&bit != 0
		}
		r := mw.runCaseChecked(c)
		memo.put(k, r.Kinds)
		minRes[k] = r
		return r.Kinds&bit != 0
	}
	minCache := map[string]tcase{}
	for _, rv := range raws {
		for _, bit := range []uint8{kBadFinal, kCountedPresent, kNoConverge} {
			if rv.kinds&bit == 0 {
				continue
			}
			ck := fmt.Sprintf("%d|%s", bit, rv.c.key())
			m, ok := minCache[ck]
			if !ok {
				m = minimise(rv.c, bit, sizes, fails)
				minCache[ck] = m
			}
			mk := m.key()
			mr := minRes[mk]
			if mr == nil {
				mr = mw.runCaseChecked(m) // for the trace / description of the minimal form
				minRes[mk] = mr
				if mr.Kinds&bit == 0 {
					os.RemoveAll(root)
					ev.Nondeterminism("C25 minimal case " + mk + " did not reproduce " + kindNames[bit])
				}
			}
			run.Violate(kindNames[bit]+"|"+mk, mr.Detail[bit]+" :: "+strings.Join(mr.Trace, " ; "),
				map[string]any{"case": m, "trace": mr.Trace, "example_unminimised": rv.c.key()})
		}
	}

	var blk []string
	for _, b := range blocks {
		blk = append(blk, fmt.Sprintf("size=%d:len<=%d:alphabet=%d:inits=%d", b.n, b.maxLen, len(alphabet(b.n, b.withCT)), len(initStates(b.n))))
	}
	run.Coverage["evaluations"] = int(evals)
	run.Coverage["cases_planned"] = len(cases)
	run.Coverage["nontrivial_cases"] = int(nontrivial)
	run.Coverage["distinct_nontrivial"] = len(distinct)
	run.Coverage["rule"] = "case = (file size, initial .part state, RetryMaxAttempts 1..3, sequence of scripted per-fetch outcomes up to the length bound, then ok forever); " +
		"every case of every block is executed on the real Puller+FetchClient+LocalBackend. Non-trivial = a staging file pre-exists or at least one non-ok outcome was actually served; " +
		"distinct = distinct observed behaviour traces (per delivery: outcomes served with the byte offset the puller requested, final/.part state, counter deltas, catch-up gate) among non-trivial cases"
	run.Coverage["blocks"] = blk
	run.Coverage["fetches_served"] = int(fetches)
	run.Coverage["resumed_fetches"] = int(resumes)
	run.Coverage["deliveries"] = int(rounds)
	run.Coverage["checksum_mismatches_counted_by_puller"] = int(mismatches)
	run.Coverage["raw_failing_cases"] = int(failing)
	run.Coverage["exhaustive"] = complete == 1
	run.Coverage["samples"] = samples.List()
	run.Assume("the peer is scripted (harness code speaking the real wire protocol through protocol.SendMessage/ReceiveMessage and validating the request with security.ValidateFetchHMAC); one candidate peer per attempt")
	run.Assume("dial failure = TCP connect to a bound, non-listening loopback port (ECONNREFUSED); truncation = peer closes after k tail bytes; corruption = one tail byte XOR 0xFF; positions index the tail actually requested (clamped)")
	run.Assume("process crashes are represented only by the initial .part states; backoff is 1 ns; single file, single worker")
	if len(distinct) < 2 {
		fmt.Println("C25 vacuity warning: fewer than 2 distinct behaviours observed")
	}
	fmt.Printf("C25 cases=%d nontrivial=%d distinct_behaviours=%d fetches=%d resumed=%d deliveries=%d raw_failing=%d exhaustive=%v\n",
		evals, nontrivial, len(distinct), fetches, resumes, rounds, failing, complete == 1)
	cleanup()
	stopProf()
	run.Finish()
}
