// C12 — which histories and which overlaps each tier executes (stated again in the evidence `rule`).
package main

import "fmt"

func (l layout) plainOrBoth() bool { return !l.Two && l.OtherCold == l.OtherHot }

func histAlphabet(l layout) []opDesc {
	a := []opDesc{{Op: "cycle"}, {Op: "migrate-stale", Role: "F"}}
	if l.Two {
		a = append(a, opDesc{Op: "migrate-stale", Role: "G"})
	}
	return append(a, opDesc{Op: "reconcile"})
}

// histMaxLen: the longest history executed for a layout in a tier (0 = none)
func histMaxLen(l layout, thorough bool) int {
	switch {
	case thorough && l.Two:
		return 2
	case thorough:
		return 3
	case l.Two:
		return 0
	case l.Size == "1B" && !l.OtherCold && !l.OtherHot:
		return 3
	case l.plainOrBoth():
		return 2
	}
	return 0
}

func histWeight(ops []opDesc) int {
	w, n := 1, len(ops)
	for pos := range ops {
		if pos < n-1 && ops[n-1].Op == "cycle" {
			continue
		}
		earlierReconcile, earlierWork := false, false
		for _, o := range ops[:pos] {
			if o.Op == "reconcile" {
				earlierReconcile = true
			} else {
				earlierWork = true
			}
		}
		switch {
		case earlierReconcile || ops[pos].Op == "reconcile":
		case !earlierWork:
			w += 42
		default:
			w += 8
		}
	}
	return w
}

var ovlSites = []string{"R0", "Rm", "W0", "Wm", "M", "D", "G", "I", "C", "S"}

func newJobs(layouts []layout, thorough bool) []job {
	var jobs []job
	for _, l := range layouts {
		if n := histMaxLen(l, thorough); n > 0 {
			for _, h := range histories(histAlphabet(l), n) {
				if len(h) == 1 && h[0].Op == "cycle" { // = the one-cycle enumeration above
					continue
				}
				jobs = append(jobs, job{l: l, kind: "history", hist: &histJob{l, h}, weight: histWeight(h)})
			}
		}
		// two overlapping cycles
		quickOvl := !l.Two && ((l.Size == "1B" && !l.OtherCold && !l.OtherHot) || (l.Size != "1B" && l.OtherCold && l.OtherHot))
		// two migrating files: ReconcileOrphanedFiles probes them ORDER BY migrated_at DESC, a CURRENT_TIMESTAMP with
		// one-second resolution — the order of a tie is decided by the wall clock, which the check does not own
		if l.Two || (!thorough && !quickOvl) {
			continue
		}
		w := 130
		if l.Size != "1B" {
			w = 190
		}
		jobs = append(jobs, job{l: l, kind: "overlap", ovl: &ovlJob{l: l, follows: true, label: "no-fault"}, weight: w})
		if thorough && quickOvl {
			e := &env{lay: l, files: l.files()}
			for _, c := range []string{"A"} { // the two cycles are symmetric: a failure in cycle B is the same exploration with the names swapped
				for _, k := range ovlSites {
					s := site{Kind: k, Role: "F", Cycle: c}
					lb := fmt.Sprintf("%s(cycle %s)", e.siteLabel(s), c)
					pl := &plan{CrashFS: -1, Torn: -1, CrashSQL: -1, FailFS: -1, Sites: []site{s}, Label: lb}
					jobs = append(jobs, job{l: l, kind: "overlap", ovl: &ovlJob{l: l, plan: pl, label: lb}, weight: w})
				}
			}
		}
	}
	return jobs
}
